(* C05 — proofs, part 2: candidate selection under a mapping, validators, the controller round,
   histories of rounds with commands in flight. *)
From Coq Require Import ZArith List Bool Lia.
From KV Require Import C05.Model C05.Spec C05.Proofs.
Import ListNotations.
Open Scope Z_scope.

Arguments count_pool : simpl never.
Arguments zlen : simpl never.

Definition nonneg (m : Z -> Z) : Prop := forall p, 0 <= m p.

Lemma decr_nonneg m p : nonneg m -> m p <> 0 -> nonneg (decr m p).
Proof.
  intros Hn Hp q. unfold decr. destruct (q =? p) eqn:E.
  - apply Z.eqb_eq in E. subst q. specialize (Hn p). lia.
  - apply Hn.
Qed.

Lemma decr_at m p q : decr m p q = if p =? q then m q - 1 else m q.
Proof. unfold decr. rewrite Z.eqb_sym. reflexivity. Qed.

Lemma count_pool_nil p : count_pool p [] = 0.
Proof. reflexivity. Qed.

Lemma count_pool_cons p c cs :
  count_pool p (c :: cs) = (if c_pool c =? p then 1 else 0) + count_pool p cs.
Proof.
  unfold count_pool. simpl. destruct (c_pool c =? p); [rewrite zlen_cons|]; lia.
Qed.

Lemma count_pool_nonneg p cs : 0 <= count_pool p cs.
Proof. apply zlen_nonneg. Qed.

Lemma count_pool_app p a b : count_pool p (a ++ b) = count_pool p a + count_pool p b.
Proof.
  induction a as [|c a IH]; simpl app.
  - rewrite count_pool_nil. lia.
  - rewrite !count_pool_cons, IH. lia.
Qed.

Lemma count_pool_firstn p k cs : count_pool p (firstn k cs) <= count_pool p cs.
Proof.
  revert cs. induction k as [|k IH]; intros cs; simpl.
  - apply count_pool_nonneg.
  - destruct cs as [|c cs]; [lia|]. rewrite !count_pool_cons. specialize (IH cs). lia.
Qed.

Lemma count_pool_le_len p cs : count_pool p cs <= zlen cs.
Proof.
  induction cs as [|c cs IH]; [unfold count_pool, zlen; simpl; lia|].
  rewrite count_pool_cons, zlen_cons. destruct (c_pool c =? p); lia.
Qed.

Lemma count_pool_other p q cs :
  (forall c, In c cs -> c_pool c = q) -> p <> q -> count_pool p cs = 0.
Proof.
  intros H Hne. induction cs as [|c cs IH]; [reflexivity|].
  rewrite count_pool_cons. rewrite IH by (intros c' Hc'; apply H; right; exact Hc').
  rewrite (H c (or_introl eq_refl)). destruct (q =? p) eqn:E; [apply Z.eqb_eq in E; congruence|lia].
Qed.

(* ---- the common selection loop ---- *)

Lemma take_spec want m cs :
  nonneg m ->
  let '(s, m', _) := take want m cs in
  nonneg m' /\ (forall p, count_pool p s + m' p = m p) /\ (forall c, In c s -> In c cs).
Proof.
  revert m. induction cs as [|c t IH]; intros m Hn; simpl.
  - split; [exact Hn|]. split; [intros p; unfold count_pool, zlen; simpl; lia|intros c []].
  - destruct (negb (want c)).
    + specialize (IH m Hn). destruct (take want m t) as [[s m'] k].
      destruct IH as (H1 & H2 & H3). split; [exact H1|]. split; [exact H2|]. intros c' Hc'. right. apply H3. exact Hc'.
    + destruct (m (c_pool c) =? 0) eqn:E.
      * specialize (IH m Hn). destruct (take want m t) as [[s m'] k].
        destruct IH as (H1 & H2 & H3). split; [exact H1|]. split; [exact H2|]. intros c' Hc'. right. apply H3. exact Hc'.
      * apply Z.eqb_neq in E. specialize (IH (decr m (c_pool c)) (decr_nonneg m _ Hn E)).
        destruct (take want (decr m (c_pool c)) t) as [[s m'] k].
        destruct IH as (H1 & H2 & H3). split; [exact H1|]. split.
        -- intros p. rewrite count_pool_cons. specialize (H2 p). unfold decr in H2.
           rewrite Z.eqb_sym in H2. destruct (c_pool c =? p); lia.
        -- intros c' [Hc'|Hc']; [left; exact Hc'|right; apply H3; exact Hc'].
Qed.

Lemma take_le want m cs p : nonneg m -> count_pool p (fst (fst (take want m cs))) <= m p.
Proof.
  intros Hn. pose proof (take_spec want m cs Hn) as H.
  destruct (take want m cs) as [[s m'] k]. simpl. destruct H as (H1 & H2 & _).
  specialize (H1 p). specialize (H2 p). lia.
Qed.

Lemma take_incl want m cs c : nonneg m -> In c (fst (fst (take want m cs))) -> In c cs.
Proof.
  intros Hn. pose proof (take_spec want m cs Hn) as H.
  destruct (take want m cs) as [[s m'] k]. simpl. destruct H as (_ & _ & H3). apply H3.
Qed.

Lemma emptiness_select_le m cs p : nonneg m -> count_pool p (emptiness_select m cs) <= m p.
Proof. apply take_le. Qed.

Lemma multi_select_le m cs k p : nonneg m -> count_pool p (multi_select m cs k) <= m p.
Proof.
  intros Hn. unfold multi_select, multi_prefilter.
  pose proof (count_pool_firstn p k (fst (fst (take (fun _ => true) m cs)))).
  pose proof (take_le (fun _ => true) m cs p Hn). lia.
Qed.

Lemma one_if_budget_le m cs p : nonneg m -> count_pool p (one_if_budget m cs) <= m p.
Proof.
  intros Hn. induction cs as [|c t IH]; simpl; [rewrite count_pool_nil; apply Hn|].
  destruct (m (c_pool c) =? 0) eqn:E; [exact IH|].
  destruct (c_simok c); [|exact IH].
  apply Z.eqb_neq in E. rewrite count_pool_cons, count_pool_nil.
  destruct (c_pool c =? p) eqn:Ep.
  - apply Z.eqb_eq in Ep. subst p. specialize (Hn (c_pool c)). lia.
  - specialize (Hn p). lia.
Qed.

Lemma one_if_budget_incl m cs c : In c (one_if_budget m cs) -> In c cs.
Proof.
  induction cs as [|c' t IH]; simpl; [intros []|].
  destruct (m (c_pool c') =? 0); [intros H; right; apply IH; exact H|].
  destruct (c_simok c'); [intros [H|[]]; left; exact H|intros H; right; apply IH; exact H].
Qed.

Lemma firstn_In {A} (k : nat) (l : list A) x : In x (firstn k l) -> In x l.
Proof.
  revert l. induction k as [|k IH]; intros l; simpl; [intros []|].
  destruct l as [|a l]; [intros []|]. intros [H|H]; [left; exact H|right; apply IH; exact H].
Qed.

Lemma reserve_le limit used reserved wanted : 0 <= wanted -> reserve limit used reserved wanted <= wanted.
Proof.
  intros H. unfold reserve. destruct (limit - used - reserved <? 0) eqn:E1; [lia|].
  destruct (wanted >? limit - used - reserved) eqn:E2; [|lia].
  apply Z.gtb_lt in E2. lia.
Qed.

Lemma zlen_firstn_le {A} k (l : list A) : zlen (firstn (Z.to_nat k) l) <= Z.max k 0.
Proof.
  unfold zlen. pose proof (firstn_le_length (Z.to_nat k) l).
  rewrite firstn_length. lia.
Qed.

Section Rounds.
Variable sid : Type.
Variable hit : sid -> Z -> Prop.
Variable next : sid -> Z -> option Z.
Hypothesis Hl : next_least sid hit next.

Notation sys := (sys sid).
Notation pool := (pool sid).
Notation mapping_of := (mapping_of sid next).
Notation propose := (propose sid next).
Notation validate := (validate sid next).
Notation disrupt_sel := (disrupt_sel sid next).
Notation step := (step sid next).
Notation run := (run sid next).

Lemma static_drift_pool_le m (p : pool) k cs q :
  nonneg m -> (forall c, In c cs -> c_pool c = p_id p) ->
  count_pool q (static_drift_pool m p k cs) <= (if q =? p_id p then m q else 0).
Proof.
  intros Hn Hcs. unfold static_drift_pool.
  destruct (m (p_id p) =? 0) eqn:E0.
  { rewrite count_pool_nil. destruct (q =? p_id p); [apply Hn|lia]. }
  destruct (k_active k + k_pending k >? p_replicas p).
  { rewrite count_pool_nil. destruct (q =? p_id p); [apply Hn|lia]. }
  set (g := reserve _ _ _ _).
  destruct (q =? p_id p) eqn:Eq.
  - apply Z.eqb_eq in Eq. subst q.
    assert (Hg : g <= Z.min (m (p_id p)) (zlen cs)).
    { apply reserve_le. pose proof (Hn (p_id p)). pose proof (zlen_nonneg cs). lia. }
    pose proof (count_pool_le_len (p_id p) (firstn (Z.to_nat g) cs)).
    pose proof (zlen_firstn_le g cs). pose proof (Hn (p_id p)). lia.
  - apply Z.eqb_neq in Eq.
    rewrite (count_pool_other q (p_id p)); [lia| |exact Eq].
    intros c Hc. apply Hcs. apply (firstn_In _ _ _ Hc).
Qed.

Lemma static_drift_pool_incl m (p : pool) k cs c : In c (static_drift_pool m p k cs) -> In c cs.
Proof.
  unfold static_drift_pool. destruct (m (p_id p) =? 0); [intros []|].
  destruct (k_active k + k_pending k >? p_replicas p); [intros []|]. apply firstn_In.
Qed.

Lemma cands_of_pool_pool q cs c : In c (cands_of_pool q cs) -> c_pool c = q /\ In c cs.
Proof.
  unfold cands_of_pool. intros H. apply filter_In in H. destruct H as (H1 & H2).
  apply Z.eqb_eq in H2. split; assumption.
Qed.

Lemma existsb_eqb_false a l : existsb (Z.eqb a) l = false -> ~ In a l.
Proof.
  intros H Hin. assert (existsb (Z.eqb a) l = true) by (apply existsb_exists; exists a; split; [exact Hin|apply Z.eqb_refl]).
  congruence.
Qed.

Lemma static_groups_le m (ps : list pool) cs groups q :
  nonneg m -> nodup_ids (map fst groups) = true ->
  count_pool q (flat_map (fun g : Z * pool_counts =>
                  match find_pool ps (fst g) with
                  | Some p => static_drift_pool m p (snd g) (cands_of_pool (fst g) cs)
                  | None => []
                  end) groups)
  <= (if existsb (Z.eqb q) (map fst groups) then m q else 0).
Proof.
  intros Hn. induction groups as [|g t IH]; intros Hnd; simpl.
  - rewrite count_pool_nil. lia.
  - simpl in Hnd. apply andb_true_iff in Hnd. destruct Hnd as (Hg & Hnd). apply negb_true_iff in Hg.
    rewrite count_pool_app. specialize (IH Hnd).
    assert (Hfirst : count_pool q (match find_pool ps (fst g) with
                                   | Some p => static_drift_pool m p (snd g) (cands_of_pool (fst g) cs)
                                   | None => []
                                   end) <= (if q =? fst g then m q else 0)).
    { destruct (find_pool ps (fst g)) as [p|] eqn:Ef.
      - destruct (find_pool_some sid ps (fst g) p Ef) as (_ & Hid).
        pose proof (static_drift_pool_le m p (snd g) (cands_of_pool (fst g) cs) q Hn) as H.
        rewrite Hid in H. apply H. intros c Hc. apply (cands_of_pool_pool _ _ _ Hc).
      - rewrite count_pool_nil. destruct (q =? fst g); [apply Hn|lia]. }
    destruct (q =? fst g) eqn:Eq.
    + apply Z.eqb_eq in Eq. subst q. simpl. rewrite Hg in IH. lia.
    + simpl. pose proof (Hn q). destruct (existsb (Z.eqb q) (map fst t)); lia.
Qed.

Lemma mapping_of_nonneg (s : sys) r : nonneg (mapping_of s r).
Proof. intros q. apply build_mapping_nonneg. Qed.

(* every method proposes at most the mapping value per pool, and only candidates it was given *)
Lemma propose_le (s : sys) m cs ch p :
  count_pool p (propose s m cs ch) <= mapping_of s (method_reason m) p.
Proof.
  pose proof (mapping_of_nonneg s (method_reason m)) as Hn.
  unfold Model.propose. destruct ch as [k|groups|].
  - destruct m.
    + apply emptiness_select_le, Hn.
    + rewrite count_pool_nil; apply Hn.
    + apply one_if_budget_le, Hn.
    + apply multi_select_le, Hn.
    + apply one_if_budget_le, Hn.
  - destruct m.
    + apply emptiness_select_le, Hn.
    + destruct (nodup_ids (map fst groups)) eqn:End; [|rewrite count_pool_nil; apply Hn].
      pose proof (static_groups_le _ (s_pools s) cs groups p Hn End) as H.
      specialize (Hn p). destruct (existsb (Z.eqb p) (map fst groups)); lia.
    + apply one_if_budget_le, Hn.
    + rewrite count_pool_nil; apply Hn.
    + apply one_if_budget_le, Hn.
  - destruct m; rewrite count_pool_nil; apply Hn.
Qed.

Lemma propose_incl (s : sys) m cs ch c : In c (propose s m cs ch) -> In c cs.
Proof.
  pose proof (mapping_of_nonneg s (method_reason m)) as Hn.
  unfold Model.propose. destruct ch as [k|groups|].
  - destruct m.
    + apply take_incl, Hn.
    + intros [].
    + apply one_if_budget_incl.
    + unfold multi_select, multi_prefilter. intros H. apply firstn_In in H. apply (take_incl _ _ _ _ Hn H).
    + apply one_if_budget_incl.
  - destruct m.
    + apply take_incl, Hn.
    + destruct (nodup_ids (map fst groups)); [|intros []].
      intros H. apply in_flat_map in H. destruct H as (g & _ & Hc).
      destruct (find_pool (s_pools s) (fst g)); [|destruct Hc].
      apply static_drift_pool_incl in Hc. apply (cands_of_pool_pool _ _ _ Hc).
    + apply one_if_budget_incl.
    + intros [].
    + apply one_if_budget_incl.
  - destruct m; intros [].
Qed.

(* ---- validators ---- *)

Lemma validate_filter_le m cur p : nonneg m -> count_pool p (validate_filter m cur) <= m p.
Proof.
  revert m. induction cur as [|c t IH]; intros m Hn; simpl; [rewrite count_pool_nil; apply Hn|].
  destruct (c_nominated c); [apply IH, Hn|].
  destruct (m (c_pool c) =? 0) eqn:E; [apply IH, Hn|].
  apply Z.eqb_neq in E. rewrite count_pool_cons.
  specialize (IH (decr m (c_pool c)) (decr_nonneg m _ Hn E)). rewrite decr_at in IH.
  destruct (c_pool c =? p); lia.
Qed.

Lemma validate_filter_incl m cur c : In c (validate_filter m cur) -> In c cur.
Proof.
  revert m. induction cur as [|c' t IH]; intros m; simpl; [intros []|].
  destruct (c_nominated c'); [intros H; right; apply (IH _ H)|].
  destruct (m (c_pool c') =? 0); [intros H; right; apply (IH _ H)|].
  intros [H|H]; [left; exact H|right; apply (IH _ H)].
Qed.

Lemma validate_all_le m cur p : nonneg m -> validate_all m cur = true -> count_pool p cur <= m p.
Proof.
  revert m. induction cur as [|c t IH]; intros m Hn; simpl; [intros _; rewrite count_pool_nil; apply Hn|].
  destruct (c_nominated c); [discriminate|].
  destruct (m (c_pool c) =? 0) eqn:E; [discriminate|].
  apply Z.eqb_neq in E. intros H. rewrite count_pool_cons.
  specialize (IH (decr m (c_pool c)) (decr_nonneg m _ Hn E) H). rewrite decr_at in IH.
  destruct (c_pool c =? p); lia.
Qed.

Lemma restrict_incl prop cur c : In c (restrict prop cur) -> In c cur.
Proof. unfold restrict. intros H. apply filter_In in H. apply H. Qed.

Definition validating (m : method) : bool :=
  match m with MEmptiness | MMulti | MSingle => true | _ => false end.

(* each method's validator re-checks the budgets of the method's own reason *)
Lemma validator_reason_own m : validator_reason m = method_reason m.
Proof. destruct m; reflexivity. Qed.

Lemma validate_under_le r (s : sys) m prop cur p :
  validating m = true ->
  count_pool p (validate_under sid next r s m prop cur) <= mapping_of s r p.
Proof.
  pose proof (mapping_of_nonneg s r) as Hn.
  unfold Model.validate_under. destruct m; try discriminate; intros _.
  - apply validate_filter_le, Hn.
  - destruct ((length (restrict prop cur) =? length prop)%nat && validate_all _ (restrict prop cur))%bool eqn:E.
    + apply andb_true_iff in E. apply (validate_all_le _ _ _ Hn (proj2 E)).
    + rewrite count_pool_nil. apply Hn.
  - destruct ((length (restrict prop cur) =? length prop)%nat && validate_all _ (restrict prop cur))%bool eqn:E.
    + apply andb_true_iff in E. apply (validate_all_le _ _ _ Hn (proj2 E)).
    + rewrite count_pool_nil. apply Hn.
Qed.

Lemma validate_le (s : sys) m prop cur p :
  validating m = true ->
  count_pool p (validate s m prop cur) <= mapping_of s (method_reason m) p.
Proof.
  intros Hv. unfold Model.validate.
  destruct m; try discriminate;
    [exact (validate_under_le Empty s MEmptiness prop cur p eq_refl)
    |exact (validate_under_le Underutilized s MMulti prop cur p eq_refl)
    |exact (validate_under_le Underutilized s MSingle prop cur p eq_refl)].
Qed.

Lemma validate_incl (s : sys) m prop cur c :
  validating m = true -> In c (validate s m prop cur) -> In c cur.
Proof.
  unfold Model.validate, Model.validate_under. destruct m; try discriminate; intros _.
  - intros H. apply validate_filter_incl in H. apply (restrict_incl _ _ _ H).
  - destruct (_ && _)%bool; [apply restrict_incl|intros []].
  - destruct (_ && _)%bool; [apply restrict_incl|intros []].
Qed.

(* ---- one disrupt(method) call ---- *)

(* the selection is bounded by the mapping built from the state in which it was last validated,
   and consists of candidates that are eligible nodes of that state *)
Lemma disrupt_sel_le (s : sys) m cs ch vok b1 c1 b2 c2 p :
  let '(sel, sv) := disrupt_sel s m cs ch vok b1 c1 b2 c2 in
  count_pool p sel <= mapping_of sv (method_reason m) p /\
  (forall c, In c sel -> cand_ok sv c = true).
Proof.
  unfold Model.disrupt_sel.
  destruct (cands_ok s cs) eqn:Eok; simpl negb; cbv iota.
  2:{ split; [rewrite count_pool_nil; apply mapping_of_nonneg|intros c []]. }
  assert (Hcs : forall c, In c cs -> cand_ok s c = true).
  { unfold cands_ok in Eok. apply andb_true_iff in Eok. destruct Eok as (Eok & _).
    rewrite forallb_forall in Eok. exact Eok. }
  assert (Hcur : forall (sv : sys) cur c, cands_ok sv cur = true -> In c cur -> cand_ok sv c = true).
  { intros sv cur c H Hin. unfold cands_ok in H. apply andb_true_iff in H. destruct H as (H & _).
    rewrite forallb_forall in H. apply H. exact Hin. }
  destruct m.
  - (* emptiness *)
    destruct (cands_ok (env_steps s b1) c1) eqn:E1; simpl negb; cbv iota.
    + split; [apply validate_le; reflexivity|].
      intros c Hc. apply (Hcur _ c1 c E1). apply (validate_incl _ MEmptiness _ _ _ eq_refl Hc).
    + split; [rewrite count_pool_nil; apply mapping_of_nonneg|intros c []].
  - (* static drift *)
    split; [apply propose_le|]. intros c Hc. apply Hcs. apply (propose_incl _ _ _ _ _ Hc).
  - (* drift *)
    split; [apply propose_le|]. intros c Hc. apply Hcs. apply (propose_incl _ _ _ _ _ Hc).
  - (* multi *)
    destruct (cands_ok (env_steps s b1) c1) eqn:E1; simpl negb; cbv iota.
    2:{ split; [rewrite count_pool_nil; apply mapping_of_nonneg|intros c []]. }
    destruct (validate (env_steps s b1) MMulti (propose s MMulti cs ch) c1) as [|v vs] eqn:Ev.
    { split; [rewrite count_pool_nil; apply mapping_of_nonneg|intros c []]. }
    destruct vok; simpl negb; cbv iota.
    2:{ split; [rewrite count_pool_nil; apply mapping_of_nonneg|intros c []]. }
    destruct (cands_ok (env_steps (env_steps s b1) b2) c2) eqn:E2; simpl negb; cbv iota.
    + split; [apply validate_le; reflexivity|].
      intros c Hc. apply (Hcur _ c2 c E2). apply (validate_incl _ MMulti _ _ _ eq_refl Hc).
    + split; [rewrite count_pool_nil; apply mapping_of_nonneg|intros c []].
  - (* single *)
    destruct (cands_ok (env_steps s b1) c1) eqn:E1; simpl negb; cbv iota.
    2:{ split; [rewrite count_pool_nil; apply mapping_of_nonneg|intros c []]. }
    destruct (validate (env_steps s b1) MSingle (propose s MSingle cs ch) c1) as [|v vs] eqn:Ev.
    { split; [rewrite count_pool_nil; apply mapping_of_nonneg|intros c []]. }
    destruct vok; simpl negb; cbv iota.
    2:{ split; [rewrite count_pool_nil; apply mapping_of_nonneg|intros c []]. }
    destruct (cands_ok (env_steps (env_steps s b1) b2) c2) eqn:E2; simpl negb; cbv iota.
    + split; [apply validate_le; reflexivity|].
      intros c Hc. apply (Hcur _ c2 c E2). apply (validate_incl _ MSingle _ _ _ eq_refl Hc).
    + split; [rewrite count_pool_nil; apply mapping_of_nonneg|intros c []].
Qed.

Definition budgets_ok (s : sys) : Prop :=
  forall p, In p (s_pools s) -> forall b, In b (p_budgets p) -> nodes_ok sid b.

(* The property for one round: for every pool, nothing is selected or selected + the pool's nodes
   that are already not ready / being deleted stay within every applicable active budget; a pool
   that is not listed gets nothing. Evaluated in the state in which the command was validated. *)
Definition round_holds (sv : sys) (r : reason) (sel : list cand) : Prop :=
  forall p,
    match find_pool (s_pools sv) p with
    | Some pl =>
        round_ok sid hit (s_now sv) (num_nodes p (s_nodes sv)) r (p_budgets pl)
                 (disrupting p (s_nodes sv)) (count_pool p sel)
    | None => count_pool p sel = 0
    end.

Theorem round_within_budget_l (s : sys) m cs ch vok b1 c1 b2 c2 :
  let '(sel, sv) := disrupt_sel s m cs ch vok b1 c1 b2 c2 in
  budgets_ok sv -> round_holds sv (method_reason m) sel.
Proof.
  pose proof (fun p => disrupt_sel_le s m cs ch vok b1 c1 b2 c2 p) as H.
  destruct (disrupt_sel s m cs ch vok b1 c1 b2 c2) as [sel sv].
  intros Hb p. destruct (H p) as (Hle & _).
  unfold Model.mapping_of, build_mapping in Hle.
  destruct (find_pool (s_pools sv) p) as [pl|] eqn:Ef.
  - destruct (find_pool_some sid _ _ _ Ef) as (Hin & Hid). subst p.
    apply (pool_budget_sound sid hit next Hl).
    + intros b Hbin. apply (Hb pl Hin b Hbin).
    + split; [apply count_pool_nonneg|exact Hle].
  - pose proof (count_pool_nonneg p sel). lia.
Qed.

(* ---- histories: commands in flight stay accounted for ---- *)

(* every node whose id is held by the orchestration queue is marked for deletion *)
Definition inv (s : sys) : Prop :=
  forall x, In x (s_nodes s) -> in_queue s (n_id x) = true -> n_marked x = true.

Lemma inv_consuming (s : sys) x : inv s -> In x (s_nodes s) -> in_queue s (n_id x) = true -> consuming x = true.
Proof.
  intros Hi Hin Hq. unfold consuming. rewrite (Hi x Hin Hq). rewrite orb_true_r. reflexivity.
Qed.

Lemma in_queue_same (s s' : sys) i : s_queue s' = s_queue s -> in_queue s' i = in_queue s i.
Proof. intros H. unfold in_queue. rewrite H. reflexivity. Qed.

Lemma in_upd_node f i ns x :
  In x (upd_node f i ns) -> exists y, In y ns /\ (x = y \/ x = f y).
Proof.
  unfold upd_node. intros H. apply in_map_iff in H. destruct H as (y & Hy & Hin).
  exists y. split; [exact Hin|]. destruct (n_id y =? i); [right|left]; symmetry; exact Hy.
Qed.

Lemma inv_env (s : sys) e : inv s -> inv (env_step s e).
Proof.
  intros Hi. destruct e; unfold env_step.
  - exact Hi.
  - intros x Hx Hq. simpl in *. apply in_upd_node in Hx. destruct Hx as (y & Hy & [->| ->]).
    + apply (Hi y Hy Hq).
    + simpl in *. apply (Hi y Hy Hq).
  - intros x Hx Hq. simpl in *. apply in_upd_node in Hx. destruct Hx as (y & Hy & [->| ->]).
    + apply (Hi y Hy Hq).
    + simpl in *. apply (Hi y Hy Hq).
  - intros x Hx Hq. simpl in *. apply in_upd_node in Hx. destruct Hx as (y & Hy & [->| ->]).
    + apply (Hi y Hy Hq).
    + simpl in *. apply (Hi y Hy Hq).
  - intros x Hx Hq. simpl in *. apply in_upd_node in Hx. destruct Hx as (y & Hy & [->| ->]).
    + apply (Hi y Hy Hq).
    + simpl in *. apply (Hi y Hy Hq).
  - destruct (existsb (fun y => n_id y =? n_id x) (s_nodes s) || in_queue s (n_id x))%bool eqn:E; [exact Hi|].
    apply orb_false_iff in E. destruct E as (_ & Eq).
    intros y Hy Hq. simpl in *. apply in_app_iff in Hy. destruct Hy as [Hy|[<-|[]]].
    + apply (Hi y Hy Hq).
    + unfold in_queue in Hq, Eq. simpl in Hq. rewrite Eq in Hq. discriminate.
  - intros x Hx Hq. simpl in *. apply filter_In in Hx. apply (Hi x (proj1 Hx) Hq).
  - exact Hi.
Qed.

Lemma inv_env_steps (s : sys) es : inv s -> inv (env_steps s es).
Proof.
  revert s. induction es as [|e t IH]; intros s Hi; simpl; [exact Hi|].
  apply IH. apply inv_env. exact Hi.
Qed.

Lemma inv_start (s : sys) sel : inv s -> inv (start_command s sel).
Proof.
  intros Hi x Hx Hq. unfold start_command in *. simpl in *.
  apply in_map_iff in Hx. destruct Hx as (y & Hy & Hin).
  destruct (existsb (Z.eqb (n_id y)) (map c_node sel)) eqn:E.
  - subst x. reflexivity.
  - subst x. unfold in_queue in Hq. simpl in Hq. rewrite existsb_app in Hq.
    apply orb_true_iff in Hq. destruct Hq as [Hq|Hq]; [rewrite Hq in E; discriminate|].
    apply (Hi y Hin Hq).
Qed.

Lemma existsb_filter_out i ids q :
  existsb (Z.eqb i) (filter (fun j => negb (existsb (Z.eqb j) ids)) q) = true ->
  existsb (Z.eqb i) q = true /\ existsb (Z.eqb i) ids = false.
Proof.
  intros H. apply existsb_exists in H. destruct H as (j & Hj & Heq). apply Z.eqb_eq in Heq. subst j.
  apply filter_In in Hj. destruct Hj as (Hj & Hn). apply negb_true_iff in Hn. split; [|exact Hn].
  apply existsb_exists. exists i. split; [exact Hj|apply Z.eqb_refl].
Qed.

Lemma disrupt_sel_inv (s : sys) m cs ch vok b1 c1 b2 c2 :
  inv s -> inv (snd (disrupt_sel s m cs ch vok b1 c1 b2 c2)).
Proof.
  intros Hi. unfold Model.disrupt_sel.
  destruct (negb (cands_ok s cs)); [exact Hi|].
  destruct m; simpl; try exact Hi.
  - destruct (negb (cands_ok (env_steps s b1) c1)); simpl; apply inv_env_steps, Hi.
  - destruct (negb (cands_ok (env_steps s b1) c1)); simpl; [apply inv_env_steps, Hi|].
    match goal with |- context [match ?v with [] => _ | _ :: _ => _ end] => destruct v end;
      simpl; [apply inv_env_steps, Hi|].
    destruct vok; simpl; [|apply inv_env_steps, Hi].
    match goal with |- context [if ?v then _ else _] => destruct v end;
      simpl; apply inv_env_steps, inv_env_steps, Hi.
  - destruct (negb (cands_ok (env_steps s b1) c1)); simpl; [apply inv_env_steps, Hi|].
    match goal with |- context [match ?v with [] => _ | _ :: _ => _ end] => destruct v end;
      simpl; [apply inv_env_steps, Hi|].
    destruct vok; simpl; [|apply inv_env_steps, Hi].
    match goal with |- context [if ?v then _ else _] => destruct v end;
      simpl; apply inv_env_steps, inv_env_steps, Hi.
Qed.

Lemma inv_step (s : sys) o : inv s -> inv (step s o).
Proof.
  intros Hi. destruct o as [e|m cs ch vok b1 c1 b2 c2 sf|ids ok|]; unfold Model.step.
  - apply inv_env, Hi.
  - pose proof (disrupt_sel_inv s m cs ch vok b1 c1 b2 c2 Hi) as H.
    destruct (disrupt_sel s m cs ch vok b1 c1 b2 c2) as [sel sv]. apply inv_start. exact H.
  - destruct ok.
    + intros x Hx Hq. simpl in *. unfold in_queue in Hq. simpl in Hq.
      apply existsb_filter_out in Hq. destruct Hq as (Hq & _). apply (Hi x Hx Hq).
    + intros x Hx Hq. simpl in *. apply in_map_iff in Hx. destruct Hx as (y & Hy & Hin).
      unfold in_queue in Hq. simpl in Hq.
      destruct (existsb (Z.eqb (n_id y)) ids) eqn:E; subst x; simpl in *;
        apply existsb_filter_out in Hq; destruct Hq as (Hq & Hn).
      * rewrite Hn in E. discriminate.
      * apply (Hi y Hin Hq).
  - intros x Hx Hq. unfold in_queue in Hq. simpl in Hq. discriminate.
Qed.

Lemma inv_run (s : sys) ops : inv s -> inv (run s ops).
Proof.
  revert s. induction ops as [|o t IH]; intros s Hi; simpl; [exact Hi|].
  apply IH. apply inv_step. exact Hi.
Qed.

(* a candidate accepted by [cand_ok] is not in flight, not marked, not deleting *)
Lemma cand_ok_fresh (s : sys) c :
  cand_ok s c = true ->
  exists x, find_node s (c_node c) = Some x /\ n_pool x = c_pool c /\
            in_queue s (n_id x) = false /\ n_marked x = false /\ n_deleting x = false /\ counted x = true.
Proof.
  unfold cand_ok. destruct (find_node s (c_node c)) as [x|] eqn:Ef; [|discriminate].
  intros H. apply andb_true_iff in H. destruct H as (He & Hp). apply Z.eqb_eq in Hp.
  unfold eligible in He.
  apply andb_true_iff in He. destruct He as (He & Hnot).
  apply andb_true_iff in He. destruct He as (He & Hinit).
  apply andb_true_iff in He. destruct He as (Hq & Hman).
  apply negb_true_iff in Hq. apply negb_true_iff in Hnot.
  apply orb_false_iff in Hnot. destruct Hnot as (Hmd & Ht).
  apply orb_false_iff in Hmd. destruct Hmd as (Hm & Hd).
  exists x. split; [reflexivity|]. split; [exact Hp|].
  assert (Hid : n_id x = c_node c).
  { unfold find_node in Ef. apply find_some in Ef. destruct Ef as (_ & Ef). apply Z.eqb_eq in Ef. exact Ef. }
  split; [exact Hq|]. split; [exact Hm|]. split; [exact Hd|].
  unfold counted. rewrite Hman, Hinit, Ht. reflexivity.
Qed.

(* what holds at every step of every history *)
Definition step_ok (s : sys) (o : op sid) : Prop :=
  match o with
  | ODisrupt m cs ch vok b1 c1 b2 c2 _ =>
      let '(sel, sv) := disrupt_sel s m cs ch vok b1 c1 b2 c2 in
      (budgets_ok sv -> round_holds sv (method_reason m) sel) /\
      (forall c, In c sel ->
         exists x, find_node sv (c_node c) = Some x /\ n_pool x = c_pool c /\
                   in_queue sv (n_id x) = false /\ n_marked x = false /\ n_deleting x = false /\ counted x = true) /\
      (forall x, In x (s_nodes sv) -> in_queue sv (n_id x) = true -> consuming x = true)
  | _ => True
  end.

Fixpoint trace_ok (s : sys) (ops : list (op sid)) : Prop :=
  match ops with
  | [] => True
  | o :: t => step_ok s o /\ trace_ok (step s o) t
  end.

Theorem rounds_within_budget_l (s0 : sys) ops : inv s0 -> trace_ok s0 ops /\ inv (run s0 ops).
Proof.
  revert s0. induction ops as [|o t IH]; intros s Hi; simpl; [split; [exact I|exact Hi]|].
  destruct (IH (step s o) (inv_step s o Hi)) as (Ht & Hr).
  split; [|exact Hr]. split; [|exact Ht].
  destruct o as [e|m cs ch vok b1 c1 b2 c2 sf|ids ok|]; simpl; try exact I.
  pose proof (round_within_budget_l s m cs ch vok b1 c1 b2 c2) as Hround.
  pose proof (fun p => disrupt_sel_le s m cs ch vok b1 c1 b2 c2 p) as Hle.
  pose proof (disrupt_sel_inv s m cs ch vok b1 c1 b2 c2 Hi) as Hinv.
  destruct (disrupt_sel s m cs ch vok b1 c1 b2 c2) as [sel sv]. simpl in Hinv.
  split; [exact Hround|]. split.
  - intros c Hc. destruct (Hle 0) as (_ & Hok). apply cand_ok_fresh. apply Hok. exact Hc.
  - intros x Hx Hq. apply (inv_consuming sv x Hinv Hx Hq).
Qed.

End Rounds.

(* ---- a validator constructed with another method's reason (seeded defect C05-2: one shared
   constructor hard-coding Underutilized) lets a command through that exceeds the budget of the
   method's own reason ---- *)
Section ForeignReason.
Let hit0 (_ : unit) (_ : Z) : Prop := False.
Let next0 (_ : unit) (_ : Z) : option Z := None.

Definition fr_budgets : list (budget unit) :=
  [mkBudget (Some [Empty]) (NInt 1) SNil None; mkBudget (Some [Underutilized]) (NInt 3) SNil None].
Definition fr_sys : sys unit :=
  mkSys 0 [mkPool 1 fr_budgets false 0 None]
        [mkNode 1 1 true true false true false false; mkNode 2 1 true true false true false false;
         mkNode 3 1 true true false true false false; mkNode 4 1 true true false true false false] [].
Definition fr_cands : list cand := [mkCand 1 1 true false true; mkCand 2 1 true false true].

Lemma foreign_reason_refuted_l :
  let sel := validate_under unit next0 Underutilized fr_sys MEmptiness fr_cands fr_cands in
  map c_node sel = [1; 2] /\ ~ round_holds unit hit0 fr_sys Empty sel.
Proof.
  split; [vm_compute; reflexivity|].
  intros H. specialize (H 1).
  change (find_pool (s_pools fr_sys) 1) with (Some (mkPool 1 fr_budgets false 0 (@None Z))) in H.
  cbv beta iota in H. unfold Spec.round_ok in H.
  destruct H as [H|(_ & _ & H)].
  - vm_compute in H. discriminate.
  - specialize (H (mkBudget (Some [Empty]) (NInt 1) SNil None) (or_introl eq_refl)).
    assert (Ha : applies_spec unit Empty (mkBudget (Some [Empty]) (NInt 1) SNil None)) by (simpl; left; reflexivity).
    specialize (H Ha I). vm_compute in H. apply H. reflexivity.
Qed.

(* with its own reason the same validator trims the command to the Empty budget *)
Lemma own_reason_example_l :
  map c_node (validate unit next0 fr_sys MEmptiness fr_cands fr_cands) = [1].
Proof. vm_compute. reflexivity. Qed.
End ForeignReason.
