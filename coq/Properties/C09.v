(* C09 — Nodes and instances are finalized in order and never leaked.
   Property theorems only; each is closed by [exact] of a lemma from C09/Proofs.v.
   [w] ranges over ALL worlds (so over every history of reconciles, faults, environment events and restarts that
   leads to it), [f] over all fault plans. [instant w es] is the world inside the last write of the reconcile. *)
From KV Require Import C09.Model C09.Proofs.

(* The termination finalizer of a Node comes off only through a reconcile of that node, as its last write, and —
   when the node has a NodeClaim — only in a world where the node is cordoned, every pod Karpenter can drain is gone
   or stuck terminating, blocking volume attachments are gone or the termination grace period has expired, and the
   provider reports the instance gone; or the node is not Ready and the provider reports the instance gone. *)
Theorem node_finalizer_removed_only_if : forall (w : world) (i : Z) (f : fault) es r j,
  node_reconcile w i f = (es, r) -> In (ERmNodeFin j true) es ->
  j = i /\ (exists pre, es = pre ++ [ERmNodeFin i true]) /\
  (node_has_claim w -> node_fin_ok w (instant w es) i).
Proof. exact node_finalizer_removed_only_if_l. Qed.
Print Assumptions node_finalizer_removed_only_if.

(* Without a (unique) NodeClaim the same holds except for the provider's confirmation. *)
Theorem node_finalizer_claimless : forall (w : world) (i : Z) (f : fault) es r j,
  node_reconcile w i f = (es, r) -> In (ERmNodeFin j true) es ->
  exists n, get_node i (w_nodes (instant w es)) = Some n /\
    ((n_taint n = true /\
      (forall p, In p (w_pods (instant w es)) -> p_node p = i -> can_drain p -> stuck_terminating (w_now (instant w es)) p) /\
      ((forall v, In v (w_vas (instant w es)) -> ~ va_blocks (instant w es) i v) \/ tgp_expired w (instant w es)))
     \/ (n_ready n = false /\ inst_absent (w_inst (instant w es)) = true)).
Proof. exact node_finalizer_claimless_l. Qed.
Print Assumptions node_finalizer_claimless.

(* The NodeClaim finalizer comes off only as the last write of a finalize, after its Nodes are gone if it
   registered, and after the provider answered NotFound if the claim recorded a provider id. *)
Theorem claim_finalizer_nodes_gone : forall (w : world) (f : fault) es r k,
  claim_reconcile w f = (es, r, k) -> In (ERmClaimFin true) es ->
  (exists pre, es = pre ++ [ERmClaimFin true]) /\
  claim_nodes_gone (instant w es) /\
  (exists c, w_claim w = Some c /\ (c_pid c = true -> inst_absent (w_inst (instant w es)) = true)).
Proof. exact claim_finalizer_nodes_gone_l. Qed.
Print Assumptions claim_finalizer_nodes_gone.

(* Full property for the NodeClaim ("... and the provider reports the instance not found if it was ever launched"):
   it holds exactly in the worlds in which an existing instance is recorded on the claim — the weakest premise. *)
Theorem claim_finalizer_removed_only_if_partial : forall (w : world) (f : fault) es r k,
  claim_reconcile w f = (es, r, k) -> In (ERmClaimFin true) es ->
  (claim_fin_ok (instant w es) <-> recorded_or_absent w).
Proof. exact claim_finalizer_ok_iff_l. Qed.
Print Assumptions claim_finalizer_removed_only_if_partial.

(* FINDING: without that guard it is false. From a clean world (claim not launched, no instance): the launch
   reconcile creates the instance, the status patch that records the provider id fails, the claim is deleted; the next
   reconcile finalizes with an empty provider id, never asks the provider and removes the finalizer. *)
Theorem claim_finalizer_removed_only_if_refuted :
  accounted leak_w0 /\ finalizer_before_launch leak_w0 /\
  let w := run leak_w0 leak_ops in
  exists es r k, claim_reconcile w None = (es, r, k) /\ In (ERmClaimFin true) es /\ ~ claim_fin_ok (instant w es).
Proof. exact claim_finalizer_removed_only_if_refuted_l. Qed.
Print Assumptions claim_finalizer_removed_only_if_refuted.

(* A completed deletion never orphans a cloud instance: over all histories (reconciles of both controllers in any
   order, fresh or from a lagging cache, any fault in each — including the patches that record the provider id —,
   pods / attachments / the instance disappearing at any time, clock, user deletes, restarts) in which nobody
   deletes the NodeClaim while it holds an instance it has not recorded, no step makes the claim object disappear
   while the provider still holds the instance. *)
Theorem no_orphan_partial : forall (w0 : world) (ops : list op) (o : op),
  accounted w0 -> deletes_recorded w0 (ops ++ [o]) = true ->
  orphaned (run w0 ops) (run w0 (ops ++ [o])) = false.
Proof. exact no_orphan_weakest_l. Qed.
Print Assumptions no_orphan_partial.

(* That premise cannot be weakened: deleting a claim that holds an unrecorded instance orphans it at the next
   fault-free finalize. *)
Theorem delete_unrecorded_orphans : forall now ns reg an dr vo te tw ps vs s k,
  inst_absent s = false ->
  let w := W now ns (Some (C true true None false reg None an dr vo te)) tw ps vs s k in
  orphaned w (run w [EnvDelClaim; RClaim None]) = true.
Proof. exact delete_unrecorded_orphans_l. Qed.
Print Assumptions delete_unrecorded_orphans.

Theorem no_orphan_refuted :
  accounted leak_w0 /\
  orphaned (run leak_w0 leak_ops) (run leak_w0 (leak_ops ++ [RClaim None])) = true.
Proof. exact no_orphan_refuted_l. Qed.
Print Assumptions no_orphan_refuted.

(* The deletion need not come from a user: persist patch fails, restart (launch cache lost), the next Create answers
   InsufficientCapacity and Launch itself deletes the claim — the same orphan. *)
Theorem restart_capacity_error_orphans :
  let ops := [RClaim (Some (SPatchStatusL, KServer)); EnvRestart; RClaim (Some (SProvCreate, KNotFound))] in
  accounted leak_w0 /\ deletes_recorded leak_w0 ops = false /\
  orphaned (run leak_w0 ops) (run leak_w0 (ops ++ [RClaim None])) = true.
Proof. exact restart_capacity_error_orphans_l. Qed.
Print Assumptions restart_capacity_error_orphans.

(* The invariant that carries no_orphan is inductive over every such history. *)
Theorem accounted_invariant : forall (ops : list op) (w : world),
  accounted w -> deletes_recorded w ops = true -> accounted (run w ops).
Proof. exact run_accounted. Qed.
Print Assumptions accounted_invariant.

(* The provider never resurrects an instance: Gone stays Gone in every step except a launch for a claim that is
   neither deleting nor launched (Running -> ShuttingDown -> Gone are environment ops and may happen at any time). *)
Theorem gone_is_final : forall (w : world) (o : op), w_inst w = IGone ->
  (forall f c, (o = RClaim f \/ exists old, o = RClaimStale old f) -> w_claim w = Some c -> c_del c <> None \/ c_pid c = true) ->
  w_inst (fst (step w o)) = IGone.
Proof. exact gone_is_final_l. Qed.
Print Assumptions gone_is_final.

(* Duplicate NodeClaims for one provider id (and, symmetrically, the duplicate becoming the only claim) are part of
   the model: all theorems above quantify over worlds with a second claim object. With two recorded claims the node
   has no (unique) NodeClaim: [node_finalizer_removed_only_if] does not apply, [node_finalizer_claimless] does —
   cordon, drain and volume clauses hold, the provider's confirmation is skipped (witness). The instance is still
   never orphaned: [no_orphan_partial] is about the claim object and holds in these worlds too.
   Two Nodes that share one NodeClaim are ordinary worlds ([w_nodes] is a list): every clause is per node. *)
Theorem duplicates_are_claimless : forall w, duplicates w = true -> visible_claim w = None.
Proof. exact duplicates_claimless_l. Qed.
Print Assumptions duplicates_are_claimless.

Theorem duplicate_claims_witness :
  duplicates dup_w = true /\ node_has_claim_b dup_w = false /\
  node_reconcile dup_w 0 None = ([ERmNodeFin 0 true], ROk) /\
  node_fin_ok_b dup_w (instant dup_w [ERmNodeFin 0 true]) 0 = false /\
  w_inst (fst (step dup_w (RNode 0 None))) = IRunning.
Proof. exact duplicate_claims_witness_l. Qed.
Print Assumptions duplicate_claims_witness.

(* Lagging cache: the node reconcile handed ANY older version of the Node still obeys the theorem, except that
   "not Ready" is then the older version's word ... *)
Theorem node_finalizer_stale_read : forall (w : world) (old m : node) (f : fault) es r j,
  get_node (n_id old) (w_nodes w) = Some m -> older_node old m = true ->
  node_reconcile_at w old f = (es, r) -> In (ERmNodeFin j true) es ->
  j = n_id old /\ (exists pre, es = pre ++ [ERmNodeFin (n_id old) true]) /\
  (node_has_claim w -> node_fin_ok_seen w (instant w es) (n_id old) (n_ready old)).
Proof. exact node_finalizer_stale_read_l. Qed.
Print Assumptions node_finalizer_stale_read.

(* ... and that exception is real (witness: cached NotReady, now Ready, instance gone, pod not drained). *)
Theorem stale_not_ready_witness :
  let w := W 1000 [N 0 true true true false false true] (Some (C true true (Some 990) true true None ANone DNone VNone false)) None
             [P 0 0 false false false None []] [] IGone false in
  let old := N 0 true true true false false false in
  older_node old (N 0 true true true false false true) = true /\
  node_reconcile_at w old None = ([EProvGet PNotFound; ERmNodeFin 0 true], ROk) /\
  node_fin_ok_b w (instant w [EProvGet PNotFound; ERmNodeFin 0 true]) 0 = false.
Proof. exact stale_not_ready_witness_l. Qed.
Print Assumptions stale_not_ready_witness.

(* The lifecycle reconcile handed an older version of the NodeClaim never removes the finalizer (all its patches
   are optimistic-locked): a removal comes from the current version, to which the theorems above apply. *)
Theorem claim_finalizer_stale_read : forall (w : world) (old : claim) (f : fault) es r k,
  claim_reconcile_at w old f = (es, r, k) -> In (ERmClaimFin true) es ->
  w_claim w = Some old /\ claim_reconcile w f = (es, r, k).
Proof. exact claim_finalizer_stale_read_l. Qed.
Print Assumptions claim_finalizer_stale_read.

(* Nothing else takes the finalizers off: over every op of the transition system (environment events, reconciles
   of other nodes, the other controller, any fault), a Node's termination finalizer disappears only in a reconcile
   of that node that issued the removal, and the NodeClaim's only in a lifecycle reconcile that issued it — to
   which the theorems above apply. *)
Theorem node_finalizer_only_by_reconcile : forall (w : world) (o : op) (i : Z),
  node_has_fin i w = true -> node_has_fin i (fst (step w o)) = false ->
  (exists f, o = RNode i f /\ In (ERmNodeFin i true) (fst (snd (step w o)))) \/
  (exists old f, o = RNodeStale old f /\ n_id old = i /\ In (ERmNodeFin i true) (fst (snd (step w o)))).
Proof. exact node_finalizer_only_by_reconcile_l. Qed.
Print Assumptions node_finalizer_only_by_reconcile.

Theorem claim_finalizer_only_by_reconcile : forall (w : world) (o : op),
  claim_has_fin w = true -> claim_has_fin (fst (step w o)) = false ->
  (exists f, o = RClaim f /\ In (ERmClaimFin true) (fst (snd (step w o)))) \/
  (exists old f, o = RClaimStale old f /\ In (ERmClaimFin true) (fst (snd (step w o)))).
Proof. exact claim_finalizer_only_by_reconcile_l. Qed.
Print Assumptions claim_finalizer_only_by_reconcile.

(* The boolean oracles evaluated on the implementation's observations are the specification. *)
Theorem node_oracle_spec : forall w0 w i, node_fin_ok_b w0 w i = true <-> node_fin_ok w0 w i.
Proof. exact node_fin_ok_b_spec. Qed.
Print Assumptions node_oracle_spec.

Theorem node_oracle_seen_spec : forall w0 w i nr, node_fin_ok_seen_b w0 w i nr = true <-> node_fin_ok_seen w0 w i nr.
Proof. exact node_fin_ok_seen_b_spec. Qed.
Print Assumptions node_oracle_seen_spec.

Theorem claim_oracle_spec : forall w, claim_fin_ok_b w = true <-> claim_fin_ok w.
Proof. exact claim_fin_ok_b_spec. Qed.
Print Assumptions claim_oracle_spec.

(* Non-vacuity: a complete termination in which both finalizers come off, node first, instance gone. *)
Example happy_path_terminates :
  accounted happy_w0 /\
  w_nodes (run happy_w0 happy_ops) = [] /\ w_claim (run happy_w0 happy_ops) = None /\
  w_inst (run happy_w0 happy_ops) = IGone /\
  snd (step (run happy_w0 (firstn 11 happy_ops)) (RNode 0 None)) = ([EProvDelete PNotFound; ERmNodeFin 0 true], ROk) /\
  snd (step (run happy_w0 (firstn 12 happy_ops)) (RClaim None)) = ([EProvDelete PNotFound; ERmClaimFin true], ROk).
Proof. exact happy_path. Qed.

(* Non-vacuity of the not-ready shortcut and of the expired grace period. *)
Example not_ready_shortcut :
  node_reconcile (W 1000 [N 0 true true true false false false] None None [P 0 0 false false false None []] [] IGone false) 0 None
  = ([EProvGet PNotFound; ERmNodeFin 0 true], ROk).
Proof. vm_compute. reflexivity. Qed.

Example grace_period_skips_attachments :
  node_reconcile (W 1000 [N 0 true true true true true true]
                    (Some (C true true (Some 900) true true (Some 30) (AAt 930) DTrue VUnknown false)) None
                    [] [V 0 0 (Some 1)] IGone false) 0 None
  = ([EProvDelete PNotFound; EStatus true DTrue VFalse true; ERmNodeFin 0 true], ROk).
Proof. vm_compute. reflexivity. Qed.
