(* C15 — Drift is reported for drift-relevant changes and never self-inflicted.
   Property theorems only; each is closed by [exact] of a lemma from C15/*Proofs*.v.

   Model: C15/Model.v is mitchellh/hashstructure (FormatV2, SlicesAsSets, IgnoreZeroValue, ZeroNil) executed
   symbolically over the field table gen/C15_fields.v, which the harness regenerates from the real Go types on
   every run; C15/DriftModel.v is the hash controller, the label pipeline of a launched NodeClaim and the drift
   sub-reconciler over the shared requirement algebra Base/Req.v. *)
From Coq Require Import Permutation.
From KV Require Import C15.DriftModel C15.DriftProofs Base.ReqProofs C13.Proofs.
From KV Require Import C15.Model C15.Proofs C15.Proofs2 C15.Check C15.TableProofs gen.C15_fields.
Open Scope string_scope.
Open Scope list_scope.

(* ===================================================================== the hash *)

(* Reordering slice elements and map entries anywhere in a template does not change the symbolic hash -
   for every field table, every value. *)
Theorem canon_perm_invariant : forall (tb : table) (a b : gv), reorder a b -> canon tb a = canon tb b.
Proof. exact canon_perm_invariant_l. Qed.
Print Assumptions canon_perm_invariant.

(* The walk of the real library, with ANY functions in place of the FNV-based primitives and XOR being XOR,
   is a function of the symbolic normal form. *)
Theorem hash_factors_through_canon :
  forall fnv_str fnv_num fnv_time upd_ordered finish (tb : table) (v : gv),
    hash fnv_str fnv_num fnv_time upd_ordered finish tb v
    = evals fnv_str fnv_num fnv_time upd_ordered finish (canon tb v).
Proof. exact hash_factors_l. Qed.
Print Assumptions hash_factors_through_canon.

(* ... hence the real hash is unchanged by reordering, whatever FNV computes. *)
Theorem hash_perm_invariant :
  forall fnv_str fnv_num fnv_time upd_ordered finish (tb : table) (a b : gv), reorder a b ->
    hash fnv_str fnv_num fnv_time upd_ordered finish tb a = hash fnv_str fnv_num fnv_time upd_ordered finish tb b.
Proof.
  exact (fun f1 f2 f3 f4 f5 tb a b H =>
           same_canon_same_hash f1 f2 f3 f4 f5 tb a b (canon_perm_invariant_l tb a b H)).
Qed.
Print Assumptions hash_perm_invariant.

(* Edits of fields the walker skips (unexported, hash:"ignore") do not change the hash, at any depth, as long as
   the struct owning the field does not flip between zero and non-zero. *)
Theorem canon_ignores_skipped_fields : forall (tb : table) (a b : gv),
  ign_edit tb a b -> canon tb a = canon tb b /\ is_zero a = is_zero b.
Proof. exact ign_edit_sound. Qed.
Print Assumptions canon_ignores_skipped_fields.

(* the zero-ness proviso is automatic when another field of the struct is set (nodeClassRef is required) *)
Theorem zero_proviso_automatic : forall ty pre post fn v v',
  forallb (fun f => is_zero (snd f)) pre && forallb (fun f => is_zero (snd f)) post = false ->
  is_zero (GStruct ty (pre ++ (fn, v) :: post)) = is_zero (GStruct ty (pre ++ (fn, v') :: post)).
Proof. exact zero_guard_other. Qed.
Print Assumptions zero_proviso_automatic.

(* ... and needed: through IgnoreZeroValue an ignored field alone can make its struct non-zero
   (ExpireAfter{Raw} without Duration; requirements on an otherwise empty spec). Not reachable through the API. *)
Theorem ignored_edit_unguarded_refuted :
  exists tb ty fn v v' outer,
    attr_of tb ty fn = Ignored /\
    canon tb (GStruct outer [("F", GStruct ty [(fn, v)])]) <> canon tb (GStruct outer [("F", GStruct ty [(fn, v')])]).
Proof. exact C15.Proofs2.ignored_edit_unguarded_refuted. Qed.
Print Assumptions ignored_edit_unguarded_refuted.

(* On the REAL types (regenerated table): the paths that do not reach NodePool.Hash() are exactly the documented
   non-drifting ones, and the paths that do are exactly the remaining template fields. *)
Theorem canon_ignores_exactly_documented :
  unhashed_paths struct_table hash_root = documented_unhashed_in_template /\
  spec_fields_outside_hash struct_table = documented_outside_template /\
  hashed_paths struct_table hash_root = expected_hashed.
Proof. exact table_paths_l. Qed.
Print Assumptions canon_ignores_exactly_documented.

Theorem requirements_not_hashed : forall pre post v v',
  canon struct_table (GStruct "NodeClaimTemplateSpec" (pre ++ ("Requirements", v) :: post)) =
  canon struct_table (GStruct "NodeClaimTemplateSpec" (pre ++ ("Requirements", v') :: post)).
Proof. exact requirements_not_hashed_l. Qed.
Print Assumptions requirements_not_hashed.

(* DETECTION. Two structs that differ in what the walker sees of one field - a different hash of its value, or
   zero on one side only - hash differently, whatever the other fields hold; also through pointers and nested
   structs. (zero <-> nil changes of a field are changes of [view] too: they are detected.) *)
Theorem canon_detects : forall (tb : table) ty pre post fn v v',
  view tb ty (fn, v) <> view tb ty (fn, v') ->
  canon tb (GStruct ty (pre ++ (fn, v) :: post)) <> canon tb (GStruct ty (pre ++ (fn, v') :: post)).
Proof. exact struct_detects. Qed.
Print Assumptions canon_detects.

Theorem canon_detects_nested : forall (tb : table) a b, hashed_edit tb a b -> canon tb a <> canon tb b.
Proof. exact hashed_edit_detected. Qed.
Print Assumptions canon_detects_nested.

(* Slices are XOR-ed: a slice is seen as the multiset of its element hashes modulo 2 ... *)
Theorem slice_same_hash_iff : forall (tb : table) n n' l l',
  canon tb (GSlice n l) = canon tb (GSlice n' l') <->
  forall z, occ z (concat (map (canon tb) l)) = occ z (concat (map (canon tb) l')).
Proof. exact slice_same_iff. Qed.
Print Assumptions slice_same_hash_iff.

(* ... so element changes are detected when no element hash repeats (RuntimeValidate rejects duplicate taints) *)
Theorem slice_detects_partial : forall (tb : table) n n' l l',
  NoDup (concat (map (canon tb) l)) -> NoDup (concat (map (canon tb) l')) ->
  (canon tb (GSlice n l) = canon tb (GSlice n' l') <->
   forall z, List.In z (concat (map (canon tb) l)) <-> List.In z (concat (map (canon tb) l'))).
Proof. exact C15.Proofs2.slice_detects_partial. Qed.
Print Assumptions slice_detects_partial.

(* ... and not in general: an element added twice cancels (finding duplicate-list-elements-cancel) *)
Theorem slice_detects_refuted :
  exists tb l l', canon tb (GSlice false l) = canon tb (GSlice false l') /\
                  ~ (forall z, List.In z (concat (map (canon tb) l)) <-> List.In z (concat (map (canon tb) l'))).
Proof. exact slice_detect_refuted. Qed.
Print Assumptions slice_detects_refuted.

(* From normal forms to numbers: under the injectivity assumption on the two values compared, different normal
   forms give different hashes. [collision_free] is the ONLY assumption about FNV. *)
Theorem hash_detects :
  forall fnv_str fnv_num fnv_time upd_ordered finish (tb : table) (a b : gv),
    collision_free fnv_str fnv_num fnv_time upd_ordered finish tb a b ->
    canon tb a <> canon tb b ->
    hash fnv_str fnv_num fnv_time upd_ordered finish tb a <> hash fnv_str fnv_num fnv_time upd_ordered finish tb b.
Proof. exact diff_canon_diff_hash. Qed.
Print Assumptions hash_detects.

(* ===================================================================== drift *)

(* static drift is reported exactly for: all four annotations present, same hash version, different hash *)
Theorem drift_when_hash_differs : forall np_h np_v nc_h nc_v,
  static_drifted np_h np_v nc_h nc_v = true <->
  exists a b v, np_h = Some a /\ nc_h = Some b /\ np_v = Some v /\ nc_v = Some v /\ a <> b.
Proof. exact static_drifted_iff. Qed.
Print Assumptions drift_when_hash_differs.

Theorem hash_drift_sets_condition : forall d prev, d_launched d = true ->
  static_drifted (d_np_hash d) (d_np_ver d) (d_nc_hash d) (d_nc_ver d) = true ->
  drift_reconcile d prev = Some "NodePoolDrifted".
Proof. exact reconcile_static. Qed.
Print Assumptions hash_drift_sets_condition.

(* labels that satisfy every NodeSelectorRequirement of the pool (Kubernetes semantics) are never reported
   RequirementsDrifted *)
Theorem satisfying_labels_never_drift : forall cs l, entries_valid cs -> NoDup (map fst l) ->
  labels_satisfy cs l = true -> requirements_drifted cs l = false.
Proof. exact satisfying_labels_not_drifted. Qed.
Print Assumptions satisfying_labels_never_drift.

(* labels that stop satisfying the pool's requirements are reported - when no key's merged in-memory requirement
   forgot a demand for presence ... *)
Theorem drift_when_labels_leave_partial : forall cs l, entries_valid cs -> NoDup (map fst l) -> presence_kept cs ->
  labels_satisfy cs l = false -> requirements_drifted cs l = true.
Proof. exact labels_leave_drifted_partial. Qed.
Print Assumptions drift_when_labels_leave_partial.

Theorem labels_drift_sets_condition : forall d prev, d_launched d = true ->
  requirements_drifted (d_pool_reqs d) (d_labels d) = true -> exists r, drift_reconcile d prev = Some r.
Proof. exact reconcile_requirements. Qed.
Print Assumptions labels_drift_sets_condition.

(* ... and missed otherwise (finding requirement-intersection-forgets-presence) *)
Theorem drift_when_labels_leave_refuted :
  exists cs l, entries_valid cs /\ NoDup (map fst l) /\ labels_satisfy cs l = false /\ requirements_drifted cs l = false.
Proof. exact labels_leave_drifted_refuted. Qed.
Print Assumptions drift_when_labels_leave_refuted.

(* the hash controller: the pool ends with the current hash and version; claims of the current version are not
   touched, older ones are re-stamped unless already Drifted *)
Theorem hash_controller_pool : forall ver h pa cs, fst (hash_reconcile ver h pa cs) = (Some h, Some ver).
Proof. exact hash_reconcile_pool. Qed.
Print Assumptions hash_controller_pool.

Theorem hash_controller_claims : forall ver h pa cs,
  snd (hash_reconcile ver h pa cs) =
  if opt_str_eqb (snd pa) (Some ver) then cs
  else map (fun c => if opt_str_eqb (a_ver c) (Some ver) then c
                     else mkAnn (if a_drifted c then a_hash c else Some h) (Some ver) (a_drifted c)) cs.
Proof. exact hash_reconcile_claims. Qed.
Print Assumptions hash_controller_claims.

(* Claim creation reads the pool object: under ANY interleaving of template edits and hash-controller reconciles
   before the build, the new claim's stamp is the hash of the template it is built from, under the current version *)
Theorem stamp_is_template_hash : forall ver ops s,
  build_stamp ver (run_pool ver ops s) = (Some (current_template ops (ps_template_hash s)), Some ver).
Proof. exact stamp_is_template_hash_l. Qed.
Print Assumptions stamp_is_template_hash.

(* ... so once the hash controller has caught up (at least one reconcile, no further edit) the claim is not
   statically drifted, whatever was stamped on the pool when the claim was built *)
Theorem fresh_claim_not_static : forall ver ops s n,
  let built := run_pool ver ops s in
  let later := run_pool ver (repeat PHashCtl (S n)) built in
  static_drifted (fst (ps_ann later)) (snd (ps_ann later)) (fst (build_stamp ver built)) (snd (build_stamp ver built)) = false.
Proof. exact fresh_claim_not_static_l. Qed.
Print Assumptions fresh_claim_not_static.

(* NO SELF DRIFT (partial): see C15/DriftProofs.v for the reading of the premise *)
Theorem no_self_drift_partial : forall p pod final ver h age cached wk rk rid cat prev,
  entries_valid (p_reqs p) -> NoDup (map fst final) ->
  (forall k rb rn, Req.find k (reqs_of (p_reqs p)) = Some rb -> Req.find k (nct_reqs p pod) = Some rn ->
     match lookup k final with
     | Some v => has rn v = true
     | None => sat_undefined rb = true
     end) ->
  it_not_found wk rk rid cat final = false ->
  drift_reconcile (mkD true (Some h) (Some ver) (Some h) (Some ver) (p_reqs p) final age cached wk rk rid (Some cat) (PReason "")) prev = None.
Proof. exact C15.DriftProofs.no_self_drift_partial. Qed.
Print Assumptions no_self_drift_partial.

(* the premise holds for a custom label resolved by Any() when the requirement has no exclusion list *)
Theorem resolved_label_admitted : forall r v, wf r -> C13.Model.canon r -> ordered r -> no_exclusions r ->
  any_allows r (Some v) = true -> v <> "" -> has r v = true.
Proof. exact C15.DriftProofs.resolved_label_admitted. Qed.
Print Assumptions resolved_label_admitted.

(* the unguarded statement is false of the code, for three input shapes (all confirmed on the real code) *)
Theorem no_self_drift_refuted :
  (exists nr p claim, fresh_drifts nr p claim /\ p_labels p = [] /\ exists k, p_reqs p = [(k, (NotIn, None, ["6"])); (k, (Gt, None, ["4"])); (k, (Lt, None, ["8"]))]) /\
  (exists nr p claim, fresh_drifts nr p claim /\ exists k, p_labels p = [(k, "a")] /\ p_reqs p = [(k, (Req.In, None, ["b"]))]) /\
  (exists nr p claim, fresh_drifts nr p claim /\ p_labels p = [] /\ exists k, p_reqs p = [(k, (Req.In, None, [""]))]).
Proof.
  exact (conj (ex_intro _ _ (ex_intro _ _ (ex_intro _ _ (conj no_self_drift_refuted_any (conj eq_refl (ex_intro _ _ eq_refl))))))
        (conj (ex_intro _ _ (ex_intro _ _ (ex_intro _ _ (conj no_self_drift_refuted_template_label (ex_intro _ _ (conj eq_refl eq_refl))))))
              (ex_intro _ _ (ex_intro _ _ (ex_intro _ _ (conj no_self_drift_refuted_empty_value (conj eq_refl (ex_intro _ _ eq_refl)))))))).
Qed.
Print Assumptions no_self_drift_refuted.

(* oracles = specifications *)
Theorem pair_oracle_is_spec : forall e hash_eq, pair_holds_b e hash_eq = true <-> pair_holds e hash_eq.
Proof. exact pair_oracle_spec. Qed.
Print Assumptions pair_oracle_is_spec.

Theorem step_oracle_is_spec : forall fresh d obs, step_oracle_b fresh d obs = [] <-> step_holds fresh d obs.
Proof. exact step_oracle_spec. Qed.
Print Assumptions step_oracle_is_spec.

(* ===================================================================== non-vacuity *)
(* over the real table: a genuine reordering with equal hash, an ignored edit (requirements), a detected edit
   (taint effect), and the cancelling duplicate *)
Example hash_examples :
  reorder (spec_of [taint "a" "NoSchedule"; taint "b" "NoExecute"] (GSlice true []))
          (spec_of [taint "b" "NoExecute"; taint "a" "NoSchedule"] (GSlice true [])) /\
  conforms struct_table (spec_of [taint "a" "NoSchedule"; taint "b" "NoExecute"] (GSlice true [])) = true /\
  same_hash struct_table (spec_of [taint "a" "NoSchedule"; taint "b" "NoExecute"] (GSlice true []))
                         (spec_of [taint "b" "NoExecute"; taint "a" "NoSchedule"] (GSlice true [])) = true /\
  same_hash struct_table (spec_of [taint "a" "NoSchedule"] (GSlice true []))
                         (spec_of [taint "a" "NoSchedule"] (GSlice false [GStr "anything"])) = true /\
  same_hash struct_table (spec_of [taint "a" "NoSchedule"] (GSlice true []))
                         (spec_of [taint "a" "NoExecute"] (GSlice true [])) = false /\
  same_hash struct_table (spec_of [taint "a" "NoSchedule"; taint "a" "NoSchedule"] (GSlice true []))
                         (spec_of [] (GSlice true [])) = true.
Proof. exact hash_examples_l. Qed.

(* a pool whose requirement the node's label leaves, and one it satisfies *)
Example drift_examples :
  requirements_drifted [("topology.kubernetes.io/zone", (Req.In, None, ["z2"]))] [("topology.kubernetes.io/zone", "z1")] = true /\
  requirements_drifted [("topology.kubernetes.io/zone", (Req.In, None, ["z1"; "z2"])); ("k", (Gt, None, ["4"]))]
                       [("topology.kubernetes.io/zone", "z1"); ("k", "7")] = false /\
  presence_kept [("topology.kubernetes.io/zone", (Req.In, None, ["z2"]))].
Proof.
  split; [reflexivity|split; [reflexivity|]].
  intros k rb Hf Hs o mv vs [E|[]]. inversion E; subst. vm_compute in Hf. inversion Hf; subst. discriminate.
Qed.
