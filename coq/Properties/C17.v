(* C17 — Scarce capacity is never over-committed in a scheduling pass.
   Property theorems only; each is closed by [exact] of a lemma from C17/Proofs.v or C17/DraProofs.v.

   Vocabulary: [offs] is the list (capacity type, reservation id, reported capacity) of every offering of every
   NodePool's instance types; [spec_cap offs r] the reservation's capacity (least reported); an op [(h, cands)] is
   one pod tried on NodeClaim [h] (new if unseen) where [cands] are the reservation ids of the reserved, available
   offerings compatible with the NodeClaim after adding the pod - any list, so every bin-packing is covered. *)
From KV Require Import C17.Model C17.Spec C17.Proofs C17.DraModel C17.DraSpec C17.DraProofs.
Open Scope string_scope.
Open Scope Z_scope.

(* NewReservationManager tracks, per reservation id, the least capacity reported by any reserved offering. *)
Theorem manager_starts_at_least_capacity : forall offs r, cap (new_manager offs) r = spec_cap offs r.
Proof. exact new_caps_spec. Qed.
Print Assumptions manager_starts_at_least_capacity.

(* The manager alone, any sequence of CanReserve/Reserve/Release/HasReservation/RemainingCapacity calls (guarded or
   not) that did not hit a panic: holders <= capacity and remaining = capacity - holders, per reservation id. *)
Theorem manager_holders_le_capacity : forall offs ops hs m,
  NoDup hs -> (forall o h, In o ops -> In h (mop_hosts o) -> In h hs) ->
  mrun (new_manager offs) ops = Some m ->
  (forall h r, holds m h r = true -> In h hs) /\
  forall r c0, spec_cap offs r = Some c0 -> 0 <= c0 ->
    mholders m hs r <= c0 /\ cap m r = Some (c0 - mholders m hs r).
Proof. exact mgr_holders_le_capacity_l. Qed.
Print Assumptions manager_holders_le_capacity.

(* Scheduling pass, both modes, feature gate on or off: the panic branches are unreachable ([run] is total), the
   number of NodeClaims whose reservedOfferings contain r never exceeds r's capacity, and the capacity map equals
   capacity - holders (so it is never negative). *)
Theorem holders_le_capacity : forall gate md offs ops, caps_nonneg offs -> ops_known offs ops ->
  exists s, run gate md (init_sys offs) ops = Some s /\
    forall r c0, spec_cap offs r = Some c0 ->
      0 <= holders s r <= c0 /\ cap (s_mgr s) r = Some (c0 - holders s r).
Proof. exact holders_le_capacity_l. Qed.
Print Assumptions holders_le_capacity.

(* FinalizeScheduling pins a NodeClaim to reservation ids exactly when it holds reservations, and then to exactly
   the ids the manager records for it; pinned ids are reservations of the catalogue. *)
Theorem pinned_exactly : forall gate md offs ops s h r, caps_nonneg offs -> ops_known offs ops ->
  run gate md (init_sys offs) ops = Some s ->
  ((match pin s h with Some ids => In r ids | None => False end) <-> holds (s_mgr s) h r = true) /\
  (pin s h <> Some []) /\
  (forall ids, pin s h = Some ids -> In r ids -> spec_cap offs r <> None /\ In h (s_hosts s)).
Proof. exact pinned_exactly_l. Qed.
Print Assumptions pinned_exactly.

(* Strict mode: compatible reserved capacity exists but all of it is exhausted => the pod is deferred
   (ReservedOfferingError) and neither the manager nor any NodeClaim changes. *)
Theorem strict_defers : forall offs ops s h cands, caps_nonneg offs -> ops_known offs ops ->
  run true Strict (init_sys offs) ops = Some s ->
  cands <> [] -> Forall (fun r => spec_cap offs r <> None) cands ->
  (forall r, In r cands -> holds (s_mgr s) h r = false /\ cap (s_mgr s) r = Some 0) ->
  step true Strict s h cands = Some (s, Deferred).
Proof. exact strict_defers_l. Qed.
Print Assumptions strict_defers.

(* Strict mode: no silent fallback. Whenever a pod is placed although compatible reserved offerings exist, or on a
   NodeClaim that held reservations, the NodeClaim ends up holding (and pinned to) a non-empty subset of them. *)
Theorem strict_no_silent_fallback : forall offs ops s h cands s' ofs, caps_nonneg offs -> ops_known offs ops ->
  run true Strict (init_sys offs) ops = Some s ->
  Forall (fun r => spec_cap offs r <> None) cands ->
  step true Strict s h cands = Some (s', Placed ofs) ->
  (forall r, In r ofs -> In r cands) /\
  ((cands <> [] \/ pin s h <> None) -> ofs <> [] /\ pin s' h = Some ofs).
Proof. exact strict_no_silent_fallback_l. Qed.
Print Assumptions strict_no_silent_fallback.

(* After a placement the NodeClaim holds exactly the offerings returned by offeringsToReserve: reservations that
   the narrowed requirements no longer admit have been released. *)
Theorem placed_holds_exactly : forall gate md offs ops s h cands s' ofs, caps_nonneg offs -> ops_known offs ops ->
  run gate md (init_sys offs) ops = Some s ->
  Forall (fun r => spec_cap offs r <> None) cands ->
  step gate md s h cands = Some (s', Placed ofs) ->
  forall r, holds (s_mgr s') h r = true <-> In r ofs.
Proof. exact placed_reserves_all_reservable_l. Qed.
Print Assumptions placed_holds_exactly.

(* Scheduler.addToNewNodeClaim: the chosen template is preceded only by templates that cannot take the pod at all;
   in particular a reserved-offering error of a higher-weight NodePool is never skipped. *)
Theorem no_lower_weight_fallback : forall rs, choice_ok rs (choose_template rs 0).
Proof. exact no_lower_weight_fallback_l. Qed.
Print Assumptions no_lower_weight_fallback.

(* The claim-level model used by the correspondence check (In-requirements on zone / capacity type / instance type)
   is an instance of [step]: the theorems above apply to it with cands := cands_of ... *)
Theorem fragment_is_step : forall gate md s h fresh pod s' out,
  fstep gate md s h fresh pod = Some (s', out) ->
  match out with
  | FPlaced ofs _ cands => step gate md (fs_core s) h cands = Some (fs_core s', Placed ofs)
  | FDeferred => s' = s /\ exists cands c, step gate md (fs_core s) h cands = Some (c, Deferred)
  | FIncompatible => s' = s
  end.
Proof. exact fstep_is_step. Qed.
Print Assumptions fragment_is_step.

(* Multi-step: every sequence of pods with In-requirements on zone / capacity type / instance type over any catalogue
   of NodePool templates (reservation ids shared freely). The candidates are computed by the model (cands_of), they
   are always known to the manager, the run is total, and over-commit freedom and exact pinning hold at the end. *)
Theorem fragment_pass : forall tpls gate md ops, caps_nonneg (tpls_offs tpls) -> fops_ok tpls ops ->
  exists fs, frun gate md (finit tpls) ops = Some fs /\
    (forall r c0, spec_cap (tpls_offs tpls) r = Some c0 ->
       0 <= holders (fs_core fs) r <= c0 /\ cap (s_mgr (fs_core fs)) r = Some (c0 - holders (fs_core fs) r)) /\
    (forall h r, (match pin (fs_core fs) h with Some ids => In r ids | None => False end) <-> holds (s_mgr (fs_core fs)) h r = true).
Proof. exact fragment_pass_l. Qed.
Print Assumptions fragment_pass.

(* Pods and NodePools may themselves constrain the reservation-id label (In / NotIn / Exists). The requirement left
   on a NodeClaim that holds reservations still admits exactly the held ids, and every reservable candidate is admitted
   by the accumulated requirement. *)
Theorem final_requirement_admits_exactly_held : forall q held r, held <> [] ->
  (forall x, In x held -> radmits (f_rids q) x = true) ->
  (radmits (final_rids q held) r = true <-> In r held).
Proof. exact final_rids_exact_l. Qed.
Print Assumptions final_requirement_admits_exactly_held.

Theorem candidates_admitted : forall q its r, In r (cands_of q its) -> radmits (f_rids q) r = true.
Proof. exact cands_admitted. Qed.
Print Assumptions candidates_admitted.

(* The boolean oracles evaluated on the implementation's observations decide the specification. *)
Theorem oracle_snapshot_sound : forall offs s, snap_holds_b offs s = true <-> snap_holds offs s.
Proof. exact snap_holds_b_spec. Qed.
Print Assumptions oracle_snapshot_sound.

Theorem oracle_solve_sound : forall md offs claims s, solve_ok_b md offs claims s = true <-> solve_ok md offs claims s.
Proof. exact solve_ok_b_spec. Qed.
Print Assumptions oracle_solve_sound.

Theorem oracle_step_sound : forall md ofs cands, placed_ok_b md ofs cands = true <-> placed_ok md ofs cands.
Proof. exact placed_ok_b_spec. Qed.
Print Assumptions oracle_step_sound.

Theorem oracle_choice_sound : forall outs chosen, choice_ok_b outs chosen = true <-> choice_ok outs chosen.
Proof. exact choice_ok_b_spec. Qed.
Print Assumptions oracle_choice_sound.

(* ---- dynamic resource allocation: the tracker's exclusive-device bookkeeping (the allocator's search is not
   modelled: partial) ---- *)
(* For every sequence of Commit / ReleaseInstanceTypes / IsAllocated calls (proposals guarded by IsAllocated or
   not) that did not panic: the two device tables agree and no in-cluster device is recorded for two NodeClaims. *)
Theorem exclusive_device_single_owner_partial : forall pre ops t,
  drun (dinit pre) ops = Some t ->
  DInv t /\ forall x n it n' it', In x (t_bync t n it) -> In x (t_bync t n' it') -> n = n'.
Proof. exact drun_inv. Qed.
Print Assumptions exclusive_device_single_owner_partial.

(* Releasing an instance type never reaches the "missing reference" panics from a consistent state. *)
Theorem release_never_panics_partial : forall t n it, DInv t -> NoDup (t_bync t n it) ->
  exists t', drelease1 t n it = Some t'.
Proof. exact drelease1_total. Qed.
Print Assumptions release_never_panics_partial.

Theorem committed_device_blocks_others_partial : forall t n its t' d it,
  DInv t -> dcommit t n its = Some t' -> In (it, d) (flatten its) -> d_template d = false ->
  (forall n' it', n' <> n -> dis_allocated t' d n' it' = true) /\ dis_allocated t' d n it = true.
Proof. exact committed_blocks. Qed.
Print Assumptions committed_device_blocks_others_partial.

(* A proposal that passed the allocator's guard (IsAllocated false for every device on its instance type, no device
   twice) never reaches a panic of Commit, from any consistent tracker state. *)
Theorem guarded_commit_never_panics_partial : forall t n its, DInv t -> guarded t n its = true ->
  exists t', dcommit t n its = Some t'.
Proof. exact guarded_commit_total. Qed.
Print Assumptions guarded_commit_never_panics_partial.

(* Shared counters of partitionable devices. For every sequence of commits and instance-type releases over any
   NodeClaims in which each commit passed the allocator's counter check in the state it was applied to: the remaining
   budget never goes below zero, and what has been deducted is exactly the sum over NodeClaims of the largest
   consumption among the instance types the NodeClaim still spans (so release restores precisely). Partial: that the
   allocator only proposes commits passing the check is validated on the real Allocator, not proved. *)
Theorem counters_nonnegative_partial : forall rem0 ns ops, NoDup ns -> (forall o, In o ops -> In (lop_nc o) ns) ->
  (forall k, 0 <= rem0 k) -> lguarded rem0 linit ops ->
  forall k, 0 <= rem0 k - l_used (lrun ops) k /\ l_used (lrun ops) k = lsum (fun n => pmax (lrun ops) n k) ns.
Proof. exact counters_nonnegative_l. Qed.
Print Assumptions counters_nonnegative_partial.

(* Consumable capacity of multi-allocatable devices: preallocated + in-flight never exceeds the device capacity. *)
Theorem capacity_within_partial : forall capacity pre ns ops, NoDup ns -> (forall o, In o ops -> In (lop_nc o) ns) ->
  (forall k, 0 <= pre k <= capacity k) -> lguarded (fun k => capacity k - pre k) linit ops ->
  forall k, pre k + l_used (lrun ops) k <= capacity k /\ 0 <= l_used (lrun ops) k /\
            l_used (lrun ops) k = lsum (fun n => pmax (lrun ops) n k) ns.
Proof. exact capacity_within_l. Qed.
Print Assumptions capacity_within_partial.

(* The tracker applies the counter ledger and the capacity ledger component-wise to its commits and releases. *)
Theorem tracker_applies_ledgers : forall ops x x', xrun x ops = Some x' ->
  x_cnt x' = fold_left lstep (flat_map xop_cnt ops) (x_cnt x) /\ x_cap x' = fold_left lstep (flat_map xop_cap ops) (x_cap x).
Proof. exact xrun_ledgers. Qed.
Print Assumptions tracker_applies_ledgers.

Theorem oracle_final_sound : forall pre budgets tbudgets recs,
  final_ok_b pre budgets tbudgets recs = true <-> final_ok pre budgets tbudgets recs.
Proof. exact final_ok_b_spec. Qed.
Print Assumptions oracle_final_sound.

Theorem oracle_budgets_sound : forall rem infl capb tused tb,
  budgets_ok_b rem infl capb tused tb = true <-> budgets_ok rem infl capb tused tb.
Proof. exact budgets_ok_b_spec. Qed.
Print Assumptions oracle_budgets_sound.

(* Allocator.ClassifyClaims: a claim already allocated by an earlier pod of the pass is never searched again, also
   when it is allocated in-cluster and reserved only by pods that are being deleted (F-C17-1, fixed by 4c084d0ce). *)
Theorem claim_allocated_once_per_pass : forall alloc only_deleting, classify alloc only_deleting true <> CUnalloc.
Proof. exact allocated_once_l. Qed.
Print Assumptions claim_allocated_once_per_pass.

Theorem claim_allocated_once_per_pass_before_fix_refuted :
  exists alloc only_deleting, classify_before_fix alloc only_deleting true = CUnalloc.
Proof. exact allocated_once_before_fix_refuted_l. Qed.
Print Assumptions claim_allocated_once_per_pass_before_fix_refuted.

Theorem migrating_claim_reallocated_exactly_once : classify true true false = CUnalloc /\ classify true true true = CInMemory.
Proof. exact migrating_claim_reallocated_first_l. Qed.
Print Assumptions migrating_claim_reallocated_exactly_once.

(* Non-vacuity: a pass in which a second NodeClaim is deferred in strict mode and falls back otherwise, a release by
   narrowing that lets another NodeClaim acquire the reservation, a pool pair reporting different capacities. *)
Example strict_pass :
  let offs := [("reserved", "r1", 1); ("reserved", "r1", 2); ("on-demand", "", 0); ("reserved", "r2", 1)] in
  spec_cap offs "r1" = Some 1 /\
  (match run true Strict (init_sys offs) [("a", ["r1"; "r2"]); ("b", ["r1"])] with
   | Some s => (holders s "r1", holders s "r2", pin s "a", pin s "b")
   | None => (0, 0, None, None) end) = (1, 1, Some ["r1"; "r2"], None) /\
  (match run true Strict (init_sys offs) [("a", ["r1"; "r2"])] with
   | Some s => option_map snd (step true Strict s "b" ["r1"]) | None => None end) = Some Deferred /\
  (match run true Fallback (init_sys offs) [("a", ["r1"; "r2"])] with
   | Some s => option_map snd (step true Fallback s "b" ["r1"]) | None => None end) = Some (Placed []).
Proof. vm_compute. repeat split; reflexivity. Qed.

Example narrowing_releases :
  let offs := [("reserved", "r1", 1); ("reserved", "r2", 1)] in
  (match run true Strict (init_sys offs) [("a", ["r1"; "r2"]); ("a", ["r2"]); ("b", ["r1"])] with
   | Some s => (pin s "a", pin s "b", cap (s_mgr s) "r1", cap (s_mgr s) "r2")
   | None => (None, None, None, None) end) = (Some ["r2"], Some ["r1"], Some 0, Some 0).
Proof. vm_compute. reflexivity. Qed.

Example dra_example :
  let c1 := DCommit "n1" [("a", [mkDev "d1" false]); ("b", [mkDev "d1" false])] in
  (match drun (dinit ["d4"]) [c1] with
   | Some t => (dis_allocated t (mkDev "d1" false) "n2" "a", dis_allocated t (mkDev "d1" false) "n1" "c",
                dis_allocated t (mkDev "d4" false) "n1" "a")
   | None => (false, false, false) end) = (true, false, true) /\
  drun (dinit []) [c1; DCommit "n2" [("a", [mkDev "d1" false])]] = None /\
  (match drun (dinit []) [c1; DRelease "n1" ["a"; "b"]] with
   | Some t => dis_allocated t (mkDev "d1" false) "n2" "a" | None => true end) = false.
Proof. vm_compute. repeat split; reflexivity. Qed.

Example ledger_example :
  (* n1 spans a and b and consumes 3 on a, 1 on b: 3 is charged; n2 consumes 2; releasing a from n1 refunds 2 *)
  let ops := [LCommit "n1" [("a", [("k", 3)]); ("b", [("k", 1)])]; LCommit "n2" [("a", [("k", 2)])]] in
  l_used (lrun ops) "k" = 5 /\ l_used (lrun (ops ++ [LRelease "n1" ["a"]])) "k" = 3 /\
  lguard_b (fun _ => 5) ["k"] (lrun ops) [("a", [("k", 1)])] = false /\
  consumed_capacity (Some 4) 16 (Some (mkPol None (Some (Some 1, Some 9, Some 2)) [])) = 5 /\
  violates_policy 11 (Some (mkPol None (Some (Some 1, Some 9, Some 2)) [])) = true.
Proof. vm_compute. repeat split; reflexivity. Qed.

Example final_example :
  final_ok_b [] [("k", 4)] []
    [mkRec "c1" "n1" "a" "d" false true [("k", 3)]; mkRec "c2" "n2" "a" "e" false true [("k", 2)]] = false /\
  final_ok_b [] [("k", 4)] []
    [mkRec "c1" "n1" "a" "d" false true [("k", 3)]; mkRec "c1" "n1" "b" "e" false true [("k", 4)]] = true /\
  final_ok_b [] [] [] [mkRec "c1" "n1" "a" "d" false true []; mkRec "c2" "n2" "a" "d" false true []] = false.
Proof. vm_compute. repeat split; reflexivity. Qed.

Example choice_example :
  choose_template [TOther; TOk; TReserved] 0 = Some 1%nat /\ choose_template [TOther; TReserved; TOk] 0 = None.
Proof. vm_compute. split; reflexivity. Qed.
