(* C06 — Consolidation keeps pods schedulable and strictly lowers cost.
   Property theorems only; each is closed by [exact] of a lemma from C06/Proofs.v.
   The model (C06/Model.v) is the code's decision logic after Scheduler.Solve: Solve's result is an arbitrary input
   [s : sim] (its soundness is C01), as are the catalog, the candidates and the requirements. Premises:
     sim_ok s               the NodeClaim requirement maps satisfy the representation invariants of C12
     wf_sim s               a pod placed on new NodeClaim i refers to an existing NodeClaim (Solve's contract)
     sim_reserved_pinned s  an available compatible reserved offering only if the scheduler pinned the NodeClaim to
                            its reservation (fails exactly for the finding "reserved-offering-priced-but-not-reserved") *)
From KV Require Import Base.ReqProofs C06.Model C06.Spec C06.Proofs.
Open Scope string_scope.
Open Scope list_scope.
Open Scope Z_scope.

(* Every instance type of a replacement has a worst-case launch price (over the available offerings compatible with
   the FINAL requirements, in the capacity type the launch will use) strictly below the summed candidate prices. *)
Theorem replacement_strictly_cheaper_partial :
  forall flag cands s r opts, compute flag cands s = Replace r opts -> sim_ok s -> sim_reserved_pinned s ->
  forall it, List.In it opts -> cheaper r (sum_prices cands) it.
Proof. exact replacement_strictly_cheaper_partial_l. Qed.
Print Assumptions replacement_strictly_cheaper_partial.

(* Without the guard the statement fails: a reserved offering that was priced but never reserved (finding). *)
Theorem replacement_strictly_cheaper_refuted :
  exists flag cands s r opts it,
    compute flag cands s = Replace r opts /\ sim_ok s /\ wf_sim s /\ List.In it opts /\ ~ cheaper r (sum_prices cands) it.
Proof. exact replacement_strictly_cheaper_refuted_l. Qed.
Print Assumptions replacement_strictly_cheaper_refuted.

(* No on-demand offering the replacement request could fall back to costs as much as the nodes it replaces
   (for every command, hence in particular when an on-demand node is removed). *)
Theorem no_od_fallback_partial :
  forall flag cands s r opts, compute flag cands s = Replace r opts -> sim_ok s -> sim_reserved_pinned s ->
  forall it, List.In it opts -> od_safe r (sum_prices cands) it.
Proof. exact no_od_fallback_partial_l. Qed.
Print Assumptions no_od_fallback_partial.

Theorem no_od_fallback_refuted :
  exists flag cands s r opts it,
    compute flag cands s = Replace r opts /\ sim_ok s /\ wf_sim s /\ List.In it opts /\ ~ od_safe r (sum_prices cands) it.
Proof. exact no_od_fallback_refuted_l. Qed.
Print Assumptions no_od_fallback_refuted.

(* Spot-to-spot: if every removed node is spot and the request may launch spot, the feature is enabled and, for a
   single candidate, at least 15 cheaper instance types are sent. *)
Theorem spot_to_spot_guarded :
  forall flag cands s r opts, compute flag cands s = Replace r opts -> s2s_ok flag (map c_ct cands) r (length opts).
Proof. exact spot_to_spot_guarded_l. Qed.
Print Assumptions spot_to_spot_guarded.

(* ... the request is pinned to spot (it cannot launch anything else), and without minValues exactly 15 types remain. *)
Theorem spot_to_spot_request :
  forall flag cands s r opts nc, compute flag cands s = Replace r opts -> s_new s = [nc] ->
  (forall c, List.In c cands -> c_ct c = ct_spot) -> has (get (nc_reqs nc) ct_key) ct_spot = true ->
  r = pin_spot (nc_reqs nc) /\ (forall v, has (get r ct_key) v = true -> v = ct_spot) /\
  (length cands = 1%nat -> has_min_values r = false -> length opts = min_spot_to_spot).
Proof. exact spot_to_spot_request_l. Qed.
Print Assumptions spot_to_spot_request.

(* A command (Delete or Replace) is only produced when every pod of the candidates was placed by the simulation on an
   initialized remaining node or on the single replacement; at most one replacement exists. *)
Theorem pods_have_home :
  forall flag cands s, compute flag cands s <> NoOp -> wf_sim s ->
  (length (s_new s) <= 1)%nat /\
  forall p, List.In p (s_pods s) -> pp_origin p = OnCandidate -> good_place (length (s_new s)) (pp_where p) = true.
Proof. exact pods_have_home_l. Qed.
Print Assumptions pods_have_home.

(* Nodes are deleted as empty exactly when no reschedulable pod on them has a positive eviction cost. *)
Theorem empty_means_no_positive_cost :
  forall cs c, List.In c (emptiness cs) <-> List.In c cs /\ forall p, List.In p (c_pods c) -> p <= 0.
Proof. exact empty_means_no_positive_cost_l. Qed.
Print Assumptions empty_means_no_positive_cost.

(* With positive eviction costs (the default is 1.0) a node deleted as empty runs no reschedulable pod at all. *)
Theorem emptiness_positive_costs_no_pods :
  forall cs c, (forall p, List.In p (c_pods c) -> 0 < p) -> List.In c (emptiness cs) -> c_pods c = [].
Proof. exact emptiness_no_pods_partial_l. Qed.
Print Assumptions emptiness_positive_costs_no_pods.

(* For ANY evaluator [ap] (the no-op one, or the balanced one of Balanced NodePools, which can only reject):
   The multi-node search (binary search over prefixes, same-type filter) only returns a command that one of its probes
   produced, for a prefix of at least two candidates; the price guarantees carry over to the filtered option list. *)
Theorem multi_node_strictly_cheaper_partial :
  forall ap flag cs sims k r opts,
  first_n_ev ap flag cs sims = Some (k, Replace r opts) -> sim_ok (sims k) -> sim_reserved_pinned (sims k) ->
  forall it, List.In it opts -> cheaper r (sum_prices (firstn k cs)) it /\ od_safe r (sum_prices (firstn k cs)) it.
Proof. exact multi_strictly_cheaper_partial_l. Qed.
Print Assumptions multi_node_strictly_cheaper_partial.

Theorem multi_node_pods_have_home :
  forall ap flag cs sims k d, first_n_ev ap flag cs sims = Some (k, d) -> wf_sim (sims k) ->
  (2 <= k)%nat /\ (length (s_new (sims k)) <= 1)%nat /\
  forall p, List.In p (s_pods (sims k)) -> pp_origin p = OnCandidate ->
    good_place (length (s_new (sims k))) (pp_where p) = true.
Proof. exact multi_pods_have_home_l. Qed.
Print Assumptions multi_node_pods_have_home.

(* The single-node loop returns the decision computed for one of the candidates it tried. *)
Theorem single_node_command :
  forall ap can_pass flag l c d, single_ev ap can_pass flag l = Some (c, d) -> exists s, List.In (c, s) l /\ compute flag [c] s = d /\ d <> NoOp.
Proof. exact single_inv. Qed.
Print Assumptions single_node_command.

(* Validation accepts a command only if, in the re-simulation, all pods are scheduled, the number of new NodeClaims is
   what the command expects, and the command's instance types are a subset of the re-simulated ones. *)
Theorem validation_subset :
  forall nrepl repl s, validate_command nrepl repl s = true ->
  all_scheduled s = true /\
  match s_new s with
  | [] => nrepl = 0%nat
  | [nc] => nrepl <> 0%nat /\ incl repl (map it_name (nc_opts nc))
  | _ => False
  end.
Proof. exact validate_command_l. Qed.
Print Assumptions validation_subset.

(* A command that passes validation after the TTL: the candidates were rebuilt from the current cluster state, none is
   missing or nominated, and every pod bound to a candidate AT VALIDATION TIME ([expect], covered by the re-simulation) is
   placed on an initialized remaining node or the single replacement; the replacement's types are among the re-simulated. *)
Theorem validated_command_pods_have_home :
  forall present nominated budget_ok nrepl repl s expect,
  validate present nominated budget_ok nrepl repl s = true -> wf_sim s -> covers expect s ->
  present = true /\ nominated = false /\
  (length (s_new s) <= 1)%nat /\ (nrepl = 0%nat <-> s_new s = []) /\
  (forall nc, s_new s = [nc] -> incl repl (map it_name (nc_opts nc))) /\
  forall id, List.In id expect ->
    exists p, List.In p (s_pods s) /\ pp_id p = id /\ good_place (length (s_new s)) (pp_where p) = true.
Proof. exact validated_command_pods_have_home_l. Qed.
Print Assumptions validated_command_pods_have_home.

(* validation maps the proposal onto the CURRENT candidate objects (not the ones captured when it was computed) *)
Theorem validation_uses_current_candidates :
  forall proposed current c, List.In c (map_candidates proposed current) -> List.In c current /\ mem (c_name c) proposed = true.
Proof. exact map_candidates_current. Qed.
Print Assumptions validation_uses_current_candidates.

(* an Emptiness command that passes validation keeps only proposed nodes that are empty NOW and not nominated *)
Theorem validated_emptiness :
  forall proposed current names, validate_empty proposed current = Some names ->
  forall n, List.In n names -> exists c nom, List.In (c, nom) current /\ c_name c = n /\ mem n proposed = true /\
     nom = false /\ forall p, List.In p (c_pods c) -> p <= 0.
Proof. exact validate_empty_l. Qed.
Print Assumptions validated_emptiness.

(* The oracles evaluated on the implementation's commands are the specification. *)
Theorem oracle_strictly_cheaper : forall cat cp c, cheaper_cmd_b cat cp c = true <-> cheaper_cmd cat cp c.
Proof. exact cheaper_cmd_b_iff. Qed.
Print Assumptions oracle_strictly_cheaper.
Theorem oracle_od_fallback : forall cat cp c, od_cmd_b cat cp c = true <-> od_cmd cat cp c.
Proof. exact od_cmd_b_iff. Qed.
Print Assumptions oracle_od_fallback.
Theorem oracle_spot_to_spot : forall flag cts c, s2s_cmd_b flag cts c = true <-> s2s_cmd flag cts c.
Proof. exact s2s_cmd_b_iff. Qed.
Print Assumptions oracle_spot_to_spot.
Theorem oracle_pods_have_home : forall o, home_b o = true <-> home o.
Proof. exact home_b_iff. Qed.
Print Assumptions oracle_pods_have_home.
Theorem oracle_empty : forall cs, empty_b cs = true <-> empty_ok cs.
Proof. exact empty_b_iff. Qed.
Print Assumptions oracle_empty.

(* The price filter is the specification's notion of "worst-case launch price strictly below". *)
Theorem price_filter_sound : forall r cp it, plt (launch_price r it) (Some cp) = true -> cheaper r cp it.
Proof. exact price_filter_cheaper. Qed.
Print Assumptions price_filter_sound.

(* ---- non-vacuity ---- *)
Definition ex_t (n : string) (p : Z) : itype := mkIT n [mkOff ct_spot "z1" None p true; mkOff ct_od "z1" None (p + 2000) true] [].
Definition ex_cand : cand := mkCand "n0" "c0" ct_od "z1" None [mkOff ct_od "z1" None 4096 true] [two27].
Definition ex_reqs : reqs := [(ct_key, new_req In None [ct_spot; ct_od])].
Definition ex_sim : sim := mkSim [mkPP 0 OnCandidate (PNew 0)] [mkNC ex_reqs [ex_t "a" 1000; ex_t "b" 4095; ex_t "c" 4096]].

(* an on-demand node at 4096: types a (spot 1000) and b (spot 4095) are kept, c (spot 4096, not strictly cheaper) is not;
   the request is pinned to spot; all premises of the partial theorems hold *)
Example replace_example :
  compute false [ex_cand] ex_sim = Replace (pin_spot ex_reqs) [ex_t "a" 1000; ex_t "b" 4095] /\
  cheaper_b (pin_spot ex_reqs) 4096 (ex_t "b" 4095) = true /\ cheaper_b (pin_spot ex_reqs) 4096 (ex_t "c" 4096) = false /\
  od_safe_b ex_reqs 4096 (ex_t "a" 1000) = true /\ od_safe_b ex_reqs 4096 (ex_t "b" 4095) = false.
Proof. vm_compute. repeat split; reflexivity. Qed.

Example replace_example_guard : sim_ok ex_sim /\ sim_reserved_pinned ex_sim /\ wf_sim ex_sim.
Proof.
  split; [|split].
  - intros nc [<-|[]]. split.
    + intros k r [E|[]]. inversion E. split; exact I.
    + unfold nodup_keys. simpl. repeat constructor. simpl. tauto.
  - intros nc [<-|[]] it o Hit Ho Hc. exfalso.
    apply usable_In in Ho as (Ho & _ & _).
    destruct Hit as [<-|[<-|[<-|[]]]]; simpl in Ho; destruct Ho as [<-|[<-|[]]]; discriminate Hc.
  - intros p i [<-|[]] [= <-]. simpl. auto.
Qed.

(* spot-to-spot with the feature off is refused; an unschedulable candidate pod blocks every decision *)
Example spot_to_spot_flag_example :
  let c := mkCand "n0" "c0" ct_spot "z1" None [mkOff ct_spot "z1" None 4096 true] [two27] in
  compute false [c] ex_sim = NoOp /\
  compute true [c] (mkSim [mkPP 0 OnCandidate PErr] []) = NoOp /\
  compute true [c] (mkSim [mkPP 0 OnCandidate (PExisting "m" false)] []) = NoOp /\
  compute true [c] (mkSim [mkPP 0 OnCandidate (PExisting "m" true); mkPP 1 Pending PErr] []) = Delete.
Proof. vm_compute. repeat split; reflexivity. Qed.

Example emptiness_boundary :
  eviction_cost (-134217728) 0 = 0 /\ eviction_cost (-134217727) 0 = 1 /\ eviction_cost 0 0 = two27 /\
  is_empty (mkCand "n" "c" ct_od "z" None [] [eviction_cost (-134217728) 0]) = true /\
  is_empty (mkCand "n" "c" ct_od "z" None [] [eviction_cost (-134217727) 0]) = false.
Proof. exact emptiness_zero_cost_boundary_l. Qed.
