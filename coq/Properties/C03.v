(* C03 — NodePool limits and static node caps are never exceeded.
   Property theorems only; each is closed by [exact] of a lemma from C03/Proofs*.v. *)
From KV Require Import C03.Model C03.Proofs C03.Proofs1 C03.Proofs2 C03.Check C03.Proofs3 C03.Proofs4.
Open Scope Z_scope.

(* ---------------------------------------------------------------- static pools: the bookkeeping *)

(* The bookkeeping never crashes the controller: no NodePoolState call panics, on any state
   (reachable or not), hence on every interleaving of calls. *)
Theorem static_ops_total : forall (s : st) (o : op), step s o <> Panic.
Proof. exact step_total. Qed.
Print Assumptions static_ops_total.

Theorem static_run_total : forall (ops : list op) (s : st), run_gen true s ops <> None.
Proof. exact run_total. Qed.
Print Assumptions static_run_total.

(* F4 (fixed in /repo by 644f10eaa): on the former code Reserve; UpdateNodeClaim; Cleanup; Release panics. *)
Theorem static_ops_total_prefix_refuted :
  run_gen false st0 [OReserve 1%nat 5 2; OUpdate 1%nat 1%nat false; OCleanup 1%nat; ORelease 1%nat 1] = None.
Proof. exact prefix_panics. Qed.
Print Assumptions static_ops_total_prefix_refuted.

(* ReserveNodeCount: for a non-negative request the grant is in [0, wanted], the claim sets are
   untouched, and tracked + reserved never passes the limit through a grant. *)
Theorem reserve_bound : forall (s : st) (np : name) (l w : Z) (s' : st) (g : Z),
  reserve s np l w = Ok s' g -> 0 <= w ->
  0 <= g <= w /\
  cnt s' np = cnt s np /\
  reserved s' np = reserved s np + g /\
  (0 < g -> cnt s' np + reserved s' np <= l) /\
  (cnt s np + reserved s np <= l -> cnt s' np + reserved s' np <= l).
Proof. exact reserve_bound_l. Qed.
Print Assumptions reserve_bound.

(* Cleanup(nc) forgets only nc: no other tracked claim (active, deleting or pending disruption) of any
   pool and no reservation is lost. *)
Theorem cleanup_keeps_tracked : forall (s : st) (nc : name) (s' : st) (o : Z),
  cleanup_gen true s nc = Ok s' o ->
  (forall p, reserved s' p = reserved s p) /\
  (forall p c, c <> nc -> known s' p c = known s p c).
Proof. exact cleanup_effect. Qed.
Print Assumptions cleanup_keeps_tracked.

(* F5 (fixed in /repo by 644f10eaa): the former Cleanup dropped a pending-disruption sibling. *)
Theorem cleanup_keeps_tracked_prefix_refuted :
  exists s, run_gen false st0 [OUpdate 1%nat 1%nat false; OUpdate 1%nat 2%nat false; OMark KPending 1%nat 1%nat; OCleanup 2%nat] = Some s /\
            known s 1%nat 1%nat = false /\ counts s 1%nat = (0, 0, 0).
Proof. exact prefix_cleanup_loses_pending. Qed.
Print Assumptions cleanup_keeps_tracked_prefix_refuted.

(* ---------------------------------------------------------------- static pools: the node cap *)

(* For every node limit L and EVERY interleaving of provisioning reconciles, static-drift command
   computations, NodeClaim creations (successful or failed), in-line and informer state updates,
   releases, API deletions, delete events, disruption marks, deprovisioning reconciles (any victims) and
   process RESTARTS (NodePoolState and in-flight work lost, informers replay, reconciles gated on
   Cluster.Synced): nothing panics, and the NodeClaims of a
   pool that exist in the API plus the creations already granted never exceed the pool's node limit. *)
Theorem static_cap : forall (L : name -> Z), (forall np, 0 <= L np) ->
  forall (ops : list sop) (np : name),
    crashed (srun L ops) = false /\
    api_count (srun L ops) np + granted_count (srun L ops) np <= L np.
Proof. exact static_cap_l. Qed.
Print Assumptions static_cap.

(* The invariant behind it is inductive from any state that satisfies it (e.g. a synced restart). *)
Theorem static_cap_step : forall (L : name -> Z) (s : sys) (o : sop), inv L s -> inv L (sstep L s o).
Proof. exact inv_step. Qed.
Print Assumptions static_cap_step.

(* A static provisioning reconcile on a pool with nothing reserved is granted
   min(replicas - active, limit - tracked), clamped at 0; with enough headroom the pool reaches the
   replica count exactly, and the grant never passes the node limit. *)
Theorem static_provision_grant : forall (s : st) (np : name) (l r a d p : Z),
  counts s np = (a, d, p) -> reserved s np = 0 -> a + p < r ->
  exists s' g, reserve s np l (r - a) = Ok s' g /\
    g = Z.max 0 (Z.min (r - a) (l - (a + d + p))) /\
    counts s' np = (a, d, p) /\ reserved s' np = g /\
    (r + d + p <= l -> a + g = r) /\
    (0 <= p -> 0 <= l - (a + d + p) -> a + d + p + g <= l).
Proof. exact provision_grant_l. Qed.
Print Assumptions static_provision_grant.

(* static_fixpoint (scale-up half): on a quiescent pool (nothing reserved, nothing deleting or pending) with
   active <= replicas <= node limit, ONE provisioning reconcile whose creates succeed reaches exactly the
   replica count with nothing left reserved, and any further provisioning or deprovisioning reconcile
   leaves the state unchanged. (Scale-down: Example deprov_example below; the real controllers are
   driven to the fixpoint in part D of the harness.) *)
Theorem static_fixpoint : forall s np l r a names names' victims,
  np <> 0%nat -> counts s np = (a, 0, 0) -> reserved s np = 0 -> a <= r -> r <= l ->
  NoDup names -> (forall c, In c names -> known s np c = false) -> r - a <= Z.of_nat (List.length names) ->
  let s1 := prov_reconcile s np l r names in
  counts s1 np = (r, 0, 0) /\ reserved s1 np = 0 /\
  prov_reconcile s1 np l r names' = s1 /\ deprov_reconcile s1 np r victims = s1.
Proof. exact static_fixpoint_up_l. Qed.
Print Assumptions static_fixpoint.

(* int64: under these bounds no intermediate value of Reserve/ReleaseNodeCount leaves the int64 range, so the
   model's unbounded arithmetic is the code's. The generators stay inside them (limits <= 6 or MaxInt64,
   requests in [-2, 3], negative requests never together with the MaxInt64 limit). *)
Theorem reserve_no_wrap : forall l c R w,
  0 <= l < 2 ^ 63 -> 0 <= c <= 2 ^ 32 -> 0 <= R <= 2 ^ 61 -> - 2 ^ 61 <= w <= 2 ^ 61 ->
  in64 (l - c) /\ in64 (l - c - R) /\
  in64 (R + (if l - c - R <? w then l - c - R else w)) /\ in64 (R - w).
Proof. exact reserve_no_wrap_l. Qed.
Print Assumptions reserve_no_wrap.

(* ---------------------------------------------------------------- resource limits *)

(* The property at full strength — every limited resource, every launch choice, no guard on the
   catalog — is FALSE on the code as it is: known finding F12 (offering CapacityOverride). *)
Theorem pass_within_limits_refuted : ~ pass_within_limits_stmt.
Proof. exact pass_within_limits_refuted_l. Qed.
Print Assumptions pass_within_limits_refuted.

(* the witness: limits.cpu = 8, base capacity 4, an available offering with CapacityOverride cpu = 16 *)
Theorem pass_within_limits_override_refuted :
  exists r', run_pass (remaining0 w_ov_limits []) [[w_ov_it]] = Some r' /\
    launches [[w_ov_it]] w_ov_launched /\
    (forall opts it, In opts [[w_ov_it]] -> In it opts -> it_nonneg it) /\
    within_b w_ov_limits [] w_ov_launched = false.
Proof. exact pass_override_refuted_l. Qed.
Print Assumptions pass_within_limits_override_refuted.

(* F11 (fixed in /repo by 1e4ed4d16): with the former subtractMax a pool with limits.nodes = 2 admitted
   three NodeClaims in one pass and exceeded the limit; the present function refuses the third. *)
Theorem pass_within_limits_nodes_prefix_refuted :
  (exists r', run_pass_prefix (remaining0 w_nodes_limits []) w_nodes_claims = Some r') /\
  launches w_nodes_claims w_nodes_launched /\
  within_b w_nodes_limits [] w_nodes_launched = false /\
  run_pass (remaining0 w_nodes_limits []) w_nodes_claims = None.
Proof. exact pass_nodes_prefix_refuted_l. Qed.
Print Assumptions pass_within_limits_nodes_prefix_refuted.

(* For EVERY limited resource, "nodes" included: one pass keeps usage within the limit (or where it
   was) for ANY number of NodeClaims, ANY option sets that survive the filter and ANY launch choice.
   Guards ([claims_ok]): capacities are non-negative, no offering raises a resource above the base
   capacity (F12), instance types report no "nodes" capacity; and the node headroom is a whole number. *)
Theorem pass_within_limits_partial : forall limits existing claims r' launched k,
  run_pass (remaining0 limits existing) claims = Some r' ->
  launches claims launched -> claims_ok claims ->
  has k limits = true -> whole k (get k limits - sum_get k existing) ->
  sum_get k existing + sum_get k (map node_cap launched) <= Z.max (get k limits) (sum_get k existing).
Proof. exact pass_within_limits_partial_l. Qed.
Print Assumptions pass_within_limits_partial.

(* However many synced rounds it takes, with nodes disappearing in between; for "nodes" every node
   counts as one node and the limit is a whole number. *)
Theorem rounds_within_limits_partial : forall limits ex ex' k,
  rounds limits ex ex' -> has k limits = true -> whole_nodes k limits ex ->
  sum_get k ex <= get k limits -> sum_get k ex' <= get k limits.
Proof. exact rounds_within_limits_partial_l. Qed.
Print Assumptions rounds_within_limits_partial.

(* A rolled-back disruption command gives every surviving candidate back to the limits: after
   UnmarkForDeletion(l) no tracked id of l is marked, wherever it stands in l and whatever else l holds
   (ids that are no longer tracked included); ids outside l keep their marking. *)
Theorem unmark_clears : forall (s : mst) (l : list name) (x : name),
  (In x l -> mem x (m_tracked s) = true -> mem x (m_marked (mstep s (MUnmark l))) = false) /\
  (~ In x l -> mem x (m_marked (mstep s (MUnmark l))) = mem x (m_marked s)).
Proof. exact unmark_clears_l. Qed.
Print Assumptions unmark_clears.

(* Over every mark / unmark / removal history only tracked nodes are marked. *)
Theorem marked_tracked : forall (h : list mop) (tracked : list name) (x : name),
  mem x (m_marked (mrun tracked h)) = true -> mem x (m_tracked (mrun tracked h)) = true.
Proof. exact marked_tracked_l. Qed.
Print Assumptions marked_tracked.

(* The last guard before each create. *)
Theorem exceeded_by_iff : forall limits usage,
  exceeded_by (Some limits) usage = true <->
  exists k u, In (k, u) usage /\ has k limits = true /\ get k limits < u.
Proof. exact exceeded_by_spec. Qed.
Print Assumptions exceeded_by_iff.

(* The boolean oracle evaluated on the implementation's observations is the Prop spec. *)
Theorem oracle_within_iff : forall limits existing launched,
  within_b limits existing launched = true <-> within limits existing launched.
Proof. exact within_b_spec. Qed.
Print Assumptions oracle_within_iff.

Theorem oracle_reserve_iff : forall pools np l w after d,
  0 <= w -> dump_of pools after np = Some d ->
  (reserve_ok pools (OReserve np l w) after = true <->
   0 <= o_out after <= w /\ (0 < o_out after -> d_cnt d + d_res d <= l)).
Proof. exact reserve_ok_spec. Qed.
Print Assumptions oracle_reserve_iff.

(* ---------------------------------------------------------------- non-vacuity *)
Open Scope string_scope.

(* a pass with two NodeClaims and real exclusions: cpu limit 10, types of 2 and 8 cpu *)
Example pass_example :
  run_pass (remaining0 [("cpu", 10000)] [[("cpu", 2000); ("nodes", 1000)]])
           [[mkIT [("cpu", 2000)] [[]]; mkIT [("cpu", 8000)] [[]]]; [mkIT [("cpu", 2000)] [[]]]]
  = None /\
  run_pass (remaining0 [("cpu", 12000)] [[("cpu", 2000); ("nodes", 1000)]])
           [[mkIT [("cpu", 2000)] [[]]; mkIT [("cpu", 8000)] [[]]]; [mkIT [("cpu", 2000)] [[]]]]
  = Some [("cpu", 0)].
Proof. vm_compute. split; reflexivity. Qed.

(* a protocol history that reaches the cap: limit 2, replicas 3 -> two grants, two NodeClaims, a third
   reconcile is granted nothing; pending disruption + deletion of the other claim keeps the count *)
Example static_example :
  let L := fun _ : name => 2 in
  let s := srun L [ProvBegin 1%nat 3; TkCreate 0 true; TkUpdate 0; TkRelease 0; TkCreate 1 true; TkUpdate 1; TkRelease 1;
                   ProvBegin 1%nat 3; SMark KPending 1%nat 1%nat; ApiRemove 2%nat; InfDelete 2%nat; ProvBegin 1%nat 3] in
  api_count s 1%nat = 1 /\ granted_count s 1%nat = 1 /\ counts (nps s) 1%nat = (0, 0, 1) /\ reserved (nps s) 1%nat = 1.
Proof. vm_compute. repeat split. Qed.

(* the node limit inside one pass: limits.nodes = 2 admits two NodeClaims and refuses a third *)
Example nodes_example :
  run_pass (remaining0 [("nodes", 2000)] []) [[mkIT [("cpu", 2000)] [[]]]; [mkIT [("cpu", 2000)] [[]]]] = Some [("nodes", 0)] /\
  run_pass (remaining0 [("nodes", 2000)] []) [[mkIT [("cpu", 2000)] [[]]]; [mkIT [("cpu", 2000)] [[]]]; [mkIT [("cpu", 2000)] [[]]]] = None.
Proof. vm_compute. split; reflexivity. Qed.

(* the history of the seeded change C03-2: two candidates marked, the first vanishes, rollback *)
Example unmark_example :
  m_marked (mrun [1; 2; 3]%nat [MMark [1; 2]%nat; MRemove 1%nat; MUnmark [1; 2]%nat]) = [] /\
  m_marked (mrun [1; 2; 3]%nat [MMark [1; 2; 3]%nat; MRemove 1%nat; MUnmark [9; 1; 2]%nat]) = [3%nat].
Proof. vm_compute. split; reflexivity. Qed.

(* scale-down to the fixpoint: 3 active, replicas 1 -> two victims marked Deleting and cleaned up; then
   both reconciles are no-ops *)
Example deprov_example :
  let s := prov_reconcile st0 1%nat 5 3 [1; 2; 3]%nat in
  let s1 := deprov_reconcile s 1%nat 1 [3; 1; 2]%nat in
  counts s 1%nat = (3, 0, 0) /\ counts s1 1%nat = (1, 0, 0) /\ reserved s1 1%nat = 0 /\
  counts (deprov_reconcile s1 1%nat 1 [2]%nat) 1%nat = (1, 0, 0) /\ counts (prov_reconcile s1 1%nat 5 1 [9]%nat) 1%nat = (1, 0, 0).
Proof. vm_compute. repeat split. Qed.

(* a restart in the middle: the state is lost, reconciles are gated until the informers have replayed *)
Example restart_example :
  let L := fun _ : name => 2 in
  let s := srun L [ProvBegin 1%nat 2; TkCreate 0 true; TkUpdate 0; TkRelease 0; TkCreate 1 true; TkUpdate 1; TkRelease 1; Restart] in
  api_count s 1%nat = 2 /\ counts (nps s) 1%nat = (0, 0, 0) /\
  granted_count (sstep L s (ProvBegin 1%nat 2)) 1%nat = 0 /\                                  (* gated: not synced *)
  granted_count (sstep L (sstep L (sstep L s (InfUpdate 1%nat false)) (InfUpdate 2%nat false)) (ProvBegin 1%nat 3)) 1%nat = 0.
Proof. vm_compute. repeat split. Qed.

Example rounds_example :
  rounds [("cpu", 8000)] [] [node_cap [("cpu", 4000)]; node_cap [("cpu", 4000)]].
Proof.
  eapply r_pass with (claims := [[mkIT [("cpu", 4000)] [[]]]]) (launched := [[("cpu", 4000)]]).
  - vm_compute. reflexivity.
  - simpl. tauto.
  - intros opts it [Ho|[]] Hi; subst opts. destruct Hi as [Hi|[]]; subst it. split; [apply nonneg_cpu; lia|].
    split; [|reflexivity]. intros k. constructor; [simpl; lia | constructor].
  - eapply r_pass with (claims := [[mkIT [("cpu", 4000)] [[]]]]) (launched := [[("cpu", 4000)]]).
    + vm_compute. reflexivity.
    + simpl. tauto.
    + intros opts it [Ho|[]] Hi; subst opts. destruct Hi as [Hi|[]]; subst it. split; [apply nonneg_cpu; lia|].
      split; [|reflexivity]. intros k. constructor; [simpl; lia | constructor].
    + apply r_done.
Qed.
