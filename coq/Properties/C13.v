(* C13 — The launch request carries the scheduler's decision faithfully (requirement serialisation
   and label resolution). *)
From KV Require Import C13.Model C13.Proofs Base.ReqProofs.
Open Scope Z_scope.

(* A label value satisfies every requirement written to the NodeClaim (Kubernetes semantics) iff the
   scheduler's in-memory requirement admits it — all reachable requirements, all strings. *)
Theorem roundtrip_admits : forall (r : req) (v : string), wf r -> canon r ->
  nsrs_match (to_nsrs r) (Some v) = has r v.
Proof. exact roundtrip_admits_l. Qed.
Print Assumptions roundtrip_admits.

(* ... and a node without the label satisfies them iff the in-memory requirement is satisfied when undefined *)
Theorem roundtrip_absent : forall r : req, canon r -> nsrs_match (to_nsrs r) None = admits r None.
Proof. exact roundtrip_absent_l. Qed.
Print Assumptions roundtrip_absent.

(* reading the NodeClaim back yields a requirement with the same admitted set *)
Theorem reparse_admits : forall (r : req) (mv : option Z) (v : string), wf r -> canon r ->
  has (reparse mv (to_nsrs r)) v = has r v.
Proof. exact reparse_admits_l. Qed.
Print Assumptions reparse_admits.

(* wf and canon hold for everything constructors and Intersection produce *)
Theorem canon_constructors : forall o mv vs, canon (new_req o mv vs).
Proof. exact canon_new_req. Qed.
Print Assumptions canon_constructors.
Theorem canon_intersections : forall a b, canon (intersection a b).
Proof. exact canon_intersection. Qed.
Print Assumptions canon_intersections.

(* every emitted requirement is well-formed for the constructor that reads it back *)
Theorem emitted_are_valid : forall r, wf r ->
  Forall (fun n : nsr => valid_args (fst n) (snd n) = true) (to_nsrs r).
Proof. exact emitted_valid. Qed.
Print Assumptions emitted_are_valid.

(* Label resolution (Requirement.Any). It never panics (the model of the repaired code has no panic
   outcome; the correspondence check compares the real code under recover). The full statement
     forall r v, wf r -> canon r -> ordered r -> any_allows r (Some v) = true -> admitted
   is FALSE of the code when the requirement carries an exclusion list (known finding F10);
   it is proved for requirements without one ... *)
Theorem any_admitted_partial : forall (r : req) (v : string),
  wf r -> canon r -> ordered r -> no_exclusions r ->
  any_allows r (Some v) = true ->
  (operator r = DoesNotExist /\ v = EmptyString) \/ has r v = true.
Proof. exact any_admitted_l. Qed.
Print Assumptions any_admitted_partial.

(* ... and refuted with one: {k NotIn [6], k Gt 4, k Lt 8} may resolve to "6" *)
Theorem any_excluded_refuted :
  exists r v, wf r /\ canon r /\ ordered r /\ any_allows r (Some v) = true /\ has r v = false.
Proof. exact any_excluded_refuted_l. Qed.
Print Assumptions any_excluded_refuted.

(* gte <= lte is an invariant of constructors and Intersection *)
Theorem ordered_constructors : forall o mv vs, ordered (new_req o mv vs).
Proof. exact ordered_new_req. Qed.
Print Assumptions ordered_constructors.
Theorem ordered_intersections : forall a b, ordered (intersection a b).
Proof. exact ordered_intersection. Qed.
Print Assumptions ordered_intersections.

(* F9 (fixed in /repo): the pre-repair range arithmetic handed rand.Intn a non-positive argument for
   requirements a validated NodePool can carry *)
Theorem any_prefix_arithmetic_refuted :
  any_intn_arg_prefix (new_req Lt None ["0"%string]) <= 0 /\
  any_intn_arg_prefix (new_req Lte None ["9223372036854775807"%string]) <= 0.
Proof. exact any_prefix_panics_l. Qed.
Print Assumptions any_prefix_arithmetic_refuted.

Example roundtrip_nonvacuous :
  let r := intersection (new_req Gt None ["4"%string]) (new_req NotIn None ["7"%string]) in
  wf r /\ canon r /\ to_nsrs r = [(Gte, ["5"%string]); (NotIn, ["7"%string])] /\
  nsrs_match (to_nsrs r) (Some "7"%string) = false /\ nsrs_match (to_nsrs r) (Some "8"%string) = true.
Proof.
  split; [apply wf_intersection; apply wf_new_req; reflexivity|].
  split; [apply canon_intersection|]. vm_compute. repeat split; reflexivity.
Qed.

(* ---- truncation of the instance-type options before launch (C13/Trunc.v) ---- *)
From KV Require Import C13.Trunc.

(* what Truncate keeps is the cheapest prefix of the options and, under the strict policy, still meets every
   minValues floor; for every catalogue, every set of floors and every maxItems *)
Theorem truncate_keeps_floor : forall strict mins maxn ordered t,
  truncate strict mins maxn ordered = Some t ->
  t = firstn maxn ordered /\ (strict = true -> satisfies mins t = true).
Proof. exact truncate_keeps_floor_l. Qed.
Print Assumptions truncate_keeps_floor.

Theorem truncate_subset : forall strict mins maxn ordered t,
  truncate strict mins maxn ordered = Some t -> incl t ordered /\ (List.length t <= maxn)%nat.
Proof. exact truncate_subset_l. Qed.
Print Assumptions truncate_subset.

(* the strict policy refuses exactly when the cheapest maxItems options miss a floor; best effort never refuses *)
Theorem truncate_errors_iff : forall mins maxn ordered,
  truncate true mins maxn ordered = None <-> satisfies mins (firstn maxn ordered) = false.
Proof. exact truncate_errors_iff_l. Qed.
Print Assumptions truncate_errors_iff.

Theorem truncate_best_effort : forall mins maxn ordered, truncate false mins maxn ordered = Some (firstn maxn ordered).
Proof. exact truncate_best_effort_l. Qed.
Print Assumptions truncate_best_effort.

(* a re-check that is skipped when the last needed type is the (maxItems+1)-th (seeded change C13-4) keeps a list
   that misses a floor *)
Theorem truncate_offbyone_refuted :
  let its := [("a", [("fam", ["x"])]); ("b", [("fam", ["x"])]); ("c", [("fam", ["y"])]); ("d", [("fam", ["z"])])]%string in
  exists t, truncate_offbyone [("fam"%string, 3%nat)] 3%nat its = Some t /\ satisfies [("fam"%string, 3%nat)] t = false /\
            truncate true [("fam"%string, 3%nat)] 3%nat its = None.
Proof. exact truncate_offbyone_breaks_floor. Qed.
Print Assumptions truncate_offbyone_refuted.
