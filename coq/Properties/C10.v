(* C10 — Drain honours PDBs, do-not-disrupt and ordering until the deadline.
   Property theorems only; each is closed by [exact] of a lemma from C10/Proofs.v.

   A history is any list of ops: Terminator.Drain passes (each with the clock, the node deadline of that pass and
   the pod list the API returned), Queue.Reconcile calls (each with the clock, the pod object handed in, the API
   server's answer: success / 404 / 409 / 429 PDB / multiple-PDB 500 / other error) and process restarts.
   No relation between the pod lists, clocks or deadlines of different ops is assumed. [run pre] is the eviction
   queue (pod key -> deadline) after the history [pre]. *)
From KV Require Import C10.Model C10.Proofs C10.Split C10.Node.
Open Scope Z_scope.

(* Eviction API only for evictable pods: after any history, if a reconcile calls the eviction sub-resource for p
   at instant now, then p is not terminal, not terminating, has no active do-not-disrupt annotation, is not a
   static pod and does not tolerate karpenter.sh/disrupted:NoSchedule; and p was handed to the queue by a drain
   pass of that history. (PDBs apply because the only other removal path is the one of the next theorem.) *)
Theorem evict_only_evictable : forall (pre : list op) now p api nok,
  r_act (snd (reconcile (run pre) now p api nok)) = Some Evict ->
  may_evict now p /\
  exists pre1 now' dl pods pre2, pre = pre1 ++ ODrain now' dl pods :: pre2 /\ In (pkey p) (selected_keys now' dl pods).
Proof. exact evict_only_evictable_l. Qed.
Print Assumptions evict_only_evictable.

(* Direct delete only under a node deadline: after any history, a reconcile that deletes p with grace g at instant
   now does so under a deadline t that is the deadline of a drain pass of the history which queued p (so the
   NodeClaim has a termination grace period), p is due (now > t - own grace, or p already terminates beyond t),
   g >= 1, g is the node's remaining time truncated to seconds with floor 1, and now + g never passes
   max(t, now + 1s). *)
Theorem delete_only_with_deadline : forall (pre : list op) now p api nok g,
  r_act (snd (reconcile (run pre) now p api nok)) = Some (Delete g) ->
  exists t,
    qget (pkey p) (run pre) = Some (Some t) /\
    delete_due now p t /\ 1 <= g /\ g = clamp_grace now t /\ g * sec <= Z.max (t - now) sec /\
    exists pre1 now' pods pre2, pre = pre1 ++ ODrain now' (Some t) pods :: pre2 /\ In (pkey p) (selected_keys now' (Some t) pods).
Proof. exact delete_only_with_deadline_l. Qed.
Print Assumptions delete_only_with_deadline.

(* A reconcile does nothing to a pod that is not queued (same name but other UID, or after a restart). *)
Theorem no_action_unless_queued : forall q now p api nok,
  qget (pkey p) q = None -> reconcile q now p api nok = (q, mkR None RDone).
Proof. exact no_action_unless_queued_l. Qed.
Print Assumptions no_action_unless_queued.

(* Tier order: every pod a drain pass hands to the queue is waiting, and is either due for a direct delete under
   this pass's deadline or belongs to the lowest shutdown tier among the waiting pods that are not yet due
   (0 non-critical non-daemon < 1 non-critical daemon < 2 critical non-daemon < 3 critical daemon). *)
Theorem tier_order : forall now dl pods p,
  In p (selected now dl pods) ->
  In p pods /\ waiting now p /\
  (due_under now p dl \/ forall p', In p' pods -> waiting now p' -> ~ due_under now p' dl -> tier p <= tier p').
Proof. exact tier_order_l. Qed.
Print Assumptions tier_order.

Theorem tier_meaning : forall p,
  (tier p = 0 <-> ~ critical_pod p /\ ~ daemon_pod p) /\ (tier p = 1 <-> ~ critical_pod p /\ daemon_pod p) /\
  (tier p = 2 <-> critical_pod p /\ ~ daemon_pod p) /\ (tier p = 3 <-> critical_pod p /\ daemon_pod p).
Proof. exact tier_spec. Qed.
Print Assumptions tier_meaning.

(* A drain pass changes the queue entries of the pods it selected and of no other pod. *)
Theorem drain_touches_selected_only : forall q now dl pods k,
  ~ In k (selected_keys now dl pods) -> qget k (fst (step q (ODrain now dl pods))) = qget k q.
Proof. exact drain_touches_selected_only_l. Qed.
Print Assumptions drain_touches_selected_only.

(* The node is reported drained exactly when no pod is waiting. *)
Theorem drain_done_iff_no_waiting : forall q now dl pods,
  d_err (snd (drain q now dl pods)) = DOk <-> forall p, In p pods -> ~ waiting now p.
Proof. exact drain_done_iff_l. Qed.
Print Assumptions drain_done_iff_no_waiting.

(* Deadline never later: once a drain pass has queued k under dl, then for every continuation [mid] of the
   history during which k stays queued, the deadline k is handled under after [mid] is no later than dl
   (None = no deadline = +infinity). Holds from every queue q0, hence after every history. *)
Theorem deadline_never_later : forall q0 now dl pods k (mid : list op),
  In k (selected_keys now dl pods) ->
  (forall m1 m2, mid = m1 ++ m2 -> qget k (run_from (fst (step q0 (ODrain now dl pods))) m1) <> None) ->
  exists d, qget k (run_from (fst (step q0 (ODrain now dl pods))) mid) = Some d /\ dl_le d dl.
Proof. exact deadline_never_later_l. Qed.
Print Assumptions deadline_never_later.

(* ... it is exactly the earlier of the previous entry and the pass's deadline, *)
Theorem deadline_is_minimum : forall q now dl pods k,
  In k (selected_keys now dl pods) ->
  qget k (fst (step q (ODrain now dl pods))) = Some (earlier (dflt (qget k q)) dl).
Proof. exact drain_selected_min. Qed.
Print Assumptions deadline_is_minimum.

(* ... no op ever moves the deadline of a queued pod later, *)
Theorem deadline_monotone : forall q o k d d',
  qget k q = Some d -> qget k (fst (step q o)) = Some d' -> dl_le d' d.
Proof. exact step_mono. Qed.
Print Assumptions deadline_monotone.

(* ... and every queue entry carries the deadline of a drain pass of the history that selected the pod. *)
Theorem queue_entry_provenance : forall (ops : list op) k d,
  qget k (run ops) = Some d ->
  exists pre now pods post, ops = pre ++ ODrain now d pods :: post /\ In k (selected_keys now d pods).
Proof. exact queue_entry_provenance_l. Qed.
Print Assumptions queue_entry_provenance.

(* Every point of every history satisfies the per-op specification, which is what the oracle evaluates on the
   implementation's observations. *)
Theorem history_meets_spec : forall ops : list op, Forall entry_ok (trace ops).
Proof. exact history_meets_spec_l. Qed.
Print Assumptions history_meets_spec.

Theorem oracle_is_spec : forall e : entry, entry_ok_b e = true <-> entry_ok e.
Proof. exact entry_ok_b_spec_l. Qed.
Print Assumptions oracle_is_spec.

(* The code's predicates are the specification's. *)
Theorem evictable_is_spec : forall now p, is_evictable now p = true <-> may_evict now p.
Proof. exact is_evictable_spec. Qed.
Print Assumptions evictable_is_spec.

Theorem needs_force_delete_is_spec : forall now p dl, nfd now p dl = true <-> due_under now p dl.
Proof. exact nfd_due_under. Qed.
Print Assumptions needs_force_delete_is_spec.

Theorem waiting_eviction_is_spec : forall now p, is_waiting_eviction now p = true <-> waiting now p.
Proof. exact is_waiting_eviction_spec. Qed.
Print Assumptions waiting_eviction_is_spec.

(* ------------------------------------------------------------------ the unlocked window inside one Queue.Reconcile
   Read (mutex) / Act (no mutex) / Complete (mutex); [pre] is the history before the Read, the clock of the action
   and everything that happens to the queue after the Read are arbitrary. XComplete is the complete() of other
   in-flight reconciles. *)

Theorem reconcile_is_read_act_complete : forall q now p api nok,
  reconcile q now p api nok =
  (complete q p (snd (decide (qget (pkey p) q) now p api nok)), fst (decide (qget (pkey p) q) now p api nok)).
Proof. exact C10.Split.reconcile_is_read_act_complete. Qed.
Print Assumptions reconcile_is_read_act_complete.

(* delete_only_with_deadline and evict_only_evictable survive every interleaving *)
Theorem delete_only_with_deadline_split : forall (pre : list xop) now p api nok g,
  r_act (fst (decide (qget (pkey p) (xrun pre)) now p api nok)) = Some (Delete g) ->
  exists t,
    qget (pkey p) (xrun pre) = Some (Some t) /\
    delete_due now p t /\ 1 <= g /\ g = clamp_grace now t /\ g * sec <= Z.max (t - now) sec /\
    exists pre1 now' pods pre2, pre = pre1 ++ XBase (ODrain now' (Some t) pods) :: pre2 /\
                                In (pkey p) (selected_keys now' (Some t) pods).
Proof. exact split_delete_only_with_deadline_l. Qed.
Print Assumptions delete_only_with_deadline_split.

Theorem evict_only_evictable_split : forall (pre : list xop) now p api nok,
  r_act (fst (decide (qget (pkey p) (xrun pre)) now p api nok)) = Some Evict ->
  may_evict now p /\
  exists pre1 now' dl pods pre2, pre = pre1 ++ XBase (ODrain now' dl pods) :: pre2 /\
                                 In (pkey p) (selected_keys now' dl pods).
Proof. exact split_evict_only_evictable_l. Qed.
Print Assumptions evict_only_evictable_split.

(* deadline_never_later holds for the drain passes that queued the pod before the Read ... *)
Theorem deadline_never_later_split_partial : forall q0 now dl pods k (mid : list xop),
  In k (selected_keys now dl pods) ->
  (forall m1 m2, mid = m1 ++ m2 -> qget k (xrun_from (fst (step q0 (ODrain now dl pods))) m1) <> None) ->
  exists d, qget k (xrun_from (fst (step q0 (ODrain now dl pods))) mid) = Some d /\ dl_le d dl.
Proof. exact split_deadline_never_later_at_read_l. Qed.
Print Assumptions deadline_never_later_split_partial.

(* ... and fails for a pass that runs between the Read and the action: the pod is (re-)queued under dl, stays
   queued, and is then deleted under the later deadline read before, with a grace that ends after dl; complete()
   drops the tightened entry. Replayed on the real code by the harness (race-witness, kf_key
   in-flight-reconcile-uses-stale-deadline). *)
Theorem deadline_never_later_split_refuted :
  exists (pre mid : list xop) now dl pods p api nok tnow g,
    In (pkey p) (selected_keys now dl pods) /\
    mid = [XBase (ODrain now dl pods)] /\
    qget (pkey p) (xrun_from (xrun pre) mid) = Some dl /\
    r_act (fst (decide (qget (pkey p) (xrun pre)) tnow p api nok)) = Some (Delete g) /\
    (exists t, dl = Some t /\ Z.max (t - tnow) sec < g * sec) /\
    qget (pkey p) (complete (xrun_from (xrun pre) mid) p (snd (decide (qget (pkey p) (xrun pre)) tnow p api nok))) = None.
Proof. exact split_deadline_never_later_refuted_l. Qed.
Print Assumptions deadline_never_later_split_refuted.

(* ------------------------------------------------------------------ node level (termination controller: nodeTerminationTime, awaitDrain) *)

(* The deadline handed to the queue is the NodeClaim's termination timestamp: whatever happens around the drain in one
   reconcile of the node (gate g: skipped, early errors, vanished instance, taint conflict/error, list failure,
   status patch failure), the eviction queue afterwards is either untouched or the result of a drain pass under
   exactly claim_deadline (the parsed annotation; no or duplicate NodeClaims / no annotation: no deadline). *)
Theorem node_pass_queue : forall g q hc del a c now pods,
  fst (fst (fst (node_pass g q hc del a c now pods))) = q \/
  exists dl, claim_deadline hc a = Some dl /\
             fst (fst (fst (node_pass g q hc del a c now pods))) = fst (drain q now dl pods).
Proof. exact node_pass_queue_l. Qed.
Print Assumptions node_pass_queue.

Theorem node_pass_is_drain_under_claim_deadline : forall q hc del a c now pods,
  match claim_deadline hc a with
  | Some dl => fst (fst (fst (node_pass GRun q hc del a c now pods))) = fst (drain q now dl pods) /\
               snd (node_pass GRun q hc del a c now pods) = Some (snd (drain q now dl pods))
  | None => node_pass GRun q hc del a c now pods = (q, c, NError, None)
  end.
Proof. exact node_pass_is_drain_under_claim_deadline_l. Qed.
Print Assumptions node_pass_is_drain_under_claim_deadline.

(* ... never later: every pod the pass selects is afterwards queued under a deadline no later than that timestamp *)
Theorem node_deadline_never_later : forall q del a c now pods t k,
  a = AnnTime t -> In k (selected_keys now (Some t) pods) ->
  exists d, qget k (fst (fst (fst (node_pass GRun q true del a c now pods)))) = Some d /\ dl_le d (Some t).
Proof. exact node_deadline_never_later_l. Qed.
Print Assumptions node_deadline_never_later.

(* Drained (without NodeClaim: finalizer removed) only when no pod is waiting and, with a NodeClaim, MinDrainTime (5s)
   after the condition went Unknown; under every gate except the vanished instance *)
Theorem node_drained_only_if : forall g q hc del a c now pods,
  g <> GInstanceGone ->
  (snd (fst (node_pass g q hc del a c now pods)) = NDrained \/ snd (fst (node_pass g q hc del a c now pods)) = NGone) ->
  (forall p, In p pods -> ~ waiting now p) /\
  (hc = true -> c = CTrue \/ exists s, c = CUnknown s /\ min_drain <= now - s).
Proof. exact node_drained_only_if_l. Qed.
Print Assumptions node_drained_only_if.

(* ------------------------------------------------------------------ non-vacuity *)
Open Scope string_scope.

Definition plain (n : Z) : pod := P n n false None (Some 30) [] [("apps/v1", "ReplicaSet")] "" DndNone (Some 0).
Definition daemon (n : Z) : pod := P n n false None (Some 30) [] [("apps/v1", "DaemonSet")] "" DndNone (Some 0).
Definition critical (n : Z) : pod := P n n false None (Some 30) [] [] "system-node-critical" DndNone (Some 0).
Definition protected (n : Z) : pod := P n n false None (Some 30) [] [] "" DndTrue (Some 0).
Definition long_grace (n : Z) : pod := P n n false None (Some 600) [] [] "system-cluster-critical" DndTrue (Some 0).

(* tiers gate the graceful path; a critical pod whose grace no longer fits is queued in the same pass *)
Example tiers_and_deadline :
  map pkey (selected 0 (Some (120 * sec)) [critical 1; daemon 2; plain 3; long_grace 4]) = [(4, 4); (3, 3)] /\
  map pkey (selected 0 None [critical 1; daemon 2; plain 3; long_grace 4]) = [(3, 3)] /\
  map pkey (selected 0 None [critical 1; daemon 2]) = [(2, 2)].
Proof. vm_compute. repeat split; reflexivity. Qed.

(* a history with an eviction blocked by a PDB, a later successful eviction, a protected pod that is requeued
   until the deadline and then deleted directly with the remaining time *)
Example evict_then_delete :
  let ops := [ODrain 0 (Some (120 * sec)) [plain 1; protected 2];
              ORec sec (plain 1) ATooMany true;
              ORec (2 * sec) (plain 1) AOk true;
              ORec (3 * sec) (protected 2) AOk true;
              ORec (100 * sec) (protected 2) AOk true] in
  map (fun e => e_out e) (trace ops) =
    [OutD (mkD (DWaiting 2) [(1, 1); (2, 2)]);
     OutR (mkR (Some Evict) RRequeue); OutR (mkR (Some Evict) RDone);
     OutR (mkR None RRequeue); OutR (mkR (Some (Delete 20)) RDone)] /\
  run ops = [].
Proof. vm_compute. split; reflexivity. Qed.

(* the deadline of a queued pod tightens and never relaxes *)
Example deadline_tightens :
  run [ODrain 0 (Some (300 * sec)) [protected 2]; ODrain sec (Some (120 * sec)) [protected 2];
       ODrain (2 * sec) (Some (500 * sec)) [protected 2]; ODrain (3 * sec) None [protected 2]]
  = [((2, 2), Some (120 * sec))].
Proof. vm_compute. reflexivity. Qed.

(* the "stays queued" hypothesis of deadline_never_later is needed: once the entry has been completed (here: the
   pod was already terminating when reconciled) the queue has no memory of the earlier deadline *)
Example deadline_forgotten_after_completion :
  let gone := P 2 2 false (Some (400 * sec)) (Some 30) [] [] "" DndNone (Some 0) in
  run [ODrain 0 (Some (500 * sec)) [gone]; ORec sec gone AOk true; ODrain (2 * sec) (Some (900 * sec)) [gone]]
  = [((2, 2), Some (900 * sec))].
Proof. vm_compute. reflexivity. Qed.

(* the oracle rejects an implementation observation that evicts a protected pod, deletes early, or deletes with
   grace 0 *)
Example oracle_rejects :
  entry_ok_b (mkE [((2, 2), Some (120 * sec))] (ORec 0 (protected 2) AOk true) (OutR (mkR (Some Evict) RDone)) []) = false /\
  entry_ok_b (mkE [((1, 1), Some (120 * sec))] (ORec (90 * sec) (plain 1) AOk true) (OutR (mkR (Some (Delete 30)) RDone)) []) = false /\
  entry_ok_b (mkE [((1, 1), Some (120 * sec))] (ORec (121 * sec) (plain 1) AOk true) (OutR (mkR (Some (Delete 0)) RDone)) []) = false /\
  entry_ok_b (mkE [((1, 1), Some (120 * sec))] (ORec (90 * sec + 1) (plain 1) AOk true) (OutR (mkR (Some (Delete 29)) RDone)) []) = true /\
  entry_ok_b (mkE [] (ODrain 0 None [critical 1; plain 3]) (OutD (mkD (DWaiting 2) [(1, 1)])) [((1, 1), None)]) = false /\
  entry_ok_b (mkE [((1, 1), Some (120 * sec))] (ODrain 0 (Some (500 * sec)) [plain 1]) (OutD (mkD (DWaiting 1) [])) [((1, 1), Some (500 * sec))]) = false.
Proof. vm_compute. repeat split; reflexivity. Qed.

(* node level: first pass (NodeClaim not yet deleting) queues under the annotation's time but loses the condition
   patch; the next pass sets Unknown; Drained only 5s later *)
Example node_passes :
  let t := 60 * sec in
  node_pass GRun [] true false (AnnTime t) CAbsent 0 [protected 2] = ([((2, 2), Some t)], CAbsent, NRequeue, Some (mkD (DWaiting 1) [(2, 2)])) /\
  node_pass GRun [] true true (AnnTime t) CAbsent (sec + 1) [] = ([], CUnknown sec, NRequeue, Some (mkD DOk [])) /\
  snd (fst (node_pass GRun [] true true (AnnTime t) (CUnknown sec) (6 * sec - 1) [])) = NRequeue /\
  snd (fst (node_pass GRun [] true true (AnnTime t) (CUnknown sec) (6 * sec) [])) = NDrained /\
  snd (fst (node_pass GRun [] false false AnnNone CAbsent 0 [])) = NGone /\
  node_pass GStatusPatchFails [] true true (AnnTime t) (CUnknown sec) (6 * sec) [] = ([], CUnknown sec, NError, Some (mkD DOk [])) /\
  node_pass GRun [((2, 2), Some t)] true true AnnBad CAbsent 0 [protected 2] = ([((2, 2), Some t)], CAbsent, NError, None).
Proof. vm_compute. repeat split; reflexivity. Qed.
