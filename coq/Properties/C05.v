(* C05 — Disruption budgets are never exceeded.
   Property theorems only; each is closed by [exact] of a lemma from C05/Proofs.v, Proofs2.v.
   [sid] = parsed cron schedules, [hit s h] = schedule s fires at instant h, [next] = robfig/cron's
   schedule.Next; the cron contract ([next_least], [next_is_hit]) is a premise, not an axiom. *)
From Coq Require Import ZArith List Bool.
From KV Require Import C05.Model C05.Spec C05.Proofs C05.Proofs2.
Import ListNotations.
Open Scope Z_scope.

(* Percentages are taken rounding up: ceil_pct v n is the ceiling of v*n/100. *)
Theorem scaled_value_ceil : forall v n : Z,
  v * n <= 100 * ceil_pct v n /\ 100 * (ceil_pct v n - 1) < v * n.
Proof. exact ceil_pct_spec. Qed.
Print Assumptions scaled_value_ceil.

(* A budget is active during [hit, hit+duration) after each hit: whenever cron answers, the code's
   verdict is exactly the window predicate, at every instant. *)
Theorem is_active_spec : forall (sid : Type) (hit : sid -> Z -> Prop) (next : sid -> Z -> option Z),
  next_least sid hit next -> next_is_hit sid hit next ->
  forall (now : Z) (b : budget sid) (s : sid) (h : Z),
    b_sched b = SCron s -> next s (now - dur0 sid b) = Some h ->
    (is_active sid next now b = Some true <-> active_spec sid hit now b).
Proof. exact is_active_sound. Qed.
Print Assumptions is_active_spec.

(* Safety direction without any proviso (also when cron finds no further hit and returns the zero
   time): inside a window the budget is treated as active. *)
Theorem is_active_in_window : forall (sid : Type) (hit : sid -> Z -> Prop) (next : sid -> Z -> option Z),
  next_least sid hit next ->
  forall (now : Z) (b : budget sid),
    ~ malformed sid b -> active_spec sid hit now b -> is_active sid next now b = Some true.
Proof. exact is_active_complete. Qed.
Print Assumptions is_active_in_window.

(* always active, if it has no schedule *)
Theorem is_active_no_schedule : forall (sid : Type) (next : sid -> Z -> option Z) (b : budget sid) (now : Z),
  b_sched b = SNil -> b_dur b = None -> is_active sid next now b = Some true.
Proof. exact is_active_always. Qed.
Print Assumptions is_active_no_schedule.

(* A budget applies to a reason iff it lists it or lists none (nil or empty list). *)
Theorem reason_applies : forall (sid : Type) (r : reason) (b : budget sid),
  applies r b = true <-> applies_spec sid r b.
Proof. exact applies_iff. Qed.
Print Assumptions reason_applies.

(* The allowed figure is at most every applicable active budget's value (the most restrictive one
   wins) and it is zero as soon as one budget of the pool cannot be read. For all budget lists,
   instants, pool sizes, reasons. *)
Theorem allowed_min_fail_closed : forall (sid : Type) (hit : sid -> Z -> Prop) (next : sid -> Z -> option Z),
  next_least sid hit next ->
  forall (now n : Z) (r : reason) (bs : list (budget sid)),
    (forall b, In b bs -> nodes_ok sid b) ->
    allowed_ok sid hit now n r bs (must_allowed sid next now n r bs).
Proof. exact must_allowed_sound. Qed.
Print Assumptions allowed_min_fail_closed.

Theorem malformed_allows_zero : forall (sid : Type) (next : sid -> Z -> option Z)
  (now n : Z) (r : reason) (bs : list (budget sid)) (b : budget sid),
  In b bs -> (malformed sid b \/ (is_active sid next now b = Some true /\ b_nodes b = NBad)) ->
  must_allowed sid next now n r bs = 0.
Proof. exact must_allowed_fail_closed. Qed.
Print Assumptions malformed_allows_zero.

(* ... and it is not more restrictive than the budgets: it is "unbounded" or attained. *)
Theorem allowed_attained : forall (sid : Type) (next : sid -> Z -> option Z)
  (now n : Z) (r : reason) (bs : list (budget sid)),
  (forall b, In b bs -> snd (allowed_disruptions sid next now n b) = false) ->
  must_allowed sid next now n r bs = max_int32 \/
  exists b, In b bs /\ applies r b = true /\
            must_allowed sid next now n r bs = fst (allowed_disruptions sid next now n b).
Proof. exact must_allowed_attained. Qed.
Print Assumptions allowed_attained.

(* F (fixed in /repo by 33199adef): with the former test `Reasons == nil` a budget carrying an empty
   non-nil list (what `reasons: []` decodes to) applied to no reason: budgets [{nodes "0", reasons []}]
   allowed 2147483647 disruptions. *)
Theorem allowed_prefix_refuted : forall (sid : Type) (hit : sid -> Z -> Prop) (next : sid -> Z -> option Z),
  exists now n r bs, (forall b, In b bs -> nodes_ok sid b) /\
    ~ allowed_ok sid hit now n r bs (must_allowed_prefix sid next now n r bs).
Proof. exact must_allowed_prefix_refuted. Qed.
Print Assumptions allowed_prefix_refuted.

Theorem allowed_prefix_partial : forall (sid : Type) (hit : sid -> Z -> Prop) (next : sid -> Z -> option Z),
  next_least sid hit next ->
  forall (now n : Z) (r : reason) (bs : list (budget sid)),
    (forall b, In b bs -> nodes_ok sid b) ->
    (forall b, In b bs -> b_reasons b <> Some []) ->
    allowed_ok sid hit now n r bs (must_allowed_prefix sid next now n r bs).
Proof. exact must_allowed_prefix_partial. Qed.
Print Assumptions allowed_prefix_partial.

(* BuildDisruptionBudgetMapping: selecting up to the mapping value of a pool keeps selected +
   already not-ready/deleting nodes within every applicable active budget. *)
Theorem mapping_sound : forall (sid : Type) (hit : sid -> Z -> Prop) (next : sid -> Z -> option Z),
  next_least sid hit next ->
  forall (now : Z) (r : reason) (ns : list node) (p : pool sid) (sel : Z),
    (forall b, In b (p_budgets p) -> nodes_ok sid b) ->
    0 <= sel <= pool_budget sid next now r ns p ->
    round_ok sid hit now (num_nodes (p_id p) ns) r (p_budgets p) (disrupting (p_id p) ns) sel.
Proof. exact pool_budget_sound. Qed.
Print Assumptions mapping_sound.

(* Which nodes consume budget: exactly the not-ready / marked / deleting ones among the nodes that
   count towards the pool size. A deleting node that never initialized (or whose instance is already
   terminated) is in neither number. *)
Theorem disrupting_counts_counted_partial : forall (p : Z) (ns : list node),
  disrupting p ns =
  zlen (filter (fun x => (n_managed x && n_init x && negb (n_term x)) && (n_pool x =? p) &&
                         (negb (n_ready x) || n_marked x || n_deleting x)) ns).
Proof. exact disrupting_counts_counted_l. Qed.
Print Assumptions disrupting_counts_counted_partial.

Theorem disrupting_counts_all_deleting_refuted :
  exists ns p x, In x ns /\ n_pool x = p /\ n_managed x = true /\ n_deleting x = true /\ disrupting p ns = 0.
Proof. exact disrupting_counts_all_deleting_refuted_l. Qed.
Print Assumptions disrupting_counts_all_deleting_refuted.

(* Validation re-checks: every validator rebuilds the budget mapping for the reason it was
   constructed with, and that reason is the method's own (Emptiness: Empty; single/multi-node
   consolidation: Underutilized). *)
Theorem validator_checks_own_reason : forall m : method, validator_reason m = method_reason m.
Proof. exact validator_reason_own. Qed.
Print Assumptions validator_checks_own_reason.

(* whatever reason r a validator carries, what it lets through fits the mapping for r ... *)
Theorem validate_under_reason_partial : forall (sid : Type) (next : sid -> Z -> option Z)
  (r : reason) (s : sys sid) (m : method) (prop cur : list cand) (p : Z),
  validating m = true ->
  count_pool p (validate_under sid next r s m prop cur) <= mapping_of sid next s r p.
Proof. exact validate_under_le. Qed.
Print Assumptions validate_under_reason_partial.

(* ... so a validator carrying ANOTHER method's reason breaks the property: budgets
   [{reasons [Empty], nodes 1}; {reasons [Underutilized], nodes 3}], two empty candidates proposed
   (the Empty budget was 2 when they were chosen): an Emptiness validator built with Underutilized
   passes both, 2 > 1. *)
Theorem validate_foreign_reason_refuted :
  let sel := validate_under unit (fun _ _ => None) Underutilized fr_sys MEmptiness fr_cands fr_cands in
  map c_node sel = [1; 2] /\ ~ round_holds unit (fun _ _ => False) fr_sys Empty sel.
Proof. exact foreign_reason_refuted_l. Qed.
Print Assumptions validate_foreign_reason_refuted.

(* One disrupt(method) call, for every state, method, candidate list, simulation outcome (choice),
   events during the validation delay(s) and candidate lists seen by the validator: per pool,
   nothing is selected or selected + disrupting <= every applicable active budget, evaluated in the
   state in which the command was last validated. *)
Theorem round_within_budget : forall (sid : Type) (hit : sid -> Z -> Prop) (next : sid -> Z -> option Z),
  next_least sid hit next ->
  forall (s : sys sid) (m : method) (cs : list cand) (ch : choice) (vok : bool)
         (b1 : list (env sid)) (c1 : list cand) (b2 : list (env sid)) (c2 : list cand),
    let '(sel, sv) := disrupt_sel sid next s m cs ch vok b1 c1 b2 c2 in
    budgets_ok sid sv -> round_holds sid hit sv (method_reason m) sel.
Proof. exact round_within_budget_l. Qed.
Print Assumptions round_within_budget.

(* Arbitrary histories (environment events, disrupt calls of any method, command completion or
   failure, restarts), from any state in which queued nodes are marked: every disrupt call satisfies
   the bound; its candidates are nodes that were neither queued, marked nor deleting (nothing is
   consumed twice); and every node still held by the queue counts as disrupting when the next
   mapping is built. *)
Theorem rounds_within_budget : forall (sid : Type) (hit : sid -> Z -> Prop) (next : sid -> Z -> option Z),
  next_least sid hit next ->
  forall (s0 : sys sid) (ops : list (op sid)),
    inv sid s0 -> trace_ok sid hit next s0 ops /\ inv sid (run sid next s0 ops).
Proof. exact rounds_within_budget_l. Qed.
Print Assumptions rounds_within_budget.

(* The oracle evaluated on implementation observations is the specification, provided the
   harness' matcher reports the greatest hit at or before [now]. *)
Theorem oracle_is_spec : forall (sid : Type) (hit : sid -> Z -> Prop) (last : sid -> option Z) (now : Z),
  last_contract sid hit last now ->
  forall (r : reason) (n dis sel : Z) (bs : list (budget sid)),
    0 <= sel ->
    round_ok_b sid last now r n dis sel bs = true <-> round_ok sid hit now n r bs dis sel.
Proof. exact round_ok_b_iff. Qed.
Print Assumptions oracle_is_spec.

Theorem allowed_oracle_is_spec : forall (sid : Type) (hit : sid -> Z -> Prop) (last : sid -> option Z) (now : Z),
  last_contract sid hit last now ->
  forall (n : Z) (r : reason) (bs : list (budget sid)) (a : Z),
    allowed_ok_b sid last now n r bs a = true <-> allowed_ok sid hit now n r bs a.
Proof. exact allowed_ok_b_iff. Qed.
Print Assumptions allowed_oracle_is_spec.

(* ---- non-vacuity ---- *)

(* an hourly schedule: hits at multiples of 3600; next = the next multiple *)
Definition hourly_hit (_ : unit) (h : Z) : Prop := h mod 3600 = 0.
Definition hourly_next (_ : unit) (t : Z) : option Z := Some ((t / 3600 + 1) * 3600).

Example window_edges :
  let b := mkBudget None (NPct 10) (SCron tt) (Some 600) in
  is_active unit hourly_next 7199 b = Some false /\      (* one tick before the hit *)
  is_active unit hourly_next 7200 b = Some true /\       (* at the hit *)
  is_active unit hourly_next 7799 b = Some true /\       (* last tick of the window *)
  is_active unit hourly_next 7800 b = Some false /\      (* hit + duration: inactive *)
  allowed_disruptions unit hourly_next 7200 11 b = (2, false).   (* 10% of 11, rounded up *)
Proof. vm_compute. repeat split; reflexivity. Qed.

Example most_restrictive_wins :
  must_allowed unit hourly_next 7200 20 Drifted
    [mkBudget None (NPct 50) SNil None; mkBudget (Some [Drifted]) (NInt 3) (SCron tt) (Some 600);
     mkBudget (Some [Empty]) (NInt 0) SNil None; mkBudget (Some []) (NInt 7) SNil None] = 3 /\
  must_allowed unit hourly_next 7200 20 Drifted
    [mkBudget None (NPct 50) SNil None; mkBudget (Some [Empty]) NBad SNil None] = 0.
Proof. vm_compute. split; reflexivity. Qed.

(* a round that selects something: 4 healthy empty nodes and one not-ready node, budget 3 *)
Example round_selects :
  let nd i ready := mkNode i 1 true true false ready false false in
  let s := mkSys 7200 [mkPool 1 [mkBudget None (NInt 3) SNil None] false 0 None]
                 [nd 1 true; nd 2 true; nd 3 true; nd 4 true; nd 5 false] [] in
  let cs := [mkCand 1 1 true false true; mkCand 2 1 true false true; mkCand 3 1 true false true; mkCand 4 1 true false true] in
  map c_node (fst (disrupt_sel unit hourly_next s MEmptiness cs (ChK 0) true [] cs [] cs)) = [1; 2] /\
  (* a second node goes not-ready during the validation delay: one candidate is dropped *)
  map c_node (fst (disrupt_sel unit hourly_next s MEmptiness cs (ChK 0) true [EReady 4 false]
                               [mkCand 1 1 true false true; mkCand 2 1 true false true; mkCand 3 1 true false true] [] cs)) = [1].
Proof. vm_compute. split; reflexivity. Qed.
