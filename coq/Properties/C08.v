(* C08 — Replacements are ready before removal; failed actions roll back.
   Property theorems only; each is closed by [exact] of a lemma from C08/Proofs.v.

   Every theorem quantifies over the number of nodes and over ALL histories [ops] of the model of
   C08/Model.v: commands with any candidates / replacement counts, a fault plan at each individual API
   call of StartCommand / Reconcile / the controller cleanup, replacement events in any order (launch,
   Initialized, disappear from the API, disappear from the cluster state), clock jumps, informer
   deliveries and process restarts, of any length.  [trace (init n) ops] lists, for every step, the
   snapshot before, the operation and what happened; the clauses (del_after_init, ...) are the ones
   the oracle of C08/Check.v evaluates on the implementation's observations (equivalences below).
   The model follows /repo after the fixes 14eb43d3c (timeout wrapper) and 61c12d2bd (latched
   replacements re-checked); the behaviour before them is kept as [recon_old] and refuted. *)
From KV Require Import C08.Model C08.Proofs1 C08.Proofs.

(* No candidate NodeClaim is deleted except by the command that holds it, and only once every
   replacement of that command has been created, has reported Initialized, and is still tracked by the
   cluster state at the Delete call. *)
Theorem delete_after_all_initialized : forall n ops, Forall del_after_init (trace (init n) ops).
Proof. exact delete_after_all_initialized_l. Qed.
Print Assumptions delete_after_all_initialized.

(* Before 61c12d2bd a replacement latched Initialized was never looked at again: candidates were deleted
   for a replacement whose deletion the cluster state already knew. *)
Theorem prefix_latched_replacement_gone_refuted :
  ~ Forall del_after_init (trace_old (init 2) gone_witness) /\ Forall del_after_init (trace (init 2) gone_witness).
Proof. exact prefix_latched_replacement_gone_refuted_l. Qed.
Print Assumptions prefix_latched_replacement_gone_refuted.

(* Against the API itself ("every replacement exists in the API at the Delete call"): holds whenever the
   deletions of the command's replacements have been delivered to the cluster state ... *)
Theorem delete_while_replacements_exist_partial : forall n ops,
  Forall (fun x => deliveries_done x -> del_while_ready x) (trace (init n) ops).
Proof. exact delete_while_replacements_exist_partial_l. Qed.
Print Assumptions delete_while_replacements_exist_partial.

(* ... and is REFUTED without that guard: the queue re-checks latched replacements against the cluster
   state, so a deletion the informer has not delivered yet goes unnoticed (inherent to the cache). *)
Theorem delete_while_replacements_exist_refuted :
  exists n ops, ~ Forall del_while_ready (trace (init n) ops).
Proof. exact delete_while_replacements_exist_refuted_l. Qed.
Print Assumptions delete_while_replacements_exist_refuted.

(* A command that is given up (replacement gone, or timeout - at any time) has deleted none of its
   candidates, in this pass or an earlier one, in every history in which no Delete call fails on all of
   its attempts ... *)
Theorem failed_command_deletes_nothing_partial : forall n ops,
  forallb nofail_op ops = true -> Forall failed_deletes_nothing (trace (init n) ops).
Proof. exact failed_command_deletes_nothing_l. Qed.
Print Assumptions failed_command_deletes_nothing_partial.

(* ... and is REFUTED without that guard (finding partial-delete-then-failure): one candidate is deleted,
   the Delete of another fails on all attempts, the command later times out (or its replacement vanishes)
   and is rolled back although a candidate is gone. *)
Theorem failed_command_deletes_nothing_refuted :
  exists n ops, ~ Forall failed_deletes_nothing (trace (init n) ops).
Proof. exact failed_command_deletes_nothing_refuted_l. Qed.
Print Assumptions failed_command_deletes_nothing_refuted.

(* Before 14eb43d3c no fault was needed: the deferred timeout wrapper turned a pass that had deleted
   every candidate into a failure. *)
Theorem prefix_timeout_wrapper_refuted :
  forallb nofail_op timeout_witness = true /\
  ~ Forall failed_deletes_nothing (trace_old (init 1) timeout_witness) /\
  Forall failed_deletes_nothing (trace (init 1) timeout_witness).
Proof. exact prefix_timeout_wrapper_refuted_l. Qed.
Print Assumptions prefix_timeout_wrapper_refuted.

(* A StartCommand that fails (candidate busy, marking failed, replacement creation failed) deletes
   nothing, leaves the queue and every deletion mark as they were. *)
Theorem start_failure_is_inert : forall n ops, Forall start_failure_inert (trace (init n) ops).
Proof. exact start_failure_is_inert_l. Qed.
Print Assumptions start_failure_is_inert.

(* A StartCommand that fails changes no node's queue membership, and one that is REJECTED because a candidate is
   already the subject of an in-flight command changes nothing at all: no API effect, every taint, condition, mark,
   queue entry and in-flight command exactly as before. *)
Theorem rejected_start_changes_nothing : forall n ops, Forall rejected_start_inert (trace (init n) ops).
Proof. exact rejected_start_changes_nothing_l. Qed.
Print Assumptions rejected_start_changes_nothing.

(* A command that is given up leaves each of its candidates without a queue entry and without the
   in-memory deletion mark (whatever faults hit the untaint / condition calls). *)
Theorem failed_command_rolls_back : forall n ops, Forall failed_rolls_back (trace (init n) ops).
Proof. exact failed_command_rolls_back_l. Qed.
Print Assumptions failed_command_rolls_back.

(* A fault-free controller pass on a synced cluster state leaves no disruption taint and no
   DisruptionReason condition on any node that is neither queued nor marked for deletion - in
   particular on the candidates of any failed command, and on every node after a restart. *)
Theorem cleanup_restores_service : forall n ops, Forall cleanup_restores (trace (init n) ops).
Proof. exact cleanup_restores_service_l. Qed.
Print Assumptions cleanup_restores_service.

Theorem restart_forgets : forall n ops,
  let s' := fst (step (run (init n) ops) Restart) in
  s_q s' = [] /\ forall x, n_mark (s_nodes s' x) = false.
Proof. exact restart_forgets_l. Qed.
Print Assumptions restart_forgets.

(* A node is never the subject of two commands: candidate sets of in-flight commands are pairwise
   disjoint in every reachable state, the per-node owner agrees with them, and a command is accepted
   only if none of its candidates had an owner. *)
Theorem one_command_per_node : forall n ops, Forall one_cmd_per_node (trace (init n) ops).
Proof. exact one_command_per_node_l. Qed.
Print Assumptions one_command_per_node.

Theorem start_refuses_overlap : forall n ops cands nrepl ft fc fcr m,
  let s := run (init n) ops in
  valid_cands (s_n s) cands = true -> In m cands -> in_queue (s_q s) m = true ->
  let '(s', (r, e)) := step s (Start cands nrepl ft fc fcr) in
  r = ErrBusy /\ e = [] /\ s_q s' = s_q s /\ (forall x, s_nodes s' x = s_nodes s x).
Proof. exact start_refuses_overlap_l. Qed.
Print Assumptions start_refuses_overlap.

(* Every in-flight command stays reachable (so that its timeout and rollback can ever happen): REFUTED on the
   unchanged tree (finding first-candidate-vanished): the queue enqueues only the NodeClaim of cmd.Candidates[0]
   and reconcile.AsReconciler drops a request whose object is gone ... *)
Theorem command_reachable_refuted : exists n ops, ~ Forall cmd_reachable (trace (init n) ops).
Proof. exact command_reachable_refuted_l. Qed.
Print Assumptions command_reachable_refuted.

(* ... a request is dropped exactly when the first candidate's NodeClaim is gone (so as long as it exists, the
   command is reconciled). *)
Theorem reconcile_reaches_command_partial : forall n ops m fget fdel fut fcl c,
  let s := run (init n) ops in
  find (holds_node m) (s_q s) = Some c ->
  (fst (snd (step s (Recon m fget fdel fut fcl))) = RDropped <-> n_gone (s_nodes s (hd 0 (c_cands c))) = true).
Proof. exact reconcile_reaches_command_l. Qed.
Print Assumptions reconcile_reaches_command_partial.

(* The oracle of C08/Check.v evaluates exactly these clauses. *)
Theorem oracle_is_spec : forall x,
  (del_after_init_b x = true <-> del_after_init x) /\
  (del_while_ready_b x = true <-> del_while_ready x) /\
  (failed_deletes_nothing_b x = true <-> failed_deletes_nothing x) /\
  (failed_rolls_back_b x = true <-> failed_rolls_back x) /\
  (start_failure_inert_b x = true <-> start_failure_inert x) /\
  (cleanup_restores_b x = true <-> cleanup_restores x) /\
  (one_cmd_per_node_b x = true <-> one_cmd_per_node x) /\
  (cmd_reachable_b x = true <-> cmd_reachable x) /\
  (rejected_start_inert_b x = true <-> rejected_start_inert x).
Proof.
  exact (fun x => conj (del_after_init_reflect x) (conj (del_while_ready_reflect x)
    (conj (failed_deletes_nothing_reflect x) (conj (failed_rolls_back_reflect x)
    (conj (start_failure_inert_reflect x) (conj (cleanup_restores_reflect x) (conj (one_cmd_per_node_reflect x) (conj (cmd_reachable_reflect x) (rejected_start_inert_reflect x))))))))).
Qed.
Print Assumptions oracle_is_spec.

(* ---------------------------------------------------------------- non-vacuity *)

Definition obs_of (x : ostep) := (o_ret (snd x), deletes (o_eff (snd x))).

(* a replace command runs to success: candidates deleted only in the pass that sees both replacements Initialized *)
Example happy_path :
  map obs_of
      (trace (init 2) [Start [0; 1] 2 [] [] []; ReplLaunch 0 0; ReplLaunch 0 1; ReplInit 0 1; Recon 0 [] [] [] [];
                       ReplInit 0 0; Recon 1 [] [] [] []])
  = [(Started, []); (EnvOk, []); (EnvOk, []); (EnvOk, []); (RRequeue, []); (EnvOk, []);
     (RSucceeded, [(0, true, true); (1, true, true)])].
Proof. vm_compute. reflexivity. Qed.

(* a replacement vanishes: the command fails, deletes nothing, and the candidate is untainted,
   condition-free, unmarked and unqueued again *)
Example vanished_rolls_back :
  let ops := [Start [0] 1 [] [] []; ReplDelApi 0 0; ReplDelState 0 0; Recon 0 [] [] [] []] in
  let s := run (init 1) ops in
  forallb nofail_op ops = true /\ map obs_of (trace (init 1) ops) = [(Started, []); (EnvOk, []); (EnvOk, []); (RFailed, [])] /\
  s_q s = [] /\ s_nodes s 0 = node0.
Proof. vm_compute. repeat split. Qed.

(* a latched replacement that vanishes (delivered) now fails the command instead of deleting the candidates *)
Example latched_replacement_gone_now_fails :
  map obs_of (trace (init 2) gone_witness)
  = [(Started, []); (EnvOk, []); (EnvOk, []); (EnvOk, []); (RRequeue, []); (EnvOk, []); (EnvOk, []); (EnvOk, []); (RFailed, [])].
Proof. vm_compute. reflexivity. Qed.

(* a command that completes after its timeout is a success *)
Example late_success :
  map obs_of (trace (init 1) timeout_witness)
  = [(Started, []); (EnvOk, []); (EnvOk, []); (EnvOk, []); (RSucceeded, [(0, true, true)])].
Proof. vm_compute. reflexivity. Qed.

(* a command that is still waiting at its timeout is given up without deleting *)
Example timeout_while_waiting :
  map obs_of (trace (init 1) [Start [0] 1 [] [] []; ReplLaunch 0 0; Advance 600001; Recon 0 [] [] [] []])
  = [(Started, []); (EnvOk, []); (EnvOk, []); (RFailed, [])].
Proof. vm_compute. reflexivity. Qed.

(* a failed start leaves a taint behind; the next controller pass removes it *)
Example failed_start_then_cleanup :
  let s1 := run (init 1) [Start [0] 1 [] [] [0]] in
  let s2 := run (init 1) [Start [0] 1 [] [] [0]; Cleanup [] []] in
  n_taint (s_nodes s1 0) = true /\ n_cond (s_nodes s1 0) = true /\ s_q s1 = [] /\
  n_taint (s_nodes s2 0) = false /\ n_cond (s_nodes s2 0) = false.
Proof. vm_compute. repeat split. Qed.

(* the remaining finding, as the model (and the real code) behave *)
Example partial_delete_then_timeout :
  map obs_of (trace (init 2) partial_witness)
  = [(Started, []); (EnvOk, []); (EnvOk, []); (RRequeue, [(0, true, true)]); (EnvOk, []); (RFailed, [(0, true, true)])].
Proof. vm_compute. reflexivity. Qed.

(* the guard of the API-level theorem is satisfiable on a deleting pass *)
Example deliveries_done_example :
  deliveries_done (nth 3 (trace (init 1) [Start [0] 1 [] [] []; ReplLaunch 0 0; ReplInit 0 0; Recon 0 [] [] [] []])
                       (snap_of (init 0), Restart, mkObs EnvOk [] (snap_of (init 0)))).
Proof.
  unfold deliveries_done. simpl. intros n c Hn Hc j r Hj Hr He. inversion Hn; subst n. simpl in Hc.
  destruct Hc as [<-|[]]. simpl in *. destruct Hr as [Hr|[]]. inversion Hr; subst. simpl in He. discriminate.
Qed.

(* candidate 1 of [0;1;2] vanishes completely while the command waits, then the replacement vanishes: the
   command is given up and the survivors 0 and 2 are unmarked, untainted and unqueued again *)
Example vanished_candidate_rollback :
  let ops := [Start [0; 1; 2] 1 [] [] []; ReplLaunch 0 0; CandGone 1; ReplDelApi 0 0; ReplDelState 0 0; Recon 0 [] [] [] []] in
  let s := run (init 3) ops in
  o_ret (snd (last (trace (init 3) ops) (snap_of (init 0), Restart, mkObs EnvOk [] (snap_of (init 0))))) = RFailed /\
  s_q s = [] /\ s_nodes s 0 = node0 /\ s_nodes s 1 = gone_node /\ s_nodes s 2 = node0.
Proof. vm_compute. repeat split. Qed.

(* the first candidate vanishes: the command is orphaned; an hour later nodes 1 and 2 are still tainted, marked and queued *)
Example orphaned_command :
  let s := run (init 3) orphan_witness in
  map obs_of (trace (init 3) orphan_witness) = [(Started, []); (EnvOk, []); (EnvOk, []); (EnvOk, []); (RDropped, []); (COk, [])] /\
  length (s_q s) = 1 /\ n_taint (s_nodes s 1) = true /\ n_mark (s_nodes s 2) = true.
Proof. vm_compute. repeat split. Qed.

(* the taint of a Node that is being deleted is left to the termination controller; a StateNode whose Node is gone is skipped *)
Example node_object_states :
  let s := run (init 2) [Start [0; 1] 1 [] [] [0]; NodeObjDeleting 0; NodeObjGone 1; Cleanup [] []] in
  n_taint (s_nodes s 0) = true /\ n_cond (s_nodes s 0) = false /\ n_taint (s_nodes s 1) = false /\ n_cond (s_nodes s 1) = true.
Proof. vm_compute. repeat split. Qed.

(* a second command sharing candidate 1 with a waiting command is rejected and nothing moves; the first command then
   completes as if nothing had happened *)
Example overlapping_start_rejected :
  let ops := [Start [0; 1; 2] 1 [] [] []; ReplLaunch 0 0; Start [1; 3] 1 [] [] []; Cleanup [] []; Start [1] 0 [] [] [];
              ReplInit 0 0; Recon 1 [] [] [] []] in
  map obs_of (trace (init 4) ops)
  = [(Started, []); (EnvOk, []); (ErrBusy, []); (COk, []); (ErrBusy, []); (EnvOk, []);
     (RSucceeded, [(0, true, true); (1, true, true); (2, true, true)])].
Proof. vm_compute. reflexivity. Qed.
