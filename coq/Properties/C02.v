(* C02 — Inter-pod constraints hold in the simulated end state.
   Property theorems only; each is closed by [exact] of a lemma from C02/Proofs.v.

   Scope. The theorems are about the per-constraint machinery the scheduler relies on: the
   TopologyGroup (topologygroup.go) and the admit / commit protocol Topology.AddRequirements /
   Topology.Record run on it (topology.go), for ALL op sequences, i.e. for every queue order,
   relaxation and re-queue (each of them only changes which admit / commit steps happen, in which
   order). The global statement

       forall cluster batch, interpod_ok (final world of Scheduler.Solve cluster batch)

   is NOT proved: it additionally needs a model of the group set (hashing, owner registration after
   relaxation), of the node-requirement narrowing in NodeClaim/ExistingNode.CanAdd and of the Solve
   loop. It is checked instead on the real Solve by the oracle [interpod_ok_b] (Check.v, CaseS), whose
   equivalence with the Prop specification is [interpod_oracle_reflects]. *)
From KV Require Import Base.Req C02.Model C02.Spec C02.Proofs.
Open Scope Z_scope.

(* emptyDomains is exactly the set of registered domains with count 0, after every sequence of
   Register / Record / Unregister / Get on a new group. *)
Theorem empty_domains_inv : forall ty host skew mind ds ops,
  let g := run (new_group ty host skew mind ds) ops in
  forall d, mem d (gempty g) = true <-> lookup d (gdom g) = Some 0.
Proof. exact empty_inv_l. Qed.
Print Assumptions empty_domains_inv.

(* In every reachable state, every outcome Get may produce (any map iteration order, any bootstrap
   pick) satisfies the Kubernetes admission rule of the constraint: anti-affinity -> only domains
   without a counted pod; affinity -> only domains with a counted pod, or the pod selects itself and no
   counted pod is in a domain it can use; spread -> count + self - min <= maxSkew with min over the
   usable domains, 0 for hostname and under the minDomains rule. *)
Theorem get_admission_sound : forall ty host skew mind ds ops self pd nd result valid,
  let g := run (new_group ty host skew mind ds) ops in
  allowed_get g self pd nd result valid = true ->
  get_ok_b (gtype g) (ghost g) (gskew g) (gmind g) (gdom g) self pd result valid = true.
Proof. exact get_sound_reachable. Qed.
Print Assumptions get_admission_sound.

(* Anti-affinity, one direction per group (direct group: owners admitted, selected pods committed;
   inverse group: selected pods admitted, owners committed). For every trace: the domains an admitted
   pod's node may end up in are disjoint from EVERY domain any previously committed pod may end up in
   (commit records all possible domains of an undetermined node). *)
Theorem anti_inv : forall ty host skew mind ds pre pd nd F post,
  atrace_ok (new_group ty host skew mind ds) (pre ++ AAdmit pd nd F :: post) ->
  forall D, List.In D (acommits pre) -> forall d, List.In d F -> ~ List.In d D.
Proof. exact anti_inv_new. Qed.
Print Assumptions anti_inv.

(* Affinity: every domain an admitted pod's node may end up in holds a committed matching pod whose
   domain is known to be exactly that one, or the pod selects itself and no committed matching pod is
   KNOWN to be in a domain it can use. *)
Theorem affinity_inv : forall ty host skew mind ds pre self pd nd result F post,
  ftrace_ok (new_group ty host skew mind ds) (pre ++ FAdmit self pd nd result F :: post) ->
  forall d, List.In d F ->
    List.In [d] (fcommits pre) \/ (self = true /\ forall d', List.In [d'] (fcommits pre) -> has pd d' = false).
Proof. exact affinity_inv_new. Qed.
Print Assumptions affinity_inv.

(* FINDING (C02-F11). At full strength ("a pod matching its own term may start a domain when no match
   exists in any domain it can use", for every domain an undetermined node could end up in) the
   affinity statement is false for the code: the bootstrap branch of nextDomainAffinity runs two
   independent map scans and may return two domains; the node then stays undetermined, the pod is not
   recorded (Record only counts collapsed domains) and the next self-matching pod opens a third domain. *)
Theorem affinity_global_refuted :
  wf aff_witness_group /\ matched aff_witness_group [] /\ ftrace_ok aff_witness_group aff_witness_trace /\
  ~ strong_affinity [] aff_witness_trace.
Proof. exact affinity_global_refuted_l. Qed.
Print Assumptions affinity_global_refuted.

(* ... and it holds whenever every committed matching pod sits on a node whose domain is collapsed. *)
Theorem affinity_global_partial : forall ty host skew mind ds tr,
  ftrace_ok (new_group ty host skew mind ds) tr -> all_collapsed (fcommits tr) -> strong_affinity [] tr.
Proof. exact affinity_partial_new. Qed.
Print Assumptions affinity_global_partial.

(* Spread (self-matching carriers of one DoNotSchedule constraint, arbitrary prior history [ops] of the
   group incl. the counts of bound pods): in the final state, for the LAST carrier placed into a domain
   d, count(d) - min <= maxSkew, with min over the domains that pod can use (0 for hostname / under
   the minDomains rule). New domains are only registered for the hostname key. *)
Theorem spread_inv : forall host skew mind ds ops pre pd nd valid d post,
  let g0 := run (new_group TSpread host skew mind ds) ops in
  strace_ok g0 (pre ++ SPlace pd nd valid d :: post) ->
  (forall o, List.In o post -> placed o <> Some d) ->
  let gf := srun g0 (pre ++ SPlace pd nd valid d :: post) in
  cnt (gdom gf) d - dmin gf pd <= gskew gf.
Proof. exact spread_inv_reachable. Qed.
Print Assumptions spread_inv.

(* The final-state oracle evaluated on the real Solve is the boolean form of the Prop specification. *)
Theorem interpod_oracle_reflects : forall w, interpod_ok_b w = true <-> interpod_ok w.
Proof. exact interpod_ok_iff. Qed.
Print Assumptions interpod_oracle_reflects.

(* ---- non-vacuity ---- *)
Open Scope string_scope.
Definition zoneA : req := new_req In None ["a"].
Definition anyd : req := new_req Exists None [].

(* a selected pod is committed on a node that may be in a or b; an owner can then only go to c *)
Example anti_trace_nonvacuous :
  atrace_ok (new_group TAnti false maxint32 None ["a"; "b"; "c"])
            ([ACommit ["a"; "b"]] ++ AAdmit anyd anyd ["c"] :: []) /\
  anti_opts (astep (new_group TAnti false maxint32 None ["a"; "b"; "c"]) (ACommit ["a"; "b"])) anyd anyd = ["c"].
Proof. vm_compute. split; [split; [exact I | split; [reflexivity | exact I]] | reflexivity]. Qed.

(* a = 2 pods, b = 1, c = 0, maxSkew 1: only c is admissible for a self-matching carrier *)
Example spread_trace_nonvacuous :
  let g0 := run (new_group TSpread false 1 None ["a"; "b"; "c"]) [ORecord ["a"]; ORecord ["a"]; ORecord ["b"]] in
  strace_ok g0 ([] ++ SPlace anyd anyd ["c"] "c" :: []) /\
  allowed_spread g0 true anyd anyd ["a"] ["c"] = false.
Proof. vm_compute. split; [split; [reflexivity | exact I] | reflexivity]. Qed.

(* a matching pod is known to be in b: the affinity pod must follow it; without it a self-matching pod may open a domain *)
Example affinity_trace_nonvacuous :
  ftrace_ok (new_group TAffinity false maxint32 None ["a"; "b"])
            ([FCommit ["b"]] ++ FAdmit false anyd anyd ["b"] ["b"] :: []) /\
  allowed_affinity (new_group TAffinity false maxint32 None ["a"; "b"]) false anyd anyd ["a"] = false /\
  allowed_affinity (new_group TAffinity false maxint32 None ["a"; "b"]) true anyd anyd ["a"] = true.
Proof. vm_compute. split; [split; [exact I | split; [split; reflexivity | exact I]] | split; reflexivity]. Qed.
