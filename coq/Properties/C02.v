(* C02 — Inter-pod constraints hold in the simulated end state.
   Property theorems only; each is closed by [exact] of a lemma from C02/Proofs.v.

   Scope. Two layers. (1) One TopologyGroup (topologygroup.go) under all op sequences. (2) The Topology
   (topology.go, C02/Global.v): the set of forward and inverse groups, getMatchingTopologies, AddRequirements,
   Record, Update after relaxation, Register(hostname), and ALL traces of admit / update / register steps
   (any queue order, any relaxation, any re-queue: a failed attempt changes nothing but ownership). The
   `*_global` theorems speak about the END state of such traces: the requirement each node carries for the
   topology key, i.e. every domain the node could still end up in.
   Modelling decisions of layer (2), all visible in Global.v: group identity is structural (position in an
   append-only list) instead of TopologyGroup.Hash() — hash collisions are outside the theorems and are
   watched by the harness; selects() and nodeFilter.Matches() are arbitrary fixed functions per group; the
   node requirements seen by an admission are any refinement of the node's current ones; Get may return any
   outcome [allowed_get] permits. Not modelled: the Solve loop's choice of node and pod (irrelevant for
   safety: the theorems hold for every choice), resource fit, taints.
   The remaining gap to `forall cluster batch, interpod_ok (world of Solve)` is the translation of a Kubernetes
   world (labels, selectors, namespaces) into this abstract state: that tg_sel / tg_filter are the term's
   selector and node filter and that NewTopology creates, for every required anti-affinity term, the forward
   group and its inverse twin with the carriers as owners. It is checked on the real Solve by the oracle
   [interpod_ok_b] (Check.v, CaseS), whose equivalence with the Prop specification is [interpod_oracle_reflects]. *)
From KV Require Import Base.Req C02.Model C02.Spec C02.Proofs C02.Global.
Open Scope Z_scope.

(* emptyDomains is exactly the set of registered domains with count 0, after every sequence of
   Register / Record / Unregister / Get on a new group. *)
Theorem empty_domains_inv : forall ty host skew mind ds ops,
  let g := run (new_group ty host skew mind ds) ops in
  forall d, mem d (gempty g) = true <-> lookup d (gdom g) = Some 0.
Proof. exact empty_inv_l. Qed.
Print Assumptions empty_domains_inv.

(* In every reachable state, every outcome Get may produce (any map iteration order, any bootstrap
   pick) satisfies the Kubernetes admission rule of the constraint: anti-affinity -> only domains
   without a counted pod; affinity -> only domains with a counted pod, or the pod selects itself and no
   counted pod is in a domain it can use; spread -> count + self - min <= maxSkew with min over the
   usable domains, 0 for hostname and under the minDomains rule. *)
Theorem get_admission_sound : forall ty host skew mind ds ops self pd nd result valid,
  let g := run (new_group ty host skew mind ds) ops in
  allowed_get g self pd nd result valid = true ->
  get_ok_b (gtype g) (ghost g) (gskew g) (gmind g) (gdom g) self pd result valid = true.
Proof. exact get_sound_reachable. Qed.
Print Assumptions get_admission_sound.

(* Anti-affinity, one direction per group (direct group: owners admitted, selected pods committed;
   inverse group: selected pods admitted, owners committed). For every trace: the domains an admitted
   pod's node may end up in are disjoint from EVERY domain any previously committed pod may end up in
   (commit records all possible domains of an undetermined node). *)
Theorem anti_inv : forall ty host skew mind ds pre pd nd F post,
  atrace_ok (new_group ty host skew mind ds) (pre ++ AAdmit pd nd F :: post) ->
  forall D, List.In D (acommits pre) -> forall d, List.In d F -> ~ List.In d D.
Proof. exact anti_inv_new. Qed.
Print Assumptions anti_inv.

(* Affinity: every domain an admitted pod's node may end up in holds a committed matching pod whose
   domain is known to be exactly that one, or the pod selects itself and no committed matching pod is
   KNOWN to be in a domain it can use. *)
Theorem affinity_inv : forall ty host skew mind ds pre self pd nd result F post,
  ftrace_ok (new_group ty host skew mind ds) (pre ++ FAdmit self pd nd result F :: post) ->
  forall d, List.In d F ->
    List.In [d] (fcommits pre) \/ (self = true /\ forall d', List.In [d'] (fcommits pre) -> has pd d' = false).
Proof. exact affinity_inv_new. Qed.
Print Assumptions affinity_inv.

(* FINDING (C02-F11). At full strength ("a pod matching its own term may start a domain when no match
   exists in any domain it can use", for every domain an undetermined node could end up in) the
   affinity statement is false for the code: the bootstrap branch of nextDomainAffinity runs two
   independent map scans and may return two domains; the node then stays undetermined, the pod is not
   recorded (Record only counts collapsed domains) and the next self-matching pod opens a third domain. *)
Theorem affinity_global_refuted :
  wf aff_witness_group /\ matched aff_witness_group [] /\ ftrace_ok aff_witness_group aff_witness_trace /\
  ~ strong_affinity [] aff_witness_trace.
Proof. exact affinity_global_refuted_l. Qed.
Print Assumptions affinity_global_refuted.

(* ... and it holds whenever every committed matching pod sits on a node whose domain is collapsed. *)
Theorem affinity_global_partial : forall ty host skew mind ds tr,
  ftrace_ok (new_group ty host skew mind ds) tr -> all_collapsed (fcommits tr) -> strong_affinity [] tr.
Proof. exact affinity_partial_new. Qed.
Print Assumptions affinity_global_partial.

(* Spread (self-matching carriers of one DoNotSchedule constraint, arbitrary prior history [ops] of the
   group incl. the counts of bound pods): in the final state, for the LAST carrier placed into a domain
   d, count(d) - min <= maxSkew, with min over the domains that pod can use (0 for hostname / under
   the minDomains rule). New domains are only registered for the hostname key. *)
Theorem spread_inv : forall host skew mind ds ops pre pd nd valid d post,
  let g0 := run (new_group TSpread host skew mind ds) ops in
  strace_ok g0 (pre ++ SPlace pd nd valid d :: post) ->
  (forall o, List.In o post -> placed o <> Some d) ->
  let gf := srun g0 (pre ++ SPlace pd nd valid d :: post) in
  cnt (gdom gf) d - dmin gf pd <= gskew gf.
Proof. exact spread_inv_reachable. Qed.
Print Assumptions spread_inv.

(* The final-state oracle evaluated on the real Solve is the boolean form of the Prop specification. *)
Theorem interpod_oracle_reflects : forall w, interpod_ok_b w = true <-> interpod_ok w.
Proof. exact interpod_ok_iff. Qed.
Print Assumptions interpod_oracle_reflects.


(* ======================= Topology level: end states of arbitrary traces ======================= *)

(* Anti-affinity, general form. Pod p1 is committed and recorded into the anti-affinity group X (forward
   group: X selects p1; inverse group: p1 owns X) after consulting some group on X's key; any number of steps
   later p2 is admitted and consults X. In the END state no domain is possible for both nodes. *)
Theorem anti_global : forall st0 pre p1 n1 pd1 nr1 chs1 mid p2 n2 pd2 nr2 chs2 post inv i X1,
  gwf st0 ->
  gtrace_ok st0 (pre ++ GAdmit p1 n1 pd1 nr1 chs1 :: mid ++ GAdmit p2 n2 pd2 nr2 chs2 :: post) ->
  let st1 := grun st0 pre in
  let st2 := grun (gapply st1 (GAdmit p1 n1 pd1 nr1 chs1)) mid in
  group_at st1 inv i = Some X1 -> gtype (tg_g X1) = TAnti ->
  recorded_into inv X1 p1 (final_reqs st1 p1 nr1 chs1) ->
  (exists Y, List.In Y (consulted (s_topo st1) p1 nr1) /\ tg_key Y = tg_key X1) ->
  (forall X2, group_at st2 inv i = Some X2 -> consults inv X2 p2 nr2) ->
  let stf := grun st0 (pre ++ GAdmit p1 n1 pd1 nr1 chs1 :: mid ++ GAdmit p2 n2 pd2 nr2 chs2 :: post) in
  forall v, has (get (s_nodes stf n1) (tg_key X1)) v = true -> has (get (s_nodes stf n2) (tg_key X1)) v = true -> False.
Proof. exact anti_global_l. Qed.
Print Assumptions anti_global.

(* Both directions for one required anti-affinity term with forward group F and inverse twin I:
   the carrier first, then a pod the term selects ... *)
Theorem anti_global_owner_first : forall st0 pre p1 n1 pd1 nr1 chs1 mid p2 n2 pd2 nr2 chs2 post iF iI F I,
  gwf st0 ->
  gtrace_ok st0 (pre ++ GAdmit p1 n1 pd1 nr1 chs1 :: mid ++ GAdmit p2 n2 pd2 nr2 chs2 :: post) ->
  let st1 := grun st0 pre in
  group_at st1 false iF = Some F -> group_at st1 true iI = Some I -> twin F I ->
  memn p1 (tg_owners F) = true -> memn p1 (tg_owners I) = true -> tg_sel F p2 = true ->
  let stf := grun st0 (pre ++ GAdmit p1 n1 pd1 nr1 chs1 :: mid ++ GAdmit p2 n2 pd2 nr2 chs2 :: post) in
  forall v, has (get (s_nodes stf n1) (tg_key F)) v = true -> has (get (s_nodes stf n2) (tg_key F)) v = true -> False.
Proof. exact anti_owner_first_l. Qed.
Print Assumptions anti_global_owner_first.

(* ... and a selected pod first, then a carrier (still owner of F when it is admitted). *)
Theorem anti_global_selected_first : forall st0 pre p1 n1 pd1 nr1 chs1 mid p2 n2 pd2 nr2 chs2 post iF iI F I,
  gwf st0 ->
  gtrace_ok st0 (pre ++ GAdmit p1 n1 pd1 nr1 chs1 :: mid ++ GAdmit p2 n2 pd2 nr2 chs2 :: post) ->
  let st1 := grun st0 pre in
  let st2 := grun (gapply st1 (GAdmit p1 n1 pd1 nr1 chs1)) mid in
  group_at st1 false iF = Some F -> group_at st1 true iI = Some I -> twin F I ->
  tg_sel F p1 = true ->
  (forall F2, group_at st2 false iF = Some F2 -> memn p2 (tg_owners F2) = true) ->
  let stf := grun st0 (pre ++ GAdmit p1 n1 pd1 nr1 chs1 :: mid ++ GAdmit p2 n2 pd2 nr2 chs2 :: post) in
  forall v, has (get (s_nodes stf n1) (tg_key F)) v = true -> has (get (s_nodes stf n2) (tg_key F)) v = true -> False.
Proof. exact anti_selected_first_l. Qed.
Print Assumptions anti_global_selected_first.

(* Spread: the END state satisfies count(d) - min <= maxSkew for the group of the last counted pod committed
   into d when that pod is a self-selecting carrier ([quiet]: no later counted commit into d; later counted
   commits go to known domains; Register only for hostname-mode groups). Groups created by Update in the
   middle of a pass start from countDomains (bound pods only): the theorem then speaks about the carriers
   admitted after the creation, which is all the code can know (see report: not covered = pods of the pass
   committed before a group was created). *)
Theorem spread_global : forall st0 pre p1 n1 pd1 nr1 chs1 post i G d,
  gwf st0 ->
  gtrace_ok st0 (pre ++ GAdmit p1 n1 pd1 nr1 chs1 :: post) ->
  let st1 := grun st0 pre in
  group_at st1 false i = Some G -> gtype (tg_g G) = TSpread ->
  memn p1 (tg_owners G) = true -> tg_sel G p1 = true -> tg_filter G (final_reqs st1 p1 nr1 chs1) = true ->
  vals (get (final_reqs st1 p1 nr1 chs1) (tg_key G)) = [d] ->
  quiet (gapply st1 (GAdmit p1 n1 pd1 nr1 chs1)) post i d ->
  exists Gf, group_at (grun st0 (pre ++ GAdmit p1 n1 pd1 nr1 chs1 :: post)) false i = Some Gf /\
             bound_holds Gf d (get pd1 (tg_key G)).
Proof. exact spread_global_l. Qed.
Print Assumptions spread_global.

(* Affinity: every domain the admitted pod's node may end up in held a bound match, or a selected pod of the
   pass committed on a node collapsed to exactly that domain, or the pod selects itself and no such match is
   known in any domain it can use. *)
Theorem affinity_global : forall st0 pre p n pd nr chs i G0,
  gwf st0 -> gtrace_ok st0 (pre ++ [GAdmit p n pd nr chs]) ->
  group_at st0 false i = Some G0 -> gtype (tg_g G0) = TAffinity ->
  (forall G, group_at (grun st0 pre) false i = Some G -> memn p (tg_owners G) = true) ->
  forall v, has (get (final_reqs (grun st0 pre) p nr chs) (tg_key G0)) v = true ->
    0 < cnt (gdom (tg_g G0)) v \/ commits_to st0 pre i v \/
    (tg_sel G0 p = true /\
     forall v', has (get pd (tg_key G0)) v' = true -> ~ 0 < cnt (gdom (tg_g G0)) v' /\ ~ commits_to st0 pre i v').
Proof. exact affinity_global_l. Qed.
Print Assumptions affinity_global.

(* Full strength under the collapsed-match guard ... *)
Theorem affinity_global_partial2 : forall st0 pre p n pd nr chs i G0,
  gwf st0 -> gtrace_ok st0 (pre ++ [GAdmit p n pd nr chs]) ->
  group_at st0 false i = Some G0 -> gtype (tg_g G0) = TAffinity ->
  (forall G, group_at (grun st0 pre) false i = Some G -> memn p (tg_owners G) = true) ->
  commits_collapsed st0 pre i ->
  strong_affinity_at st0 pre p pd nr chs i G0.
Proof. exact affinity_global_guarded_l. Qed.
Print Assumptions affinity_global_partial2.

(* ... and refuted without it, at the Topology level (same finding as [affinity_global_refuted]). *)
Theorem affinity_topology_refuted :
  gwf gw_state /\ gtrace_ok gw_state (gw_pre ++ [GAdmit 2 2 [] [] [(["c"%string], ["c"%string])]]) /\
  group_at gw_state false 0 = Some gw_group /\
  ~ strong_affinity_at gw_state gw_pre 2 [] [] [(["c"%string], ["c"%string])] 0 gw_group.
Proof. exact affinity_topology_refuted_l. Qed.
Print Assumptions affinity_topology_refuted.

(* ---- non-vacuity ---- *)
Open Scope string_scope.
Definition zoneA : req := new_req In None ["a"].
Definition anyd : req := new_req Exists None [].

(* a selected pod is committed on a node that may be in a or b; an owner can then only go to c *)
Example anti_trace_nonvacuous :
  atrace_ok (new_group TAnti false maxint32 None ["a"; "b"; "c"])
            ([ACommit ["a"; "b"]] ++ AAdmit anyd anyd ["c"] :: []) /\
  anti_opts (astep (new_group TAnti false maxint32 None ["a"; "b"; "c"]) (ACommit ["a"; "b"])) anyd anyd = ["c"].
Proof. vm_compute. split; [split; [exact I | split; [reflexivity | exact I]] | reflexivity]. Qed.

(* a = 2 pods, b = 1, c = 0, maxSkew 1: only c is admissible for a self-matching carrier *)
Example spread_trace_nonvacuous :
  let g0 := run (new_group TSpread false 1 None ["a"; "b"; "c"]) [ORecord ["a"]; ORecord ["a"]; ORecord ["b"]] in
  strace_ok g0 ([] ++ SPlace anyd anyd ["c"] "c" :: []) /\
  allowed_spread g0 true anyd anyd ["a"] ["c"] = false.
Proof. vm_compute. split; [split; [reflexivity | exact I] | reflexivity]. Qed.

(* a matching pod is known to be in b: the affinity pod must follow it; without it a self-matching pod may open a domain *)
Example affinity_trace_nonvacuous :
  ftrace_ok (new_group TAffinity false maxint32 None ["a"; "b"])
            ([FCommit ["b"]] ++ FAdmit false anyd anyd ["b"] ["b"] :: []) /\
  allowed_affinity (new_group TAffinity false maxint32 None ["a"; "b"]) false anyd anyd ["a"] = false /\
  allowed_affinity (new_group TAffinity false maxint32 None ["a"; "b"]) true anyd anyd ["a"] = true.
Proof. vm_compute. split; [split; [exact I | split; [split; reflexivity | exact I]] | split; reflexivity]. Qed.

(* a valid Topology-level trace with a forward anti-affinity group and its inverse twin: carrier 1 goes to zone a,
   the selected pod 2 is then confined to b / c *)
Definition ex_F : tgroup := mkTG "zone" (new_group TAnti false maxint32 None ["a"; "b"; "c"]) (fun p => Nat.eqb p 2) (fun _ => true) [1%nat].
Definition ex_I : tgroup := mkTG "zone" (new_group TAnti false maxint32 None ["a"; "b"; "c"]) (fun p => Nat.eqb p 2) (fun _ => true) [1%nat].
Definition ex_st : gstate := mkS (mkT [ex_F] [ex_I]) (fun _ => []) [].
Example anti_global_nonvacuous :
  gwf ex_st /\ twin ex_F ex_I /\
  gtrace_ok ex_st ([] ++ GAdmit 1 1 [] [("zone", new_req In None ["a"])] [(["a"], ["a"])]
                      :: [] ++ GAdmit 2 2 [] [] [(["b"; "c"], ["b"; "c"])] :: []).
Proof.
  split; [split; simpl; (constructor; [apply Proofs.wf_new_group | constructor])|].
  split; [repeat split|].
  simpl. repeat split; try (intros k v H; exact H); repeat constructor; vm_compute; reflexivity.
Qed.
