(* C16 — Forceful reapers act only on their documented trigger.
   Property theorems only; each is closed by [exact] of a lemma from C16/Proofs.v.
   The models (C16/Model.v) mirror the four Reconcile functions at method granularity; inputs
   range over all object states, clock positions and API response classes (fault plans). *)
From KV Require Import C16.Model C16.Proofs.
Open Scope Z_scope.

(* ---------------------------------------------------------------- expiration *)

(* A Delete is issued only for a managed, not yet deleting claim whose expiry is enabled and
   whose creation time plus expireAfter is not after the clock. *)
Theorem expire_only_after_ttl : forall i : exp_in, (0 < fst (expire i))%nat ->
  e_managed i = true /\ e_deleting i = false /\
  exists d, e_expire_after i = Some d /\ e_created i + d <= e_now i.
Proof. exact expire_only_after_ttl_l. Qed.
Print Assumptions expire_only_after_ttl.

Theorem expire_never_when_disabled : forall i : exp_in, e_expire_after i = None -> fst (expire i) = O.
Proof. exact expire_never_when_disabled_l. Qed.
Print Assumptions expire_never_when_disabled.

(* exact characterisation (the reaper is also not lazier than documented) *)
Theorem expire_deletes_exactly_when : forall i : exp_in,
  fst (expire i) = 1%nat <->
  e_managed i = true /\ e_deleting i = false /\
  exists d, e_expire_after i = Some d /\ e_created i + d <= e_now i.
Proof. exact expire_deletes_iff. Qed.
Print Assumptions expire_deletes_exactly_when.

(* over any history of reconciles of one claim, with any clock movement and any Delete responses *)
Theorem expire_history : forall created ttl (h : list (Z * resp)) now n,
  In (now, n) (exp_history created ttl h) -> (0 < n)%nat -> exists d, ttl = Some d /\ created + d <= now.
Proof. exact exp_history_l. Qed.
Print Assumptions expire_history.

(* ---------------------------------------------------------------- garbage collection *)

(* Under the property's precondition (at most one Node per provider id): every deleted name is a
   listed, managed, Registered, not deleting claim; both list calls succeeded; the provider does
   not list its instance as live; its Node lookup did not fail; every Node carrying its provider
   id is not Ready (in particular: there may be none). *)
Theorem gc_delete_only_on_trigger : forall (i : gc_in) (name : string),
  nodes_unique i -> In name (fst (gc i)) ->
  exists cs ps c, g_claims i = Some cs /\ g_provider i = Some ps /\ In c cs /\ gc_name c = name /\
    gc_managed c = true /\ gc_registered c = true /\ gc_deleting c = false /\
    ~ In (gc_pid c) (live_ids ps) /\
    (gc_pid c = ""%string \/ ~ In (gc_pid c) (g_nodefail i)) /\
    forall n, In n (its_nodes i (gc_pid c)) -> gn_ready n = false.
Proof. exact gc_delete_only_on_trigger_l. Qed.
Print Assumptions gc_delete_only_on_trigger.

(* without the precondition: the lookup-level statement (Duplicate is the extra disjunct) *)
Theorem gc_delete_lookup_level : forall i : gc_in, gc_holds i (fst (gc i)).
Proof. exact gc_sound. Qed.
Print Assumptions gc_delete_lookup_level.

(* "and not when that cannot be established": a failed Node lookup never deletes that claim ... *)
Theorem gc_no_delete_on_failed_lookup : forall (i : gc_in) cs c,
  g_claims i = Some cs -> NoDup (map gc_name cs) -> In c cs ->
  node_lookup i (gc_pid c) = Failed -> ~ In (gc_name c) (fst (gc i)).
Proof. exact gc_no_delete_on_failed_lookup_l. Qed.
Print Assumptions gc_no_delete_on_failed_lookup.

(* ... a failed NodeClaim list or provider list deletes nothing and is reported as an error ... *)
Theorem gc_no_delete_on_failed_list : forall i : gc_in,
  g_claims i = None \/ g_provider i = None -> gc i = ([], RErr).
Proof. exact gc_failed_lists_l. Qed.
Print Assumptions gc_no_delete_on_failed_list.

(* ... and a Ready Node protects its claim even though the provider does not list the instance. *)
Theorem gc_ready_node_protects : forall (i : gc_in) cs c,
  g_claims i = Some cs -> NoDup (map gc_name cs) -> In c cs ->
  node_lookup i (gc_pid c) = Found true -> ~ In (gc_name c) (fst (gc i)).
Proof. exact gc_ready_node_protects_l. Qed.
Print Assumptions gc_ready_node_protects.

(* F3 (fixed in /repo by 85caa9282): the closure without the `return` deleted on a failed lookup. *)
Theorem gc_prefix_no_delete_on_failed_lookup_refuted :
  exists i cs c, g_claims i = Some cs /\ In c cs /\ NoDup (map gc_name cs) /\
    node_lookup i (gc_pid c) = Failed /\ In (gc_name c) (fst (gc_prefix i)).
Proof. exact gc_prefix_refuted_l. Qed.
Print Assumptions gc_prefix_no_delete_on_failed_lookup_refuted.

Theorem gc_prefix_no_delete_on_failed_lookup_partial : forall i : gc_in,
  (forall cs c, g_claims i = Some cs -> In c cs -> node_lookup i (gc_pid c) <> Failed) ->
  fst (gc_prefix i) = fst (gc i).
Proof. exact gc_prefix_partial_l. Qed.
Print Assumptions gc_prefix_no_delete_on_failed_lookup_partial.

(* Reading note: "the provider no longer lists its instance" is formalised as "does not list it
   as a live (non-terminating) instance", which is what the code implements (it drops listed
   instances that carry a DeletionTimestamp). Under the strict reading "does not list it at all"
   the statement is false for a terminating instance, and true when no listed instance is
   terminating. *)
Theorem gc_delete_only_if_unlisted_strict_refuted :
  exists i ps c, g_provider i = Some ps /\ g_claims i = Some [c] /\
    In (gc_name c) (fst (gc i)) /\ In (gc_pid c) (map gi_pid ps).
Proof. exact gc_strict_unlisted_refuted_l. Qed.
Print Assumptions gc_delete_only_if_unlisted_strict_refuted.

Theorem gc_delete_only_if_unlisted_strict_partial : forall (i : gc_in) ps name,
  g_provider i = Some ps -> (forall p, In p ps -> gi_deleting p = false) ->
  In name (fst (gc i)) ->
  exists cs c, g_claims i = Some cs /\ In c cs /\ gc_name c = name /\ ~ In (gc_pid c) (map gi_pid ps).
Proof. exact gc_strict_unlisted_partial_l. Qed.
Print Assumptions gc_delete_only_if_unlisted_strict_partial.

(* The two snapshot reads of a pass are not atomic. For every trace of cluster states (any
   environment events: a claim launching and registering, an instance appearing or terminating, ...)
   and any read instants with the NodeClaim list served no later than the provider list (the code's
   order): a deleted claim was observed Registered at [ti] and its instance was not listed live at
   some instant at or AFTER that observation. *)
Theorem gc_two_reads_absent_after_observed : forall (tr : nat -> gworld) ti tj nodes nf name,
  (ti <= tj)%nat -> In name (fst (gc_pass tr ti tj nodes nf)) ->
  exists c, In c (w_claims (tr ti)) /\ gc_name c = name /\ gc_registered c = true /\
    exists t, (ti <= t)%nat /\ ~ In (gc_pid c) (live_ids (w_insts (tr t))).
Proof. exact gc_pass_sound_l. Qed.
Print Assumptions gc_two_reads_absent_after_observed.

(* With the reads swapped (provider snapshot older than the NodeClaim snapshot) it is false: a claim
   that launches and registers between the reads is deleted although the provider lists its instance
   at every instant from its observation on. It holds again on a cluster that does not change. *)
Theorem gc_swapped_reads_absent_after_observed_refuted :
  exists (tr : nat -> gworld) ti tj nodes nf name, (tj < ti)%nat /\
    In name (fst (gc_pass tr ti tj nodes nf)) /\
    forall c, In c (w_claims (tr ti)) -> gc_name c = name ->
      forall t, (ti <= t)%nat -> In (gc_pid c) (live_ids (w_insts (tr t))).
Proof. exact gc_pass_swapped_refuted_l. Qed.
Print Assumptions gc_swapped_reads_absent_after_observed_refuted.

Theorem gc_swapped_reads_absent_after_observed_partial : forall w nodes nf,
  gc2_swapped w w nodes nf = gc2 w w nodes nf.
Proof. exact gc2_swapped_partial_l. Qed.
Print Assumptions gc_swapped_reads_absent_after_observed_partial.

(* the model of the code satisfies the two-read spec that the oracle evaluates; the swapped order does not *)
Theorem gc_two_reads_spec : forall w0 w1 nodes nf,
  gc2_holds ClaimsFirst w0 w1 nodes nf (fst (gc2 w0 w1 nodes nf)).
Proof. exact gc2_sound. Qed.
Print Assumptions gc_two_reads_spec.

Theorem gc_two_reads_spec_swapped_refuted : exists w0 w1 nodes nf,
  ~ gc2_holds ProviderFirst w0 w1 nodes nf (fst (gc2_swapped w0 w1 nodes nf)).
Proof. exact gc2_swapped_refuted_l. Qed.
Print Assumptions gc_two_reads_spec_swapped_refuted.

(* ---------------------------------------------------------------- liveness *)

(* A Delete is issued only if Registered is not True and either Launched is not True and has been
   so for at least the launch timeout, or Registered has been not True for at least the
   registration timeout (both measured from the condition's last transition). *)
Theorem liveness_delete_only_on_timeout : forall i : lv_in, (0 < fst (liveness i))%nat ->
  (forall t, l_registered i <> Some (CTrue, t)) /\
  ((exists s lt, l_launched i = Some (s, lt) /\ s <> CTrue /\ launch_timeout <= l_now i - lt) \/
   (exists s rt, l_registered i = Some (s, rt) /\ s <> CTrue /\ reg_timeout <= l_now i - rt)).
Proof. exact liveness_sound. Qed.
Print Assumptions liveness_delete_only_on_timeout.

(* a conflicting or failing NodePool read/patch before the first Delete prevents the Delete *)
Theorem liveness_pool_failure_blocks : forall i : lv_in, nth_pool i O <> HProceed -> fst (liveness i) = O.
Proof. exact liveness_pool_failure_blocks_l. Qed.
Print Assumptions liveness_pool_failure_blocks.

(* one reconcile issues at most one Delete (since 3cbc43e89 the launch-timeout branch returns) *)
Theorem liveness_at_most_one_delete : forall i : lv_in, (fst (liveness i) <= 1)%nat.
Proof. exact liveness_at_most_one_delete_l. Qed.
Print Assumptions liveness_at_most_one_delete.

(* the code before 3cbc43e89 fell through to the registration timeout: a second Delete (and a second
   recorded failure) in the same reconcile when both timeouts had elapsed; its Deletes were still
   justified, and it agrees with the fixed code unless the registration timeout has elapsed too *)
Theorem prefix_liveness_at_most_one_delete_refuted : exists i : lv_in, fst (liveness_prefix i) = 2%nat.
Proof. exact liveness_prefix_double_delete_l. Qed.
Print Assumptions prefix_liveness_at_most_one_delete_refuted.

Theorem prefix_liveness_at_most_one_delete_partial : forall i : lv_in,
  reg_timed_out i = false -> fst (liveness_prefix i) = fst (liveness i).
Proof. exact liveness_prefix_partial_l. Qed.
Print Assumptions prefix_liveness_at_most_one_delete_partial.

(* ---------------------------------------------------------------- node repair *)

(* A Delete is issued only if exactly one NodeClaim resolved for the Node, some repair policy
   matches a condition of the Node that has lasted the policy's toleration, the Node list was
   read, and at most 20% (rounded up) of the counted nodes are unhealthy: 5u < n + 5. *)
Theorem repair_delete_only_on_trigger : forall i : rp_in, (0 < snd (fst (repair i)))%nat ->
  exists c, claim_lookup i = Found c /\
    (exists p, In p (r_policies i) /\ lasted i p) /\
    r_nodes_resp i = AOk /\
    5 * unhealthy_count (r_policies i) (breaker_nodes i c) < Z.of_nat (List.length (breaker_nodes i c)) + 5.
Proof. exact repair_sound. Qed.
Print Assumptions repair_delete_only_on_trigger.

(* the code's threshold is exactly "20% rounded up": the least t with 5 t >= n *)
Theorem repair_threshold_is_ceil_20_percent : forall n : Z,
  n <= 5 * threshold n /\ 5 * (threshold n - 1) < n.
Proof. exact threshold_ceil. Qed.
Print Assumptions repair_threshold_is_ceil_20_percent.

Theorem repair_breaker_blocks : forall (i : rp_in) c, claim_lookup i = Found c ->
  threshold (Z.of_nat (List.length (breaker_nodes i c))) < unhealthy_count (r_policies i) (breaker_nodes i c) ->
  snd (fst (repair i)) = O.
Proof. exact repair_breaker_l. Qed.
Print Assumptions repair_breaker_blocks.

(* Terminating Nodes are part of "the pool's nodes": the model (as the code) counts every listed Node.
   A variant that leaves them out deletes during a rolling failure with 2 of 5 unhealthy. *)
Theorem repair_skip_terminating_refuted :
  exists i, (0 < snd (fst (repair_skip_terminating i)))%nat /\ ~ rp_holds i (snd (fst (repair_skip_terminating i))) /\
            snd (fst (repair i)) = O.
Proof. exact repair_skip_terminating_refuted_l. Qed.
Print Assumptions repair_skip_terminating_refuted.

Theorem repair_skip_terminating_partial : forall i : rp_in,
  (forall n, In n (r_nodes i) -> rn_deleting n = false) -> repair_skip_terminating i = repair i.
Proof. exact repair_skip_terminating_partial_l. Qed.
Print Assumptions repair_skip_terminating_partial.

(* no Delete while every matching policy's toleration is still running *)
Theorem repair_tolerates : forall i : rp_in,
  (forall p, In p (r_policies i) -> matches (r_conds i) p = true -> r_now i < term_time (r_conds i) p) ->
  snd (fst (repair i)) = O.
Proof. exact repair_tolerates_l. Qed.
Print Assumptions repair_tolerates.

(* the selected condition is the one whose toleration ends first (when no termination time is
   the zero time, which the code uses as "unset") *)
Theorem repair_selects_earliest : forall cs ps c tol,
  (forall p, In p ps -> matches cs p = true -> term_time cs p <> zero_time) ->
  find_unhealthy cs ps = Some (c, tol) ->
  forall p, In p ps -> matches cs p = true -> nc_time c + tol <= term_time cs p.
Proof. exact find_unhealthy_earliest. Qed.
Print Assumptions repair_selects_earliest.

(* a failed NodeClaim lookup, a failed Node list, or a failed annotation Patch yields no Delete *)
Theorem repair_no_delete_on_failed_read : forall i : rp_in,
  (claim_lookup i = Failed \/ r_nodes_resp i <> AOk \/
   (exists c, claim_lookup i = Found c /\ patch_needed i c = true /\ r_patch i <> AOk)) ->
  snd (fst (repair i)) = O.
Proof. exact repair_no_delete_on_failed_read_l. Qed.
Print Assumptions repair_no_delete_on_failed_read.

(* ---------------------------------------------------------------- all reapers, all histories *)

(* Every reconcile of every reaper in every history (any interleaving of the four controllers,
   any object states, clock positions and fault plans) satisfies its spec. *)
Theorem reapers_history_justified : forall h : list rop, Forall justified h.
Proof. exact history_justified_l. Qed.
Print Assumptions reapers_history_justified.

(* the boolean oracles evaluated on the implementation's observations are the specs *)
Theorem oracles_reflect_specs :
  (forall i n, exp_holds_b i n = true <-> exp_holds i n) /\
  (forall i d, gc_holds_b i d = true <-> gc_holds i d) /\
  (forall o w0 w1 nodes nf d, gc2_holds_b o w0 w1 nodes nf d = true <-> gc2_holds o w0 w1 nodes nf d) /\
  (forall i n, lv_holds_b i n = true <-> lv_holds i n) /\
  (forall i n, rp_holds_b i n = true <-> rp_holds i n).
Proof. exact (conj exp_holds_b_iff (conj gc_holds_b_iff (conj gc2_holds_b_iff (conj lv_holds_b_iff rp_holds_b_iff)))). Qed.
Print Assumptions oracles_reflect_specs.

(* ---------------------------------------------------------------- non-vacuity *)

Open Scope string_scope.

(* expiration: deletes exactly at creation + ttl, not one nanosecond earlier *)
Example expire_at_boundary :
  expire (mkExp true false (Some (300 * sec)) 1000 (1000 + 300 * sec) AOk) = (1%nat, ROk) /\
  expire (mkExp true false (Some (300 * sec)) 1000 (1000 + 300 * sec - 1) AOk) = (O, RAfter 1) /\
  expire (mkExp true false None 1000 (1000 + 999999 * sec) AOk) = (O, ROk).
Proof. vm_compute. repeat split; reflexivity. Qed.

(* gc: one claim deleted (node absent), one protected by a Ready node, one skipped because its
   lookup failed (reported as error), one listed live *)
Definition gc_example : gc_in :=
  mkGc (Some [mkGClaim "a" true true false "p1" AOk; mkGClaim "b" true true false "p2" AOk;
              mkGClaim "c" true true false "p3" AOk; mkGClaim "d" true true false "p4" AOk])
       (Some [mkGInst "p4" false; mkGInst "p1" true])
       [mkGNode "p2" true; mkGNode "p3" false] ["p3"].
Example gc_example_run : gc gc_example = (["a"], RErr) /\ nodes_unique gc_example.
Proof.
  split; [vm_compute; reflexivity|]. intros pid.
  change (g_nodes gc_example) with [mkGNode "p2" true; mkGNode "p3" false]. cbn [filter gn_pid].
  destruct (String.eqb_spec "p2" pid) as [E2|E2], (String.eqb_spec "p3" pid) as [E3|E3]; cbn [List.length]; try lia.
  exfalso. rewrite <- E3 in E2. discriminate E2.
Qed.

(* gc over a changing cluster: "gone" loses its instance between the reads and is deleted; "fresh"
   launches between the reads and is not even observed by the code's order, while the swapped order
   observes it against the stale provider snapshot and deletes it *)
Definition w_before : gworld := mkGWorld [mkGClaim "gone" true true false "p0" AOk] [mkGInst "p0" false].
Definition w_after : gworld :=
  mkGWorld [mkGClaim "fresh" true true false "p1" AOk; mkGClaim "gone" true true false "p0" AOk] [mkGInst "p1" false].
Example gc_two_reads_example :
  fst (gc2 w_before w_after [mkGNode "p1" false] []) = ["gone"] /\
  fst (gc2_swapped w_before w_after [mkGNode "p1" false] []) = ["fresh"] /\
  gc2_holds_b ClaimsFirst w_before w_after [mkGNode "p1" false] [] ["gone"] = true /\
  gc2_holds_b ProviderFirst w_before w_after [mkGNode "p1" false] [] ["fresh"] = false.
Proof. vm_compute. repeat split; reflexivity. Qed.

(* liveness: launch timeout elapsed exactly => one Delete and the reconcile ends; registration timeout with Launched = True *)
Example liveness_at_boundary :
  liveness (mkLv (Some (CUnknown, 0)) (Some (CUnknown, 0)) launch_timeout [(Some AOk, None)] [AOk]) = (1%nat, ROk) /\
  liveness (mkLv (Some (CUnknown, 0)) (Some (CUnknown, 0)) (launch_timeout - 1) [] []) = (O, RAfter 1) /\
  liveness (mkLv (Some (CUnknown, 0)) (Some (CFalse, 0)) reg_timeout [(Some AOk, None); (Some AOk, None)] [AOk; AOk]) = (1%nat, ROk) /\
  liveness (mkLv (Some (CUnknown, 0)) (Some (CTrue, 0)) reg_timeout [(Some AOk, None)] [AOk]) = (1%nat, ROk) /\
  liveness (mkLv (Some (CUnknown, 0)) (Some (CFalse, 0)) reg_timeout [(Some AErr, None)] []) = (O, RErr).
Proof. vm_compute. repeat split; reflexivity. Qed.

(* repair: pool of 6 with 2 unhealthy (ceil(6/5) = 2) => Delete; with 3 unhealthy => blocked *)
Definition sick : list ncond := [mkCond "BadNode" "False" 0].
Definition fine : list ncond := [mkCond "BadNode" "True" 0].
Definition rp_example (others : list rnode) (now : Z) : rp_in :=
  mkRp "id" sick [mkRClaim "id" (Some "pool") false AnnNone] AOk [mkPolicy "BadNode" "False" (1800 * sec)] now
       (mkRNode (Some "pool") false sick :: others) AOk AOk AOk AOk.
Definition pool5 (k : nat) : list rnode :=
  map (fun j => mkRNode (Some "pool") false (if Nat.ltb j k then sick else fine)) (seq 0 5).
Example repair_examples :
  repair (rp_example (pool5 1) (1800 * sec)) = (1%nat, 1%nat, ROk) /\
  repair (rp_example (pool5 1) (1800 * sec - 1)) = (O, O, RAfter 1) /\
  repair (rp_example (pool5 2) (1800 * sec)) = (O, O, RAfter breaker_requeue) /\
  threshold 6 = 2 /\ threshold 5 = 1 /\ threshold 0 = 0 /\ threshold 1 = 1.
Proof. vm_compute. repeat split; reflexivity. Qed.
