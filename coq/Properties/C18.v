(* C18 — Scheduling simulations have no side effects.
   Property theorems only; each is closed by [exact] of a lemma from C18/Proofs.v.  The heap model (C18/Model.v)
   makes sharing explicit; [table] is the deep-copy fact table regenerated from zz_generated.deepcopy.go on every
   run (gen/C18_deepcopy.v), so a change of the generated copy code changes these statements' instance.
   Limit (stated in DESIGN.md): sharing the fact table does not describe is caught by the digest differential of
   the correspondence check, not by these theorems. *)
From Coq Require Import ZArith String List Bool.
From KV Require Import C18.Model C18.Proofs gen.C18_deepcopy.
Import ListNotations.
Open Scope string_scope.

(* Any number of consecutive simulations, each with any outcome (results, rejected, failed, timed out = any prefix
   of decisions), any scheduler decisions: every cell that existed before — the cluster's nodes, their usage,
   host-port and volume maps, deletion marks, nominations, the provider's slices, the provider's instance types and
   every map hanging off them (Capacity, Overhead, per-offering overrides), API objects — is untouched, with two
   exceptions: the pod-bookkeeping cell (the finding below) and the lazily computed, still unset
   allocatable-groups field of a provider instance type (sync.Once precompute; the computed maps are new cells). *)
Theorem simulate_writes_fresh_only : forall roots slices types pods book h (calls : list sim_call) a,
  wf h -> a < next h -> a <> book -> ~ In a pods ->
  let h' := simulate_all (genv roots slices types pods book) h calls in
  (~ In a types -> cells h' a = cells h a) /\ same_except_l [cacheF] (cells h a) (cells h' a).
Proof. exact simulate_writes_fresh_only_l. Qed.
Print Assumptions simulate_writes_fresh_only.

(* FINDING: the property text ("changes nothing observable") fails on the faithful model — and on the real code:
   SimulateScheduling -> Provisioner.GetPendingPods -> Cluster.MarkPodSchedulingDecisions records a scheduling
   decision for every pending pod that fails Provisioner.Validate. *)
Theorem simulate_changes_nothing_refuted :
  exists roots slices types pods book h calls a,
    wf h /\ a < next h /\ ~ In a types /\ ~ In a pods /\
    cells (simulate_all (genv roots slices types pods book) h calls) a <> cells h a.
Proof. exact simulate_changes_nothing_refuted_l. Qed.
Print Assumptions simulate_changes_nothing_refuted.

(* FINDING 2: a simulation also writes pod objects that are shared between simulations — the candidates'
   reschedulable pods and the cached CapacityBuffer virtual pods: DefaultTopologySpreadInjector.Inject assigns the
   default constraints in place.  (The in-place sort of preferred node-affinity terms by NewPodRequirements was
   fixed in /repo, bad8fc38d; the model no longer has that step and the check treats it as a violation.) *)
Theorem simulate_writes_shared_pods_refuted :
  exists roots slices types pods book h calls a,
    wf h /\ a < next h /\ a <> book /\
    Forall (fun c => pending_marks (s_outcome c) (s_rejected c) = []) calls /\
    cells (simulate_all (genv roots slices types pods book) h calls) a <> cells h a.
Proof. exact simulate_writes_shared_pods_refuted_l. Qed.
Print Assumptions simulate_writes_shared_pods_refuted.

(* ... and holds in full when no simulation marks a pod: no pending pod fails validation, or the call returns
   before GetPendingPods. *)
Theorem simulate_changes_nothing_partial : forall roots slices types pods book h (calls : list sim_call) a,
  wf h -> a < next h ->
  Forall (fun c => pending_marks (s_outcome c) (s_rejected c) = [] /\
                   forallb (fun o => negb (touches_shared_pod o)) (s_decisions c) = true) calls ->
  let h' := simulate_all (genv roots slices types pods book) h calls in
  (~ In a types -> cells h' a = cells h a) /\ same_except_l [cacheF] (cells h a) (cells h' a).
Proof. exact simulate_changes_nothing_partial_l. Qed.
Print Assumptions simulate_changes_nothing_partial.

(* The scheduler proper (ExistingNode.Add, instance-type filtering and in-place sorting, lazy precompute), any
   number of runs: it never writes a provider-owned map or a cluster-state cell. *)
Theorem scheduling_writes_fresh_only : forall roots slices types pods book h (runs : list (list sop)) a,
  wf h -> a < next h -> ~ In a pods ->
  let h' := run_all (genv roots slices types pods book) h (map sched_ops runs) in
  (~ In a types -> cells h' a = cells h a) /\ same_except_l [cacheF] (cells h a) (cells h' a).
Proof. exact scheduling_writes_fresh_only_l. Qed.
Print Assumptions scheduling_writes_fresh_only.

(* Provisioning passes and simulations in any mix and number: apart from the bookkeeping cell, a cell that existed
   before differs at most in nominatedUntil (only the cluster's own nodes) and in the unset cache field (only
   provider instance types). *)
Theorem provision_writes_only_nomination_and_bookkeeping : forall roots slices types pods book h (runs : list (list sop)) a,
  wf h -> a < next h -> a <> book -> ~ In a pods ->
  let h' := run_all (genv roots slices types pods book) h runs in
  (~ In a roots -> ~ In a types -> cells h' a = cells h a) /\ same_except_l [nomF; cacheF] (cells h a) (cells h' a).
Proof. exact provision_writes_only_nomination_and_bookkeeping_l. Qed.
Print Assumptions provision_writes_only_nomination_and_bookkeeping.

(* The same for every fact table in which the written-through paths are deep copies, and every policy. *)
Theorem any_deep_table_frames : forall al e runs h, table_ok (e_tbl e) = true -> wf h ->
  Forall (Forall (permits al e)) runs ->
  wf (run_all e h runs) /\ xframe al (next h) h (run_all e h runs).
Proof. exact run_all_x. Qed.
Print Assumptions any_deep_table_frames.

(* The deep-copy facts are needed: a table that leaves hostPortUsage shallow lets one ExistingNode.Add write the
   cluster's own host-port map. *)
Theorem shallow_copy_would_leak :
  exists h ops a, wf h /\ a < next h /\ forallb is_sim_op ops = true /\
    cells (run (mkEnv shallow_table [7] [8] [10] [] 0) h ops) a <> cells h a.
Proof. exact shallow_copy_would_leak_l. Qed.
Print Assumptions shallow_copy_would_leak.

(* The oracle evaluated on the implementation's observations is the property. *)
Theorem oracle_is_spec : forall o, holds_b o = true <-> holds o.
Proof. exact holds_b_iff_l. Qed.
Print Assumptions oracle_is_spec.

(* A simulation's bookkeeping effect is confined to the rejected pods; MarkPodSchedulingDecisions leaves alone
   every pod it was not told about. *)
Theorem sim_marks_only_rejected : forall o rej res now pod b,
  mem_z pod rej = false -> apply_marks now (marks_of KSim o rej res) pod b = b.
Proof. exact sim_marks_only_rejected_l. Qed.
Print Assumptions sim_marks_only_rejected.

(* Non-vacuity: on a concrete cluster (one node with usage objects, one provider slice, one instance type) a
   simulation that places a pod, evaluates the instance type and builds a NodeClaim does write — onto the copies
   and into new cells — and leaves every old cell as it was except the instance type's cache word; the provider's
   slice keeps its order although the new slice is sorted; the Capacity map is untouched. *)
Example sim_writes_copies_only :
  let e := genv [7] [8] [10] [] 0 in
  let h' := simulate e demo_heap OOk [] [SAddPod 0 42%Z; SPrecompute 0; SNewClaim 0 [true; true; true]; SPrecompute 0] in
  map (cells h') [0; 1; 2; 3; 4; 5; 6; 7; 8; 9] = map (cells demo_heap) [0; 1; 2; 3; 4; 5; 6; 7; 8; 9] /\
  cells h' 11 = CLeaf [11%Z; 42%Z] /\                (* the copy's reserved map received the pod *)
  cells h' 10 = CObj "InstanceType" [("Capacity", VRef (Some 9)); ("allocatableOfferings", VRef (Some 19))] /\
  cells h' 19 = CLeaf [4000%Z; 8192%Z] /\            (* the computed allocatable: a new map, computed once *)
  cells h' 20 = CLeaf [10%Z; 20%Z; 30%Z] /\          (* the NodeClaim's own slice, sorted *)
  cells h' 21 = CFree.
Proof. vm_compute. repeat split; reflexivity. Qed.

Example prov_nominates_the_clusters_node :
  let e := genv [7] [8] [10] [] 0 in
  let h' := provision e demo_heap OOk [5%Z] [SAddPod 0 42%Z] [6%Z] [(0, 99%Z)] in
  cells h' 0 = CLeaf [5%Z; 6%Z] /\
  cells h' 7 = CObj "StateNode" [("hostPortUsage", VRef (Some 2)); ("volumeUsage", VRef (Some 6));
                                 ("markedForDeletion", VInt 0); ("nominatedUntil", VInt 99)] /\
  map (cells h') [1; 2; 3; 4; 5; 6; 8; 9; 10] = map (cells demo_heap) [1; 2; 3; 4; 5; 6; 8; 9; 10].
Proof. vm_compute. repeat split; reflexivity. Qed.

Example generated_table_is_deep : table_ok table = true /\ wf demo_heap.
Proof. split; [exact generated_table_ok|exact demo_wf]. Qed.

Example oracle_examples :
  holds_b (mkObs KSim OOk 0 [] [] false true true 0 0 [] [] None []) = true /\
  holds_b (mkObs KSim OOk 0 [ClHostPorts] [] false true true 0 0 [] [] None []) = false /\
  holds_b (mkObs KProv OOk 0 [ClNominations; ClPodBookkeeping] [] false true true 0 0 [] [] None []) = true /\
  holds_b (mkObs KProv OOk 1 [ClApi] [] false true true 0 0 [] [] None []) = false.
Proof. vm_compute. repeat split; reflexivity. Qed.
