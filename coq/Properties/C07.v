(* C07 — Disruption never targets protected or ineligible nodes.
   Property theorems only; each is closed by [exact] of a lemma from C07/Proofs.v.
   [get_candidates w m] is the model of disruption.GetCandidates with method m's ShouldDisrupt and Class,
   evaluated after the history [w_ops w] of Mark / Unmark / Nominate / tick / refresh operations on cluster
   state; [eligible] is the property's conjunction (C07/Proofs.v). [pdbs_wf] is the API invariant
   DisruptionsAllowed >= 0. *)
From KV Require Import C07.Model C07.Proofs.
Open Scope string_scope.
Open Scope Z_scope.

(* Every candidate of every method, in every world, at every clock position, after every history, is
   managed, has a node, is initialized, not deleting / marked, not nominated, not annotated do-not-disrupt,
   not already in a command, hosts no pod with an active do-not-disrupt annotation or blocking PDB unless
   the method is drift / static drift and the NodeClaim has a terminationGracePeriod, and meets the
   method's pool / condition / emptiness requirements. *)
Theorem candidate_implies_eligible : forall w m ids id, pdbs_wf w -> get_candidates w m = Some ids ->
  In id ids -> exists n, In n (final_nodes w) /\ s_id n = id /\ eligible w (final w) m n.
Proof. exact candidate_implies_eligible_l. Qed.
Print Assumptions candidate_implies_eligible.

(* Exact characterisation: candidates are the eligible nodes that also meet the technical requirements
   (pool has instance types; consolidation needs instance-type / capacity-type / zone labels; pods listable). *)
Theorem candidate_iff : forall w m ids id, pdbs_wf w -> get_candidates w m = Some ids ->
  (In id ids <-> exists n, In n (final_nodes w) /\ s_id n = id /\ eligible w (final w) m n /\ extra_b w m n = true).
Proof. exact candidate_iff_l. Qed.
Print Assumptions candidate_iff.

(* Only drift / static drift may override pod-level blockers, and only with a terminationGracePeriod. *)
Theorem pod_blockers_only_drift_with_tgp : forall w m ids id, pdbs_wf w -> get_candidates w m = Some ids -> In id ids ->
  exists n c, In n (final_nodes w) /\ s_id n = id /\ s_claim n = Some c /\
    (pod_blocked (d_now (final w)) (w_pdbs w) n -> (m = Drift \/ m = StaticDrift) /\ c_tgp c = true).
Proof. exact pod_blockers_l. Qed.
Print Assumptions pod_blockers_only_drift_with_tgp.

Theorem graceful_never_blocked : forall w m ids id, pdbs_wf w -> get_candidates w m = Some ids -> In id ids ->
  eventual m = false ->
  exists n, In n (final_nodes w) /\ s_id n = id /\ ~ pod_blocked (d_now (final w)) (w_pdbs w) n.
Proof. exact graceful_never_blocked_l. Qed.
Print Assumptions graceful_never_blocked.

(* Consolidation (emptiness, multi-node, single-node): Consolidatable, dynamic pool, consolidation enabled;
   non-empty nodes need a policy other than WhenEmpty; emptiness needs an empty node without buffer pods. *)
Theorem consolidation_requires : forall w m ids id, pdbs_wf w -> get_candidates w m = Some ids -> In id ids ->
  is_consolidation m = true ->
  exists n c pl, In n (final_nodes w) /\ s_id n = id /\ s_claim n = Some c /\ o_pool w n = Some pl /\
    c_consolidatable c = Some CTrue /\ pl_static pl = false /\ (exists a, pl_after pl = Some a) /\
    (m <> Emptiness -> ~ empty n /\ pl_policy pl <> "WhenEmpty") /\
    (m = Emptiness -> empty n /\ s_buffer n <= 0).
Proof. exact consolidation_requires_l. Qed.
Print Assumptions consolidation_requires.

(* Histories of Mark / Unmark / Nominate / tick / DeleteNode / DeleteNodeClaim / update operations on cluster state
   ([ids_unique]: cluster.nodes is a map keyed by providerID). A node marked for deletion and not unmarked since is
   never a candidate while its entry stays in cluster state (updates from new objects included) ... *)
Theorem marked_protects : forall w m ids id ops1 ops2,
  pdbs_wf w -> ids_unique w -> get_candidates w m = Some ids ->
  (forall n, In n (w_nodes w) -> s_id n = id -> alive (mem_init n) = true) ->
  w_ops w = (ops1 ++ OMark id :: ops2)%list -> no_unmark id ops2 -> no_delete id (w_ops w) -> ~ In id ids.
Proof. exact marked_protects_l. Qed.
Print Assumptions marked_protects.

(* ... and a nominated node is never a candidate before max(2*BatchMaxDuration, 10s) of clock time passed. *)
Theorem nominated_protects : forall w m ids id ops1 ops2,
  pdbs_wf w -> ids_unique w -> get_candidates w m = Some ids ->
  (forall n, In n (w_nodes w) -> s_id n = id -> alive (mem_init n) = true) ->
  w_ops w = (ops1 ++ ONominate id :: ops2)%list -> no_nominate id ops2 -> no_delete id (w_ops w) ->
  ticks ops2 < nom_window (w_bm w) -> ~ In id ids.
Proof. exact nominated_protects_l. Qed.
Print Assumptions nominated_protects.

(* Losing and regaining one of the two API objects (Node deleted and re-created while the NodeClaim stays, or the
   reverse) keeps markedForDeletion and nominatedUntil. *)
Theorem protection_survives_object_deletion : forall m, m_claim m = true -> m_node m = true ->
  m_marked (f_refresh true true (f_delnode m)) = m_marked m /\ m_until (f_refresh true true (f_delnode m)) = m_until m /\
  m_marked (f_refresh true true (f_delclaim m)) = m_marked m /\ m_until (f_refresh true true (f_delclaim m)) = m_until m.
Proof. exact delete_keeps_memory. Qed.
Print Assumptions protection_survives_object_deletion.

(* A failing List of NodePools or PodDisruptionBudgets yields an error, never candidates. *)
Theorem list_failure_no_candidates : forall w m, w_fault w = FPools \/ w_fault w = FPdbs -> get_candidates w m = None.
Proof. exact C07.Proofs.list_failure_no_candidates. Qed.
Print Assumptions list_failure_no_candidates.

(* The Consolidatable condition after a reconcile: True iff consolidateAfter is set, the claim is initialized
   and consolidateAfter (if non-zero) has elapsed since the last pod event / initialization; else absent. *)
Theorem consolidatable_iff : forall i,
  (fst (reconcile_consolidatable i) = Some CTrue <-> consolidatable_spec i) /\
  (fst (reconcile_consolidatable i) = Some CTrue \/ fst (reconcile_consolidatable i) = None).
Proof. exact consolidatable_iff_l. Qed.
Print Assumptions consolidatable_iff.

Theorem requeue_hits_boundary : forall i rq,
  reconcile_consolidatable i = (None, rq) -> rq <> 0 ->
  reconcile_consolidatable (mkCI (ci_now i + rq) (ci_after i) (ci_init i) (ci_init_ltt i) (ci_last_pod i) None)
  = (Some CTrue, 0).
Proof. exact requeue_hits_boundary_l. Qed.
Print Assumptions requeue_hits_boundary.

(* The oracles evaluated on the implementation's observations are the Prop specifications. *)
Theorem oracle_is_spec : forall w m ids,
  holds_m w m ids = true <->
  forall id, In id ids -> exists n, In n (final_nodes w) /\ s_id n = id /\ eligible w (final w) m n.
Proof. exact holds_m_spec. Qed.
Print Assumptions oracle_is_spec.

Theorem condition_oracle_is_spec : forall i, consolidatable_spec_b i = true <-> consolidatable_spec i.
Proof. exact consolidatable_spec_b_iff. Qed.
Print Assumptions condition_oracle_is_spec.

Theorem model_meets_oracle : forall w m ids, pdbs_wf w -> get_candidates w m = Some ids -> holds_m w m ids = true.
Proof. exact model_satisfies_oracle. Qed.
Print Assumptions model_meets_oracle.

(* Literal reading 1: "empty" = "hosts no reschedulable pod". Refuted by a pod whose eviction cost is 0
   (documented design: designs/balanced-consolidation.md); holds when all reschedulable pods cost > 0. *)
Theorem when_empty_literal_refuted :
  exists w n pl, get_candidates w Emptiness = Some [s_id n] /\ In n (final_nodes w) /\ o_pool w n = Some pl /\
                 pl_policy pl = "WhenEmpty" /\ ~ literally_empty n.
Proof. exact when_empty_literal_refuted_l. Qed.
Print Assumptions when_empty_literal_refuted.

Theorem when_empty_literal_partial : forall w m ids id, pdbs_wf w -> get_candidates w m = Some ids -> In id ids ->
  is_consolidation m = true ->
  exists n pl, In n (final_nodes w) /\ s_id n = id /\ o_pool w n = Some pl /\
    (positive_costs n -> (m = Emptiness -> literally_empty n) /\
                         (m <> Emptiness -> ~ literally_empty n /\ pl_policy pl <> "WhenEmpty")).
Proof. exact when_empty_literal_partial_l. Qed.
Print Assumptions when_empty_literal_partial.

(* Literal reading 2: "annotated" = "the Node object carries the annotation". Refuted while the Node lacks
   the registered label (annotations are then read from the NodeClaim); holds for registered nodes. *)
Theorem node_dnd_literal_refuted :
  exists w n k, get_candidates w Drift = Some [s_id n] /\ In n (final_nodes w) /\ s_node n = Some k /\
                get K_DND (k_annos k) = "true".
Proof. exact node_dnd_literal_refuted_l. Qed.
Print Assumptions node_dnd_literal_refuted.

Theorem node_dnd_literal_partial : forall w m ids id, pdbs_wf w -> get_candidates w m = Some ids -> In id ids ->
  exists n k, In n (final_nodes w) /\ s_id n = id /\ s_node n = Some k /\
    (get K_REG (k_labels k) = "true" -> get K_DND (k_annos k) <> "true").
Proof. exact node_dnd_literal_partial_l. Qed.
Print Assumptions node_dnd_literal_partial.

(* Non-vacuity: a world where every method has a candidate, a pod-level blocker is overridden by drift with
   a TGP (and only there), a nominated node is protected, and the history premises are met. *)
Example candidates_example :
  map (get_candidates w_example) methods =
  [Some ["idle"]; Some ["fixed"]; Some ["busy"; "guarded"]; Some ["busy"]; Some ["busy"]].
Proof. vm_compute. reflexivity. Qed.

Example guarded_is_blocked_and_overridden :
  o_pod_blocked (d_now (final w_example)) (w_pdbs w_example)
    (nth 2 (w_nodes w_example) (mkSNode "" None None [] false 0)) = true /\ pdbs_wf w_example.
Proof. split; [vm_compute; reflexivity|]. intros b [E|[]]. subst b. simpl. lia. Qed.

Example nominated_history_premises :
  w_ops w_example = ([OTick 90000000000] ++ ONominate "nominated" :: [OTick 10000000000])%list /\
  no_nominate "nominated" [OTick 10000000000] /\ ticks [OTick 10000000000] < nom_window (w_bm w_example) /\
  no_delete "nominated" (w_ops w_example) /\ ids_unique w_example /\
  (forall n, In n (w_nodes w_example) -> s_id n = "nominated" -> alive (mem_init n) = true).
Proof.
  split; [reflexivity|]. split; [intros i [H|[]]; discriminate|]. split; [vm_compute; reflexivity|].
  split; [intros i [H|H]; simpl in H; repeat (destruct H as [H|H]; try discriminate); contradiction|].
  split.
  - unfold ids_unique. simpl. repeat (constructor; [simpl; intros H; repeat (destruct H as [H|H]; try discriminate); exact H|]).
    constructor.
  - intros n H _. simpl in H. repeat (destruct H as [H|H]; [subst n; reflexivity|]). contradiction.
Qed.

(* a Node object deleted and re-created keeps the node protected; a fully removed and re-created entry does not *)
Example delete_readd_example :
  let w := mkWorld 0 10000000000 FNone (w_pools w_example) [] [nth 0 (w_nodes w_example) (mkSNode "" None None [] false 0)]
                   [OMark "busy"; ODelNode "busy"; ORefresh "busy" true true] in
  let w' := mkWorld 0 10000000000 FNone (w_pools w_example) [] [nth 0 (w_nodes w_example) (mkSNode "" None None [] false 0)]
                   [OMark "busy"; ODelNode "busy"; ODelClaim "busy"; ORefresh "busy" true true] in
  get_candidates w Drift = Some [] /\ get_candidates w' Drift = Some ["busy"].
Proof. vm_compute. split; reflexivity. Qed.

Example consolidatable_example :
  reconcile_consolidatable (mkCI 1029999999999 (Some 30000000000) (Some CTrue) 0 (Some 1000000000000) (Some CTrue)) = (None, 1) /\
  reconcile_consolidatable (mkCI 1030000000000 (Some 30000000000) (Some CTrue) 0 (Some 1000000000000) None) = (Some CTrue, 0).
Proof. vm_compute. split; reflexivity. Qed.
