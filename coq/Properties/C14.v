(* C14 — A NodeClaim launches one instance and its lifecycle moves forward.
   Property theorems only; each is closed by [exact] of a lemma from C14/Proofs*.v.

   Histories are lists of [op]: reconciles under an arbitrary fault plan (an outcome for each
   individual API write and provider call), informer refreshes ([Sync]: the cached object the
   controller reads is a past snapshot of the stored one), clock ticks, API deletes, process
   restarts and node events in any order.  [trace k ops] is what the model of
   lifecycle.Controller.Reconcile does on such a history, as frames (stored object before, calls
   made with their outcome, stored object after, node after).  The model is tied to /repo by the
   correspondence check of C14/Check.v on every run. *)
From KV Require Import C14.Model C14.Spec C14.Proofs C14.Proofs2 C14.Proofs3 C14.Proofs4 C14.Proofs5.

(* The boolean oracle that the check evaluates on the implementation's observed frames decides
   the property as stated in C14/Spec.v. *)
Theorem oracle_decides : forall k g1 g3 fs, holds_b k g1 g3 fs = true <-> holds k g1 g3 fs.
Proof. exact holds_b_iff. Qed.
Print Assumptions oracle_decides.

(* At most one successful provider Create per NodeClaim, for every history without a process
   restart in which the launch cache entry is within its TTL whenever a reconcile consults
   it: every fault plan (failed status writes included), every staleness of the cached
   object, every order of environment events. *)
Theorem create_at_most_once : forall k ops,
  no_restart ops -> no_expiry k ops = true -> (total_creates (trace k ops) <= 1)%nat.
Proof. exact create_at_most_once_l. Qed.
Print Assumptions create_at_most_once.

(* Both hypotheses are necessary: a lost status write followed by a restart, or by a reconcile
   gap longer than the TTL, launches a second instance (the gap of exactly the TTL does not). *)
Theorem create_at_most_once_needs_no_restart :
  total_creates (trace k0 [Rec status_lost; Restart; Rec okp]) = 2%nat.
Proof. exact restart_duplicates. Qed.
Print Assumptions create_at_most_once_needs_no_restart.

Theorem create_at_most_once_needs_no_expiry :
  total_creates (trace k0 [Rec status_lost; Tick 3601; Rec okp]) = 2%nat /\
  no_expiry k0 [Rec status_lost; Tick 3601; Rec okp] = false /\
  total_creates (trace k0 [Rec status_lost; Tick 3600; Rec okp]) = 1%nat.
Proof. exact expiry_duplicates. Qed.
Print Assumptions create_at_most_once_needs_no_expiry.

(* The explicit inequality: with LaunchTimeout <= registrationTimeout < cache TTL, every requeue
   delay that Liveness returns is shorter than the TTL, so a work queue that honours it brings
   the next reconcile before the entry stored or refreshed by this reconcile expires.
   (The check evaluates [timing_ok] on the three durations read from the real controller.) *)
Theorem liveness_requeues_before_cache_expiry : forall k,
  0 <= k_lt k -> k_lt k <= k_rt k -> k_rt k < k_ttl k ->
  forall pl r, 0 <= r_now r -> c_rltt (r_im r) <= r_now r ->
  exists x, r_ress (liveness k pl r) = r_ress r ++ x /\
            Forall (fun q => match q with QAfter d => d < k_ttl k | _ => True end) x.
Proof. exact liveness_delay_lt_ttl. Qed.
Print Assumptions liveness_requeues_before_cache_expiry.

(* The provider is never asked to create an instance unless the stored NodeClaim carries the
   termination finalizer at that moment: for every history, every fault plan, stale reads,
   restarts, expiry. *)
Theorem create_after_finalizer : forall k ops,
  Forall (fun f => create_guarded (has_fin (fr_pre f)) (fr_effs f)) (trace k ops).
Proof. exact create_after_finalizer_l. Qed.
Print Assumptions create_after_finalizer.

(* An InsufficientCapacity / NodeClassNotReady answer is followed immediately by Delete(claim);
   when the API accepts it the NodeClaim is gone or terminating after the reconcile. *)
Theorem capacity_error_deletes : forall k ops,
  Forall (fun f => cap_deletes (fr_post f) (fr_effs f)) (trace k ops).
Proof. exact capacity_error_deletes_l. Qed.
Print Assumptions capacity_error_deletes.

(* A purely syntactic sufficient condition for [no_expiry]: every reconcile reads the stored object
   (an informer refresh since the last API write to the NodeClaim) and consecutive reconciles are at
   most g seconds apart with g + 1 <= TTL (the reconcile itself may sleep one second). *)
Theorem no_expiry_if_paced : forall k g ops,
  g + 1 <= k_ttl k -> paced g 0 true ops = true -> no_expiry k ops = true.
Proof. exact paced_sufficient. Qed.
Print Assumptions no_expiry_if_paced.

Theorem create_at_most_once_paced : forall k g ops,
  g + 1 <= k_ttl k -> no_restart ops -> paced g 0 true ops = true -> (total_creates (trace k ops) <= 1)%nat.
Proof. exact paced_at_most_once. Qed.
Print Assumptions create_at_most_once_paced.

(* Every condition of the STORED NodeClaim that turns True in any frame of any history has its
   observable precondition in that frame (Launched: an instance was created; Registered: node present,
   synced, unregistered taint removed; Initialized: node Ready, startup and ephemeral taints gone,
   requested extended resource reported).  Unconditional: every fault plan, stale reads and the
   status writes computed from them, restarts, cache expiry. *)
Theorem conditions_justified : forall k ops, all_justified k 0 (trace k ops).
Proof. exact conditions_justified_l. Qed.
Print Assumptions conditions_justified.

(* The stored NodeClaim has Registered only with Launched and Initialized only with Registered after
   every frame of every history in which the launch cache entry has not expired when it is consulted
   (restarts, faults, stale status merges allowed).  The extra invariant behind it: a stored provider id
   implies a live cache entry or a cached object that is already Launched (or that will be re-read
   through the finalizer patch), and a JSON merge patch writes the condition list as a whole. *)
Theorem conditions_ordered : forall k ops,
  no_expiry k ops = true -> Forall (fun f => ordered_opt (fr_post f)) (trace k ops).
Proof. exact conditions_ordered_l. Qed.
Print Assumptions conditions_ordered.

(* Without the premise it is refuted: a reconcile on a read older than the cache TTL whose Create and
   liveness Delete both fail overwrites Launched=True with Unknown next to the stored provider id;
   the next reconcile registers the node: Registered=True, Launched=Unknown(LaunchFailed). *)
Theorem conditions_ordered_refuted :
  option_map (fun c => (c_l c, c_r c)) (pc (final k0 order_witness)) = Some (LFailed, RTrue) /\
  no_expiry k0 order_witness = false /\ no_restart order_witness.
Proof. exact order_refuted. Qed.
Print Assumptions conditions_ordered_refuted.

(* The whole property as the oracle states it holds of every history of the model, with the guards
   computed from the history. *)
Theorem conditions_ordered_and_justified_and_all : forall k ops,
  holds k (no_restart_b ops && no_expiry k ops) (no_expiry k ops) (trace k ops).
Proof. exact model_holds. Qed.
Print Assumptions conditions_ordered_and_justified_and_all.

(* The per-reconcile lemmas the global theorems rest on (any state, any fault plan). *)

(* Launched turns True only with an instance: created by this reconcile or remembered by the launch
   cache; the provider id is set together with it. *)
Theorem launched_justified_reconcile : forall k pl r,
  c_l (r_im r) <> LTrue -> c_l (r_im (launch k pl r)) = LTrue ->
  (cache_hit k r <> None \/ launch_ex k pl r = [ECreate POk]) /\ c_pid (r_im (launch k pl r)) <> None.
Proof. exact launch_justified. Qed.
Print Assumptions launched_justified_reconcile.

(* Registered turns True only when exactly one node carries the claim's provider id and that node
   is synced (finalizer, owner, labels) with the unregistered taint removed and the registered
   label set. *)
Theorem registered_justified_reconcile : forall k pl r,
  c_r (r_im r) <> RTrue -> c_r (r_im (registration k pl r)) = RTrue ->
  node_registered_ok (r_nd (registration k pl r)) = true /\ c_pid (r_im r) <> None.
Proof. exact registration_justified. Qed.
Print Assumptions registered_justified_reconcile.

(* Initialized turns True only when Registered is True and the node is Ready, without the startup
   taint, without ephemeral taints (the unregistered taint included), with the requested extended
   resource reported, and labelled initialized. *)
Theorem initialized_justified_reconcile : forall k pl r,
  c_i (r_im r) <> ITrue -> c_i (r_im (initialization k pl r)) = ITrue ->
  node_initialized_ok k (r_nd (initialization k pl r)) = true /\ c_r (r_im r) = RTrue.
Proof. exact initialization_justified. Qed.
Print Assumptions initialized_justified_reconcile.

(* The object a reconcile writes has Registered only with Launched and Initialized only with
   Registered, given that the object it read has (and carries a provider id only when Launched). *)
Theorem conditions_ordered_reconcile : forall k pl r,
  ordered (r_im r) -> linked (r_im r) -> ordered (r_im (subs k pl r)).
Proof. exact subs_ordered. Qed.
Print Assumptions conditions_ordered_reconcile.

(* The two behaviours fixed in /repo (40852abfb, 3cbc43e89), for any state and any fault plan. *)

(* A conflict or error of the NodePool registration-health update leaves the NodeClaim unregistered in
   that reconcile: the retry re-runs the step, so the success is recorded. *)
Theorem registered_only_after_pool_recorded : forall k pl r,
  c_r (r_im r) <> RTrue -> k_pool k = true -> (f_pool_reg pl = WConflict \/ f_pool_reg pl = WErr) ->
  c_r (r_im (registration k pl r)) <> RTrue.
Proof. exact registered_only_after_pool_recorded_l. Qed.
Print Assumptions registered_only_after_pool_recorded.

(* One Liveness pass issues at most one Delete(claim). *)
Theorem liveness_deletes_once : forall k pl r,
  exists x, r_effs (liveness k pl r) = r_effs r ++ x /\ (length (filter is_del_live x) <= 1)%nat.
Proof. exact liveness_deletes_once_l. Qed.
Print Assumptions liveness_deletes_once.

(* Non-vacuity. *)

(* the happy path: one create under the finalizer patched in the same reconcile, then registration
   and initialization once the node shows up *)
Example happy_path :
  let ops := [Rec okp; Sync; NodeAppear true; Rec okp; Sync; NReady true; Rec okp; Sync] in
  total_creates (trace k0 ops) = 1%nat /\ no_restart ops /\ no_expiry k0 ops = true /\
  option_map (fun c => (c_fin c, c_l c, c_r c, c_i c)) (pc (final k0 ops)) = Some (true, LTrue, RTrue, ITrue) /\
  fr_effs (hd (mkFrame Sync None [] QNone None None) (trace k0 ops)) = [EFin WOk; ECreate POk; EPatch WOk; EStatus WOk].
Proof. vm_compute. repeat split; try reflexivity. repeat constructor. Qed.

(* a lost status write is bridged by the cache: the retry (on a stale read) does not create again *)
Example status_write_lost_then_retried :
  let ops := [Rec status_lost; Rec okp; Sync; Rec okp] in
  total_creates (trace k0 ops) = 1%nat /\ no_expiry k0 ops = true /\
  option_map c_l (pc (final k0 ops)) = Some LTrue.
Proof. vm_compute. repeat split; reflexivity. Qed.

(* a capacity error deletes the claim *)
Example capacity_error :
  let pl := mkPlan WOk PInsufficient WOk false HReady WOk WOk false WOk WOk WOk WOk WOk WOk WOk false WOk WOk false false in
  map fr_effs (trace k0 [Rec pl]) = [[EFin WOk; ECreate PInsufficient; EDelLaunch WOk; EPatch WOk; EStatus WOk]] /\
  option_map c_del (pc (final k0 [Rec pl])) = Some true.
Proof. vm_compute. split; reflexivity. Qed.

(* the real durations satisfy the inequality *)
Example real_timing : timing_ok k0 = true.
Proof. reflexivity. Qed.

(* paced histories exist (and a reconcile on a stale read is not paced) *)
Example paced_example :
  paced 900 0 true [Rec okp; Sync; Tick 900; NodeAppear true; Rec okp; Sync; NReady true; Rec okp] = true /\
  paced 900 0 true [Rec okp; Rec okp] = false /\ paced 900 0 true [Rec okp; Sync; Tick 901; Rec okp] = false.
Proof. vm_compute. repeat split; reflexivity. Qed.

(* the shape real providers produce: the capacity error sits inside a CreateError and an fmt.Errorf
   wrapper; errors.As finds it, the claim is deleted and Launched is left alone *)
Example wrapped_capacity_error :
  let pl := mkPlan WOk (PFail [YCreateErr; YWrap; YInsufficient]) WOk false HReady WOk WOk false WOk WOk WOk WOk WOk WOk WOk false WOk WOk false false in
  map fr_effs (trace k0 [Rec pl]) =
    [[EFin WOk; ECreate (PFail [YCreateErr; YWrap; YInsufficient]); EDelLaunch WOk; EPatch WOk; EStatus WOk]] /\
  option_map (fun c => (c_del c, c_l c)) (pc (final k0 [Rec pl])) = Some (true, LAwait) /\
  is_cap (PFail [YCreateErr; YWrap; YInsufficient]) = true /\ is_cap (PFail [YWrap; YCreateErr]) = false.
Proof. vm_compute. repeat split; reflexivity. Qed.
