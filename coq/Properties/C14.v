(* C14 — A NodeClaim launches one instance and its lifecycle moves forward.
   Property theorems only; each is closed by [exact] of a lemma from C14/Proofs*.v.
   Histories are lists of [op]: reconciles under an arbitrary fault plan (an outcome for each
   individual API write and provider call), informer refreshes, clock ticks, API deletes,
   process restarts and node events in any order.  [trace k ops] is what the model of the
   lifecycle controller does on such a history, as frames (stored object before, calls made,
   stored object after, node after). *)
From KV Require Import C14.Model C14.Spec C14.Proofs C14.Proofs2.

(* The boolean oracle that the check evaluates on the implementation's observed frames decides
   the property as stated in C14/Spec.v. *)
Theorem oracle_decides : forall k guard fs, holds_b k guard fs = true <-> holds k guard fs.
Proof. exact holds_b_iff. Qed.
Print Assumptions oracle_decides.

(* The provider is never asked to create an instance unless the stored NodeClaim carries the
   termination finalizer at that moment: for every history, every fault plan, stale reads,
   restarts. *)
Theorem create_after_finalizer : forall k ops,
  Forall (fun f => create_guarded (has_fin (fr_pre f)) (fr_effs f)) (trace k ops).
Proof. exact create_after_finalizer_l. Qed.
Print Assumptions create_after_finalizer.

(* An InsufficientCapacity / NodeClassNotReady answer is followed immediately by Delete(claim);
   when the API accepts it the NodeClaim is gone or terminating after the reconcile. *)
Theorem capacity_error_deletes : forall k ops,
  Forall (fun f => cap_deletes (fr_post f) (fr_effs f)) (trace k ops).
Proof. exact capacity_error_deletes_l. Qed.
Print Assumptions capacity_error_deletes.
