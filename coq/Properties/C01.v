From KV Require Import C01.Model C01.Proofs.
Theorem placeholder_thm : True. Proof. exact placeholder. Qed.
Print Assumptions placeholder_thm.
