(* C01 — Simulated placements are feasible on every launch option.
   Property theorems only; each is closed by [exact] of a lemma from C01/Proofs.v.
   Model: C01/Model.v (NodeClaim.CanAdd/Add, filterInstanceTypesByRequirements, ExistingNode.CanAdd/Add,
   Preferences.Relax, taints, host ports, resources) at method granularity; the Kubernetes side is
   [admissible] / [labels_ok] / [k8s_tolerated] / [ports_ok] / [resources_ok] in the same file. *)
From Coq Require Import ZArith String List Bool Permutation.
From KV Require Import Base.Req Base.ReqProofs Base.K8s C01.Model C01.Proofs.
Import ListNotations.
Open Scope string_scope.
Open Scope list_scope.
Open Scope Z_scope.

(* ---- the boolean oracle evaluated on the implementation's placements IS the specification ---- *)
Theorem admissible_b_spec : forall (v : nview) (ps : list pod), eff_wf (v_eff v) -> Forall pod_valid ps ->
  (admissible_b v ps = true <-> admissible v ps).
Proof. exact admissible_b_spec_l. Qed.
Print Assumptions admissible_b_spec.

(* ... with volumes: volume-zone alternatives and CSI attach limits *)
Theorem admissible_vb_spec : forall (v : nview) (vlimits : list (string * Z)) (ps : list vpod), eff_wf (v_eff v) ->
  Forall (fun vp : vpod => pod_valid (fst vp) /\ vinfo_valid (snd vp)) ps ->
  (admissible_vb v vlimits ps = true <-> admissible_v v vlimits ps).
Proof. exact admissible_vb_spec_l. Qed.
Print Assumptions admissible_vb_spec.

(* "`key op values` holds for every label the node may get" is decided exactly, for every requirement
   (any exclusion list, any int64 bounds) and every operator *)
Theorem label_quantifier_decided : forall (e : req) (o : oper) (vs : list string), wf e -> valid_args o vs = true ->
  (sat_all_b e o vs = true <-> sat_all e o vs).
Proof. exact sat_all_b_spec. Qed.
Print Assumptions label_quantifier_decided.

(* ---- the building blocks are at least as strict as Kubernetes ---- *)
Theorem fits_within_allocatable : forall cand total : rl,
  fits cand total = true -> forall k, rget k cand <= rget k total.
Proof. exact fits_spec. Qed.
Print Assumptions fits_within_allocatable.

Theorem tolerates_implies_k8s : forall ts tols, tolerates_all ts tols = true -> k8s_tolerated ts tols.
Proof. exact tolerates_all_k8s. Qed.
Print Assumptions tolerates_implies_k8s.

Theorem port_check_covers_k8s : forall (u : usage) (who : string) (ports : list hp),
  conflicts u who ports = false ->
  forall n, List.In n ports -> forall k ps e, List.In (k, ps) u -> k <> who -> List.In e ps -> ~ k8s_port_clash n e.
Proof.
  intros u who ports H n Hn k ps e Hin Hk He Hc.
  pose proof (proj1 (conflicts_false_spec u who ports) H n Hn k ps e Hin Hk He) as Hm.
  rewrite (k8s_clash_matches n e Hc) in Hm. discriminate.
Qed.
Print Assumptions port_check_covers_k8s.

(* every value a pod's requirement admits for the (normalised) key of a constraint satisfies that constraint: node
   selector and first required term *)
Theorem pod_requirements_sound : forall (all : bool) (p : pod),
  (forall k val v, List.In (k, val) (p_sel p) -> has (get (pod_reqs all p) k) v = true -> k8s_match In [val] (Some v) = true) /\
  (forall t rest, p_req p = t :: rest -> valid_term t ->
     forall k o vs v, List.In (k, o, vs) t -> has (get (pod_reqs all p) k) v = true -> k8s_match o vs (Some v) = true).
Proof. exact pod_reqs_sound. Qed.
Print Assumptions pod_requirements_sound.

(* every instance type that survives filterInstanceTypesByRequirements has an available offering compatible with
   the requirements whose allocatable holds the summed requests plus the daemon overhead of its group, no daemon
   host-port conflict, and requirements that intersect the claim's *)
Theorem filter_sound : forall wk cat elig r who ports groups total relax rem unsat,
  filter_its wk cat elig r who ports groups total relax = (rem, unsat, None) ->
  rem <> [] /\
  forall i, List.In i rem ->
    mem (it_name i) elig = true /\ List.In i cat /\
    exists g, List.In g groups /\ List.In (it_name i) (dg_its g) /\ option_ok wk r total who ports g i.
Proof. exact filter_its_sound. Qed.
Print Assumptions filter_sound.

(* a pod without volume requirements: the general CanAdd (volume alternatives tried in order) is the plain one *)
Theorem no_volumes_is_plain_step : forall wk cat all rx n p, nc_step_v wk cat all rx n p vi0 = nc_step wk cat all rx n p.
Proof. exact nc_step_v_vi0. Qed.
Print Assumptions no_volumes_is_plain_step.

(* ---- NodeClaim: step invariant, over arbitrary op sequences (any queue order, relaxation state, minValues policy) ---- *)
Theorem nc_step_preserves_inv : forall wk cat all rx n p,
  nc_wf n -> pod_wf p -> nc_inv wk cat n ->
  nc_wf (fst (nc_step wk cat all rx n p)) /\ nc_inv wk cat (fst (nc_step wk cat all rx n p)).
Proof. exact nc_step_preserves. Qed.
Print Assumptions nc_step_preserves_inv.

(* after ANY sequence of CanAdd/Add attempts against a fresh claim: every placed pod tolerates the taints;
   for every key on which the claim still admits a value, every label the node may get satisfies the pod's node
   selector and the required term it was placed with, and one of the pod's volume-topology alternatives admits every
   value the claim admits; and for EVERY remaining instance type there is an available
   offering compatible with the claim's requirements whose allocatable holds the summed requests of all placed pods
   plus the daemon overhead.  (partial: the guard "the claim admits a value for the key" — see the refutation) *)
Theorem nc_options_admissible_partial : forall wk cat all n0 ops,
  nc_wf n0 -> nc_pods n0 = [] -> nc_requests n0 = [] -> Forall (fun op : vpod * bool => pod_wf (fst (fst op))) ops ->
  let n := fst (nc_exec_v wk cat all n0 [] ops) in
  let placed := snd (nc_exec_v wk cat all n0 [] ops) in
  map fst placed = nc_pods n /\
  (forall vp, List.In vp placed ->
     k8s_tolerated (nc_taints n) (p_tols (fst vp)) /\ chosen_ok (nc_reqs n) (fst vp) /\ valts_ok (nc_reqs n) (snd vp)) /\
  (nc_pods n <> [] -> forall name, List.In name (nc_its n) ->
     exists i g alloc offs o, List.In i cat /\ it_name i = name /\ List.In g (nc_groups n) /\ List.In name (dg_its g) /\
       List.In (alloc, offs) (it_groups i) /\ List.In o offs /\ compatible wk (nc_reqs n) o = true /\
       resources_ok (nc_pods n) (dg_overhead g) alloc).
Proof. exact nc_options_admissible_l. Qed.
Print Assumptions nc_options_admissible_partial.

(* F11 (known finding contradictory-constraints-collapse-to-doesnotexist): without the guard the statement is false.
   The real step places a pod whose required `team In [a]` and preferred `team In [c]` collapse to the empty
   requirement; the claim then carries `team DoesNotExist` and no required term of the pod can hold. *)
Theorem nc_absent_label_refuted :
  exists wk cat all rx n p,
    let n' := fst (nc_step wk cat all rx n p) in
    List.In p (nc_pods n') /\ nc_its n' <> [] /\ labels_ok_b (eff_new wk (nc_reqs n') [] []) p = false.
Proof.
  exists [], [f11_it], true, false, f11_claim, f11_pod. destruct f11_step as (H1 & H2 & H3).
  cbv zeta. split; [|split; [rewrite H2; discriminate|exact H3]].
  vm_compute. left. reflexivity.
Qed.
Print Assumptions nc_absent_label_refuted.

(* ---- ExistingNode ---- *)
Theorem ex_step_preserves_inv : forall all rem0 vols0 vn placed p vi, pod_wf p -> ex_inv_v rem0 vols0 vn placed ->
  match ex_step_v all vn p vi with
  | (vn', Ok _) => ex_inv_v rem0 vols0 vn' (placed ++ [(p, vi)])
  | (vn', Err _) => vn' = vn
  end.
Proof. exact ex_step_v_preserves. Qed.
Print Assumptions ex_step_preserves_inv.

(* over any sequence of attempts: the pods placed on an existing node stay within what was left for them; the distinct
   volumes per CSI driver (already attached + placed) stay within the CSINode attach limits; every placed pod tolerates
   the taints, its selector / required term hold for every label value the node's requirements admit, and it keeps a
   volume-topology alternative that admits whatever the node's requirements admit *)
Theorem ex_requests_and_volumes_within_limits : forall all ops vn0,
  Forall (fun vp : vpod => pod_wf (fst vp)) ops -> en_pods (ve_node vn0) = [] -> (forall k, 0 <= rget k (en_remaining (ve_node vn0))) ->
  let vn := fst (ex_exec_v all vn0 [] ops) in
  let placed := snd (ex_exec_v all vn0 [] ops) in
  map fst placed = en_pods (ve_node vn) /\
  (forall k, rsum (map p_requests (map fst placed)) k <= rget k (en_remaining (ve_node vn0))) /\
  (placed <> [] -> forall d l, List.In (d, l) (ve_vlimits vn0) -> vcount d (ve_vols vn0 ++ flat_map vi_vols (map snd placed)) <= l) /\
  (forall vp, List.In vp placed -> k8s_tolerated (en_taints (ve_node vn)) (p_tols (fst vp)) /\
                                    chosen_ok (en_reqs (ve_node vn)) (fst vp) /\ valts_ok (en_reqs (ve_node vn)) (snd vp)).
Proof. exact ex_resources_l. Qed.
Print Assumptions ex_requests_and_volumes_within_limits.

(* F12 (known finding existing-node-undefined-label-after-notin): a node without a `team` label accepts
   `team NotIn [a]` and then `team In [b]`; in the other order the second pod is rejected *)
Theorem ex_labels_refuted :
  exists all n labels p1 p2,
    map p_key (en_pods (ex_exec all n [p1; p2])) = [p_key p1; p_key p2] /\
    labels_ok_b (eff_labels labels) p2 = false /\
    map p_key (en_pods (ex_exec all n [p2; p1])) = [p_key p1].
Proof.
  exists true, f12_node, [("zone", "z1")], f12_p1, f12_p2. destruct f12_accepted as [H1 H2].
  split; [exact H1|]. split; [exact H2|exact f12_order].
Qed.
Print Assumptions ex_labels_refuted.

(* F13 (known finding existing-node-daemon-hostport-not-reserved) *)
Theorem ex_daemon_ports_refuted :
  exists all n labels alloc p d,
    map p_key (en_pods (ex_exec all n [p])) = [p_key p] /\
    existing_admissible_b labels (en_taints n) alloc [] [p] [d] = false.
Proof. exists true, f12_node, [("zone", "z1")], [("cpu", 4000)], f13_pod, f13_daemon. exact f13_accepted. Qed.
Print Assumptions ex_daemon_ports_refuted.

(* ---- pairwise host-port invariant over arbitrary op sequences (distinct pods) ---- *)
(* existing node: no two placed pods, nor a placed pod and anything reserved on the node (bound pods), share a
   host-port triple in Kubernetes' sense *)
Theorem ex_ports_pairwise : forall all ops vn0,
  NoDup (map (fun vp : vpod => p_key (fst vp)) ops) -> en_pods (ve_node vn0) = [] -> usage_ok (en_ports (ve_node vn0)) ->
  let n := ve_node (fst (ex_exec_v all vn0 [] ops)) in
  (forall p q a b, List.In p (en_pods n) -> List.In q (en_pods n) -> p_key p <> p_key q ->
     List.In a (p_ports p) -> List.In b (p_ports q) -> ~ k8s_port_clash a b) /\
  (forall p k ps a b, List.In p (en_pods n) -> List.In (k, ps) (en_ports n) -> k <> p_key p ->
     List.In a (p_ports p) -> List.In b ps -> ~ k8s_port_clash a b).
Proof.
  intros all ops vn0 Hnd Hp Hu n. destruct (ex_ports_pairwise_l all ops vn0 Hnd Hp Hu) as [H1 H2]. fold n in H1, H2. split.
  - intros p q a b Hp' Hq Hne Ha Hb Hc. specialize (H1 p q a b Hp' Hq Hne Ha Hb). rewrite (k8s_clash_matches a b Hc) in H1. discriminate.
  - intros p k ps a b Hp' Hin Hne Ha Hb Hc. specialize (H2 p k ps a b Hp' Hin Hne Ha Hb). rewrite (k8s_clash_matches a b Hc) in H2. discriminate.
Qed.
Print Assumptions ex_ports_pairwise.

(* new claim: for every daemon-overhead group that still has a remaining instance type, no two pods of the claim, nor
   a pod and a daemon of that group, share a host-port triple *)
Theorem nc_ports_pairwise : forall wk cat all ops n0,
  NoDup (map (fun op : vpod * bool => p_key (fst (fst op))) ops) -> nc_pods n0 = [] ->
  groups_disjoint (nc_groups n0) -> (forall g, List.In g (nc_groups n0) -> usage_ok (dg_ports g)) ->
  let n := fst (nc_exec_v wk cat all n0 [] ops) in
  forall g, List.In g (nc_groups n) -> live n g ->
    (forall p q a b, List.In p (nc_pods n) -> List.In q (nc_pods n) -> p_key p <> p_key q ->
       List.In a (p_ports p) -> List.In b (p_ports q) -> ~ k8s_port_clash a b) /\
    (forall p k ps a b, List.In p (nc_pods n) -> List.In (k, ps) (dg_ports g) -> k <> p_key p ->
       List.In a (p_ports p) -> List.In b ps -> ~ k8s_port_clash a b).
Proof.
  intros wk cat all ops n0 Hnd Hp Hd Hu n g Hg Hl. destruct (nc_ports_pairwise_l wk cat all ops n0 Hnd Hp Hd Hu g Hg Hl) as [H1 H2]. split.
  - intros p q a b Hp' Hq Hne Ha Hb Hc. specialize (H1 p q a b Hp' Hq Hne Ha Hb). rewrite (k8s_clash_matches a b Hc) in H1. discriminate.
  - intros p k ps a b Hp' Hin Hne Ha Hb Hc. specialize (H2 p k ps a b Hp' Hin Hne Ha Hb). rewrite (k8s_clash_matches a b Hc) in H2. discriminate.
Qed.
Print Assumptions nc_ports_pairwise.

(* ---- the oracle's expected daemons miss no daemon that may run on the node (so its overhead and its daemon ports
   are an upper bound of what the node will really carry) ---- *)
Theorem expected_daemons_complete : forall eff ts ds d, eff_wf eff -> (forall t, List.In t (p_req d) -> valid_term t) ->
  List.In d ds -> may_run eff ts d -> List.In d (expected_daemons eff ts ds).
Proof. exact expected_daemons_complete_l. Qed.
Print Assumptions expected_daemons_complete.

(* ---- relaxation: any number of steps only drops preferred terms, leading OR-ed required terms while one is
   left, ScheduleAnyway constraints, or appends the PreferNoSchedule toleration ---- *)
Theorem relax_only_weakens : forall (tol_pns : bool) (n : nat) (p : pod), relaxation_ok p (relax_n tol_pns n p).
Proof. exact relax_only_weakens_l. Qed.
Print Assumptions relax_only_weakens.

Theorem relaxed_term_is_original : forall orig rel t rest,
  relaxation_ok orig rel -> p_req rel = t :: rest -> List.In t (p_req orig).
Proof. exact relaxed_head_original. Qed.
Print Assumptions relaxed_term_is_original.

Theorem last_required_term_kept : forall (tol_pns : bool) (n : nat) (p : pod),
  p_req p <> [] -> p_req (relax_n tol_pns n p) <> [].
Proof. intros tp n p. exact (relaxed_keeps_required p (relax_n tp n p) (relax_only_weakens_l tp n p)). Qed.
Print Assumptions last_required_term_kept.

(* the toleration relaxation may add never makes a NoSchedule / NoExecute taint tolerated *)
Theorem relaxed_tolerations_sound : forall ts orig extra,
  (forall t, List.In t extra -> t = pns_toleration) -> k8s_tolerated ts (orig ++ extra) -> k8s_tolerated ts orig.
Proof. exact tolerated_orig. Qed.
Print Assumptions relaxed_tolerations_sound.

(* ---- non-vacuity ---- *)
Example two_pods_narrow_the_options :
  let n := nc_exec ["zone"] [ex_it1; ex_it2] true ex_claim [(ex_pod "a" 600, false); (ex_pod "b" 600, false)] in
  map p_key (nc_pods n) = ["a"; "b"] /\ nc_its n = ["big"] /\ nc_requests n = [("cpu", 1200); ("pods", 2000)].
Proof. exact example_two_pods. Qed.

Example relaxation_chain :
  let p := mkPod "p" [] [[("a", In, ["1"])]; [("b", In, ["2"])]] [(5, [("c", Exists, [])])] [] [] [("zone", true); ("host", false)] [] [] [] in
  p_req (relax_n true 10 p) = [[("b", In, ["2"])]] /\ p_pref (relax_n true 10 p) = [] /\
  p_tsc (relax_n true 10 p) = [("host", false)] /\ p_tols (relax_n true 10 p) = [pns_toleration].
Proof. exact example_relax. Qed.
