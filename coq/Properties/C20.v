(* C20 — NodePool registration health reflects the recent launch window.
   Property theorems only; each is closed by [exact] of a lemma from C20/Proofs.v. *)
From KV Require Import C20.Model C20.Proofs.

(* The ring buffer is a sliding window of the last four outcomes, for every sequence of
   updates, resets and status overrides of any length. *)
Theorem window_refines : forall ops : list top,
  wf (trun ops) /\ chron (trun ops) = wrun ops.
Proof. exact window_refines_l. Qed.
Print Assumptions window_refines.

(* Status = Unknown on an empty window, otherwise Unhealthy iff failures fill at least half
   of the four slots. *)
Theorem status_spec : forall ops : list top, tstatus (trun ops) = wstatus (wrun ops).
Proof. exact status_spec_l. Qed.
Print Assumptions status_spec.

(* The what-if evaluation equals the state reached when the outcome is recorded
   (for every buffer, reachable or not). *)
Theorem dryrun_agrees : forall (b : ring) (x : bool), dry_run b x = insert b x.
Proof. exact dryrun_agrees_l. Qed.
Print Assumptions dryrun_agrees.

Theorem dryrun_status_window : forall (ops : list top) (x : bool),
  tstatus (dry_run (trun ops) x) = wstatus (wstep (wrun ops) (TUpdate x)).
Proof. exact dryrun_window. Qed.
Print Assumptions dryrun_status_window.

(* F1 (fixed in /repo by 0ed07a4d5): the former storage-order copy disagrees. *)
Theorem dryrun_storage_order_refuted :
  exists ops x, tstatus (dry_run_storage_order (trun ops) x) <> tstatus (insert (trun ops) x).
Proof. exact storage_order_copy_refuted. Qed.
Print Assumptions dryrun_storage_order_refuted.

(* Recording a failure sets the condition False exactly when failures then fill at least half
   of the window; otherwise the condition is left alone. After any history. *)
Theorem failure_sets_false_iff : forall ops : list op,
  let s := run ops in
  window (step s RecordFailure) = lastn cap (window s ++ [false]) /\
  (failures_fill_half (window (step s RecordFailure)) = true -> condn (step s RecordFailure) = CFalse) /\
  (failures_fill_half (window (step s RecordFailure)) = false -> condn (step s RecordFailure) = condn s).
Proof. intros ops. exact (record_failure_l (run ops) (swf_run ops)). Qed.
Print Assumptions failure_sets_false_iff.

Theorem success_sets_true_iff : forall ops : list op,
  let s := run ops in
  window (step s RecordSuccess) = lastn cap (window s ++ [true]) /\
  (failures_fill_half (window (step s RecordSuccess)) = false -> condn (step s RecordSuccess) = CTrue) /\
  (failures_fill_half (window (step s RecordSuccess)) = true -> condn (step s RecordSuccess) = condn s).
Proof. intros ops. exact (record_success_l (run ops) (swf_run ops)). Qed.
Print Assumptions success_sets_true_iff.

(* The concrete system (ring buffer + dry run + condition rules + crash + re-hydration)
   refines the abstract (window, condition) machine for every history. *)
Theorem sys_refines : forall ops : list op, abs (run ops) = srun ops.
Proof. exact sys_refines_l. Qed.
Print Assumptions sys_refines.

(* Whenever the condition is True/False it agrees with the window, provided the health
   controller re-hydrates after a crash before the next outcome is recorded. *)
Theorem cond_matches_window : forall ops : list op, hydrated_hist false ops = true ->
  match condn (run ops) with
  | CTrue => wstatus (window (run ops)) = Healthy \/ buf (run ops) = empty
  | CFalse => wstatus (window (run ops)) = Unhealthy \/ buf (run ops) = empty
  | CUnknown => True
  end.
Proof. exact cond_matches_window_l. Qed.
Print Assumptions cond_matches_window.

(* Non-vacuity: a wrapped buffer, an unhealthy window, a hydrated history with a crash. *)
Example wrapped_window :
  wrun [TUpdate true; TUpdate true; TUpdate true; TUpdate true; TUpdate false; TUpdate false]
  = [true; true; false; false] /\
  head (trun [TUpdate true; TUpdate true; TUpdate true; TUpdate true; TUpdate false; TUpdate false]) = 2.
Proof. vm_compute. split; reflexivity. Qed.

Example hydrated_example :
  hydrated_hist false [RecordFailure; RecordFailure; Crash; Reconcile; RecordSuccess] = true /\
  srun [RecordFailure; RecordFailure; Crash; Reconcile; RecordSuccess] = ([false; false; true], CFalse).
Proof. vm_compute. split; reflexivity. Qed.

(* ---- limits of the sequential statement (see C20/Concurrent.v) ---- *)
From KV Require Import C20.Concurrent.

(* a reconcile whose three steps (dry run, condition patch, record) are not interleaved is the sequential step *)
Theorem uninterleaved_reconcile_is_step : forall (s : sys) (x : bool),
  crun s [CDry 0 x; CPatch 0; CUpd x] = step s (if x then RecordSuccess else RecordFailure).
Proof. exact sequential_is_step. Qed.
Print Assumptions uninterleaved_reconcile_is_step.

(* Without optimistic locking the condition-tracks-window invariant would NOT survive interleaving two reconciles at
   method granularity. The real patches use client.MergeFromWithOptimisticLock, which rejects the last patch of this
   race (its resourceVersion is stale) and the reconcile is retried; the lock itself is not part of this model, so
   this theorem documents why the lock is needed rather than a defect. *)
Theorem cond_matches_window_interleaved_without_lock_refuted :
  let s := crun race_start race in
  condn s = CTrue /\ wstatus (window s) = Unhealthy /\ window s = [true; false; false; true].
Proof. exact interleaved_reconciles_break_tracking. Qed.
Print Assumptions cond_matches_window_interleaved_without_lock_refuted.

(* ---- attempt level: WHEN the lifecycle controller records an outcome (see C20/Attempts.v) ---- *)
From Coq Require Import ZArith.
From KV Require Import C20.Attempts C20.AttemptsProofs.

(* every reconcile of the lifecycle controller acts on the NodePool only through the record paths of C20.Model, so
   all theorems above apply to the system state reached by any attempt-level history, faults included *)
Theorem attempts_project : forall (v : variant) (ops : list aop), a_sys (arun v ops) = run (a_trace (arun v ops)).
Proof. exact attempts_project_l. Qed.
Print Assumptions attempts_project.

(* The window tracks the launch attempts: driving the property's (window, condition) machine with nothing but the
   conclusions visible on the API objects (a claim turning Registered = a success, a claim deleted by liveness = a
   failure, in the order they appear) reproduces the window and the condition of the real system, for every history of
   launches, node joins, reconciles, clock advances, pool/class changes, restarts and re-hydrations, including
   reconciles whose NodePool status patch or Node patch is rejected (the reconcile is retried). *)
Theorem window_tracks_attempts : forall ops : list aop, benign ops = true ->
  spec_follow fixed ainit ([], CUnknown) ops = abs (a_sys (arun fixed ops)).
Proof. exact window_tracks_attempts_benign. Qed.
Print Assumptions window_tracks_attempts.

(* ... because every attempt is recorded exactly once, with its own outcome, when it concludes *)
Theorem attempts_recorded_once : forall ops : list aop, benign ops = true ->
  Forall (fun c => c_rec c = expected_rec c) (a_claims (arun fixed ops)).
Proof. exact attempts_recorded_once_benign. Qed.
Print Assumptions attempts_recorded_once.

(* histories without any API fault are a special case *)
Theorem fault_free_is_benign : forall ops : list aop, fault_free ops = true -> benign ops = true.
Proof. exact fault_free_benign. Qed.
Print Assumptions fault_free_is_benign.

(* under any API faults a Registered claim has had its success recorded (what 40852abfb repaired) *)
Theorem registered_implies_recorded : forall ops : list aop,
  Forall (fun c => c_reg c = true -> In true (c_rec c)) (a_claims (arun fixed ops)).
Proof. exact registered_implies_recorded_l. Qed.
Print Assumptions registered_implies_recorded.

(* fixed in /repo by 40852abfb: one rejected NodePool status patch lost the success for good *)
Theorem registered_implies_recorded_before_40852abfb_refuted :
  let ops := [ANew true; AJoin 0; ARec 0 FPoolConflict; ARec 0 FNone] in
  fault_free [ANew true; AJoin 0; ARec 0 FNone] = true /\
  recs before_40852abfb ops = [(true, false, [])] /\ window (a_sys (arun before_40852abfb ops)) = [] /\
  recs fixed ops = [(true, false, [true])] /\ window (a_sys (arun fixed ops)) = [true].
Proof. exact success_lost_before_40852abfb. Qed.
Print Assumptions registered_implies_recorded_before_40852abfb_refuted.

(* fixed in /repo by 3cbc43e89: a fault-free history in which one failed launch is recorded twice *)
Theorem attempts_recorded_once_before_3cbc43e89_refuted :
  let ops := [ANew false; ATick 960%Z; ARec 0 FNone] in
  fault_free ops = true /\
  recs before_3cbc43e89 ops = [(false, true, [false; false])] /\ condn (a_sys (arun before_3cbc43e89 ops)) = CFalse /\
  recs fixed ops = [(false, true, [false])] /\ condn (a_sys (arun fixed ops)) = CUnknown.
Proof. exact double_failure_before_3cbc43e89. Qed.
Print Assumptions attempts_recorded_once_before_3cbc43e89_refuted.

(* known findings failure-recorded-again-after-delete-error / success-recorded-again-after-claim-status-patch-error:
   exactly-once does not survive a failed Delete or a rejected NodeClaim status patch *)
Theorem attempts_recorded_once_under_faults_refuted :
  recs fixed [ANew false; ATick 300%Z; ARec 0 FDeleteErr; ARec 0 FNone] = [(false, true, [false; false])] /\
  recs fixed [ANew true; AJoin 0; ARec 0 FStatusLost; ARec 0 FNone] = [(true, false, [true; true])].
Proof. exact recorded_once_under_faults_fails. Qed.
Print Assumptions attempts_recorded_once_under_faults_refuted.

(* Non-vacuity: a fault-free history with a success, a timed-out launch and a restart; the window holds both *)
Example attempts_example :
  let ops := [ANew true; ANew false; AJoin 0; ARec 0 FNodePatch; ARec 0 FPoolConflict; ARec 0 FNone; ATick 300%Z;
              ARec 1 FPoolConflict; ARec 1 FNone; AEnv ECrash; AEnv EHealth; ANew true; AJoin 2; ARec 2 FNone] in
  benign ops = true /\ recs fixed ops = [(true, false, [true]); (false, true, [false]); (true, false, [true])] /\
  abs (a_sys (arun fixed ops)) = ([true; true], CTrue).
Proof. vm_compute. repeat split; reflexivity. Qed.
