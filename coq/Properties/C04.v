(* C04 — New capacity is opened only when existing capacity cannot admit the pod.
   Property theorems only; each is closed by [exact] of a lemma from C04/Proofs.v.
   Model: C04/Model.v (StateNode views of the four lifecycle stages, Scheduler.add / trySchedule / Solve / Queue,
   Cluster.Synced and the provisioner's guard) on top of the admission steps of C01/Model.v (NodeClaim.CanAdd/Add,
   ExistingNode.CanAdd/Add, Preferences.Relax), at method granularity.  Pods carry no preferences and no inter-pod
   constraints (the property's restriction; the Topology is empty). *)
From Coq Require Import ZArith String List Bool.
From KV Require Import Base.Req Base.ReqProofs Base.K8s C01.Model C01.Proofs C04.Model C04.Proofs.
Import ListNotations.
Open Scope string_scope.
Open Scope list_scope.
Open Scope Z_scope.

(* ---- a pod is placed on a new NodeClaim only if no existing node and no in-flight claim admits it ---- *)

(* one Scheduler.add: for every scheduler state (any existing nodes, any claims opened so far, any templates) and
   every pod, the answer "new NodeClaim" implies that every existing / in-flight node and every NodeClaim already opened
   in this pass rejects the pod given what is assigned there *)
Theorem new_claim_only_if_none_fits : forall c exempt hint s p s' tn,
  sched_add c exempt hint s p = (s', TNew tn) -> none_fits c exempt s p.
Proof. exact sched_add_new. Qed.
Print Assumptions new_claim_only_if_none_fits.

(* a NodeClaim opened earlier in the same pass is used only if every existing / in-flight node rejects the pod *)
Theorem open_claim_only_if_no_existing_fits : forall c exempt hint s p s' id,
  sched_add c exempt hint s p = (s', TIn id) -> forall x, List.In x (s_ex s) -> ex_accepts c exempt x p = false.
Proof. exact sched_add_in. Qed.
Print Assumptions open_claim_only_if_no_existing_fits.

(* existing nodes are first-fit in the scheduler's order; the set of nodes never changes during a pass *)
Theorem existing_nodes_first_fit : forall c exempt l p l' n, place_ex c exempt l p = Some (l', n) ->
  map ex_name l' = map ex_name l /\
  exists pre x post, l = pre ++ x :: post /\ ex_name x = n /\ ex_accepts c exempt x p = true /\
    forall y, List.In y pre -> ex_accepts c exempt y p = false.
Proof. exact place_ex_some. Qed.
Print Assumptions existing_nodes_first_fit.

(* the in-flight claim chosen accepts the pod and no accepting claim holds fewer pods (claims are tried by pod count) *)
Theorem open_claims_by_pod_count : forall c l p x, List.In x (in_candidates c l p) ->
  List.In x l /\ in_accepts c x p = true /\ forall y, List.In y l -> in_accepts c y p = true -> (npods x <= npods y)%nat.
Proof. exact in_candidates_spec. Qed.
Print Assumptions open_claims_by_pod_count.

(* trySchedule: the pod ends on a new NodeClaim only if, at the relaxation level it is placed at AND at every earlier
   level, nothing that exists admits it *)
Theorem new_claim_only_after_every_level : forall c exempt hint fuel s p s' tn p',
  try_schedule c exempt hint fuel s p = (s', TNew tn, p') ->
  exists k, p' = relax_n (c_tolpns c) k p /\ forall j, (j <= k)%nat -> none_fits c exempt s (relax_n (c_tolpns c) j p).
Proof. exact try_schedule_new. Qed.
Print Assumptions new_claim_only_after_every_level.

(* a whole pass of Provisioner.Schedule (any cluster state, any batch, any queue order produced by re-queueing, any
   choice among equally filled claims): every placement on new capacity was made in a state in which nothing admitted
   the pod *)
Theorem pass_new_only_if_none_fits : forall c e hints daemons nodes tmpls pods s' steps rest,
  pass c e hints daemons nodes tmpls pods = (s', steps, rest) -> Forall (step_ok c) steps.
Proof. exact pass_new_only_if_none_fits_l. Qed.
Print Assumptions pass_new_only_if_none_fits.

(* FINDING (documented upstream behaviour, see known-findings key below): at the level of Kubernetes admissibility the
   statement is false for pods with OR-ed required terms — the terms are tried one at a time across all tiers, so a pod
   whose SECOND term an existing node satisfies gets a new NodeClaim for its first term *)
Theorem new_claim_although_node_admits_refuted :
  exists c e nodes tmpls pods node p,
    List.In node nodes /\
    map (fun st => (p_key (st_pod st), st_target st)) (snd (fst (pass c e [] [] nodes tmpls pods))) = [(p_key p, TNew "pool")] /\
    existing_admissible_b (sn_labels node) (sn_taints e node) (sn_alloc node) [] [p] [] = true.
Proof.
  exists w_cfg, w_eph, [w1_node], [w_tmpl "pool" [] [("team", new_req In None ["a"])]], [mkQ w1_pod 0 "u1" true], w1_node, w1_pod.
  split; [left; reflexivity|exact w1_new_although_node_admits].
Qed.
Print Assumptions new_claim_although_node_admits_refuted.

(* ---- an in-flight NodeClaim counts, at every lifecycle stage, with what it was launched as ---- *)

(* For a NodeClaim built by ANY sequence of CanAdd / Add attempts and ANY view [v] of the launched node: if the view's
   taints are taints of the claim, nothing is bound to the node, its remaining resources hold the summed requests,
   every label value is admitted by the claim's final requirements (provider-label contract) and a pod's requirement
   on a key the node does not carry accepts the label's absence, then the view admits ALL pods of the claim jointly. *)
Theorem rerun_places_on_inflight : forall wk cat all n0 ops v lab,
  nc_pods n0 = [] -> Forall (fun op => pod_ok (fst op)) ops ->
  let n := nc_exec wk cat all n0 ops in
  (forall t, List.In t (en_taints v) -> List.In t (nc_taints n0)) ->
  en_ports v = [] -> en_pods v = [] ->
  NoDup (map fst (en_remaining v)) ->
  (forall k, rsum (map p_requests (nc_pods n)) k <= rget k (en_remaining v)) ->
  reqs_inv lab (en_reqs v) ->
  (forall k val, lab k = Some val -> has (get (nc_reqs n) k) val = true) ->
  (forall p, List.In p (nc_pods n) -> forall k q, List.In (k, q) (pod_reqs all p) -> lab k = None -> sat_undefined q = true) ->
  en_pods (ex_exec all v (nc_pods n)) = nc_pods n.
Proof. exact rerun_places_on_inflight_l. Qed.
Print Assumptions rerun_places_on_inflight.

(* the premises hold for the view the scheduler computes (state_node_view), whatever the stage: *)
(* taints — NodeClaim-only and unregistered nodes show the NodeClaim's taints, registered ones the Node's; startup and
   known ephemeral taints are hidden until the node is initialized *)
Theorem view_taints_within_claim : forall e s,
  sn_claim s = true ->
  (forall t, List.In t (sn_ntaints s) ->
     List.In t (sn_ctaints s) \/
     (sn_initialized s = false /\ (is_ephemeral e t = true \/ existsb (fun st => match_taint st t) (sn_startup s) = true))) ->
  forall t, List.In t (sn_taints e s) -> List.In t (sn_ctaints s).
Proof. exact view_taints_subset. Qed.
Print Assumptions view_taints_within_claim.

(* allocatable — zero-valued or missing entries of the node status are taken from the NodeClaim until initialization *)
Theorem zero_valued_status_overridden : forall node claim k, NoDup (map fst claim) ->
  rget k (zero_override node claim) = if rget k node =? 0 then rget k claim else rget k node.
Proof. exact rget_zero_override. Qed.
Print Assumptions zero_valued_status_overridden.

Theorem view_allocatable_at_least_launched : forall s, sn_claim s = true -> NoDup (map fst (sn_calloc s)) ->
  (sn_node s = true -> forall k, (sn_initialized s = false /\ rget k (sn_nalloc s) = 0) \/ rget k (sn_calloc s) <= rget k (sn_nalloc s)) ->
  forall k, rget k (sn_calloc s) <= rget k (sn_alloc s).
Proof. exact view_alloc_ge. Qed.
Print Assumptions view_allocatable_at_least_launched.

(* remaining resources — with C01's guarantee for the launched option ([resources_ok pods overhead alloc]), an
   allocatable at least [alloc] and daemons weighing at most [overhead], the view holds the pods *)
Theorem view_remaining_holds_the_pods : forall e ds s (pods : list pod) (alloc overhead : rl),
  sn_podreq s = [] -> sn_dsreq s = [] ->
  Forall (fun p => nonneg (p_requests p)) pods ->
  let dtotal := requests_for (filter (daemon_compat (sn_taints e s) (sn_labels s)) ds) in
  (forall k, 0 <= rget k dtotal) ->
  (forall k, rget k alloc <= rget k (sn_alloc s)) ->
  (forall k, rget k dtotal <= rget k overhead) ->
  resources_ok pods overhead alloc ->
  forall k, rsum (map p_requests pods) k <= rget k (en_remaining (state_node_view e ds s)).
Proof. exact view_remaining_holds. Qed.
Print Assumptions view_remaining_holds_the_pods.

(* labels — the view's requirements stand for exactly the labels of the stage (NodeClaim's before registration, Node's
   after) plus the hostname: the label premise of rerun_places_on_inflight, with [lab := view_lab s] *)
Theorem view_requirements_are_the_labels : forall e ds s,
  NoDup (map fst (sn_labels s)) ->
  (lget hostname_key (sn_labels s) = None \/ lget hostname_key (sn_labels s) = Some (sn_hostname s)) ->
  reqs_inv (view_lab s) (en_reqs (state_node_view e ds s)).
Proof. exact view_reqs_inv. Qed.
Print Assumptions view_requirements_are_the_labels.

(* FINDING: "so re-running provisioning does not add another node" is false as a statement about the whole pass.  The
   next pass is first-fit over the existing nodes in name order and does not remember which in-flight node was opened
   for which pods: a pod of another claim takes the node, the pods it was opened for get a second NodeClaim — although
   each in-flight node re-admits its own pods jointly *)
Theorem rerun_adds_no_node_refuted :
  exists c e nodes tmpls pods a b own_a own_b,
    nodes = [a; b] /\
    fst (ex_joint (c_all c) (c_tolpns c) (state_node_view e [] a) own_a) = true /\
    fst (ex_joint (c_all c) (c_tolpns c) (state_node_view e [] b) own_b) = true /\
    map q_pod pods = own_b ++ own_a /\
    existsb (fun st => match st_target st with TNew _ => true | _ => false end) (snd (fst (pass c e [] [] nodes tmpls pods))) = true.
Proof.
  exists w_cfg, w_eph, [w2_a; w2_b], w2_tmpls, [mkQ w2_big 0 "u1" true; mkQ w2_s1 0 "u2" true; mkQ w2_s2 0 "u3" true], w2_a, w2_b, [w2_s1; w2_s2], [w2_big].
  destruct w2_rerun_opens_second_claim as (H1 & H2 & H3).
  split; [reflexivity|]. split; [exact H1|]. split; [exact H2|]. split; [reflexivity|]. vm_compute. reflexivity.
Qed.
Print Assumptions rerun_adds_no_node_refuted.

(* ---- no scheduling pass while a NodeClaim Karpenter created has not been launched ---- *)
(* from the moment Provisioner.Create records NodeClaim [n] and for EVERY history of creations, launches, deletions
   and triggered reconciles in which [n] is neither launched nor deleted: Synced stays false and no pass runs *)
Theorem no_pass_while_unlaunched : forall n ops s,
  forallb (fun o => negb (touches n o)) ops = true ->
  let s1 := crun (cstep s (CCreate n)) ops in
  synced (p_map s1) = false /\ p_passes s1 = p_passes s.
Proof. exact no_pass_while_unlaunched_l. Qed.
Print Assumptions no_pass_while_unlaunched.

Theorem reconcile_blocked_while_unlaunched : forall s n created,
  cget n (p_map s) = Some "" -> cstep s (CReconcile created) = s.
Proof. exact reconcile_blocked. Qed.
Print Assumptions reconcile_blocked_while_unlaunched.

(* the same for a restarted controller (first sync): synced implies every tracked NodeClaim is launched *)
Theorem first_sync_requires_launched : forall m tn ac an f, synced_first m tn ac an f = true -> synced m = true.
Proof. exact synced_first_launched. Qed.
Print Assumptions first_sync_requires_launched.

(* ---- nodes marked for deletion are not counted as capacity ---- *)
Theorem deleting_not_capacity : forall c e hints daemons nodes tmpls pods s' steps rest,
  pass c e hints daemons nodes tmpls pods = (s', steps, rest) ->
  forall st n, List.In st steps -> st_target st = TEx n ->
    exists sn, List.In sn nodes /\ sn_name sn = n /\ sn_marked_for_deletion sn = false.
Proof. exact deleting_not_capacity_l. Qed.
Print Assumptions deleting_not_capacity.

(* ---- the oracle's boolean parts are the specification ---- *)
Theorem none_fits_oracle_spec : forall c exempt s p, none_fits_b c exempt s p = true <-> none_fits c exempt s p.
Proof. exact none_fits_b_spec. Qed.
Print Assumptions none_fits_oracle_spec.

Theorem deleting_oracle_spec : forall nodes t,
  target_not_deleting nodes t = true <->
  forall n, t = TEx n -> forall s, List.In s nodes -> sn_name s = n -> sn_marked_for_deletion s = false.
Proof. exact target_not_deleting_spec. Qed.
Print Assumptions deleting_oracle_spec.

(* ---- non-vacuity ---- *)
Example claim_and_its_inflight_node :
  let n := nc_exec [] [w_it] true w3_claim0 [(w2_s1, false); (w2_s2, false)] in
  map p_key (nc_pods n) = ["default/s1"; "default/s2"] /\
  map p_key (en_pods (ex_exec true (state_node_view w_eph [] w2_a) (nc_pods n))) = ["default/s1"; "default/s2"].
Proof. exact w3_example. Qed.

Example synced_guard_history :
  let s := crun (mkP [] O) [CReconcile ["c1"; "c2"]; CReconcile ["c3"]; CUpdate "c1" "id1"; CReconcile ["c4"]; CUpdate "c2" "id2"; CReconcile []] in
  p_passes s = 2%nat /\ map fst (p_map s) = ["c1"; "c2"].
Proof. exact w4_sync. Qed.

Example deleting_node_is_skipped :
  map (fun st => st_target st) (snd (fst (pass w_cfg w_eph [] [] [w5_node] [w_tmpl "plain" [] []] [mkQ w2_s2 0 "u" true]))) = [TNew "plain"] /\
  map (fun st => st_target st) (snd (fst (pass w_cfg w_eph [] [] [mkSN true true "n1" "c1" [("karpenter.sh/registered", "true"); ("karpenter.sh/initialized", "true")] [] [] [] [] [("cpu", 4000); ("pods", 10000)] [] false false false [] [] []] [w_tmpl "plain" [] []] [mkQ w2_s2 0 "u" true]))) = [TEx "n1"].
Proof. exact w5_deleting. Qed.
