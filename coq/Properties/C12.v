(* C12 — Label-requirement algebra agrees with set semantics.
   Values are arbitrary strings, bounds arbitrary int64; nothing is bounded. *)
From Coq Require Import Permutation.
From KV Require Import Base.Req Base.K8s Base.ReqProofs C12.ProofsAdd.
Open Scope Z_scope.

(* A requirement built from any operator admits exactly the label values Kubernetes admits
   (arguments as the API validates them: In/NotIn non-empty, comparisons one int64 numeral). *)
Theorem new_req_admits : forall (o : oper) (mv : option Z) (vs : list string) (v : string),
  valid_args o vs = true -> has (new_req o mv vs) v = k8s_match o vs (Some v).
Proof. exact has_new_req. Qed.
Print Assumptions new_req_admits.

(* ... and, for a label that is absent, what Kubernetes says (except Gt MaxInt64 / Lt MinInt64, whose
   empty value set the algebra represents as DoesNotExist). *)
Theorem new_req_admits_absent : forall (o : oper) (mv : option Z) (vs : list string),
  valid_args o vs = true -> not_extreme o vs = true ->
  admits (new_req o mv vs) None = k8s_match o vs None.
Proof. exact sat_undefined_new_req. Qed.
Print Assumptions new_req_admits_absent.

(* Intersection admits exactly the values both admit — for all requirements whatsoever. *)
Theorem intersection_admits : forall (a b : req) (v : string),
  has (intersection a b) v = has a v && has b v.
Proof. exact has_intersection_admits. Qed.
Print Assumptions intersection_admits.

(* The quick overlap test agrees with non-emptiness of the intersection. The both-complement case
   needs a fresh admitted value: a zero-padded numeral longer than every excluded string. *)
Theorem has_intersection_iff : forall a b : req, wf a -> wf b ->
  (has_intersection a b = true <-> exists v, has a v = true /\ has b v = true).
Proof. exact has_intersection_true_iff. Qed.
Print Assumptions has_intersection_iff.

Theorem has_intersection_iff_nonempty : forall a b : req, wf a -> wf b ->
  (has_intersection a b = true <-> exists v, has (intersection a b) v = true).
Proof. exact has_intersection_nonempty. Qed.
Print Assumptions has_intersection_iff_nonempty.

(* wf (bounds are int64) holds for everything the constructors and Intersection produce *)
Theorem constructors_wf : forall o mv vs, valid_args o vs = true -> wf (new_req o mv vs).
Proof. exact wf_new_req. Qed.
Print Assumptions constructors_wf.
Theorem intersection_wf : forall a b, wf a -> wf b -> wf (intersection a b).
Proof. exact wf_intersection. Qed.
Print Assumptions intersection_wf.

(* commutative, associative, idempotent with respect to admitted sets *)
Theorem intersection_comm : forall a b v, has (intersection a b) v = has (intersection b a) v.
Proof. exact inter_comm. Qed.
Print Assumptions intersection_comm.
Theorem intersection_assoc : forall a b c v,
  has (intersection (intersection a b) c) v = has (intersection a (intersection b c)) v.
Proof. exact inter_assoc. Qed.
Print Assumptions intersection_assoc.
Theorem intersection_idem : forall a v, has (intersection a a) v = has a v.
Proof. exact inter_idem. Qed.
Print Assumptions intersection_idem.
Theorem overlap_comm : forall a b, wf a -> wf b -> has_intersection a b = has_intersection b a.
Proof. exact has_intersection_comm. Qed.
Print Assumptions overlap_comm.

(* Requirements.Add narrows key by key, for any sequence of additions *)
Theorem add_narrows : forall (m : reqs) (k : string) (r : req) (k0 v : string),
  has (get (add1 m (k, r)) k0) v =
  if String.eqb k0 k then has r v && has (get m k0) v else has (get m k0) v.
Proof. exact get_add1. Qed.
Print Assumptions add_narrows.

(* ... and over a whole sequence: what a key admits after Add(rs...) is what it admitted before, intersected
   with every added requirement of that key (nothing else changes, for any key and value) *)
Theorem add_sequence_admits : forall (rs : list (string * req)) (m : reqs) (k0 v : string),
  has (get (add m rs) k0) v = has (get m k0) v && all_admit rs k0 v.
Proof. exact get_add_all. Qed.
Print Assumptions add_sequence_admits.

(* the order in which requirements are added never matters for the admitted set of any key *)
Theorem add_order_irrelevant : forall (rs rs' : list (string * req)) (m : reqs) (k0 v : string),
  Permutation rs rs' -> has (get (add m rs) k0) v = has (get (add m rs') k0) v.
Proof. exact add_perm. Qed.
Print Assumptions add_order_irrelevant.

(* Add never widens a key, and re-adding the same requirements is a no-op on admitted sets *)
Theorem add_never_widens : forall (rs : list (string * req)) (m : reqs) (k0 v : string),
  has (get (add m rs) k0) v = true -> has (get m k0) v = true.
Proof. exact add_monotone. Qed.
Print Assumptions add_never_widens.

Theorem add_idempotent : forall (rs : list (string * req)) (m : reqs) (k0 v : string),
  has (get (add (add m rs) rs) k0) v = has (get (add m rs) k0) v.
Proof. exact add_twice. Qed.
Print Assumptions add_idempotent.

Theorem add_keeps_invariants : forall (rs : list (string * req)) (m : reqs),
  Forall (fun kr => wf (snd kr)) rs -> wf_reqs m /\ nodup_keys m ->
  wf_reqs (add m rs) /\ nodup_keys (add m rs).
Proof. exact add_inv. Qed.
Print Assumptions add_keeps_invariants.

(* Compatible(a, b) = nil exactly when, for every key b constrains: if a defines the key, some label
   state (a value or absence) is admitted by both; if a does not, the key may stay undefined
   (AllowUndefined) or absence satisfies b's requirement. *)
Theorem compatible_spec : forall (allow : list string) (a b : reqs),
  wf_reqs a -> wf_reqs b -> nodup_keys a -> nodup_keys b ->
  (compatible allow a b = true <-> forall k rb, find k b = Some rb -> key_compatible allow a k rb).
Proof. exact compatible_iff. Qed.
Print Assumptions compatible_spec.

(* Non-vacuity and the repaired F8 witness: {k NotIn [7], k Gt 4} vs {k NotIn [2], k Lt 4} *)
Example f8_now_incompatible :
  let a := add [] [("k", new_req NotIn None ["7"]); ("k", new_req Gt None ["4"])]%string in
  let b := add [] [("k", new_req NotIn None ["2"]); ("k", new_req Lt None ["4"])]%string in
  compatible [] a b = false /\ has_intersection (get a "k") (get b "k") = false.
Proof. vm_compute. split; reflexivity. Qed.

Example padded_witness :
  has_intersection (intersection (new_req NotIn None ["5"]%string) (new_req Gte None ["5"]%string))
                   (new_req Lte None ["5"]%string) = true /\
  has (new_req Gte None ["5"]%string) "005" = true.
Proof. vm_compute. split; reflexivity. Qed.
