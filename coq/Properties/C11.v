(* C11 — Cluster state equals a fresh recomputation from the API.
   Property theorems only; each is closed by [exact] of a lemma from C11/Proofs.v or C11/Proofs2.v.
   Model: C11/Model.v (state.Cluster at method granularity; one op = one call under Cluster.mu). *)
From KV Require Import C11.Model C11.Proofs C11.Check C11.Proofs2.

(* The property.  For every history [ops] of API writes, deliveries (informer reconciles, which read
   the current object) in any order with any duplication, and deletion marks, and for every closing
   round [r] that delivers each key the API or the cache knows at least once, in any order: the cache
   equals the recomputation from the API objects - per provider id the Node / NodeClaim identity,
   per-pod requests, limits, host ports and volumes, daemonset requests, disruption costs, the volume
   union, MarkedForDeletion, pool label and capacity; both name maps; the effective bindings; every
   NodePool's resource totals and node count.
   Environment hypotheses (Section-free, they are premises): [hist_ok] - provider ids stay unique, an id
   the cache still associates with one Node/NodeClaim name is not given to another, a Node the cache
   tracks is not rewritten into an untrackable one, a launched NodeClaim does not lose its id;
   [pods_settled] - every bound, non-terminal pod sits on a Node the cache can track (otherwise the pod
   reconciler keeps requeueing: not quiescent). *)
Theorem quiescent_equals_fresh : forall (ops r : list op),
  hist_ok ops -> pods_settled (fst (run ops)) -> Forall is_deliver r ->
  covers (fst (run ops)) (snd (run ops)) r ->
  fresh_eq (fst (run ops)) (view_of (snd (run (ops ++ r)))).
Proof. exact quiescent_equals_fresh_hist_l. Qed.
Print Assumptions quiescent_equals_fresh.

(* The same with every premise decidable; the harness evaluates these booleans on each generated case. *)
Theorem quiescent_equals_fresh_decidable : forall (ops r : list op),
  hist_ok_b ops = true -> pods_settled_b (fst (run ops)) = true -> forallb is_deliver_b r = true ->
  covers_b (fst (run ops)) (snd (run ops)) r = true ->
  fresh_eq (fst (run ops)) (view_of (snd (run (ops ++ r)))).
Proof. exact quiescent_equals_fresh_b_l. Qed.
Print Assumptions quiescent_equals_fresh_decidable.

(* The closing round alone, from ANY cache that is coherent with the API state (not only reachable ones). *)
Theorem closing_round_equals_fresh : forall a c r,
  api_ok a -> pods_settled a -> RInv a c -> Forall is_deliver r -> covers a c r ->
  fresh_eq a (view_of (run_round a c r)).
Proof. exact round_equals_fresh_l. Qed.
Print Assumptions closing_round_equals_fresh.

(* The oracle of Check.v is the property: boolean reflection. *)
Theorem oracle_is_property : forall (a : api) (w : view), fresh_eqb a w = true <-> fresh_eq a w.
Proof. exact fresh_eqb_iff_l. Qed.
Print Assumptions oracle_is_property.

(* Unconditionally, for every history (no hypothesis at all): each NodePool's cached resource total and
   node count is the sum over the cached StateNodes that are not marked for deletion. *)
Theorem nodepool_totals_are_sums : forall (ops : list op) (pool : string), pool <> "" ->
  rget pool (npr (snd (run ops))) = pool_total pool (nodes (snd (run ops))).
Proof. exact npr_invariant_l. Qed.
Print Assumptions nodepool_totals_are_sums.

(* Delivering a Node rebuilds requests, daemonset requests, disruption costs, host ports and volumes of
   its StateNode from the API pod list, whatever the cache held before. *)
Theorem deliver_node_rebuilds : forall a n c, api_wf a -> trackable n = true ->
  panicked (update_node a n c) = false ->
  exists s, aget (epid n) (nodes (update_node a n c)) = Some s /\
            sn_node s = Some n /\
            sn_claim s = match aget (epid n) (nodes c) with Some o => sn_claim o | None => None end /\
            sn_marked s = match aget (epid n) (nodes c) with Some o => sn_marked o | None => false end /\
            rebuilt a (n_name n) s /\
            aget (n_name n) (n2p (update_node a n c)) = Some (epid n).
Proof. exact update_node_entry. Qed.
Print Assumptions deliver_node_rebuilds.

(* Delivering a NodeClaim keeps every per-pod aggregate of the StateNode (F2 fixed). *)
Theorem deliver_claim_carries_aggregates : forall cl c, c_pid cl <> "" -> panicked (update_claim cl c) = false ->
  exists s, aget (c_pid cl) (nodes (update_claim cl c)) = Some s /\
            sn_claim s = Some cl /\
            sn_node s = match aget (c_pid cl) (nodes c) with Some o => sn_node o | None => None end /\
            sn_marked s = match aget (c_pid cl) (nodes c) with Some o => sn_marked o | None => false end /\
            aggregates s = match aget (c_pid cl) (nodes c) with Some o => aggregates o | None => ([], [], [], []) end /\
            aget (c_name cl) (c2p (update_claim cl c)) = Some (c_pid cl).
Proof. exact update_claim_entry. Qed.
Print Assumptions deliver_claim_carries_aggregates.

(* ---- the three defects found here, all fixed in /repo: the earlier code is kept as a model variant and
        the property is refuted for it on the recorded witness (all premises hold, the oracle is false) ---- *)
Definition refuted_for (v : variant) : Prop :=
  exists ops r, hist_ok_b ops = true /\ pods_settled_b (fst (run ops)) = true /\
                forallb is_deliver_b r = true /\ covers_b (fst (run ops)) (snd (run ops)) r = true /\
                ~ fresh_eq (fst (run_gen v (ops ++ r))) (view_of (snd (run_gen v (ops ++ r)))).

(* F2, before 4e75b4bc9: newStateFromNodeClaim dropped podDisruptionCosts *)
Theorem quiescent_equals_fresh_before_4e75b4bc9_refuted : refuted_for (mkVar true false false).
Proof. exact f2_refuted. Qed.
Print Assumptions quiescent_equals_fresh_before_4e75b4bc9_refuted.

(* before 7fed8b92b: cleanupNode kept the pod aggregates on the NodeClaim-only StateNode *)
Theorem quiescent_equals_fresh_before_7fed8b92b_refuted : refuted_for (mkVar false true false).
Proof. exact node_loss_refuted. Qed.
Print Assumptions quiescent_equals_fresh_before_7fed8b92b_refuted.

(* before eef19881a: a pod re-created unbound under the same name kept its old binding *)
Theorem quiescent_equals_fresh_before_eef19881a_refuted : refuted_for (mkVar false false true).
Proof. exact pending_refuted. Qed.
Print Assumptions quiescent_equals_fresh_before_eef19881a_refuted.

(* The premise [pods_settled] cannot be dropped for the code as it is: a pod re-created under the same
   name on a node the cache does not track keeps its old binding (UpdatePod returns NotFound before
   cleanupOldBindings).  quiescent_equals_fresh is therefore partial in exactly this respect. *)
Theorem quiescent_equals_fresh_without_pods_settled_refuted :
  exists ops r, hist_ok_b ops = true /\ forallb is_deliver_b r = true /\
                covers_b (fst (run ops)) (snd (run ops)) r = true /\
                ~ fresh_eq (fst (run ops)) (view_of (snd (run (ops ++ r)))).
Proof. exact unsettled_pod_refuted. Qed.
Print Assumptions quiescent_equals_fresh_without_pods_settled_refuted.

(* ---- non-vacuity: a history with a provider id arriving late, a pod re-created on another node, a
        deletion seen before the update, a mark, and a closing round in a "bad" order satisfies every
        premise, and the recomputation it is compared with is not empty ---- *)
Example premises_hold_on_a_rich_history :
  hist_ok_b demo_ops = true /\ pods_settled_b (fst (run demo_ops)) = true /\
  forallb is_deliver_b demo_round = true /\ covers_b (fst (run demo_ops)) (snd (run demo_ops)) demo_round = true /\
  fresh_eqb (fst (run demo_ops)) (view_of (snd (run (demo_ops ++ demo_round)))) = true /\
  List.length (nodes (snd (run (demo_ops ++ demo_round)))) = 2%nat /\
  spec_bind (fst (run demo_ops)) "default/p0" = Some "n1" /\
  rget "pa" (npr (snd (run (demo_ops ++ demo_round)))) = (4000, 8192, 1).
Proof. exact demo_ok. Qed.
