(* C11 — Cluster state equals a fresh recomputation from the API.
   Property theorems only; each is closed by [exact] of a lemma from C11/Proofs.v or C11/Proofs2.v.
   Model: C11/Model.v (state.Cluster at method granularity; one op = one call under Cluster.mu). *)
From KV Require Import C11.Model C11.Proofs C11.Check C11.Proofs2 C11.Proofs3.

(* The property.  For every history [ops] of API writes, deliveries (informer reconciles, which read
   the current object) in any order with any duplication, and deletion marks, and for every closing
   round [r] that delivers each key the API or the cache knows at least once, in any order: the cache
   equals the recomputation from the API objects - per provider id the Node / NodeClaim identity,
   per-pod requests, limits, host ports and volumes, daemonset requests, disruption costs, the volume
   union, MarkedForDeletion, pool label and capacity; both name maps; the effective bindings; every
   NodePool's resource totals and node count.
   Environment hypotheses (Section-free, they are premises): [hist_ok] - provider ids stay unique, an id
   the cache still associates with one Node/NodeClaim name is not given to another, a Node the cache
   tracks is not rewritten into an untrackable one, a launched NodeClaim does not lose its id;
   [pods_settled] - every bound, non-terminal pod sits on a Node the cache can track (otherwise the pod
   reconciler keeps requeueing: not quiescent). *)
Theorem quiescent_equals_fresh : forall (ops r : list op),
  hist_ok ops -> pods_settled (fst (run ops)) -> Forall is_deliver r ->
  covers (fst (run ops)) (snd (run ops)) r ->
  fresh_eq (fst (run ops)) (view_of (snd (run (ops ++ r)))).
Proof. exact quiescent_equals_fresh_hist_l. Qed.
Print Assumptions quiescent_equals_fresh.

(* The same with every premise decidable; the harness evaluates these booleans on each generated case. *)
Theorem quiescent_equals_fresh_decidable : forall (ops r : list op),
  hist_ok_b ops = true -> pods_settled_b (fst (run ops)) = true -> forallb is_deliver_b r = true ->
  covers_b (fst (run ops)) (snd (run ops)) r = true ->
  fresh_eq (fst (run ops)) (view_of (snd (run (ops ++ r)))).
Proof. exact quiescent_equals_fresh_b_l. Qed.
Print Assumptions quiescent_equals_fresh_decidable.

(* The closing round alone, from ANY cache that is coherent with the API state (not only reachable ones). *)
Theorem closing_round_equals_fresh : forall a c r,
  api_ok a -> pods_settled a -> RInv a c -> Forall is_deliver r -> covers a c r ->
  fresh_eq a (view_of (run_round a c r)).
Proof. exact round_equals_fresh_l. Qed.
Print Assumptions closing_round_equals_fresh.

(* The oracle of Check.v is the property: boolean reflection. *)
Theorem oracle_is_property : forall (a : api) (w : view), fresh_eqb a w = true <-> fresh_eq a w.
Proof. exact fresh_eqb_iff_l. Qed.
Print Assumptions oracle_is_property.

(* Unconditionally, for every history (no hypothesis at all): each NodePool's cached resource total and
   node count is the sum over the cached StateNodes that are not marked for deletion. *)
Theorem nodepool_totals_are_sums : forall (ops : list op) (pool : string), pool <> "" ->
  rget pool (npr (snd (run ops))) = pool_total pool (nodes (snd (run ops))).
Proof. exact npr_invariant_l. Qed.
Print Assumptions nodepool_totals_are_sums.

(* Delivering a Node rebuilds requests, daemonset requests, disruption costs, host ports and volumes of
   its StateNode from the API pod list, whatever the cache held before. *)
Theorem deliver_node_rebuilds : forall a n c, api_wf a -> trackable n = true ->
  panicked (update_node a n c) = false ->
  exists s, aget (epid n) (nodes (update_node a n c)) = Some s /\
            sn_node s = Some n /\
            sn_claim s = match aget (epid n) (nodes c) with Some o => sn_claim o | None => None end /\
            sn_marked s = match aget (epid n) (nodes c) with Some o => sn_marked o | None => false end /\
            rebuilt a (n_name n) s /\
            aget (n_name n) (n2p (update_node a n c)) = Some (epid n).
Proof. exact update_node_entry. Qed.
Print Assumptions deliver_node_rebuilds.

(* Delivering a NodeClaim keeps every per-pod aggregate of the StateNode (F2 fixed). *)
Theorem deliver_claim_carries_aggregates : forall cl c, c_pid cl <> "" -> panicked (update_claim cl c) = false ->
  exists s, aget (c_pid cl) (nodes (update_claim cl c)) = Some s /\
            sn_claim s = Some cl /\
            sn_node s = match aget (c_pid cl) (nodes c) with Some o => sn_node o | None => None end /\
            sn_marked s = match aget (c_pid cl) (nodes c) with Some o => sn_marked o | None => false end /\
            aggregates s = match aget (c_pid cl) (nodes c) with Some o => aggregates o | None => ([], [], [], []) end /\
            aget (c_name cl) (c2p (update_claim cl c)) = Some (c_pid cl).
Proof. exact update_claim_entry. Qed.
Print Assumptions deliver_claim_carries_aggregates.

(* ---- the three defects found here, all fixed in /repo: the earlier code is kept as a model variant and
        the property is refuted for it on the recorded witness (all premises hold, the oracle is false) ---- *)
Definition refuted_for (v : variant) : Prop :=
  exists ops r, hist_ok_b ops = true /\ pods_settled_b (fst (run ops)) = true /\
                forallb is_deliver_b r = true /\ covers_b (fst (run ops)) (snd (run ops)) r = true /\
                ~ fresh_eq (fst (run_gen v (ops ++ r))) (view_of (snd (run_gen v (ops ++ r)))).

(* F2, before 4e75b4bc9: newStateFromNodeClaim dropped podDisruptionCosts *)
Theorem quiescent_equals_fresh_before_4e75b4bc9_refuted : refuted_for (mkVar true false false).
Proof. exact f2_refuted. Qed.
Print Assumptions quiescent_equals_fresh_before_4e75b4bc9_refuted.

(* before 7fed8b92b: cleanupNode kept the pod aggregates on the NodeClaim-only StateNode *)
Theorem quiescent_equals_fresh_before_7fed8b92b_refuted : refuted_for (mkVar false true false).
Proof. exact node_loss_refuted. Qed.
Print Assumptions quiescent_equals_fresh_before_7fed8b92b_refuted.

(* before eef19881a: a pod re-created unbound under the same name kept its old binding *)
Theorem quiescent_equals_fresh_before_eef19881a_refuted : refuted_for (mkVar false false true).
Proof. exact pending_refuted. Qed.
Print Assumptions quiescent_equals_fresh_before_eef19881a_refuted.

(* The premise [pods_settled] cannot be dropped for the code as it is: a pod re-created under the same
   name on a node the cache does not track keeps its old binding (UpdatePod returns NotFound before
   cleanupOldBindings).  quiescent_equals_fresh is therefore partial in exactly this respect. *)
Theorem quiescent_equals_fresh_without_pods_settled_refuted :
  exists ops r, hist_ok_b ops = true /\ forallb is_deliver_b r = true /\
                covers_b (fst (run ops)) (snd (run ops)) r = true /\
                ~ fresh_eq (fst (run ops)) (view_of (snd (run (ops ++ r)))).
Proof. exact unsettled_pod_refuted. Qed.
Print Assumptions quiescent_equals_fresh_without_pods_settled_refuted.

(* ---- NodePoolState (Active / Deleting sets per NodePool, as maintained through UpdateNodeClaim, Cleanup,
        MarkForDeletion / UnmarkForDeletion) ---- *)
(* After the closing round the sets are duplicate-free and contain exactly the NodeClaims the recomputation
   puts there (Deleting iff the StateNode is marked for deletion or the claim is deleting; an unlaunched claim
   is Active), so GetNodeCount equals the recomputed counts.  [NInv] (each member of a pool's sets is mapped to
   that pool, every mapped name is known to the cache, the map agrees with the API labels, i.e. the nodepool
   label of a NodeClaim does not change) is a premise at the start of the round; PendingDisruption and reserved
   counts are written by other controllers and are outside the model. *)
Theorem closing_round_nodepool_sets : forall a c st r,
  api_ok a -> claims_named a -> RInv a c -> NInv a c st -> Forall is_deliver r -> covers a c r ->
  nps_match a (view_of (fst (run_round2 a (c, st) r))) (snd (run_round2 a (c, st) r)).
Proof. exact closing_round_nodepool_sets_l. Qed.
Print Assumptions closing_round_nodepool_sets.

Theorem nodepool_oracle_is_property : forall a w st, nps_match_b a w st = true <-> nps_match a w st.
Proof. exact nps_match_b_iff. Qed.
Print Assumptions nodepool_oracle_is_property.

(* MarkForDeletion / UnmarkForDeletion set the mark of every tracked id of the list, wherever untracked ids
   sit in it (marks are in-memory state the recomputation cannot see; this is their own specification). *)
Theorem marks_reach_every_tracked_id : forall (b : bool) (ids : list string) (c : cache) (Y : string),
  In Y ids -> aget Y (nodes c) <> None ->
  exists s, aget Y (nodes (fold_left (set_mark b) ids c)) = Some s /\ sn_marked s = b.
Proof. exact marks_reach_every_tracked_id_l. Qed.
Print Assumptions marks_reach_every_tracked_id.

(* ---- the weaker quiescence notion "every key was delivered at least once after its last change" ---- *)
(* A pod delivery settles the node's entry for the API after the write whenever the entry was exact before
   the write, EXCEPT when the pod was re-written under the same name on the same node and the cached entry
   of that name is a daemonset entry the pod no longer justifies, carries a disruption cost although the pod
   now is a daemonset pod, or lists a volume the pod dropped ([clean_rewrite]; updateForPod only ever adds to
   daemonSetRequests / podDisruptionCosts / volumeUsage.volumes for an existing key).  Only the next Node
   delivery repairs that.  The history-level statement (hist_ok, pods_settled and no delivery of that shape
   imply fresh_eq as soon as no key is dirty) is NOT proved; it is the oracle "oracle:once-delivered:*" of
   Check.v, evaluated on every generated history whose premises hold. *)
Theorem rewritten_pod_settled : forall a m s p, keyed p_key (a_pods a) ->
  rebuilt a m s -> on_node m p = true -> clean_rewrite s p ->
  rebuilt (set_pod a p) m (update_for_pod s p).
Proof. exact rewritten_pod_settled_l. Qed.
Print Assumptions rewritten_pod_settled.

Theorem rewritten_pod_without_clean_rewrite_refuted :
  exists a m s p, keyed p_key (a_pods a) /\ rebuilt a m s /\ on_node m p = true /\
                  ~ rebuilt (set_pod a p) m (update_for_pod s p).
Proof. exact rewritten_pod_needs_clean_l. Qed.
Print Assumptions rewritten_pod_without_clean_rewrite_refuted.

(* ---- non-vacuity: a history with a provider id arriving late, a pod re-created on another node, a
        deletion seen before the update, a mark, and a closing round in a "bad" order satisfies every
        premise, and the recomputation it is compared with is not empty ---- *)
Example premises_hold_on_a_rich_history :
  hist_ok_b demo_ops = true /\ pods_settled_b (fst (run demo_ops)) = true /\
  forallb is_deliver_b demo_round = true /\ covers_b (fst (run demo_ops)) (snd (run demo_ops)) demo_round = true /\
  fresh_eqb (fst (run demo_ops)) (view_of (snd (run (demo_ops ++ demo_round)))) = true /\
  List.length (nodes (snd (run (demo_ops ++ demo_round)))) = 2%nat /\
  spec_bind (fst (run demo_ops)) "default/p0" = Some "n1" /\
  rget "pa" (npr (snd (run (demo_ops ++ demo_round)))) = (4000, 8192, 1).
Proof. exact demo_ok. Qed.

Example nodepool_sets_on_the_rich_history :
  nps_match_b (fst (fst (run3 (demo_ops ++ demo_round))))
              (view_of (snd (fst (run3 (demo_ops ++ demo_round))))) (snd (run3 (demo_ops ++ demo_round))) = true /\
  ps_get "pa" (snd (run3 (demo_ops ++ [Mark ["nope"; "x0"; "gone"]]))) = ([], ["c0"]) /\
  ps_get "pa" (snd (run3 (demo_ops ++ demo_round))) = (["c0"], []).
Proof. exact demo_nps_ok. Qed.
