(* C11 — Cluster state equals a fresh recomputation from the API.
   Property theorems only; each is closed by [exact] of a lemma from C11/Proofs.v. *)
From KV Require Import C11.Model C11.Proofs.

(* For every history (any API changes, deliveries in any order, marks): each NodePool's cached resource
   total and node count equals the sum over the cached StateNodes that are not marked for deletion. *)
Theorem nodepool_totals_are_sums : forall (ops : list op) (pool : string), pool <> "" ->
  rget pool (npr (snd (run ops))) = pool_total pool (nodes (snd (run ops))).
Proof. exact npr_invariant_l. Qed.
Print Assumptions nodepool_totals_are_sums.

(* Delivering a Node rebuilds requests, daemonset requests, disruption costs, host ports and volumes of
   its StateNode from the API pod list, whatever the cache held before. *)
Theorem deliver_node_rebuilds : forall a n c, api_wf a -> trackable n = true ->
  panicked (update_node a n c) = false ->
  exists s, aget (epid n) (nodes (update_node a n c)) = Some s /\
            sn_node s = Some n /\
            sn_claim s = match aget (epid n) (nodes c) with Some o => sn_claim o | None => None end /\
            sn_marked s = match aget (epid n) (nodes c) with Some o => sn_marked o | None => false end /\
            rebuilt a (n_name n) s /\
            aget (n_name n) (n2p (update_node a n c)) = Some (epid n).
Proof. exact update_node_entry. Qed.
Print Assumptions deliver_node_rebuilds.

(* Delivering a NodeClaim keeps every per-pod aggregate of the StateNode (F2 fixed). *)
Theorem deliver_claim_carries_aggregates : forall cl c, c_pid cl <> "" -> panicked (update_claim cl c) = false ->
  exists s, aget (c_pid cl) (nodes (update_claim cl c)) = Some s /\
            sn_claim s = Some cl /\
            sn_node s = match aget (c_pid cl) (nodes c) with Some o => sn_node o | None => None end /\
            sn_marked s = match aget (c_pid cl) (nodes c) with Some o => sn_marked o | None => false end /\
            aggregates s = match aget (c_pid cl) (nodes c) with Some o => aggregates o | None => ([], [], [], []) end /\
            aget (c_name cl) (c2p (update_claim cl c)) = Some (c_pid cl).
Proof. exact update_claim_entry. Qed.
Print Assumptions deliver_claim_carries_aggregates.
