(* C19 — NodePool weight and price ordering are honoured.
   Property theorems only; each is closed by [exact] of a lemma from C19/Proofs.v.
   Model: C19/Model.v (OrderByWeight, addToNewNodeClaim incl. parallelizeUntil, the relaxation loop of
   trySchedule, OrderByPrice / SatisfiesMinValues / Truncate, the lo.Slice of ToNodeClaim).
   Specification side: C19/Spec.v. *)
From Coq Require Import Permutation.
From KV Require Import C19.Model C19.Spec C19.Proofs.
Open Scope Z_scope.

(* ---- NodePool order ---- *)

(* OrderByWeight returns a permutation of its input in which no pool is preceded by one it outranks
   (greater weight first; equal weights: the name later in the alphabet first), for every pool list. *)
Theorem order_by_weight_sorts : forall nps : list pool,
  Permutation (order_by_weight nps) nps /\ weight_sorted (order_by_weight nps).
Proof. exact (fun nps => conj (order_by_weight_perm nps) (order_by_weight_sorted nps)). Qed.
Print Assumptions order_by_weight_sorts.

(* ---- only READY pools ----
   NewScheduler builds templates only for NodePools whose Ready condition is True (False, Unknown and a missing
   condition all exclude the pool), that are dynamic and not being deleted; so for every pool list and every
   outcome assignment the pool that receives the pod is such a pool, chosen by priority among such pools. *)
Theorem ready_pools_only : forall (nps : list npool) (out : pool -> outcome) (i : nat),
  add_to_new (map out (scheduler_pools nps)) = Chosen i ->
  exists n, List.In n nps /\ usable n /\ nth_error (scheduler_pools nps) i = Some (np_pool n) /\ out (np_pool n) = OOk /\
    forall m, List.In m nps -> usable m -> outranks (np_pool m) (np_pool n) -> out (np_pool m) = OErr.
Proof. exact ready_pools_only_l. Qed.
Print Assumptions ready_pools_only.

Theorem templates_are_usable_pools : forall (nps : list npool) (p : pool),
  List.In p (scheduler_pools nps) -> exists n, List.In n nps /\ np_pool n = p /\ usable n.
Proof. exact not_usable_never_in_templates. Qed.
Print Assumptions templates_are_usable_pools.

Theorem oracle_pool_ready_iff : forall nps name, placed_ready_b nps name = true <-> placed_ready nps name.
Proof. exact placed_ready_reflect. Qed.
Print Assumptions oracle_pool_ready_iff.

(* ---- weight priority of one scheduling attempt ----
   For every set of pools (any input order, ties included) and every assignment [out] of evaluation
   outcomes to pools: if addToNewNodeClaim over the templates in OrderByWeight order creates the claim from
   template i, that pool can host the pod and EVERY pool that outranks it answered with a plain error. *)
Theorem weight_priority : forall (pools : list pool) (out : pool -> outcome) (i : nat),
  add_to_new (map out (order_by_weight pools)) = Chosen i ->
  exists p, nth_error (order_by_weight pools) i = Some p /\ List.In p pools /\ out p = OOk /\
            forall q, List.In q pools -> outranks q p -> out q = OErr.
Proof. exact weight_priority_l. Qed.
Print Assumptions weight_priority.

(* A reserved-offering error ends the search without a claim, and only a pool that no feasible pool outranks
   can raise it; nothing is created only if every pool fails. *)
Theorem reserved_error_stops_fallthrough : forall (pools : list pool) (out : pool -> outcome) (i : nat),
  add_to_new (map out (order_by_weight pools)) = Blocked i ->
  exists p, nth_error (order_by_weight pools) i = Some p /\ List.In p pools /\ out p = OReserved /\
            forall q, List.In q pools -> outranks q p -> out q = OErr.
Proof. exact blocked_priority_l. Qed.
Print Assumptions reserved_error_stops_fallthrough.

Theorem no_claim_only_if_all_infeasible : forall (pools : list pool) (out : pool -> outcome),
  add_to_new (map out (order_by_weight pools)) = Exhausted -> forall p, List.In p pools -> out p = OErr.
Proof. exact exhausted_all_err_l. Qed.
Print Assumptions no_claim_only_if_all_infeasible.

(* A pool that can host the pod is passed over only in favour of (or blocked by) a pool it does not outrank. *)
Theorem feasible_pool_used : forall (pools : list pool) (out : pool -> outcome) (p : pool),
  List.In p pools -> out p = OOk ->
  exists i q, nth_error (order_by_weight pools) i = Some q /\ out q <> OErr /\ ~ outranks p q /\
    (add_to_new (map out (order_by_weight pools)) = Chosen i \/ add_to_new (map out (order_by_weight pools)) = Blocked i).
Proof. exact feasible_pool_used_l. Qed.
Print Assumptions feasible_pool_used.

(* ---- every degree of parallel template evaluation ----
   parallelizeUntil with any number of workers (>= 1) and ANY interleaving of their moves (a move = a worker
   receives the next template index, or finishes evaluating its template and updates idx/newNodeClaim under
   the mutex): when all workers have returned, the decision is the single-worker decision. *)
Theorem parallel_lowest_index_wins : forall (os : list outcome) (workers : nat) (sched : list nat),
  (1 <= workers)%nat -> quiescent (prun os workers sched) = true ->
  pdecision (prun os workers sched) = add_to_new os.
Proof. exact parallel_lowest_index_wins_l. Qed.
Print Assumptions parallel_lowest_index_wins.

(* The premise can be met for every input and worker count: some interleaving lets all workers return. *)
Theorem parallel_run_completes : forall (os : list outcome) (workers : nat),
  exists sched, quiescent (prun os workers sched) = true.
Proof. exact parallel_run_completes_l. Qed.
Print Assumptions parallel_run_completes.

(* ---- the pod across its relaxation levels (trySchedule) ----
   [outs] gives, per relaxation level of the pod, the outcome of every pool.  The pod gets its node at the first
   level at which any pool is not a plain failure, from the pool that no feasible pool outranks AT THAT LEVEL. *)
Theorem weight_priority_levels : forall (pools : list pool) (outs : list (pool -> outcome)) (l i : nat),
  try_schedule 0 (map (fun out => map out (order_by_weight pools)) outs) = Placed l i ->
  exists out p, nth_error outs l = Some out /\ nth_error (order_by_weight pools) i = Some p /\ List.In p pools /\
    out p = OOk /\ (forall q, List.In q pools -> outranks q p -> out q = OErr) /\
    (forall l' out', (l' < l)%nat -> nth_error outs l' = Some out' -> forall q, List.In q pools -> out' q = OErr).
Proof. exact weight_priority_levels_l. Qed.
Print Assumptions weight_priority_levels.

(* The model's placement always satisfies the oracle's specification [placed_ok]. *)
Theorem model_placement_ok : forall pools outs l i,
  try_schedule 0 (map (fun out => map out (order_by_weight pools)) outs) = Placed l i ->
  exists p, nth_error (order_by_weight pools) i = Some p /\ placed_ok (table_of pools outs) (pname p).
Proof. exact model_placement_ok_l. Qed.
Print Assumptions model_placement_ok.

(* FINDING (known-findings.txt, key lower-weight-pool-chosen-at-an-earlier-relaxation-level): read literally
   ("a lower-weight pool is used only if every higher-weight pool is infeasible for that pod"), the property
   fails for pods whose preferences / alternative required terms single out a lighter pool: the lighter pool is
   chosen at an earlier relaxation level although an outranking pool can host the pod once relaxed. *)
Theorem weight_priority_any_relaxation_refuted :
  exists (pools : list pool) (outs : list (pool -> outcome)) l i p q out',
    try_schedule 0 (map (fun out => map out (order_by_weight pools)) outs) = Placed l i /\
    nth_error (order_by_weight pools) i = Some p /\ List.In q pools /\ outranks q p /\
    List.In out' outs /\ out' q = OOk.
Proof. exact weight_priority_any_relaxation_refuted_l. Qed.
Print Assumptions weight_priority_any_relaxation_refuted.

(* It holds whenever relaxing the pod makes no pool feasible that was infeasible for the unrelaxed pod
   (in particular for pods without preferences: a single level). *)
Theorem weight_priority_any_relaxation_partial : forall (pools : list pool) (outs : list (pool -> outcome)) l i,
  relaxation_neutral pools outs ->
  try_schedule 0 (map (fun out => map out (order_by_weight pools)) outs) = Placed l i ->
  exists p, nth_error (order_by_weight pools) i = Some p /\
    forall l' out' q, nth_error outs l' = Some out' -> List.In q pools -> outranks q p -> out' q <> OOk.
Proof. exact weight_priority_any_relaxation_partial_l. Qed.
Print Assumptions weight_priority_any_relaxation_partial.

(* ---- price order and truncation ---- *)

(* OrderByPrice's key is the price of the cheapest available offering compatible with the requirements
   (MaxFloat64 = Inf when there is none). *)
Theorem price_key_is_cheapest_compatible_available : forall allow rq it,
  match price_key allow rq it with
  | Fin p => (exists o, List.In o (ioffs it) /\ off_ok allow rq o = true /\ oprice o = p) /\
             (forall o, List.In o (ioffs it) -> off_ok allow rq o = true -> p <= oprice o)
  | Inf => forall o, List.In o (ioffs it) -> off_ok allow rq o = false
  end.
Proof. exact price_key_spec. Qed.
Print Assumptions price_key_is_cheapest_compatible_available.

Theorem order_by_price_sorts : forall allow rq its,
  Permutation (order_by_price allow rq its) its /\ price_sorted (price_key allow rq) (order_by_price allow rq its).
Proof. exact (fun allow rq its => conj (order_by_price_perm allow rq its) (order_by_price_sorted allow rq its)). Qed.
Print Assumptions order_by_price_sorts.

(* However sort.Slice breaks ties, the sequence of price keys of the result is the same. *)
Theorem sorted_keys_unique : forall (key : itype -> price) (l o1 o2 : list itype),
  Permutation o1 l -> price_sorted key o1 -> Permutation o2 l -> price_sorted key o2 -> map key o1 = map key o2.
Proof. exact (@sorted_keys_unique_l itype). Qed.
Print Assumptions sorted_keys_unique.

(* Truncate, for every catalogue, requirement set, maxItems, minValues policy and EVERY admissible result of the
   sort: kept + dropped is the input, and no dropped type is strictly cheaper than a kept one. *)
Theorem truncation_keeps_cheapest : forall allow be rq (its sorted : list itype) n res,
  Permutation sorted its -> price_sorted (price_key allow rq) sorted ->
  truncate_from be rq sorted n = (res, true) ->
  Permutation (res ++ lo_rest sorted n) its /\ cheapest (price_key allow rq) res (lo_rest sorted n).
Proof. exact truncation_keeps_cheapest_l. Qed.
Print Assumptions truncation_keeps_cheapest.

(* the executable model end to end, including the strict minValues floors on a non-empty result *)
Theorem truncate_model : forall allow be rq its n res,
  truncate allow be rq its n = (res, true) ->
  Permutation (res ++ lo_rest (order_by_price allow rq its) n) its /\
  cheapest (price_key allow rq) res (lo_rest (order_by_price allow rq its) n) /\
  (has_min_values rq = true -> be = false -> res <> [] -> min_values_met rq res).
Proof. exact truncate_model_l. Qed.
Print Assumptions truncate_model.

(* SatisfiesMinValues is exact on non-empty lists ... *)
Theorem satisfies_min_values_iff : forall rq its, has_min_values rq = true -> its <> [] ->
  (smv_err rq its = false <-> min_values_met rq its).
Proof. exact smv_err_iff. Qed.
Print Assumptions satisfies_min_values_iff.

(* ... and vacuous on the empty list, so a cut that keeps nothing (maxItems <= 0; MaxInstanceTypes is 600 in
   production, the variable is only lowered by tests) passes the strict floor. *)
Theorem truncate_min_values_empty_refuted :
  exists rq sorted n, has_min_values rq = true /\ truncate_from false rq sorted n = ([], true) /\ ~ min_values_met rq [].
Proof. exact truncate_min_values_empty_refuted_l. Qed.
Print Assumptions truncate_min_values_empty_refuted.

(* ToNodeClaim: the emitted instance-type requirement admits exactly the names of the kept prefix that the
   claim's own instance-type requirement admitted. *)
Theorem to_nodeclaim_names_kept_prefix : forall rq kept v,
  has (to_nodeclaim_req rq kept) v = mem v (map iname kept) && has (get rq it_label) v.
Proof. exact to_nodeclaim_admits. Qed.
Print Assumptions to_nodeclaim_names_kept_prefix.

(* ---- the oracles are the specification ---- *)
Theorem oracle_cheapest_iff : forall (key : itype -> price) kept dropped,
  cheapest_b key kept dropped = true <-> cheapest key kept dropped.
Proof. exact (@cheapest_reflect itype). Qed.
Print Assumptions oracle_cheapest_iff.

Theorem oracle_min_values_iff : forall rq its, min_values_met_b rq its = true <-> min_values_met rq its.
Proof. exact min_values_met_reflect. Qed.
Print Assumptions oracle_min_values_iff.

Theorem oracle_weight_order_iff : forall l, weight_sorted_b l = true <-> weight_sorted l.
Proof. exact weight_sorted_reflect. Qed.
Print Assumptions oracle_weight_order_iff.

Theorem oracle_placed_iff : forall t n, placed_ok_b t n = true <-> placed_ok t n.
Proof. exact placed_ok_reflect. Qed.
Print Assumptions oracle_placed_iff.

Theorem oracle_placed_strict_iff : forall t n, placed_strict_b t n = true <-> placed_strict t n.
Proof. exact placed_strict_reflect. Qed.
Print Assumptions oracle_placed_strict_iff.

Theorem oracle_deferred_iff : forall t, deferred_ok_b t = true <-> deferred_ok t.
Proof. exact deferred_ok_reflect. Qed.
Print Assumptions oracle_deferred_iff.

Theorem oracle_failed_iff : forall t, failed_ok_b t = true <-> failed_ok t.
Proof. exact failed_ok_reflect. Qed.
Print Assumptions oracle_failed_iff.

(* ---- non-vacuity ---- *)
Open Scope string_scope.

(* weights with a tie, names where one is a prefix of the other *)
Example order_example :
  map pname (order_by_weight [mkPool "a" 10; mkPool "b" 0; mkPool "ab" 10; mkPool "z" 50])
  = ["z"; "ab"; "a"; "b"].
Proof. vm_compute. reflexivity. Qed.

(* a heavier pool whose Ready condition is Unknown, and one without conditions, get no template *)
Example ready_example :
  map pname (scheduler_pools [mkNP (mkPool "pending" 100) RUnknown false false true; mkNP (mkPool "new" 50) RAbsent false false true;
                              mkNP (mkPool "ok" 1) RTrue false false true; mkNP (mkPool "broken" 90) RFalse false false true;
                              mkNP (mkPool "static" 80) RTrue true false true; mkNP (mkPool "going" 70) RTrue false true true;
                              mkNP (mkPool "foreign" 60) RTrue false false false]) = ["ok"].
Proof. vm_compute. reflexivity. Qed.

(* the second pool is chosen because the first fails; a reserved error in front blocks instead *)
Example decide_examples :
  add_to_new [OErr; OOk; OOk] = Chosen 1 /\ add_to_new [OErr; OReserved; OOk] = Blocked 1 /\ add_to_new [OErr; OErr] = Exhausted.
Proof. vm_compute. repeat split; reflexivity. Qed.

(* three workers, interleaved so that template 2 (ok) finishes before template 1 (ok): index 1 still wins *)
Example parallel_example :
  let s := prun [OErr; OOk; OOk] 3 [0; 1; 2; 2; 0; 1; 0; 0]%nat in
  quiescent s = true /\ pdecision s = Chosen 1 /\ idx (prun [OErr; OOk; OOk] 3 [0; 1; 2; 2]%nat) = Some 2%nat.
Proof. vm_compute. repeat split; reflexivity. Qed.

(* two types tie at the cut; a dearer one and one without a compatible available offering are dropped *)
Example truncate_example :
  let zone z := [("topology.kubernetes.io/zone", mkReq false [z] None None None)] in
  let it n z p av := mkIT n [] [mkOff (zone z) p av] in
  let rq := [("topology.kubernetes.io/zone", mkReq false ["z1"] None None None)] in
  let its := [it "dear" "z1" 3072 true; it "other-zone" "z2" 1 true; it "a" "z1" 1024 true; it "sold-out" "z1" 1 false; it "b" "z1" 1024 true] in
  map iname (fst (truncate [] false rq its 2)) = ["a"; "b"] /\
  map (price_key [] rq) (order_by_price [] rq its) = [Fin 1024; Fin 1024; Fin 3072; Inf; Inf].
Proof. vm_compute. split; reflexivity. Qed.
