(* C01 — proofs about the model of C01/Model.v. *)
From Coq Require Import ZArith String List Bool Lia Permutation.
From KV Require Import Base.Req Base.ReqProofs Base.K8s C01.Model.
Import ListNotations.
Open Scope string_scope.
Open Scope list_scope.
Open Scope Z_scope.
Local Arguments String.eqb : simpl never.

(* ================================================================== resources *)

Lemma rget_in_nonneg (k : string) (l : rl) :
  forallb (fun kv => 0 <=? snd kv) l = true -> 0 <= rget k l.
Proof.
  induction l as [|[k' v] l IH]; simpl; [lia|].
  intros H. apply andb_prop in H as [Hv Hl]. apply Z.leb_le in Hv.
  destruct (String.eqb k k'); [exact Hv|apply IH, Hl].
Qed.

Lemma rget_member (k : string) (l : rl) :
  rget k l = 0 \/ exists v, List.In (k, v) l /\ rget k l = v.
Proof.
  induction l as [|[k' v] l IH]; simpl; [left; reflexivity|].
  destruct (String.eqb_spec k k') as [->|Hn].
  - right. exists v. split; [left; reflexivity|reflexivity].
  - destruct IH as [H|(w & Hin & Hw)]; [left; exact H|right; exists w; split; [right; exact Hin|exact Hw]].
Qed.

(* resources.Fits: every requested quantity is within the total, key by key (absent = 0) *)
Lemma fits_spec (cand total : rl) :
  fits cand total = true -> forall k, rget k cand <= rget k total.
Proof.
  unfold fits. intros H k. apply andb_prop in H as [Hnn Hc].
  destruct (rget_member k cand) as [H0|(v & Hin & Hv)].
  - rewrite H0. apply rget_in_nonneg, Hnn.
  - rewrite Hv. rewrite forallb_forall in Hc. specialize (Hc (k, v) Hin). simpl in Hc. apply Z.leb_le, Hc.
Qed.

Lemma rget_radd1 (l : rl) (k k0 : string) (v : Z) :
  rget k0 (radd1 l k v) = if String.eqb k0 k then rget k0 l + v else rget k0 l.
Proof.
  induction l as [|[k' v'] l IH]; simpl.
  - destruct (String.eqb k0 k); lia.
  - destruct (String.eqb_spec k k') as [->|Hn]; simpl.
    + destruct (String.eqb_spec k0 k'); [reflexivity|]. destruct (String.eqb_spec k0 k'); [congruence|reflexivity].
    + destruct (String.eqb_spec k0 k') as [->|Hn2].
      * destruct (String.eqb_spec k' k); [congruence|reflexivity].
      * exact IH.
Qed.

(* sum of all entries for a key (equals rget when the keys are unique, as in a Go map) *)
Fixpoint rtotal (k : string) (l : rl) : Z :=
  match l with [] => 0 | (k', v) :: t => (if String.eqb k k' then v else 0) + rtotal k t end.

Lemma rtotal_notin k l : ~ List.In k (map fst l) -> rtotal k l = 0.
Proof.
  induction l as [|[k' v] l IH]; simpl; [reflexivity|]. intros H.
  destruct (String.eqb_spec k k') as [->|Hn]; [exfalso; apply H; left; reflexivity|].
  rewrite IH; [lia|]. intros Hi. apply H. right. exact Hi.
Qed.

Lemma rtotal_nodup k l : NoDup (map fst l) -> rtotal k l = rget k l.
Proof.
  induction l as [|[k' v] l IH]; simpl; [reflexivity|]. intros H. inversion H as [|? ? Hn Hd]; subst.
  destruct (String.eqb_spec k k') as [->|Hne]; [rewrite rtotal_notin by exact Hn; lia|]. rewrite IH by exact Hd. lia.
Qed.

Lemma rget_rmerge_total (a b : rl) k : rget k (rmerge a b) = rget k a + rtotal k b.
Proof.
  unfold rmerge. revert a. induction b as [|[k' v] b IH]; intros a; simpl; [lia|].
  rewrite IH, rget_radd1. destruct (String.eqb k k'); lia.
Qed.

(* resources.Merge adds key-wise *)
Lemma rget_rmerge (a b : rl) k : NoDup (map fst b) -> rget k (rmerge a b) = rget k a + rget k b.
Proof. intros H. rewrite rget_rmerge_total, rtotal_nodup by exact H. reflexivity. Qed.

Lemma rget_total_for g total k : NoDup (map fst (dg_overhead g)) ->
  rget k (total_for g total) = rget k total + rget k (dg_overhead g).
Proof.
  intros H. unfold total_for. destruct (dg_overhead g) as [|x t] eqn:E; [simpl; lia|].
  rewrite rget_rmerge by exact H. reflexivity.
Qed.

(* ================================================================== taints *)

Lemma tolerates_all_k8s ts tols : tolerates_all ts tols = true -> k8s_tolerated ts tols.
Proof.
  unfold tolerates_all, k8s_tolerated. rewrite forallb_forall. intros H ta Hin _.
  specialize (H ta Hin). apply existsb_exists in H. exact H.
Qed.

Lemma k8s_tolerated_b_spec ts tols : k8s_tolerated_b ts tols = true <-> k8s_tolerated ts tols.
Proof.
  unfold k8s_tolerated_b, k8s_tolerated. rewrite forallb_forall. split.
  - intros H ta Hin Hh. specialize (H ta Hin). rewrite Hh in H. simpl in H. apply existsb_exists in H. exact H.
  - intros H ta Hin. destruct (hard_effect (t_eff ta)) eqn:E; [|reflexivity]. simpl.
    apply existsb_exists. apply H; assumption.
Qed.

(* the toleration that relaxation may append never tolerates a NoSchedule / NoExecute taint *)
Lemma pns_not_hard ta : hard_effect (t_eff ta) = true -> tolerates_taint pns_toleration ta = false.
Proof.
  unfold hard_effect, tolerates_taint, pns_toleration. cbn [tl_eff tl_key tl_op tl_val]. intros H.
  assert (X : String.eqb "PreferNoSchedule" "" = false) by reflexivity. rewrite X.
  destruct (String.eqb_spec "PreferNoSchedule" (t_eff ta)) as [E|_]; [|reflexivity].
  rewrite <- E in H. vm_compute in H. discriminate.
Qed.

Lemma tolerated_orig ts orig extra :
  (forall t, List.In t extra -> t = pns_toleration) ->
  k8s_tolerated ts (orig ++ extra) -> k8s_tolerated ts orig.
Proof.
  intros Hx H ta Hin Hh. destruct (H ta Hin Hh) as (t & Ht & Htol).
  apply in_app_or in Ht as [Ht|Ht]; [exists t; split; assumption|].
  rewrite (Hx t Ht), pns_not_hard in Htol by exact Hh. discriminate.
Qed.

(* ================================================================== host ports *)

(* Karpenter's HostPort.Matches is at least as strict as kube-scheduler's clash *)
Lemma k8s_clash_matches a b : k8s_port_clash a b -> hp_matches a b = true.
Proof.
  intros (Hp & Hq & Hi). unfold hp_matches. rewrite Hp, Hq, String.eqb_refl, Z.eqb_refl. cbn [andb].
  destruct Hi as [E|[E|E]].
  - rewrite E, String.eqb_refl. reflexivity.
  - unfold unspecified. rewrite E. rewrite (String.eqb_refl "0.0.0.0"). cbn [orb]. rewrite orb_true_r. reflexivity.
  - unfold unspecified at 2. rewrite E. rewrite (String.eqb_refl "0.0.0.0"). cbn [orb]. rewrite !orb_true_r. reflexivity.
Qed.

Lemma k8s_port_clash_b_spec a b : k8s_port_clash_b a b = true <-> k8s_port_clash a b.
Proof.
  unfold k8s_port_clash_b, k8s_port_clash. rewrite !andb_true_iff, !orb_true_iff, !String.eqb_eq, Z.eqb_eq. tauto.
Qed.

(* HostPortUsage.Conflicts == nil: no requested port matches a port reserved by a DIFFERENT pod *)
Lemma conflicts_false_spec u who ports :
  conflicts u who ports = false <->
  forall n, List.In n ports -> forall k ps e, List.In (k, ps) u -> k <> who -> List.In e ps -> hp_matches n e = false.
Proof.
  unfold conflicts. split.
  - intros H n Hn k ps e Hin Hk He. destruct (hp_matches n e) eqn:E; [|reflexivity]. exfalso.
    assert (X : existsb (fun n0 => existsb (fun e0 => negb (String.eqb (fst e0) who) && existsb (hp_matches n0) (snd e0)) u) ports = true).
    { apply existsb_exists. exists n. split; [exact Hn|]. apply existsb_exists. exists (k, ps). split; [exact Hin|]. simpl.
      destruct (String.eqb_spec k who); [congruence|]. simpl. apply existsb_exists. exists e. split; assumption. }
    rewrite X in H. discriminate.
  - intros H. destruct (existsb _ ports) eqn:E; [|reflexivity]. exfalso.
    apply existsb_exists in E as (n & Hn & E). apply existsb_exists in E as ([k ps] & Hin & E). simpl in E.
    apply andb_prop in E as [Hk E]. apply existsb_exists in E as (e & He & Hm).
    destruct (String.eqb_spec k who); [discriminate|]. rewrite (H n Hn k ps e Hin n0 He) in Hm. discriminate.
Qed.

Lemma ports_ok_gen_b_spec ps qs dports :
  ports_ok_gen_b ps qs dports = true <->
  forall p, List.In p ps ->
    (forall q, List.In q qs -> p_key q <> p_key p ->
       forall a b, List.In a (p_ports p) -> List.In b (p_ports q) -> ~ k8s_port_clash a b) /\
    (forall a b, List.In a (p_ports p) -> List.In b dports -> ~ k8s_port_clash a b).
Proof.
  unfold ports_ok_gen_b. rewrite forallb_forall. split.
  - intros H p Hp. specialize (H p Hp). apply andb_prop in H as [H1 H2]. split.
    + intros q Hq Hk a b Ha Hb Hc. rewrite forallb_forall in H1. specialize (H1 q Hq).
      destruct (String.eqb_spec (p_key q) (p_key p)); [congruence|]. simpl in H1.
      rewrite forallb_forall in H1. specialize (H1 a Ha). rewrite forallb_forall in H1. specialize (H1 b Hb).
      apply k8s_port_clash_b_spec in Hc. rewrite Hc in H1. discriminate.
    + intros a b Ha Hb Hc. rewrite forallb_forall in H2. specialize (H2 a Ha). rewrite forallb_forall in H2.
      specialize (H2 b Hb). apply k8s_port_clash_b_spec in Hc. rewrite Hc in H2. discriminate.
  - intros H p Hp. destruct (H p Hp) as [H1 H2]. apply andb_true_intro. split.
    + apply forallb_forall. intros q Hq. destruct (String.eqb_spec (p_key q) (p_key p)) as [E|Hn]; [reflexivity|]. simpl.
      apply forallb_forall. intros a Ha. apply forallb_forall. intros b Hb.
      destruct (k8s_port_clash_b a b) eqn:E; [|reflexivity]. exfalso. apply (H1 q Hq Hn a b Ha Hb). apply k8s_port_clash_b_spec, E.
    + apply forallb_forall. intros a Ha. apply forallb_forall. intros b Hb.
      destruct (k8s_port_clash_b a b) eqn:E; [|reflexivity]. exfalso. apply (H2 a b Ha Hb). apply k8s_port_clash_b_spec, E.
Qed.

Lemma ports_ok_b_spec ps dports : ports_ok_b ps dports = true <-> ports_ok ps dports.
Proof. apply ports_ok_gen_b_spec. Qed.

(* ================================================================== resources oracle *)

Lemma rget_notin k (l : rl) : ~ List.In k (map fst l) -> rget k l = 0.
Proof.
  induction l as [|[k' v] l IH]; simpl; [reflexivity|]. intros H.
  destruct (String.eqb_spec k k') as [->|Hn]; [exfalso; apply H; left; reflexivity|]. apply IH. intros Hi. apply H. right. exact Hi.
Qed.

Lemma rsum_notin k (ls : list rl) : ~ List.In k (rkeys ls) -> rsum ls k = 0.
Proof.
  unfold rkeys. induction ls as [|l ls IH]; simpl; [reflexivity|]. intros H.
  rewrite rget_notin, IH; [reflexivity| |]; intros Hi; apply H; apply in_or_app; [right|left]; exact Hi.
Qed.

Lemma resources_ok_b_spec ps overhead alloc :
  resources_ok_b ps overhead alloc = true <-> resources_ok ps overhead alloc.
Proof.
  unfold resources_ok_b, resources_ok. rewrite forallb_forall. split.
  - intros H k. destruct (in_dec string_dec k (rkeys (overhead :: alloc :: map p_requests ps))) as [Hi|Hn].
    + apply Z.leb_le, H, Hi.
    + unfold rkeys in Hn. simpl in Hn. rewrite !in_app_iff in Hn.
      rewrite (rget_notin k overhead), (rget_notin k alloc), rsum_notin; [lia| | |]; intros Hi; apply Hn; tauto.
  - intros H k _. apply Z.leb_le, H.
Qed.

(* ================================================================== requirement lemmas *)

Lemma has_exists v : has (new_req Exists None []) v = true.
Proof. reflexivity. Qed.

(* what a key admits after Requirements.Add(rs...): what it admitted before and what every added
   requirement on that key admits *)
Lemma has_get_add (rs : list (string * req)) : forall (m : reqs) k0 v,
  has (get (add m rs) k0) v =
  has (get m k0) v && forallb (fun kr => negb (String.eqb k0 (fst kr)) || has (snd kr) v) rs.
Proof.
  unfold add. induction rs as [|[k r] rs IH]; intros m k0 v; cbn [fold_left forallb fst snd]; [rewrite andb_true_r; reflexivity|].
  rewrite IH, get_add1. destruct (String.eqb k0 k); cbn [negb orb].
  - rewrite (andb_comm (has r v)), andb_assoc. reflexivity.
  - reflexivity.
Qed.

Lemma add_narrows m rs k v : has (get (add m rs) k) v = true -> has (get m k) v = true.
Proof. rewrite has_get_add. intros H. apply andb_prop in H as [H _]. exact H. Qed.

Lemma add_within m rs k r v : List.In (k, r) rs -> has (get (add m rs) k) v = true -> has r v = true.
Proof.
  rewrite has_get_add. intros Hin H. apply andb_prop in H as [_ H]. rewrite forallb_forall in H.
  specialize (H (k, r) Hin). simpl in H. rewrite String.eqb_refl in H. exact H.
Qed.

Lemma get_nil k v : has (get [] k) v = true.
Proof. reflexivity. Qed.

(* a term's requirement for a key admits only values that satisfy every expression of the term on that key *)
Lemma term_reqs_sound (t : term) k o vs v : List.In (k, o, vs) t -> valid_args o vs = true ->
  has (get (term_reqs t) k) v = true -> k8s_match o vs (Some v) = true.
Proof.
  intros Hin Hv H. unfold term_reqs in H.
  assert (Hi : List.In (k, new_req o None vs) (map expr_req t)).
  { apply in_map_iff. exists (k, o, vs). split; [reflexivity|exact Hin]. }
  pose proof (add_within [] _ k _ v Hi H) as Hh. rewrite has_new_req in Hh by exact Hv. exact Hh.
Qed.

Lemma sel_reqs_sound (s : list (string * string)) k val v : List.In (k, val) s ->
  has (get (sel_reqs s) k) v = true -> k8s_match In [val] (Some v) = true.
Proof.
  intros Hin H. unfold sel_reqs in H.
  assert (Hi : List.In (k, new_req In None [val]) (map (fun kv : string * string => (fst kv, new_req In None [snd kv])) s)).
  { apply in_map_iff. exists (k, val). split; [reflexivity|exact Hin]. }
  pose proof (add_within [] _ k _ v Hi H) as Hh. rewrite has_new_req in Hh by reflexivity. exact Hh.
Qed.

(* keys of a Requirements value built by Add are unique, so membership and lookup agree *)
Lemma nodup_add1 m kr : nodup_keys m -> nodup_keys (add1 m kr).
Proof. destruct kr as [k r]. unfold add1. intros H. destruct (find k m); apply nodup_set, H. Qed.
Lemma nodup_add rs : forall m, nodup_keys m -> nodup_keys (add m rs).
Proof. unfold add. induction rs as [|kr rs IH]; intros m H; cbn [fold_left]; [exact H|]. apply IH, nodup_add1, H. Qed.
Lemma term_reqs_nodup t : nodup_keys (term_reqs t).
Proof. unfold term_reqs. apply nodup_add. constructor. Qed.

Lemma in_reqs_get (m : reqs) k r : nodup_keys m -> List.In (k, r) m -> get m k = r.
Proof. intros Hn Hin. unfold get. rewrite (In_find k r m Hn Hin). reflexivity. Qed.

Definition valid_term (t : term) : Prop := forall k o vs, List.In (k, o, vs) t -> valid_args o vs = true.

(* NewPodRequirements / NewStrictPodRequirements: every value the pod's requirement for a key admits
   satisfies the node selector and every expression of the FIRST required term on that key *)
Lemma pod_reqs_sound all p k v : has (get (pod_reqs all p) k) v = true ->
  (forall val, List.In (k, val) (p_sel p) -> k8s_match In [val] (Some v) = true) /\
  (forall t rest, p_req p = t :: rest -> valid_term t ->
     forall o vs, List.In (k, o, vs) t -> k8s_match o vs (Some v) = true).
Proof.
  intros H. unfold pod_reqs in H.
  set (r0 := sel_reqs (p_sel p)) in *.
  set (r1 := if all then match sort_desc (p_pref p) with (_, t) :: _ => add r0 (term_reqs t) | [] => r0 end else r0) in *.
  assert (H1 : has (get r1 k) v = true).
  { destruct (p_req p); [exact H|apply add_narrows in H; exact H]. }
  assert (H0 : has (get r0 k) v = true).
  { unfold r1 in H1. destruct all; [|exact H1]. destruct (sort_desc (p_pref p)) as [|[w t] l]; [exact H1|apply add_narrows in H1; exact H1]. }
  split.
  - intros val Hin. apply (sel_reqs_sound _ k val v Hin H0).
  - intros t rest E Hvt o vs Hin. rewrite E in H.
    assert (Hi : exists r, List.In (k, r) (term_reqs t)).
    { pose proof (term_reqs_nodup t) as Hn. unfold get. destruct (find k (term_reqs t)) as [r|] eqn:F.
      - exists r. apply find_In, F.
      - exfalso. (* the key of a listed expression is present *)
        assert (X : has_key (term_reqs t) k = true).
        { unfold term_reqs. clear -Hin. assert (G : forall rs m, (has_key m k = true \/ List.In k (map fst rs)) -> has_key (fold_left add1 rs m) k = true).
          { induction rs as [|[k' r'] rs IH]; intros m [Hm|Hr]; simpl; try exact Hm; try (destruct Hr; fail).
            - apply IH. left. unfold add1, has_key in *. destruct (String.eqb_spec k k') as [->|Hn].
              + destruct (find k' m); rewrite find_set_same; reflexivity.
              + destruct (find k' m); rewrite find_set_other by exact Hn; exact Hm.
            - simpl in Hr. destruct Hr as [->|Hr].
              + apply IH. left. unfold add1, has_key. destruct (find k m); rewrite find_set_same; reflexivity.
              + apply IH. right. exact Hr. }
          apply G. right. apply in_map_iff. exists (k, new_req o None vs). split; [reflexivity|].
          apply in_map_iff. exists (k, o, vs). split; [reflexivity|exact Hin]. }
        unfold has_key in X. rewrite F in X. discriminate. }
    destruct Hi as (r & Hr). pose proof (add_within r1 _ k r v Hr H) as Hh.
    rewrite <- (in_reqs_get _ k r (term_reqs_nodup t) Hr) in Hh.
    apply (term_reqs_sound t k o vs v Hin (Hvt k o vs Hin) Hh).
Qed.

(* minValues relaxation does not change what a key admits *)
Lemma find_set_minv r u k :
  find k (set_minv r u) = option_map (fun x =>
    match List.find (fun w => String.eqb (fst w) k) u with
    | Some w => mkReq (compl x) (vals x) (gte x) (lte x) (Some (snd w))
    | None => x end) (find k r).
Proof.
  induction r as [|[k' x] r IH]; simpl; [reflexivity|].
  destruct (List.find (fun w => String.eqb (fst w) k') u) as [w|] eqn:F; simpl;
  destruct (String.eqb_spec k k') as [->|Hn]; simpl; try rewrite F; try reflexivity; exact IH.
Qed.

Lemma has_set_minv r u k v : has (get (set_minv r u) k) v = has (get r k) v.
Proof.
  unfold get. rewrite find_set_minv. destruct (find k r) as [x|]; simpl; [|reflexivity].
  destruct (List.find _ u); reflexivity.
Qed.

(* ================================================================== filterInstanceTypesByRequirements *)

Lemma it_fits_go_sound wk gs req r : forall h, fst (it_fits_go wk gs req r h) = true ->
  exists alloc offs o, List.In (alloc, offs) gs /\ List.In o offs /\ compatible wk r o = true /\ fits req alloc = true.
Proof.
  induction gs as [|[alloc offs] gs IH]; intros h; simpl; [discriminate|].
  destruct (existsb (fun o => compatible wk r o) offs) eqn:E.
  - destruct (fits req alloc) eqn:F.
    + intros _. apply existsb_exists in E as (o & Ho & Hc). exists alloc, offs, o. repeat split; try assumption. left. reflexivity.
    + intros H. destruct (IH _ H) as (a & os & o & Hi & Ho & Hc & Hf). exists a, os, o. repeat split; try assumption. right. exact Hi.
  - intros H. destruct (IH _ H) as (a & os & o & Hi & Ho & Hc & Hf). exists a, os, o. repeat split; try assumption. right. exact Hi.
Qed.

(* what it means for instance type [i] to be a launch option of a claim with requirements [r] and summed
   requests [total], given the daemon overhead group [g] it belongs to *)
Definition option_ok (wk : list string) (r : reqs) (total : rl) (who : string) (ports : list hp) (g : dgroup) (i : itype) : Prop :=
  conflicts (dg_ports g) who ports = false /\
  it_compatible i r = true /\
  exists alloc offs o, List.In (alloc, offs) (it_groups i) /\ List.In o offs /\
    compatible wk r o = true /\ fits (total_for g total) alloc = true.

Lemma find_it_name n cat i : find_it n cat = Some i -> it_name i = n /\ List.In i cat.
Proof.
  induction cat as [|j cat IH]; simpl; [discriminate|].
  destruct (String.eqb_spec n (it_name j)) as [->|Hn].
  - intros [= ->]. split; [reflexivity|left; reflexivity].
  - intros H. destruct (IH H) as [H1 H2]. split; [exact H1|right; exact H2].
Qed.

Lemma group_remaining_sound wk cat elig r who ports total g i :
  List.In i (group_remaining wk cat elig r who ports total g) ->
  mem (it_name i) elig = true /\ List.In (it_name i) (dg_its g) /\ List.In i cat /\ option_ok wk r total who ports g i.
Proof.
  unfold group_remaining. destruct (conflicts (dg_ports g) who ports) eqn:C; [intros []|].
  rewrite in_flat_map. intros (n & Hn & Hi).
  destruct (mem n elig) eqn:M; [|destruct Hi].
  destruct (find_it n cat) as [j|] eqn:F; [|destruct Hi].
  destruct (it_ok wk j (total_for g total) r) eqn:O; [|destruct Hi].
  destruct Hi as [<-|[]]. destruct (find_it_name _ _ _ F) as [Hname Hcat]. rewrite Hname.
  unfold it_ok in O. apply andb_prop in O as [O Hoff]. apply andb_prop in O as [Hc Hf].
  repeat split; try assumption. apply (it_fits_go_sound wk _ _ _ false Hf).
Qed.

Lemma filter_its_sound wk cat elig r who ports groups total relax rem unsat :
  filter_its wk cat elig r who ports groups total relax = (rem, unsat, None) ->
  rem <> [] /\
  forall i, List.In i rem ->
    mem (it_name i) elig = true /\ List.In i cat /\
    exists g, List.In g groups /\ List.In (it_name i) (dg_its g) /\ option_ok wk r total who ports g i.
Proof.
  unfold filter_its.
  set (remaining := flat_map (group_remaining wk cat elig r who ports total) groups).
  set (us := if has_min_values r then min_values_unsat remaining r else []).
  set (sf := match us with [] => false | _ => negb relax end).
  destruct (if sf then [] else remaining) as [|x l] eqn:E; [discriminate|].
  intros [= <- _]. split; [discriminate|]. intros i Hi.
  assert (Hr : List.In i remaining). { destruct sf; [discriminate|]. rewrite E. exact Hi. }
  unfold remaining in Hr. apply in_flat_map in Hr as (g & Hg & Hin).
  destruct (group_remaining_sound _ _ _ _ _ _ _ _ _ Hin) as (H1 & H2 & H3 & H4).
  split; [exact H1|]. split; [exact H3|]. exists g. split; [exact Hg|]. split; [exact H2|exact H4].
Qed.

(* ================================================================== NodeClaim steps *)

(* the requirements the filter ran with (before minValues are lowered) *)
Definition step_reqs (all : bool) (n : nclaim) (p : pod) : reqs := add (nc_reqs n) (pod_reqs all p).

Lemma nc_can_add_ok wk cat all relax n p r its :
  nc_can_add wk cat all relax n p = Ok (r, its) ->
  tolerates_all (nc_taints n) (p_tols p) = true /\
  compatible wk (nc_reqs n) (pod_reqs all p) = true /\
  (forall k v, has (get r k) v = has (get (step_reqs all n p) k) v) /\
  its <> [] /\
  forall name, List.In name its ->
    mem name (nc_its n) = true /\
    exists i g, List.In i cat /\ it_name i = name /\ List.In g (nc_groups n) /\ List.In name (dg_its g) /\
      option_ok wk (step_reqs all n p) (rmerge (nc_requests n) (p_requests p)) (p_key p) (p_ports p) g i.
Proof.
  unfold nc_can_add, step_reqs.
  destruct (tolerates_all (nc_taints n) (p_tols p)) eqn:T; simpl; [|discriminate].
  destruct (compatible wk (nc_reqs n) (pod_reqs all p)) eqn:C; simpl; [|discriminate].
  destruct (filter_its wk cat (nc_its n) (add (nc_reqs n) (pod_reqs all p)) (p_key p) (p_ports p) (nc_groups n)
              (rmerge (nc_requests n) (p_requests p)) relax) as [[rem unsat] fe] eqn:F.
  destruct fe as [[| ]|]; try discriminate. intros [= <- <-].
  destruct (filter_its_sound _ _ _ _ _ _ _ _ _ _ _ F) as [Hne Hall].
  split; [reflexivity|]. split; [reflexivity|]. split.
  { intros k v. destruct relax; [apply has_set_minv|reflexivity]. }
  split. { destruct rem; [congruence|discriminate]. }
  intros name Hn. apply in_map_iff in Hn as (i & <- & Hi).
  destruct (Hall i Hi) as (H1 & H2 & g & Hg & Hd & Ho).
  split; [exact H1|]. exists i, g. split; [exact H2|]. split; [reflexivity|]. split; [exact Hg|]. split; [exact Hd|exact Ho].
Qed.

(* running any sequence of scheduler steps against one claim *)
Fixpoint nc_exec (wk : list string) (cat : list itype) (all : bool) (n : nclaim) (ops : list (pod * bool)) : nclaim :=
  match ops with
  | [] => n
  | (p, rx) :: rest => nc_exec wk cat all (fst (nc_step wk cat all rx n p)) rest
  end.

(* Inv: requests are the sum over the placed pods; every placed pod tolerates the taints; every value the claim
   admits for a key satisfies the selector and the first required term of every placed (relaxed) pod; every
   remaining instance type is a valid launch option for the summed requests *)
Definition pod_wf (p : pod) : Prop :=
  NoDup (map fst (p_requests p)) /\ (forall t rest, p_req p = t :: rest -> valid_term t).

Definition values_ok (r : reqs) (p : pod) : Prop :=
  forall k v, has (get r k) v = true ->
    (forall val, List.In (k, val) (p_sel p) -> k8s_match In [val] (Some v) = true) /\
    (forall t rest, p_req p = t :: rest -> forall o vs, List.In (k, o, vs) t -> k8s_match o vs (Some v) = true).

Definition nc_inv (wk : list string) (cat : list itype) (n : nclaim) : Prop :=
  (forall k, rget k (nc_requests n) = rsum (map p_requests (nc_pods n)) k) /\
  (forall p, List.In p (nc_pods n) -> k8s_tolerated (nc_taints n) (p_tols p) /\ values_ok (nc_reqs n) p) /\
  (nc_pods n <> [] -> forall name, List.In name (nc_its n) ->
     exists i g alloc offs o, List.In i cat /\ it_name i = name /\ List.In g (nc_groups n) /\ List.In name (dg_its g) /\
       it_compatible i (nc_reqs n) = true /\
       List.In (alloc, offs) (it_groups i) /\ List.In o offs /\ compatible wk (nc_reqs n) o = true /\
       fits (total_for g (nc_requests n)) alloc = true).

Lemma rsum_app ls l k : rsum (ls ++ [l]) k = rsum ls k + rget k l.
Proof. unfold rsum. induction ls as [|x ls IH]; simpl; [lia|]. rewrite IH. lia. Qed.

(* minValues do not take part in compatibility *)
Lemma has_key_set_minv r u k : has_key (set_minv r u) k = has_key r k.
Proof. unfold has_key. rewrite find_set_minv. destruct (find k r); reflexivity. Qed.

Lemma forallb_ext {A} (f g : A -> bool) l : (forall x, f x = g x) -> forallb f l = forallb g l.
Proof. intros H. induction l as [|x l IH]; simpl; [reflexivity|]. rewrite H, IH. reflexivity. Qed.

Definition same_but_minv (a b : req) : Prop := compl a = compl b /\ vals a = vals b /\ gte a = gte b /\ lte a = lte b.

Lemma has_intersection_minv a a' b : same_but_minv a a' -> has_intersection a b = has_intersection a' b.
Proof. intros (H1 & H2 & H3 & H4). unfold has_intersection. rewrite H1, H2, H3, H4. reflexivity. Qed.
Lemma has_intersection_minv_r a b b' : same_but_minv b b' -> has_intersection a b = has_intersection a b'.
Proof. intros (H1 & H2 & H3 & H4). unfold has_intersection. rewrite H1, H2, H3, H4. reflexivity. Qed.
Lemma sat_undefined_minv a a' : same_but_minv a a' -> sat_undefined a = sat_undefined a'.
Proof. intros (H1 & H2 & H3 & H4). unfold sat_undefined, operator, rlen. rewrite H1, H2, H3, H4. reflexivity. Qed.

Lemma find_set_minv_same r u k :
  match find k r, find k (set_minv r u) with
  | Some a, Some a' => same_but_minv a a'
  | None, None => True
  | _, _ => False
  end.
Proof.
  rewrite find_set_minv. destruct (find k r) as [x|]; simpl; [|exact I].
  destruct (List.find _ u); repeat split; reflexivity.
Qed.

Lemma set_minv_keys r u : map fst (set_minv r u) = map fst r.
Proof. unfold set_minv. rewrite map_map. apply map_ext. intros [k x]. simpl. destruct (List.find _ u); reflexivity. Qed.

Lemma in_set_minv r u k x' : List.In (k, x') (set_minv r u) -> exists x, List.In (k, x) r /\ same_but_minv x x'.
Proof.
  unfold set_minv. rewrite in_map_iff. intros ([k0 x] & E & Hin). simpl in E.
  exists x. destruct (List.find _ u); injection E as Ek Ex; subst k0; rewrite <- Ex; (split; [exact Hin|repeat split; reflexivity]).
Qed.

Lemma compatible_set_minv wk r u o : nodup_keys r -> compatible wk (set_minv r u) o = compatible wk r o.
Proof.
  intros Hnd. unfold compatible. f_equal.
  - apply forallb_ext. intros [k rb]. rewrite has_key_set_minv. reflexivity.
  - unfold intersects. apply eq_true_iff_eq. rewrite !forallb_forall. split.
    + intros H [k x] Hin. pose proof (find_set_minv_same r u k) as S. rewrite (In_find k x r Hnd Hin) in S.
      destruct (find k (set_minv r u)) as [x'|] eqn:F; [|destruct S].
      specialize (H (k, x') (find_In _ _ _ F)). simpl in H. destruct (find k o) as [rb|]; [|reflexivity].
      rewrite (has_intersection_minv x x' rb S), (sat_undefined_minv x x' S). exact H.
    + intros H [k x'] Hin. destruct (in_set_minv _ _ _ _ Hin) as (x & Hx & S).
      specialize (H (k, x) Hx). simpl in H. destruct (find k o) as [rb|]; [|reflexivity].
      rewrite <- (has_intersection_minv x x' rb S), <- (sat_undefined_minv x x' S). exact H.
Qed.

Lemma intersects_set_minv a r u : nodup_keys r -> intersects a (set_minv r u) = intersects a r.
Proof.
  intros Hnd. unfold intersects. apply forallb_ext. intros [k ex].
  pose proof (find_set_minv_same r u k) as S.
  destruct (find k r) as [x|], (find k (set_minv r u)) as [x'|]; try contradiction; try reflexivity.
  rewrite (has_intersection_minv_r ex x x' S), (sat_undefined_minv x x' S). reflexivity.
Qed.

Definition nc_wf (n : nclaim) : Prop :=
  nodup_keys (nc_reqs n) /\ forall g, List.In g (nc_groups n) -> NoDup (map fst (dg_overhead g)).

Lemma nc_can_add_reqs_eq wk cat all relax n p r its :
  nc_can_add wk cat all relax n p = Ok (r, its) ->
  exists u, r = (if relax then set_minv (step_reqs all n p) u else step_reqs all n p).
Proof.
  unfold nc_can_add, step_reqs.
  destruct (tolerates_all _ _); simpl; [|discriminate]. destruct (compatible wk _ _); simpl; [|discriminate].
  destruct (filter_its _ _ _ _ _ _ _ _ _) as [[rem unsat] fe]. destruct fe as [[| ]|]; try discriminate.
  intros [= <- _]. exists unsat. reflexivity.
Qed.

Lemma nc_step_preserves wk cat all rx n p :
  nc_wf n -> pod_wf p -> nc_inv wk cat n ->
  nc_wf (fst (nc_step wk cat all rx n p)) /\ nc_inv wk cat (fst (nc_step wk cat all rx n p)).
Proof.
  intros [Wn Wg] [Wp Wt] (I1 & I2 & I3). unfold nc_step.
  destruct (nc_can_add wk cat all rx n p) as [[r its]|e] eqn:C; cbn [fst]; [|split; [split; assumption|split; [exact I1|split; [exact I2|exact I3]]]].
  destruct (nc_can_add_ok _ _ _ _ _ _ _ _ C) as (HT & HC & HR & Hne & Hits).
  destruct (nc_can_add_reqs_eq _ _ _ _ _ _ _ _ C) as (u & Er).
  assert (Wstep : nodup_keys (step_reqs all n p)) by (apply nodup_add, Wn).
  assert (Wr : nodup_keys r).
  { rewrite Er. destruct rx; [|exact Wstep]. unfold nodup_keys. rewrite set_minv_keys. exact Wstep. }
  unfold nc_add. unfold nc_wf, nc_inv. cbn [nc_requests nc_pods nc_reqs nc_its nc_groups nc_taints].
  split.
  { split; [exact Wr|]. intros g Hg. apply in_map_iff in Hg as (g0 & <- & Hg0). cbn [dg_overhead]. apply Wg, Hg0. }
  split; [|split].
  - intros k. rewrite map_app. cbn [map]. rewrite rsum_app, rget_rmerge, I1 by exact Wp. reflexivity.
  - intros q Hq. apply in_app_or in Hq as [Hq|[<-|[]]].
    + destruct (I2 q Hq) as [Ht Hv]. split; [exact Ht|].
      intros k v Hh. rewrite HR in Hh. unfold step_reqs in Hh. apply add_narrows in Hh. apply (Hv k v Hh).
    + split; [apply tolerates_all_k8s, HT|].
      intros k v Hh. rewrite HR in Hh. unfold step_reqs in Hh.
      assert (Hp : has (get (pod_reqs all p) k) v = true).
      { rewrite has_get_add in Hh. apply andb_prop in Hh as [_ Hh].
        unfold get. destruct (find k (pod_reqs all p)) as [x|] eqn:F; [|reflexivity].
        rewrite forallb_forall in Hh. specialize (Hh (k, x) (find_In _ _ _ F)). cbn [fst snd] in Hh. rewrite String.eqb_refl in Hh. exact Hh. }
      destruct (pod_reqs_sound all p k v Hp) as [S1 S2]. split; [exact S1|].
      intros t rest E o vs Hin. apply (S2 t rest E (Wt t rest E) o vs Hin).
  - intros _ name Hn. destruct (Hits name Hn) as (_ & i & g & Hi & Hnm & Hg & Hd & Hc & Hcomp & alloc & offs & o & Ha & Ho & Hco & Hf).
    exists i, (mkDG (dg_its g) (dg_overhead g) (uset (dg_ports g) (p_key p) (p_ports p))), alloc, offs, o. cbn [dg_its dg_overhead].
    assert (Ecomp : forall oo, compatible wk r oo = compatible wk (step_reqs all n p) oo).
    { intros oo. rewrite Er. destruct rx; [apply compatible_set_minv, Wstep|reflexivity]. }
    assert (Eint : it_compatible i r = it_compatible i (step_reqs all n p)).
    { unfold it_compatible. rewrite Er. destruct rx; [apply intersects_set_minv, Wstep|reflexivity]. }
    repeat split; try assumption.
    + apply in_map_iff. exists g. split; [reflexivity|exact Hg].
    + rewrite Eint. exact Hcomp.
    + rewrite Ecomp. exact Hco.
Qed.

Lemma nc_exec_inv wk cat all ops : forall n,
  nc_wf n -> Forall (fun op => pod_wf (fst op)) ops -> nc_inv wk cat n ->
  nc_wf (nc_exec wk cat all n ops) /\ nc_inv wk cat (nc_exec wk cat all n ops).
Proof.
  induction ops as [|[p rx] ops IH]; intros n Wn Wops I; simpl; [split; assumption|].
  inversion Wops as [|? ? Wp Wrest]; subst. simpl in Wp.
  destruct (nc_step_preserves wk cat all rx n p Wn Wp I) as [Wn' I'].
  apply IH; assumption.
Qed.

(* a freshly created claim (no pods, no requests) satisfies the invariant *)
Lemma nc_inv_init wk cat n : nc_pods n = [] -> nc_requests n = [] -> nc_inv wk cat n.
Proof.
  intros Hp Hr. unfold nc_inv. rewrite Hp, Hr. split; [intros k; reflexivity|]. split; [intros p []|]. intros Hc. congruence.
Qed.

(* ---- from the invariant to Kubernetes admissibility of every launch option ---- *)

(* the first required term of the relaxed pod is one of the original pod's terms *)
Definition chosen_ok (r : reqs) (p : pod) : Prop :=
  forall k, (exists v, has (get r k) v = true) ->
    (forall val, List.In (k, val) (p_sel p) -> sat_all (get r k) In [val]) /\
    (forall t rest, p_req p = t :: rest -> forall o vs, List.In (k, o, vs) t -> sat_all (get r k) o vs).

(* whenever the claim's requirement for a key admits a value at all, every label the node may get satisfies the
   pod's constraints on that key *)
Lemma values_ok_sat_all r p : values_ok r p -> chosen_ok r p.
Proof.
  intros H k (v0 & Hv0). split.
  - intros val Hin lbl Hm. destruct lbl as [v|]; simpl in Hm; [apply (proj1 (H k v Hm) val Hin)|].
    rewrite Hm in Hv0. discriminate.
  - intros t rest E o vs Hin lbl Hm. destruct lbl as [v|]; simpl in Hm; [apply (proj2 (H k v Hm) t rest E o vs Hin)|].
    rewrite Hm in Hv0. discriminate.
Qed.

Theorem nc_options_admissible_l wk cat all n0 ops :
  nc_wf n0 -> nc_pods n0 = [] -> nc_requests n0 = [] -> Forall (fun op => pod_wf (fst op)) ops ->
  let n := nc_exec wk cat all n0 ops in
  (forall p, List.In p (nc_pods n) -> k8s_tolerated (nc_taints n) (p_tols p) /\ chosen_ok (nc_reqs n) p) /\
  (nc_pods n <> [] -> forall name, List.In name (nc_its n) ->
     exists i g alloc offs o, List.In i cat /\ it_name i = name /\ List.In g (nc_groups n) /\ List.In name (dg_its g) /\
       List.In (alloc, offs) (it_groups i) /\ List.In o offs /\ compatible wk (nc_reqs n) o = true /\
       resources_ok (nc_pods n) (dg_overhead g) alloc).
Proof.
  intros Wn Hp Hr Wops n.
  destruct (nc_exec_inv wk cat all ops n0 Wn Wops (nc_inv_init wk cat n0 Hp Hr)) as [[_ Wg] (I1 & I2 & I3)].
  fold n in Wg, I1, I2, I3. split.
  - intros p Hin. destruct (I2 p Hin) as [Ht Hv]. split; [exact Ht|apply values_ok_sat_all, Hv].
  - intros Hne name Hn. destruct (I3 Hne name Hn) as (i & g & alloc & offs & o & Hi & Hnm & Hg & Hd & _ & Ha & Ho & Hc & Hf).
    exists i, g, alloc, offs, o. repeat split; try assumption.
    intros k. pose proof (fits_spec _ _ Hf k) as Hk. rewrite rget_total_for in Hk by (apply Wg, Hg). rewrite I1 in Hk. exact Hk.
Qed.

(* ================================================================== ExistingNode steps *)

Fixpoint ex_exec (all : bool) (n : enode) (ops : list pod) : enode :=
  match ops with [] => n | p :: rest => ex_exec all (fst (ex_step all n p)) rest end.

Definition ex_inv (rem0 : rl) (n : enode) : Prop :=
  (forall k, rget k (en_remaining n) = rget k rem0 - rsum (map p_requests (en_pods n)) k) /\
  (forall k, 0 <= rget k (en_remaining n)) /\
  (forall p, List.In p (en_pods n) -> k8s_tolerated (en_taints n) (p_tols p) /\ values_ok (en_reqs n) p).

Lemma rget_rsub_from dest src k : NoDup (map fst src) -> rget k (rsub_from dest src) = rget k dest - rget k src.
Proof.
  intros H. unfold rsub_from.
  assert (G : forall s d, rget k (fold_left (fun acc kv => radd1 acc (fst kv) (- snd kv)) s d) = rget k d - rtotal k s).
  { induction s as [|[k' v] s IH]; intros d; simpl; [lia|]. rewrite IH, rget_radd1. destruct (String.eqb k k'); lia. }
  rewrite G, rtotal_nodup by exact H. reflexivity.
Qed.

Lemma ex_step_preserves all rem0 n p : pod_wf p -> ex_inv rem0 n -> ex_inv rem0 (fst (ex_step all n p)).
Proof.
  intros [Wp Wt] (I1 & I0 & I2). unfold ex_step, ex_can_add.
  destruct (tolerates_all (en_taints n) (p_tols p)) eqn:T; cbn [negb fst]; [|split; [exact I1|split; [exact I0|exact I2]]].
  destruct (conflicts (en_ports n) (p_key p) (p_ports p)) eqn:C; cbn [negb fst]; [split; [exact I1|split; [exact I0|exact I2]]|].
  destruct (fits (p_requests p) (en_remaining n)) eqn:F; cbn [negb fst]; [|split; [exact I1|split; [exact I0|exact I2]]].
  destruct (compatible [] (en_reqs n) (pod_reqs all p)) eqn:Co; cbn [negb fst]; [|split; [exact I1|split; [exact I0|exact I2]]].
  unfold ex_add, ex_inv. cbn [en_remaining en_pods en_reqs en_taints en_ports].
  split; [|split].
  - intros k. rewrite map_app. cbn [map]. rewrite rget_rsub_from, rsum_app, I1 by exact Wp. lia.
  - intros k. rewrite rget_rsub_from by exact Wp. pose proof (fits_spec _ _ F k). lia.
  - intros q Hq. apply in_app_or in Hq as [Hq|[<-|[]]].
    + destruct (I2 q Hq) as [Ht Hv]. split; [exact Ht|]. intros k v Hh. apply add_narrows in Hh. apply (Hv k v Hh).
    + split; [apply tolerates_all_k8s, T|]. intros k v Hh.
      assert (Hp : has (get (pod_reqs all p) k) v = true).
      { rewrite has_get_add in Hh. apply andb_prop in Hh as [_ Hh].
        unfold get. destruct (find k (pod_reqs all p)) as [x|] eqn:Fk; [|reflexivity].
        rewrite forallb_forall in Hh. specialize (Hh (k, x) (find_In _ _ _ Fk)). cbn [fst snd] in Hh. rewrite String.eqb_refl in Hh. exact Hh. }
      destruct (pod_reqs_sound all p k v Hp) as [S1 S2]. split; [exact S1|].
      intros t rest E o vs Hin. apply (S2 t rest E (Wt t rest E) o vs Hin).
Qed.

Theorem ex_exec_inv_l all rem0 ops : forall n,
  Forall pod_wf ops -> ex_inv rem0 n -> ex_inv rem0 (ex_exec all n ops).
Proof.
  induction ops as [|p ops IH]; intros n W I; simpl; [exact I|].
  inversion W; subst. apply IH; [assumption|]. apply ex_step_preserves; assumption.
Qed.

(* the pods placed on an existing node never exceed what was left for them (remaining resources = available
   minus the daemons still to come) *)
Theorem ex_resources_l all ops n0 :
  Forall pod_wf ops -> en_pods n0 = [] -> (forall k, 0 <= rget k (en_remaining n0)) ->
  let n := ex_exec all n0 ops in
  forall k, rsum (map p_requests (en_pods n)) k <= rget k (en_remaining n0).
Proof.
  intros W Hp Hnn n k.
  assert (I : ex_inv (en_remaining n0) n0).
  { unfold ex_inv. rewrite Hp. repeat split; try (intros ? []); simpl; [intros; lia|exact Hnn]. }
  destruct (ex_exec_inv_l all _ ops n0 W I) as (I1 & I0 & _). fold n in I1, I0.
  specialize (I1 k). specialize (I0 k). lia.
Qed.
