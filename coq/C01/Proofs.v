(* C01 — proofs about the model of C01/Model.v. *)
From Coq Require Import ZArith String Ascii List Bool Lia Permutation DecimalString.
From KV Require Import Base.Req Base.ReqProofs Base.K8s C01.Model.
Import ListNotations.
Open Scope string_scope.
Open Scope list_scope.
Open Scope Z_scope.
Local Arguments String.eqb : simpl never.

(* ================================================================== resources *)

Lemma rget_in_nonneg (k : string) (l : rl) :
  forallb (fun kv => 0 <=? snd kv) l = true -> 0 <= rget k l.
Proof.
  induction l as [|[k' v] l IH]; simpl; [lia|].
  intros H. apply andb_prop in H as [Hv Hl]. apply Z.leb_le in Hv.
  destruct (String.eqb k k'); [exact Hv|apply IH, Hl].
Qed.

Lemma rget_member (k : string) (l : rl) :
  rget k l = 0 \/ exists v, List.In (k, v) l /\ rget k l = v.
Proof.
  induction l as [|[k' v] l IH]; simpl; [left; reflexivity|].
  destruct (String.eqb_spec k k') as [->|Hn].
  - right. exists v. split; [left; reflexivity|reflexivity].
  - destruct IH as [H|(w & Hin & Hw)]; [left; exact H|right; exists w; split; [right; exact Hin|exact Hw]].
Qed.

(* resources.Fits: every requested quantity is within the total, key by key (absent = 0) *)
Lemma fits_spec (cand total : rl) :
  fits cand total = true -> forall k, rget k cand <= rget k total.
Proof.
  unfold fits. intros H k. apply andb_prop in H as [Hnn Hc].
  destruct (rget_member k cand) as [H0|(v & Hin & Hv)].
  - rewrite H0. apply rget_in_nonneg, Hnn.
  - rewrite Hv. rewrite forallb_forall in Hc. specialize (Hc (k, v) Hin). simpl in Hc. apply Z.leb_le, Hc.
Qed.

Lemma rget_radd1 (l : rl) (k k0 : string) (v : Z) :
  rget k0 (radd1 l k v) = if String.eqb k0 k then rget k0 l + v else rget k0 l.
Proof.
  induction l as [|[k' v'] l IH]; simpl.
  - destruct (String.eqb k0 k); lia.
  - destruct (String.eqb_spec k k') as [->|Hn]; simpl.
    + destruct (String.eqb_spec k0 k'); [reflexivity|]. destruct (String.eqb_spec k0 k'); [congruence|reflexivity].
    + destruct (String.eqb_spec k0 k') as [->|Hn2].
      * destruct (String.eqb_spec k' k); [congruence|reflexivity].
      * exact IH.
Qed.

(* sum of all entries for a key (equals rget when the keys are unique, as in a Go map) *)
Fixpoint rtotal (k : string) (l : rl) : Z :=
  match l with [] => 0 | (k', v) :: t => (if String.eqb k k' then v else 0) + rtotal k t end.

Lemma rtotal_notin k l : ~ List.In k (map fst l) -> rtotal k l = 0.
Proof.
  induction l as [|[k' v] l IH]; simpl; [reflexivity|]. intros H.
  destruct (String.eqb_spec k k') as [->|Hn]; [exfalso; apply H; left; reflexivity|].
  rewrite IH; [lia|]. intros Hi. apply H. right. exact Hi.
Qed.

Lemma rtotal_nodup k l : NoDup (map fst l) -> rtotal k l = rget k l.
Proof.
  induction l as [|[k' v] l IH]; simpl; [reflexivity|]. intros H. inversion H as [|? ? Hn Hd]; subst.
  destruct (String.eqb_spec k k') as [->|Hne]; [rewrite rtotal_notin by exact Hn; lia|]. rewrite IH by exact Hd. lia.
Qed.

Lemma rget_rmerge_total (a b : rl) k : rget k (rmerge a b) = rget k a + rtotal k b.
Proof.
  unfold rmerge. revert a. induction b as [|[k' v] b IH]; intros a; simpl; [lia|].
  rewrite IH, rget_radd1. destruct (String.eqb k k'); lia.
Qed.

(* resources.Merge adds key-wise *)
Lemma rget_rmerge (a b : rl) k : NoDup (map fst b) -> rget k (rmerge a b) = rget k a + rget k b.
Proof. intros H. rewrite rget_rmerge_total, rtotal_nodup by exact H. reflexivity. Qed.

Lemma rget_total_for g total k : NoDup (map fst (dg_overhead g)) ->
  rget k (total_for g total) = rget k total + rget k (dg_overhead g).
Proof.
  intros H. unfold total_for. destruct (dg_overhead g) as [|x t] eqn:E; [simpl; lia|].
  rewrite rget_rmerge by exact H. reflexivity.
Qed.

(* ================================================================== taints *)

Lemma tolerates_all_k8s ts tols : tolerates_all ts tols = true -> k8s_tolerated ts tols.
Proof.
  unfold tolerates_all, k8s_tolerated. rewrite forallb_forall. intros H ta Hin _.
  specialize (H ta Hin). apply existsb_exists in H. exact H.
Qed.

Lemma k8s_tolerated_b_spec ts tols : k8s_tolerated_b ts tols = true <-> k8s_tolerated ts tols.
Proof.
  unfold k8s_tolerated_b, k8s_tolerated. rewrite forallb_forall. split.
  - intros H ta Hin Hh. specialize (H ta Hin). rewrite Hh in H. simpl in H. apply existsb_exists in H. exact H.
  - intros H ta Hin. destruct (hard_effect (t_eff ta)) eqn:E; [|reflexivity]. simpl.
    apply existsb_exists. apply H; assumption.
Qed.

(* the toleration that relaxation may append never tolerates a NoSchedule / NoExecute taint *)
Lemma pns_not_hard ta : hard_effect (t_eff ta) = true -> tolerates_taint pns_toleration ta = false.
Proof.
  unfold hard_effect, tolerates_taint, pns_toleration. cbn [tl_eff tl_key tl_op tl_val]. intros H.
  assert (X : String.eqb "PreferNoSchedule" "" = false) by reflexivity. rewrite X.
  destruct (String.eqb_spec "PreferNoSchedule" (t_eff ta)) as [E|_]; [|reflexivity].
  rewrite <- E in H. vm_compute in H. discriminate.
Qed.

Lemma tolerated_orig ts orig extra :
  (forall t, List.In t extra -> t = pns_toleration) ->
  k8s_tolerated ts (orig ++ extra) -> k8s_tolerated ts orig.
Proof.
  intros Hx H ta Hin Hh. destruct (H ta Hin Hh) as (t & Ht & Htol).
  apply in_app_or in Ht as [Ht|Ht]; [exists t; split; assumption|].
  rewrite (Hx t Ht), pns_not_hard in Htol by exact Hh. discriminate.
Qed.

(* ================================================================== host ports *)

(* Karpenter's HostPort.Matches is at least as strict as kube-scheduler's clash *)
Lemma k8s_clash_matches a b : k8s_port_clash a b -> hp_matches a b = true.
Proof.
  intros (Hp & Hq & Hi). unfold hp_matches. rewrite Hp, Hq, String.eqb_refl, Z.eqb_refl. cbn [andb].
  destruct Hi as [E|[E|E]].
  - rewrite E, String.eqb_refl. reflexivity.
  - unfold unspecified. rewrite E. rewrite (String.eqb_refl "0.0.0.0"). cbn [orb]. rewrite orb_true_r. reflexivity.
  - unfold unspecified at 2. rewrite E. rewrite (String.eqb_refl "0.0.0.0"). cbn [orb]. rewrite !orb_true_r. reflexivity.
Qed.

Lemma k8s_port_clash_b_spec a b : k8s_port_clash_b a b = true <-> k8s_port_clash a b.
Proof.
  unfold k8s_port_clash_b, k8s_port_clash. rewrite !andb_true_iff, !orb_true_iff, !String.eqb_eq, Z.eqb_eq. tauto.
Qed.

(* HostPortUsage.Conflicts == nil: no requested port matches a port reserved by a DIFFERENT pod *)
Lemma conflicts_false_spec u who ports :
  conflicts u who ports = false <->
  forall n, List.In n ports -> forall k ps e, List.In (k, ps) u -> k <> who -> List.In e ps -> hp_matches n e = false.
Proof.
  unfold conflicts. split.
  - intros H n Hn k ps e Hin Hk He. destruct (hp_matches n e) eqn:E; [|reflexivity]. exfalso.
    assert (X : existsb (fun n0 => existsb (fun e0 => negb (String.eqb (fst e0) who) && existsb (hp_matches n0) (snd e0)) u) ports = true).
    { apply existsb_exists. exists n. split; [exact Hn|]. apply existsb_exists. exists (k, ps). split; [exact Hin|]. simpl.
      destruct (String.eqb_spec k who); [congruence|]. simpl. apply existsb_exists. exists e. split; assumption. }
    rewrite X in H. discriminate.
  - intros H. destruct (existsb _ ports) eqn:E; [|reflexivity]. exfalso.
    apply existsb_exists in E as (n & Hn & E). apply existsb_exists in E as ([k ps] & Hin & E). simpl in E.
    apply andb_prop in E as [Hk E]. apply existsb_exists in E as (e & He & Hm).
    destruct (String.eqb_spec k who); [discriminate|]. rewrite (H n Hn k ps e Hin n0 He) in Hm. discriminate.
Qed.

Lemma ports_ok_gen_b_spec ps qs dports :
  ports_ok_gen_b ps qs dports = true <->
  forall p, List.In p ps ->
    (forall q, List.In q qs -> p_key q <> p_key p ->
       forall a b, List.In a (p_ports p) -> List.In b (p_ports q) -> ~ k8s_port_clash a b) /\
    (forall a b, List.In a (p_ports p) -> List.In b dports -> ~ k8s_port_clash a b).
Proof.
  unfold ports_ok_gen_b. rewrite forallb_forall. split.
  - intros H p Hp. specialize (H p Hp). apply andb_prop in H as [H1 H2]. split.
    + intros q Hq Hk a b Ha Hb Hc. rewrite forallb_forall in H1. specialize (H1 q Hq).
      destruct (String.eqb_spec (p_key q) (p_key p)); [congruence|]. simpl in H1.
      rewrite forallb_forall in H1. specialize (H1 a Ha). rewrite forallb_forall in H1. specialize (H1 b Hb).
      apply k8s_port_clash_b_spec in Hc. rewrite Hc in H1. discriminate.
    + intros a b Ha Hb Hc. rewrite forallb_forall in H2. specialize (H2 a Ha). rewrite forallb_forall in H2.
      specialize (H2 b Hb). apply k8s_port_clash_b_spec in Hc. rewrite Hc in H2. discriminate.
  - intros H p Hp. destruct (H p Hp) as [H1 H2]. apply andb_true_intro. split.
    + apply forallb_forall. intros q Hq. destruct (String.eqb_spec (p_key q) (p_key p)) as [E|Hn]; [reflexivity|]. simpl.
      apply forallb_forall. intros a Ha. apply forallb_forall. intros b Hb.
      destruct (k8s_port_clash_b a b) eqn:E; [|reflexivity]. exfalso. apply (H1 q Hq Hn a b Ha Hb). apply k8s_port_clash_b_spec, E.
    + apply forallb_forall. intros a Ha. apply forallb_forall. intros b Hb.
      destruct (k8s_port_clash_b a b) eqn:E; [|reflexivity]. exfalso. apply (H2 a b Ha Hb). apply k8s_port_clash_b_spec, E.
Qed.

Lemma ports_ok_b_spec ps dports : ports_ok_b ps dports = true <-> ports_ok ps dports.
Proof. apply ports_ok_gen_b_spec. Qed.

(* ================================================================== resources oracle *)

Lemma rget_notin k (l : rl) : ~ List.In k (map fst l) -> rget k l = 0.
Proof.
  induction l as [|[k' v] l IH]; simpl; [reflexivity|]. intros H.
  destruct (String.eqb_spec k k') as [->|Hn]; [exfalso; apply H; left; reflexivity|]. apply IH. intros Hi. apply H. right. exact Hi.
Qed.

Lemma rsum_notin k (ls : list rl) : ~ List.In k (rkeys ls) -> rsum ls k = 0.
Proof.
  unfold rkeys. induction ls as [|l ls IH]; simpl; [reflexivity|]. intros H.
  rewrite rget_notin, IH; [reflexivity| |]; intros Hi; apply H; apply in_or_app; [right|left]; exact Hi.
Qed.

Lemma resources_ok_b_spec ps overhead alloc :
  resources_ok_b ps overhead alloc = true <-> resources_ok ps overhead alloc.
Proof.
  unfold resources_ok_b, resources_ok. rewrite forallb_forall. split.
  - intros H k. destruct (in_dec string_dec k (rkeys (overhead :: alloc :: map p_requests ps))) as [Hi|Hn].
    + apply Z.leb_le, H, Hi.
    + unfold rkeys in Hn. simpl in Hn. rewrite !in_app_iff in Hn.
      rewrite (rget_notin k overhead), (rget_notin k alloc), rsum_notin; [lia| | |]; intros Hi; apply Hn; tauto.
  - intros H k _. apply Z.leb_le, H.
Qed.

(* ================================================================== requirement lemmas *)

Lemma has_exists v : has (new_req Exists None []) v = true.
Proof. reflexivity. Qed.

(* what a key admits after Requirements.Add(rs...): what it admitted before and what every added
   requirement on that key admits *)
Lemma has_get_add (rs : list (string * req)) : forall (m : reqs) k0 v,
  has (get (add m rs) k0) v =
  has (get m k0) v && forallb (fun kr => negb (String.eqb k0 (fst kr)) || has (snd kr) v) rs.
Proof.
  unfold add. induction rs as [|[k r] rs IH]; intros m k0 v; cbn [fold_left forallb fst snd]; [rewrite andb_true_r; reflexivity|].
  rewrite IH, get_add1. destruct (String.eqb k0 k); cbn [negb orb].
  - rewrite (andb_comm (has r v)), andb_assoc. reflexivity.
  - reflexivity.
Qed.

Lemma add_narrows m rs k v : has (get (add m rs) k) v = true -> has (get m k) v = true.
Proof. rewrite has_get_add. intros H. apply andb_prop in H as [H _]. exact H. Qed.

Lemma add_within m rs k r v : List.In (k, r) rs -> has (get (add m rs) k) v = true -> has r v = true.
Proof.
  rewrite has_get_add. intros Hin H. apply andb_prop in H as [_ H]. rewrite forallb_forall in H.
  specialize (H (k, r) Hin). simpl in H. rewrite String.eqb_refl in H. exact H.
Qed.

Lemma get_nil k v : has (get [] k) v = true.
Proof. reflexivity. Qed.

(* a term's requirement for a key admits only values that satisfy every expression of the term on that key *)
Lemma term_reqs_sound (t : term) k o vs v : List.In (k, o, vs) t -> valid_args o vs = true ->
  has (get (term_reqs t) k) v = true -> k8s_match o vs (Some v) = true.
Proof.
  intros Hin Hv H. unfold term_reqs in H.
  assert (Hi : List.In (k, new_req o None vs) (map expr_req t)).
  { apply in_map_iff. exists (k, o, vs). split; [reflexivity|exact Hin]. }
  pose proof (add_within [] _ k _ v Hi H) as Hh. rewrite has_new_req in Hh by exact Hv. exact Hh.
Qed.

Lemma sel_reqs_sound (s : list (string * string)) k val v : List.In (k, val) s ->
  has (get (sel_reqs s) k) v = true -> k8s_match In [val] (Some v) = true.
Proof.
  intros Hin H. unfold sel_reqs in H.
  assert (Hi : List.In (k, new_req In None [val]) (map (fun kv : string * string => (fst kv, new_req In None [snd kv])) s)).
  { apply in_map_iff. exists (k, val). split; [reflexivity|exact Hin]. }
  pose proof (add_within [] _ k _ v Hi H) as Hh. rewrite has_new_req in Hh by reflexivity. exact Hh.
Qed.

(* keys of a Requirements value built by Add are unique, so membership and lookup agree *)
Lemma nodup_add1 m kr : nodup_keys m -> nodup_keys (add1 m kr).
Proof. destruct kr as [k r]. unfold add1. intros H. destruct (find k m); apply nodup_set, H. Qed.
Lemma nodup_add rs : forall m, nodup_keys m -> nodup_keys (add m rs).
Proof. unfold add. induction rs as [|kr rs IH]; intros m H; cbn [fold_left]; [exact H|]. apply IH, nodup_add1, H. Qed.
Lemma term_reqs_nodup t : nodup_keys (term_reqs t).
Proof. unfold term_reqs. apply nodup_add. constructor. Qed.

Lemma in_reqs_get (m : reqs) k r : nodup_keys m -> List.In (k, r) m -> get m k = r.
Proof. intros Hn Hin. unfold get. rewrite (In_find k r m Hn Hin). reflexivity. Qed.

Definition valid_term (t : term) : Prop := forall k o vs, List.In (k, o, vs) t -> valid_args o vs = true.

(* NewPodRequirements / NewStrictPodRequirements: every value the pod's requirement admits for the key of
   a constraint satisfies that constraint — for the node selector and every expression of the FIRST required term *)
Lemma pod_reqs_sound all p :
  (forall k val v, List.In (k, val) (p_sel p) -> has (get (pod_reqs all p) k) v = true -> k8s_match In [val] (Some v) = true) /\
  (forall t rest, p_req p = t :: rest -> valid_term t ->
     forall k o vs v, List.In (k, o, vs) t -> has (get (pod_reqs all p) k) v = true -> k8s_match o vs (Some v) = true).
Proof.
  unfold pod_reqs.
  set (r0 := sel_reqs (p_sel p)).
  set (r1 := if all then match sort_desc (p_pref p) with (_, t) :: _ => add r0 (term_reqs t) | [] => r0 end else r0).
  assert (H10 : forall k v, has (get r1 k) v = true -> has (get r0 k) v = true).
  { intros k v H1. unfold r1 in H1. destruct all; [|exact H1]. destruct (sort_desc (p_pref p)) as [|[w t] l]; [exact H1|apply add_narrows in H1; exact H1]. }
  split.
  - intros k val v Hin H. apply (sel_reqs_sound _ k val v Hin). apply H10.
    destruct (p_req p); [exact H|apply add_narrows in H; exact H].
  - intros t rest E Hvt k o vs v Hin H. rewrite E in H.
    assert (Hi : exists r, List.In (k, r) (term_reqs t)).
    { destruct (find k (term_reqs t)) as [r|] eqn:F; [exists r; apply find_In, F|]. exfalso.
      assert (X : has_key (term_reqs t) k = true).
      { unfold term_reqs, add. clear -Hin.
        assert (G : forall kk rs m, (has_key m kk = true \/ List.In kk (map fst rs)) -> has_key (fold_left add1 rs m) kk = true).
        { intros kk. induction rs as [|[k' r'] rs IH]; intros m [Hm|Hr]; cbn [fold_left]; try exact Hm; try (destruct Hr; fail).
          - apply IH. left. unfold add1, has_key in *. destruct (String.eqb_spec kk k') as [->|Hn].
            + destruct (find k' m); rewrite find_set_same; reflexivity.
            + destruct (find k' m); rewrite find_set_other by exact Hn; exact Hm.
          - cbn [map fst] in Hr. destruct Hr as [->|Hr].
            + apply IH. left. unfold add1, has_key. destruct (find kk m); rewrite find_set_same; reflexivity.
            + apply IH. right. exact Hr. }
        apply G. right. apply in_map_iff. exists (k, new_req o None vs). split; [reflexivity|].
        apply in_map_iff. exists (k, o, vs). split; [reflexivity|exact Hin]. }
      unfold has_key in X. rewrite F in X. discriminate. }
    destruct Hi as (r & Hr). pose proof (add_within r1 _ k r v Hr H) as Hh.
    rewrite <- (in_reqs_get _ k r (term_reqs_nodup t) Hr) in Hh.
    apply (term_reqs_sound t k o vs v Hin (Hvt k o vs Hin) Hh).
Qed.

(* minValues relaxation does not change what a key admits *)
Lemma find_set_minv r u k :
  find k (set_minv r u) = option_map (fun x =>
    match List.find (fun w => String.eqb (fst w) k) u with
    | Some w => mkReq (compl x) (vals x) (gte x) (lte x) (Some (snd w))
    | None => x end) (find k r).
Proof.
  induction r as [|[k' x] r IH]; simpl; [reflexivity|].
  destruct (List.find (fun w => String.eqb (fst w) k') u) as [w|] eqn:F; simpl;
  destruct (String.eqb_spec k k') as [->|Hn]; simpl; try rewrite F; try reflexivity; exact IH.
Qed.

Lemma has_set_minv r u k v : has (get (set_minv r u) k) v = has (get r k) v.
Proof.
  unfold get. rewrite find_set_minv. destruct (find k r) as [x|]; simpl; [|reflexivity].
  destruct (List.find _ u); reflexivity.
Qed.

(* ================================================================== filterInstanceTypesByRequirements *)

Lemma it_fits_go_sound wk gs req r : forall h, fst (it_fits_go wk gs req r h) = true ->
  exists alloc offs o, List.In (alloc, offs) gs /\ List.In o offs /\ compatible wk r o = true /\ fits req alloc = true.
Proof.
  induction gs as [|[alloc offs] gs IH]; intros h; simpl; [discriminate|].
  destruct (existsb (fun o => compatible wk r o) offs) eqn:E.
  - destruct (fits req alloc) eqn:F.
    + intros _. apply existsb_exists in E as (o & Ho & Hc). exists alloc, offs, o. repeat split; try assumption. left. reflexivity.
    + intros H. destruct (IH _ H) as (a & os & o & Hi & Ho & Hc & Hf). exists a, os, o. repeat split; try assumption. right. exact Hi.
  - intros H. destruct (IH _ H) as (a & os & o & Hi & Ho & Hc & Hf). exists a, os, o. repeat split; try assumption. right. exact Hi.
Qed.

(* what it means for instance type [i] to be a launch option of a claim with requirements [r] and summed
   requests [total], given the daemon overhead group [g] it belongs to *)
Definition option_ok (wk : list string) (r : reqs) (total : rl) (who : string) (ports : list hp) (g : dgroup) (i : itype) : Prop :=
  conflicts (dg_ports g) who ports = false /\
  it_compatible i r = true /\
  exists alloc offs o, List.In (alloc, offs) (it_groups i) /\ List.In o offs /\
    compatible wk r o = true /\ fits (total_for g total) alloc = true.

Lemma find_it_name n cat i : find_it n cat = Some i -> it_name i = n /\ List.In i cat.
Proof.
  induction cat as [|j cat IH]; simpl; [discriminate|].
  destruct (String.eqb_spec n (it_name j)) as [->|Hn].
  - intros [= ->]. split; [reflexivity|left; reflexivity].
  - intros H. destruct (IH H) as [H1 H2]. split; [exact H1|right; exact H2].
Qed.

Lemma group_remaining_sound wk cat elig r who ports total g i :
  List.In i (group_remaining wk cat elig r who ports total g) ->
  mem (it_name i) elig = true /\ List.In (it_name i) (dg_its g) /\ List.In i cat /\ option_ok wk r total who ports g i.
Proof.
  unfold group_remaining. destruct (conflicts (dg_ports g) who ports) eqn:C; [intros []|].
  rewrite in_flat_map. intros (n & Hn & Hi).
  destruct (mem n elig) eqn:M; [|destruct Hi].
  destruct (find_it n cat) as [j|] eqn:F; [|destruct Hi].
  destruct (it_ok wk j (total_for g total) r) eqn:O; [|destruct Hi].
  destruct Hi as [<-|[]]. destruct (find_it_name _ _ _ F) as [Hname Hcat]. rewrite Hname.
  unfold it_ok in O. apply andb_prop in O as [O Hoff]. apply andb_prop in O as [Hc Hf].
  repeat split; try assumption. apply (it_fits_go_sound wk _ _ _ false Hf).
Qed.

Lemma filter_its_sound wk cat elig r who ports groups total relax rem unsat :
  filter_its wk cat elig r who ports groups total relax = (rem, unsat, None) ->
  rem <> [] /\
  forall i, List.In i rem ->
    mem (it_name i) elig = true /\ List.In i cat /\
    exists g, List.In g groups /\ List.In (it_name i) (dg_its g) /\ option_ok wk r total who ports g i.
Proof.
  unfold filter_its.
  set (remaining := flat_map (group_remaining wk cat elig r who ports total) groups).
  set (us := if has_min_values r then min_values_unsat remaining r else []).
  set (sf := match us with [] => false | _ => negb relax end).
  destruct (if sf then [] else remaining) as [|x l] eqn:E; [discriminate|].
  intros [= <- _]. split; [discriminate|]. intros i Hi.
  assert (Hr : List.In i remaining). { destruct sf; [discriminate|]. rewrite E. exact Hi. }
  unfold remaining in Hr. apply in_flat_map in Hr as (g & Hg & Hin).
  destruct (group_remaining_sound _ _ _ _ _ _ _ _ _ Hin) as (H1 & H2 & H3 & H4).
  split; [exact H1|]. split; [exact H3|]. exists g. split; [exact Hg|]. split; [exact H2|exact H4].
Qed.

(* ================================================================== NodeClaim steps *)

(* the requirements the filter ran with (before minValues are lowered): claim + pod (+ the chosen volume alternative) *)
Definition step_reqs (all : bool) (n : nclaim) (p : pod) : reqs := add (nc_reqs n) (pod_reqs all p).
Definition step_reqs_v (all : bool) (n : nclaim) (p : pod) (alt : option reqs) : reqs :=
  match alt with None => step_reqs all n p | Some a => add (step_reqs all n p) a end.

Lemma first_ok_ok {A B} (f : A -> res B) l : forall last b, first_ok f l last = Ok b ->
  (exists a, List.In a l /\ f a = Ok b) \/ last = Ok b.
Proof.
  induction l as [|a l IH]; intros last b; simpl; [intros H; right; exact H|].
  destruct (f a) as [b'|e] eqn:E.
  - intros [= <-]. left. exists a. split; [left; reflexivity|exact E].
  - intros H. destruct (IH _ _ H) as [(a' & Hin & Ha)|Hl]; [left; exists a'; split; [right; exact Hin|exact Ha]|discriminate].
Qed.

Lemma alt_list_in vi alt : List.In alt (alt_list vi) ->
  match alt with None => vi_valts vi = [] | Some a => List.In a (vi_valts vi) end.
Proof.
  unfold alt_list. destruct (vi_valts vi) as [|x l] eqn:E.
  - intros [<-|[]]. reflexivity.
  - intros H. apply in_map_iff in H as (a & <- & Ha). exact Ha.
Qed.

Lemma nc_can_add_v_ok wk cat all relax n p vi r its :
  nc_can_add_v wk cat all relax n p vi = Ok (r, its) ->
  tolerates_all (nc_taints n) (p_tols p) = true /\
  compatible wk (nc_reqs n) (pod_reqs all p) = true /\
  exists alt u, List.In alt (alt_list vi) /\
  r = (if relax then set_minv (step_reqs_v all n p alt) u else step_reqs_v all n p alt) /\
  its <> [] /\
  forall name, List.In name its ->
    mem name (nc_its n) = true /\
    exists i g, List.In i cat /\ it_name i = name /\ List.In g (nc_groups n) /\ List.In name (dg_its g) /\
      option_ok wk (step_reqs_v all n p alt) (rmerge (nc_requests n) (p_requests p)) (p_key p) (p_ports p) g i.
Proof.
  unfold nc_can_add_v.
  destruct (tolerates_all (nc_taints n) (p_tols p)) eqn:T; simpl; [|discriminate].
  destruct (compatible wk (nc_reqs n) (pod_reqs all p)) eqn:C; simpl; [|discriminate].
  intros H. split; [reflexivity|]. split; [reflexivity|].
  apply first_ok_ok in H as [(alt & Hin & H)|H]; [|discriminate].
  exists alt. unfold nc_try in H. fold (step_reqs all n p) in H.
  assert (Hr : exists rr, (match alt with None => Ok (step_reqs all n p)
                           | Some a => if compatible wk (step_reqs all n p) a then Ok (add (step_reqs all n p) a) else Err EVolReqs end) = Ok rr
                          /\ rr = step_reqs_v all n p alt).
  { destruct alt as [a|]; simpl.
    - destruct (compatible wk (step_reqs all n p) a); [eexists; split; reflexivity|discriminate].
    - eexists; split; reflexivity. }
  destruct Hr as (rr & Hrr & Err'). rewrite Hrr in H. subst rr.
  destruct (filter_its wk cat (nc_its n) (step_reqs_v all n p alt) (p_key p) (p_ports p) (nc_groups n)
              (rmerge (nc_requests n) (p_requests p)) relax) as [[rem unsat] fe] eqn:F.
  destruct fe as [[| ]|]; try discriminate. injection H as <- <-.
  destruct (filter_its_sound _ _ _ _ _ _ _ _ _ _ _ F) as [Hne Hall].
  exists unsat. split; [exact Hin|]. split; [reflexivity|].
  split. { destruct rem; [congruence|discriminate]. }
  intros name Hn. apply in_map_iff in Hn as (i & <- & Hi).
  destruct (Hall i Hi) as (H1 & H2 & g & Hg & Hd & Ho).
  split; [exact H1|]. exists i, g. split; [exact H2|]. split; [reflexivity|]. split; [exact Hg|]. split; [exact Hd|exact Ho].
Qed.

(* a pod without volume requirements: the general CanAdd is the plain one *)
Lemma nc_can_add_v_vi0 wk cat all relax n p : nc_can_add_v wk cat all relax n p vi0 = nc_can_add wk cat all relax n p.
Proof.
  unfold nc_can_add_v, nc_can_add. destruct (negb (tolerates_all (nc_taints n) (p_tols p))); [reflexivity|].
  destruct (negb (compatible wk (nc_reqs n) (pod_reqs all p))); [reflexivity|].
  cbn [alt_list vi0 vi_valts first_ok]. unfold nc_try.
  destruct (filter_its wk cat (nc_its n) (add (nc_reqs n) (pod_reqs all p)) (p_key p) (p_ports p) (nc_groups n)
              (rmerge (nc_requests n) (p_requests p)) relax) as [[rem unsat] [[| ]|]]; reflexivity.
Qed.

Lemma nc_can_add_ok wk cat all relax n p r its :
  nc_can_add wk cat all relax n p = Ok (r, its) ->
  tolerates_all (nc_taints n) (p_tols p) = true /\
  compatible wk (nc_reqs n) (pod_reqs all p) = true /\
  (forall k v, has (get r k) v = has (get (step_reqs all n p) k) v) /\
  its <> [] /\
  forall name, List.In name its ->
    mem name (nc_its n) = true /\
    exists i g, List.In i cat /\ it_name i = name /\ List.In g (nc_groups n) /\ List.In name (dg_its g) /\
      option_ok wk (step_reqs all n p) (rmerge (nc_requests n) (p_requests p)) (p_key p) (p_ports p) g i.
Proof.
  rewrite <- nc_can_add_v_vi0. intros H.
  destruct (nc_can_add_v_ok _ _ _ _ _ _ _ _ _ H) as (HT & HC & alt & u & Hin & Er & Hne & Hits).
  cbn [alt_list vi0 vi_valts] in Hin. destruct Hin as [<-|[]]. cbn [step_reqs_v] in *.
  split; [exact HT|]. split; [exact HC|]. split; [|split; [exact Hne|exact Hits]].
  intros k v. rewrite Er. destruct relax; [apply has_set_minv|reflexivity].
Qed.

(* running any sequence of scheduler steps against one claim *)
Fixpoint nc_exec (wk : list string) (cat : list itype) (all : bool) (n : nclaim) (ops : list (pod * bool)) : nclaim :=
  match ops with
  | [] => n
  | (p, rx) :: rest => nc_exec wk cat all (fst (nc_step wk cat all rx n p)) rest
  end.

(* ... pods with their volume inputs; the second component collects the pods that were placed *)
Fixpoint nc_exec_v (wk : list string) (cat : list itype) (all : bool) (n : nclaim) (placed : list vpod) (ops : list (vpod * bool))
  : nclaim * list vpod :=
  match ops with
  | [] => (n, placed)
  | (vp, rx) :: rest =>
      match nc_step_v wk cat all rx n (fst vp) (snd vp) with
      | (n', Ok _) => nc_exec_v wk cat all n' (placed ++ [vp]) rest
      | (n', Err _) => nc_exec_v wk cat all n' placed rest
      end
  end.

Lemma nc_step_v_vi0 wk cat all rx n p : nc_step_v wk cat all rx n p vi0 = nc_step wk cat all rx n p.
Proof. unfold nc_step_v, nc_step. rewrite nc_can_add_v_vi0. reflexivity. Qed.

Lemma nc_exec_v_vi0 wk cat all ops : forall n placed,
  fst (nc_exec_v wk cat all n placed (map (fun op : pod * bool => ((fst op, vi0), snd op)) ops)) = nc_exec wk cat all n ops.
Proof.
  induction ops as [|[p rx] ops IH]; intros n placed; simpl; [reflexivity|].
  rewrite nc_step_v_vi0. destruct (nc_step wk cat all rx n p) as [n' [x|e]]; apply IH.
Qed.

(* Inv: requests are the sum over the placed pods; every placed pod tolerates the taints; every value the claim
   admits for a key satisfies the selector and the first required term of every placed (relaxed) pod; every
   remaining instance type is a valid launch option for the summed requests *)
Definition pod_wf (p : pod) : Prop :=
  NoDup (map fst (p_requests p)) /\ (forall t rest, p_req p = t :: rest -> valid_term t).

Definition values_ok (r : reqs) (p : pod) : Prop :=
  (forall k val v, List.In (k, val) (p_sel p) -> has (get r k) v = true -> k8s_match In [val] (Some v) = true) /\
  (forall t rest, p_req p = t :: rest ->
     forall k o vs v, List.In (k, o, vs) t -> has (get r k) v = true -> k8s_match o vs (Some v) = true).

(* some volume-topology alternative of the pod admits every value the node's requirement admits, key by key *)
Definition valts_ok (r : reqs) (vi : vinfo) : Prop :=
  vi_valts vi = [] \/ exists a, List.In a (vi_valts vi) /\ forall k v, has (get r k) v = true -> has (get a k) v = true.

Definition nc_inv (wk : list string) (cat : list itype) (n : nclaim) : Prop :=
  (forall k, rget k (nc_requests n) = rsum (map p_requests (nc_pods n)) k) /\
  (forall p, List.In p (nc_pods n) -> k8s_tolerated (nc_taints n) (p_tols p) /\ values_ok (nc_reqs n) p) /\
  (nc_pods n <> [] -> forall name, List.In name (nc_its n) ->
     exists i g alloc offs o, List.In i cat /\ it_name i = name /\ List.In g (nc_groups n) /\ List.In name (dg_its g) /\
       it_compatible i (nc_reqs n) = true /\
       List.In (alloc, offs) (it_groups i) /\ List.In o offs /\ compatible wk (nc_reqs n) o = true /\
       fits (total_for g (nc_requests n)) alloc = true).

Lemma rsum_app ls l k : rsum (ls ++ [l]) k = rsum ls k + rget k l.
Proof. unfold rsum. induction ls as [|x ls IH]; simpl; [lia|]. rewrite IH. lia. Qed.

(* minValues do not take part in compatibility *)
Lemma has_key_set_minv r u k : has_key (set_minv r u) k = has_key r k.
Proof. unfold has_key. rewrite find_set_minv. destruct (find k r); reflexivity. Qed.

Lemma forallb_ext {A} (f g : A -> bool) l : (forall x, f x = g x) -> forallb f l = forallb g l.
Proof. intros H. induction l as [|x l IH]; simpl; [reflexivity|]. rewrite H, IH. reflexivity. Qed.

Definition same_but_minv (a b : req) : Prop := compl a = compl b /\ vals a = vals b /\ gte a = gte b /\ lte a = lte b.

Lemma has_intersection_minv a a' b : same_but_minv a a' -> has_intersection a b = has_intersection a' b.
Proof. intros (H1 & H2 & H3 & H4). unfold has_intersection. rewrite H1, H2, H3, H4. reflexivity. Qed.
Lemma has_intersection_minv_r a b b' : same_but_minv b b' -> has_intersection a b = has_intersection a b'.
Proof. intros (H1 & H2 & H3 & H4). unfold has_intersection. rewrite H1, H2, H3, H4. reflexivity. Qed.
Lemma sat_undefined_minv a a' : same_but_minv a a' -> sat_undefined a = sat_undefined a'.
Proof. intros (H1 & H2 & H3 & H4). unfold sat_undefined, operator, rlen. rewrite H1, H2, H3, H4. reflexivity. Qed.

Lemma find_set_minv_same r u k :
  match find k r, find k (set_minv r u) with
  | Some a, Some a' => same_but_minv a a'
  | None, None => True
  | _, _ => False
  end.
Proof.
  rewrite find_set_minv. destruct (find k r) as [x|]; simpl; [|exact I].
  destruct (List.find _ u); repeat split; reflexivity.
Qed.

Lemma set_minv_keys r u : map fst (set_minv r u) = map fst r.
Proof. unfold set_minv. rewrite map_map. apply map_ext. intros [k x]. simpl. destruct (List.find _ u); reflexivity. Qed.

Lemma in_set_minv r u k x' : List.In (k, x') (set_minv r u) -> exists x, List.In (k, x) r /\ same_but_minv x x'.
Proof.
  unfold set_minv. rewrite in_map_iff. intros ([k0 x] & E & Hin). simpl in E.
  exists x. destruct (List.find _ u); injection E as Ek Ex; subst k0; rewrite <- Ex; (split; [exact Hin|repeat split; reflexivity]).
Qed.

Lemma compatible_set_minv wk r u o : nodup_keys r -> compatible wk (set_minv r u) o = compatible wk r o.
Proof.
  intros Hnd. unfold compatible. f_equal.
  - apply forallb_ext. intros [k rb]. rewrite has_key_set_minv. reflexivity.
  - unfold intersects. apply eq_true_iff_eq. rewrite !forallb_forall. split.
    + intros H [k x] Hin. pose proof (find_set_minv_same r u k) as S. rewrite (In_find k x r Hnd Hin) in S.
      destruct (find k (set_minv r u)) as [x'|] eqn:F; [|destruct S].
      specialize (H (k, x') (find_In _ _ _ F)). simpl in H. destruct (find k o) as [rb|]; [|reflexivity].
      rewrite (has_intersection_minv x x' rb S), (sat_undefined_minv x x' S). exact H.
    + intros H [k x'] Hin. destruct (in_set_minv _ _ _ _ Hin) as (x & Hx & S).
      specialize (H (k, x) Hx). simpl in H. destruct (find k o) as [rb|]; [|reflexivity].
      rewrite <- (has_intersection_minv x x' rb S), <- (sat_undefined_minv x x' S). exact H.
Qed.

Lemma intersects_set_minv a r u : nodup_keys r -> intersects a (set_minv r u) = intersects a r.
Proof.
  intros Hnd. unfold intersects. apply forallb_ext. intros [k ex].
  pose proof (find_set_minv_same r u k) as S.
  destruct (find k r) as [x|], (find k (set_minv r u)) as [x'|]; try contradiction; try reflexivity.
  rewrite (has_intersection_minv_r ex x x' S), (sat_undefined_minv x x' S). reflexivity.
Qed.

Definition nc_wf (n : nclaim) : Prop :=
  nodup_keys (nc_reqs n) /\ forall g, List.In g (nc_groups n) -> NoDup (map fst (dg_overhead g)).

Lemma has_get_in_add m a k v : has (get (add m a) k) v = true -> has (get a k) v = true.
Proof.
  rewrite has_get_add. intros H. apply andb_prop in H as [_ H].
  unfold get. destruct (find k a) as [x|] eqn:F; [|reflexivity].
  rewrite forallb_forall in H. specialize (H (k, x) (find_In _ _ _ F)). cbn [fst snd] in H. rewrite String.eqb_refl in H. exact H.
Qed.

Lemma step_reqs_narrows all n p alt k v :
  has (get (step_reqs_v all n p alt) k) v = true -> has (get (step_reqs all n p) k) v = true.
Proof. destruct alt as [a|]; simpl; [apply add_narrows|intros H; exact H]. Qed.

(* one step, with volume inputs: the invariant is kept, the requirements only narrow, and an accepted pod has a
   volume-topology alternative that admits everything the claim now admits *)
Lemma nc_step_v_preserves wk cat all rx n p vi :
  nc_wf n -> pod_wf p -> nc_inv wk cat n ->
  let n' := fst (nc_step_v wk cat all rx n p vi) in
  nc_wf n' /\ nc_inv wk cat n' /\
  (forall k v, has (get (nc_reqs n') k) v = true -> has (get (nc_reqs n) k) v = true) /\
  (forall x, snd (nc_step_v wk cat all rx n p vi) = Ok x -> nc_pods n' = nc_pods n ++ [p] /\ valts_ok (nc_reqs n') vi) /\
  (forall e, snd (nc_step_v wk cat all rx n p vi) = Err e -> n' = n).
Proof.
  intros [Wn Wg] [Wp Wt] (I1 & I2 & I3). unfold nc_step_v.
  destruct (nc_can_add_v wk cat all rx n p vi) as [[r its]|e] eqn:C; cbn [fst snd].
  2:{ split; [split; assumption|]. split; [split; [exact I1|split; [exact I2|exact I3]]|]. split; [intros k v H; exact H|].
      split; [intros x Hx; discriminate|intros e0 _; reflexivity]. }
  destruct (nc_can_add_v_ok _ _ _ _ _ _ _ _ _ C) as (HT & HC & alt & u & Halt & Er & Hne & Hits).
  assert (Wstep : nodup_keys (step_reqs_v all n p alt)).
  { unfold step_reqs_v, step_reqs. destruct alt; repeat apply nodup_add; exact Wn. }
  assert (HR : forall k v, has (get r k) v = has (get (step_reqs_v all n p alt) k) v).
  { intros k v. rewrite Er. destruct rx; [apply has_set_minv|reflexivity]. }
  assert (Wr : nodup_keys r).
  { rewrite Er. destruct rx; [|exact Wstep]. unfold nodup_keys. rewrite set_minv_keys. exact Wstep. }
  assert (Hnar : forall k v, has (get r k) v = true -> has (get (nc_reqs n) k) v = true).
  { intros k v Hh. rewrite HR in Hh. apply step_reqs_narrows in Hh. unfold step_reqs in Hh. apply add_narrows in Hh. exact Hh. }
  unfold nc_add. unfold nc_wf, nc_inv. cbn [nc_requests nc_pods nc_reqs nc_its nc_groups nc_taints].
  split.
  { split; [exact Wr|]. intros g Hg. apply in_map_iff in Hg as (g0 & <- & Hg0). cbn [dg_overhead]. apply Wg, Hg0. }
  split; [split; [|split]|].
  - intros k. rewrite map_app. cbn [map]. rewrite rsum_app, rget_rmerge, I1 by exact Wp. reflexivity.
  - intros q Hq. apply in_app_or in Hq as [Hq|[<-|[]]].
    + destruct (I2 q Hq) as (Ht & Hv). split; [exact Ht|].
      destruct Hv as [V1 V2]; split;
        [intros k val v Hin Hh; apply (V1 k val v Hin (Hnar _ v Hh))|intros t rest E k o vs v Hin Hh; apply (V2 t rest E k o vs v Hin (Hnar _ v Hh))].
    + split; [apply tolerates_all_k8s, HT|].
      assert (Hpod : forall k v, has (get r k) v = true -> has (get (pod_reqs all p) k) v = true).
      { intros k v Hh. rewrite HR in Hh. apply step_reqs_narrows in Hh. unfold step_reqs in Hh. apply has_get_in_add in Hh. exact Hh. }
      destruct (pod_reqs_sound all p) as [S1 S2]. split.
      * intros k val v Hin Hh. apply (S1 k val v Hin (Hpod _ v Hh)).
      * intros t rest E k o vs v Hin Hh. apply (S2 t rest E (Wt t rest E) k o vs v Hin (Hpod _ v Hh)).
  - intros _ name Hn. destruct (Hits name Hn) as (_ & i & g & Hi & Hnm & Hg & Hd & Hc & Hcomp & alloc & offs & o & Ha & Ho & Hco & Hf).
    exists i, (mkDG (dg_its g) (dg_overhead g) (uset (dg_ports g) (p_key p) (p_ports p))), alloc, offs, o. cbn [dg_its dg_overhead].
    assert (Ecomp : forall oo, compatible wk r oo = compatible wk (step_reqs_v all n p alt) oo).
    { intros oo. rewrite Er. destruct rx; [apply compatible_set_minv, Wstep|reflexivity]. }
    assert (Eint : it_compatible i r = it_compatible i (step_reqs_v all n p alt)).
    { unfold it_compatible. rewrite Er. destruct rx; [apply intersects_set_minv, Wstep|reflexivity]. }
    repeat split; try assumption.
    + apply in_map_iff. exists g. split; [reflexivity|exact Hg].
    + rewrite Eint. exact Hcomp.
    + rewrite Ecomp. exact Hco.
  - split; [exact Hnar|]. split; [|intros e0 He0; discriminate].
    intros x _. split; [reflexivity|].
    pose proof (alt_list_in vi alt Halt) as Hal. destruct alt as [a|]; [|left; exact Hal].
    right. exists a. split; [exact Hal|]. intros k v Hh. rewrite HR in Hh. cbn [step_reqs_v] in Hh. apply has_get_in_add in Hh. exact Hh.
Qed.

Lemma nc_step_preserves wk cat all rx n p :
  nc_wf n -> pod_wf p -> nc_inv wk cat n ->
  nc_wf (fst (nc_step wk cat all rx n p)) /\ nc_inv wk cat (fst (nc_step wk cat all rx n p)).
Proof.
  intros Wn Wp I. rewrite <- nc_step_v_vi0.
  destruct (nc_step_v_preserves wk cat all rx n p vi0 Wn Wp I) as (H1 & H2 & _). split; assumption.
Qed.

(* the invariant of a run with volume inputs: the placed list mirrors the claim's pods and each placed pod keeps a
   satisfied volume-topology alternative *)
Definition nc_inv_v (wk : list string) (cat : list itype) (n : nclaim) (placed : list vpod) : Prop :=
  nc_wf n /\ nc_inv wk cat n /\ map fst placed = nc_pods n /\ forall vp, List.In vp placed -> valts_ok (nc_reqs n) (snd vp).

Lemma valts_ok_narrow r r' vi : (forall k v, has (get r' k) v = true -> has (get r k) v = true) -> valts_ok r vi -> valts_ok r' vi.
Proof.
  intros Hn [E|(a & Hin & Hall)]; [left; exact E|right; exists a; split; [exact Hin|intros k v Hh; apply Hall, Hn, Hh]].
Qed.

Lemma nc_exec_v_inv wk cat all ops : forall n placed,
  Forall (fun op : vpod * bool => pod_wf (fst (fst op))) ops -> nc_inv_v wk cat n placed ->
  nc_inv_v wk cat (fst (nc_exec_v wk cat all n placed ops)) (snd (nc_exec_v wk cat all n placed ops)).
Proof.
  induction ops as [|[[p vi] rx] ops IH]; intros n placed Wops (Wn & I & Hm & Hv); simpl; [split; [exact Wn|split; [exact I|split; [exact Hm|exact Hv]]]|].
  inversion Wops as [|? ? Wp Wrest]; subst. cbn [fst] in Wp.
  destruct (nc_step_v_preserves wk cat all rx n p vi Wn Wp I) as (Wn' & I' & Hnar & Hok & Herr).
  destruct (nc_step_v wk cat all rx n p vi) as [n' [x|e]] eqn:S; cbn [fst snd] in Wn', I', Hnar, Hok, Herr |- *; apply IH; try exact Wrest.
  - destruct (Hok x eq_refl) as [Hp Hvi]. split; [exact Wn'|]. split; [exact I'|]. split.
    + rewrite Hp, <- Hm, map_app. reflexivity.
    + intros vp Hin. apply in_app_or in Hin as [Hin|[<-|[]]]; [apply (valts_ok_narrow _ _ _ Hnar), Hv, Hin|exact Hvi].
  - rewrite (Herr e eq_refl). split; [exact Wn|split; [exact I|split; [exact Hm|exact Hv]]].
Qed.

Lemma nc_exec_inv wk cat all ops : forall n,
  nc_wf n -> Forall (fun op => pod_wf (fst op)) ops -> nc_inv wk cat n ->
  nc_wf (nc_exec wk cat all n ops) /\ nc_inv wk cat (nc_exec wk cat all n ops).
Proof.
  induction ops as [|[p rx] ops IH]; intros n Wn Wops I; simpl; [split; assumption|].
  inversion Wops as [|? ? Wp Wrest]; subst. simpl in Wp.
  destruct (nc_step_preserves wk cat all rx n p Wn Wp I) as [Wn' I'].
  apply IH; assumption.
Qed.

(* a freshly created claim (no pods, no requests) satisfies the invariant *)
Lemma nc_inv_init wk cat n : nc_pods n = [] -> nc_requests n = [] -> nc_inv wk cat n.
Proof.
  intros Hp Hr. unfold nc_inv. rewrite Hp, Hr. split; [intros k; reflexivity|]. split; [intros p []|]. intros Hc. congruence.
Qed.

(* ---- from the invariant to Kubernetes admissibility of every launch option ---- *)

(* whenever the claim's requirement for the (normalised) key of a constraint admits a value at all, every label the
   node may get for that key satisfies the constraint — for the node selector and the required term the pod was placed
   with (the first term of the relaxed pod, which is one of the original pod's terms) *)
Definition chosen_ok (r : reqs) (p : pod) : Prop :=
  (forall k val, List.In (k, val) (p_sel p) -> (exists v, has (get r k) v = true) -> sat_all (get r k) In [val]) /\
  (forall t rest, p_req p = t :: rest -> forall k o vs, List.In (k, o, vs) t ->
     (exists v, has (get r k) v = true) -> sat_all (get r k) o vs).

Lemma values_ok_sat_all r p : values_ok r p -> chosen_ok r p.
Proof.
  intros [V1 V2]. split.
  - intros k val Hin (v0 & Hv0) lbl Hm. destruct lbl as [v|]; simpl in Hm; [apply (V1 k val v Hin Hm)|].
    rewrite Hm in Hv0. discriminate.
  - intros t rest E k o vs Hin (v0 & Hv0) lbl Hm. destruct lbl as [v|]; simpl in Hm; [apply (V2 t rest E k o vs v Hin Hm)|].
    rewrite Hm in Hv0. discriminate.
Qed.

Theorem nc_options_admissible_l wk cat all n0 ops :
  nc_wf n0 -> nc_pods n0 = [] -> nc_requests n0 = [] -> Forall (fun op : vpod * bool => pod_wf (fst (fst op))) ops ->
  let n := fst (nc_exec_v wk cat all n0 [] ops) in
  let placed := snd (nc_exec_v wk cat all n0 [] ops) in
  map fst placed = nc_pods n /\
  (forall vp, List.In vp placed ->
     k8s_tolerated (nc_taints n) (p_tols (fst vp)) /\ chosen_ok (nc_reqs n) (fst vp) /\ valts_ok (nc_reqs n) (snd vp)) /\
  (nc_pods n <> [] -> forall name, List.In name (nc_its n) ->
     exists i g alloc offs o, List.In i cat /\ it_name i = name /\ List.In g (nc_groups n) /\ List.In name (dg_its g) /\
       List.In (alloc, offs) (it_groups i) /\ List.In o offs /\ compatible wk (nc_reqs n) o = true /\
       resources_ok (nc_pods n) (dg_overhead g) alloc).
Proof.
  intros Wn Hp Hr Wops n placed.
  assert (I0 : nc_inv_v wk cat n0 []).
  { split; [exact Wn|]. split; [apply nc_inv_init; assumption|]. split; [rewrite Hp; reflexivity|intros vp []]. }
  destruct (nc_exec_v_inv wk cat all ops n0 [] Wops I0) as ([_ Wg] & (I1 & I2 & I3) & Hm & Hv).
  fold n in Wg, I1, I2, I3, Hm, Hv. fold placed in Hm, Hv. split; [exact Hm|]. split.
  - intros vp Hin. assert (Hp' : List.In (fst vp) (nc_pods n)) by (rewrite <- Hm; apply in_map, Hin).
    destruct (I2 _ Hp') as (Ht & Hvv). split; [exact Ht|]. split; [apply values_ok_sat_all, Hvv|apply Hv, Hin].
  - intros Hne name Hn. destruct (I3 Hne name Hn) as (i & g & alloc & offs & o & Hi & Hnm & Hg & Hd & _ & Ha & Ho & Hc & Hf).
    exists i, g, alloc, offs, o. repeat split; try assumption.
    intros k. pose proof (fits_spec _ _ Hf k) as Hk. rewrite rget_total_for in Hk by (apply Wg, Hg). rewrite I1 in Hk. exact Hk.
Qed.

(* ================================================================== ExistingNode steps *)

Fixpoint ex_exec (all : bool) (n : enode) (ops : list pod) : enode :=
  match ops with [] => n | p :: rest => ex_exec all (fst (ex_step all n p)) rest end.

(* with volume inputs; the second component collects the pods that were placed *)
Fixpoint ex_exec_v (all : bool) (vn : venode) (placed : list vpod) (ops : list vpod) : venode * list vpod :=
  match ops with
  | [] => (vn, placed)
  | vp :: rest =>
      match ex_step_v all vn (fst vp) (snd vp) with
      | (vn', Ok _) => ex_exec_v all vn' (placed ++ [vp]) rest
      | (vn', Err _) => ex_exec_v all vn' placed rest
      end
  end.

Lemma ex_can_add_v_vi0 all vn p : ve_vlimits vn = [] -> ex_can_add_v all vn p vi0 = ex_can_add all (ve_node vn) p.
Proof.
  intros E. unfold ex_can_add_v, ex_can_add. rewrite E. cbn [exceeds_limits existsb].
  destruct (negb (tolerates_all _ _)); [reflexivity|]. destruct (conflicts _ _ _); [reflexivity|].
  destruct (negb (fits _ _)); [reflexivity|]. destruct (negb (compatible _ _ _)); reflexivity.
Qed.

Definition ex_inv_v (rem0 : rl) (vols0 : vols) (vn : venode) (placed : list vpod) : Prop :=
  let n := ve_node vn in
  (forall k, rget k (en_remaining n) = rget k rem0 - rsum (map p_requests (en_pods n)) k) /\
  (forall k, 0 <= rget k (en_remaining n)) /\
  (forall p, List.In p (en_pods n) -> k8s_tolerated (en_taints n) (p_tols p) /\ values_ok (en_reqs n) p) /\
  map fst placed = en_pods n /\
  (forall vp, List.In vp placed -> valts_ok (en_reqs n) (snd vp)) /\
  ve_vols vn = vols0 ++ flat_map vi_vols (map snd placed) /\
  (placed <> [] -> forall d l, List.In (d, l) (ve_vlimits vn) -> vcount d (ve_vols vn) <= l).

Lemma rget_rsub_from dest src k : NoDup (map fst src) -> rget k (rsub_from dest src) = rget k dest - rget k src.
Proof.
  intros H. unfold rsub_from.
  assert (G : forall s d, rget k (fold_left (fun acc kv => radd1 acc (fst kv) (- snd kv)) s d) = rget k d - rtotal k s).
  { induction s as [|[k' v] s IH]; intros d; simpl; [lia|]. rewrite IH, rget_radd1. destruct (String.eqb k k'); lia. }
  rewrite G, rtotal_nodup by exact H. reflexivity.
Qed.

Lemma exceeds_limits_false limits used new :
  exceeds_limits limits used new = false -> forall d l, List.In (d, l) limits -> vcount d (used ++ new) <= l.
Proof.
  unfold exceeds_limits. intros H d l Hin.
  destruct (Z.le_gt_cases (vcount d (used ++ new)) l) as [Hle|Hgt]; [exact Hle|]. exfalso.
  assert (X : existsb (fun dl : string * Z => snd dl <? vcount (fst dl) (used ++ new)) limits = true).
  { apply existsb_exists. exists (d, l). split; [exact Hin|]. apply Z.ltb_lt. exact Hgt. }
  rewrite X in H. discriminate.
Qed.

Lemma ex_step_v_preserves all rem0 vols0 vn placed p vi : pod_wf p -> ex_inv_v rem0 vols0 vn placed ->
  match ex_step_v all vn p vi with
  | (vn', Ok _) => ex_inv_v rem0 vols0 vn' (placed ++ [(p, vi)])
  | (vn', Err _) => vn' = vn
  end.
Proof.
  intros [Wp Wt] (I1 & I0 & I2 & Hm & Hv & I3 & I4). unfold ex_step_v, ex_can_add_v.
  set (n := ve_node vn) in *.
  destruct (tolerates_all (en_taints n) (p_tols p)) eqn:T; cbn [negb]; [|reflexivity].
  destruct (exceeds_limits (ve_vlimits vn) (ve_vols vn) (vi_vols vi)) eqn:V; [reflexivity|].
  destruct (conflicts (en_ports n) (p_key p) (p_ports p)) eqn:C; [reflexivity|].
  destruct (fits (p_requests p) (en_remaining n)) eqn:F; cbn [negb]; [|reflexivity].
  destruct (compatible [] (en_reqs n) (pod_reqs all p)) eqn:Co; cbn [negb]; [|reflexivity].
  destruct (first_ok (ex_try (add (en_reqs n) (pod_reqs all p))) (alt_list vi) (Err EVolReqs)) as [r|e] eqn:FO; [|reflexivity].
  apply first_ok_ok in FO as [(alt & Halt & Htry)|Hl]; [|discriminate].
  assert (Hr : forall k v, has (get r k) v = true -> has (get (add (en_reqs n) (pod_reqs all p)) k) v = true).
  { intros k v Hh. unfold ex_try in Htry. destruct alt as [a|].
    - destruct (compatible [] (add (en_reqs n) (pod_reqs all p)) a); [|discriminate]. injection Htry as <-. apply add_narrows in Hh. exact Hh.
    - injection Htry as <-. exact Hh. }
  assert (Hnar : forall k v, has (get r k) v = true -> has (get (en_reqs n) k) v = true).
  { intros k v Hh. apply Hr in Hh. apply add_narrows in Hh. exact Hh. }
  unfold ex_inv_v, ex_add. cbn [ve_node ve_vols ve_vlimits en_remaining en_pods en_reqs en_taints en_ports].
  split; [|split; [|split; [|split; [|split; [|split]]]]].
  - intros k. rewrite map_app. cbn [map]. rewrite rget_rsub_from, rsum_app, I1 by exact Wp. lia.
  - intros k. rewrite rget_rsub_from by exact Wp. pose proof (fits_spec _ _ F k). lia.
  - intros q Hq. apply in_app_or in Hq as [Hq|[<-|[]]].
    + destruct (I2 q Hq) as (Ht & Hvv). split; [exact Ht|].
      destruct Hvv as [V1 V2]; split;
        [intros k val v Hin Hh; apply (V1 k val v Hin (Hnar _ v Hh))|intros t rest E k o vs v Hin Hh; apply (V2 t rest E k o vs v Hin (Hnar _ v Hh))].
    + split; [apply tolerates_all_k8s, T|].
      assert (Hpod : forall k v, has (get r k) v = true -> has (get (pod_reqs all p) k) v = true).
      { intros k v Hh. apply Hr in Hh. apply has_get_in_add in Hh. exact Hh. }
      destruct (pod_reqs_sound all p) as [S1 S2]. split.
      * intros k val v Hin Hh. apply (S1 k val v Hin (Hpod _ v Hh)).
      * intros t rest E k o vs v Hin Hh. apply (S2 t rest E (Wt t rest E) k o vs v Hin (Hpod _ v Hh)).
  - rewrite <- Hm, map_app. reflexivity.
  - intros vp Hin. apply in_app_or in Hin as [Hin|[<-|[]]]; [apply (valts_ok_narrow _ _ _ Hnar), Hv, Hin|].
    cbn [snd]. pose proof (alt_list_in vi alt Halt) as Hal. destruct alt as [a|]; [|left; exact Hal].
    right. exists a. split; [exact Hal|]. intros k v Hh. unfold ex_try in Htry.
    destruct (compatible [] (add (en_reqs n) (pod_reqs all p)) a); [|discriminate]. injection Htry as <-.
    apply has_get_in_add in Hh. exact Hh.
  - rewrite I3, map_app, flat_map_app. cbn [map flat_map snd]. rewrite app_nil_r, app_assoc. reflexivity.
  - intros _ d l Hin. apply (exceeds_limits_false _ _ _ V d l Hin).
Qed.

Lemma ex_step_v_limits all vn p vi : ve_vlimits (fst (ex_step_v all vn p vi)) = ve_vlimits vn.
Proof. unfold ex_step_v. destruct (ex_can_add_v all vn p vi); reflexivity. Qed.

Theorem ex_exec_v_inv_l all rem0 vols0 ops : forall vn placed,
  Forall (fun vp : vpod => pod_wf (fst vp)) ops -> ex_inv_v rem0 vols0 vn placed ->
  ex_inv_v rem0 vols0 (fst (ex_exec_v all vn placed ops)) (snd (ex_exec_v all vn placed ops)) /\
  ve_vlimits (fst (ex_exec_v all vn placed ops)) = ve_vlimits vn.
Proof.
  induction ops as [|[p vi] ops IH]; intros vn placed W I; simpl; [split; [exact I|reflexivity]|].
  inversion W as [|? ? Wp Wr]; subst. cbn [fst] in Wp.
  pose proof (ex_step_v_preserves all rem0 vols0 vn placed p vi Wp I) as H.
  pose proof (ex_step_v_limits all vn p vi) as HL.
  destruct (ex_step_v all vn p vi) as [vn' [x|e]]; cbn [fst] in HL.
  - destruct (IH vn' _ Wr H) as [H1 H2]. split; [exact H1|]. etransitivity; [exact H2|exact HL].
  - subst vn'. apply IH; assumption.
Qed.

(* the pods placed on an existing node never exceed what was left for them (remaining resources = available minus the
   daemons still to come); the distinct volumes per CSI driver — those already attached plus those of the placed pods —
   stay within the node's attach limits; and every placed pod keeps a satisfied volume-topology alternative *)
Theorem ex_resources_l all ops vn0 :
  Forall (fun vp : vpod => pod_wf (fst vp)) ops -> en_pods (ve_node vn0) = [] -> (forall k, 0 <= rget k (en_remaining (ve_node vn0))) ->
  let vn := fst (ex_exec_v all vn0 [] ops) in
  let placed := snd (ex_exec_v all vn0 [] ops) in
  map fst placed = en_pods (ve_node vn) /\
  (forall k, rsum (map p_requests (map fst placed)) k <= rget k (en_remaining (ve_node vn0))) /\
  (placed <> [] -> forall d l, List.In (d, l) (ve_vlimits vn0) -> vcount d (ve_vols vn0 ++ flat_map vi_vols (map snd placed)) <= l) /\
  (forall vp, List.In vp placed -> k8s_tolerated (en_taints (ve_node vn)) (p_tols (fst vp)) /\
                                    chosen_ok (en_reqs (ve_node vn)) (fst vp) /\ valts_ok (en_reqs (ve_node vn)) (snd vp)).
Proof.
  intros W Hp Hnn vn placed.
  assert (I : ex_inv_v (en_remaining (ve_node vn0)) (ve_vols vn0) vn0 []).
  { unfold ex_inv_v. rewrite Hp. split; [intros k0; cbn [map rsum fold_right]; lia|]. split; [exact Hnn|]. split; [intros q []|].
    split; [reflexivity|]. split; [intros vp []|]. split; [cbn [map flat_map]; rewrite app_nil_r; reflexivity|intros H; congruence]. }
  destruct (ex_exec_v_inv_l all _ _ ops vn0 [] W I) as [(I1 & I0 & I2 & Hm & Hv & I3 & I4) HL].
  fold vn in I1, I0, I2, Hm, Hv, I3, I4, HL. fold placed in Hm, Hv, I3, I4.
  split; [exact Hm|]. split; [|split].
  - intros k. rewrite Hm. specialize (I1 k). specialize (I0 k). lia.
  - intros Hne d l Hin. rewrite <- I3. apply (I4 Hne). rewrite HL. exact Hin.
  - intros vp Hin. assert (Hp' : List.In (fst vp) (en_pods (ve_node vn))) by (rewrite <- Hm; apply in_map, Hin).
    destruct (I2 _ Hp') as [Ht Hvv]. split; [exact Ht|]. split; [apply values_ok_sat_all, Hvv|apply Hv, Hin].
Qed.

(* ================================================================== Preferences.Relax *)

Lemma relaxation_ok_refl p : relaxation_ok p p.
Proof.
  unfold relaxation_ok. do 4 (split; [reflexivity|]).
  split; [exists []; reflexivity|]. split; [intros H; exact H|].
  do 4 (split; [intros x H; exact H|]).
  split; [apply Permutation_refl|]. exists []. split; [symmetry; apply app_nil_r|intros t []].
Qed.

Lemma relaxation_ok_trans a b c : relaxation_ok a b -> relaxation_ok b c -> relaxation_ok a c.
Proof.
  intros (A1 & A2 & A3 & A4 & (d1 & A5) & A6 & A7 & A8 & A9 & A10 & A11 & (e1 & A12 & A13))
         (B1 & B2 & B3 & B4 & (d2 & B5) & B6 & B7 & B8 & B9 & B10 & B11 & (e2 & B12 & B13)).
  unfold relaxation_ok.
  split; [congruence|]. split; [congruence|]. split; [congruence|]. split; [congruence|].
  split; [exists (d1 ++ d2); rewrite A5, B5, app_assoc; reflexivity|].
  split; [auto|]. split; [auto|]. split; [auto|]. split; [auto|]. split; [auto|].
  split; [eapply Permutation_trans; eassumption|].
  exists (e1 ++ e2). split; [rewrite B12, A12, app_assoc; reflexivity|].
  intros t Ht. apply in_app_or in Ht as [Ht|Ht]; auto.
Qed.

Lemma in_ins_desc {A} (x y : Z * A) l : List.In x (ins_desc y l) <-> x = y \/ List.In x l.
Proof.
  induction l as [|z l IH]; simpl; [intuition|].
  destruct (fst z <=? fst y); simpl; [intuition|]. rewrite IH. intuition.
Qed.

Lemma in_sort_desc {A} (x : Z * A) l : List.In x (sort_desc l) <-> List.In x l.
Proof.
  unfold sort_desc. induction l as [|y l IH]; simpl; [tauto|]. rewrite in_ins_desc, IH. intuition.
Qed.

Lemma perm_filter {A} (f : A -> bool) l l' : Permutation l l' -> Permutation (filter f l) (filter f l').
Proof.
  induction 1; simpl.
  - constructor.
  - destruct (f x); [constructor|]; assumption.
  - destruct (f x), (f y); try apply Permutation_refl. apply perm_swap.
  - eapply Permutation_trans; eassumption.
Qed.

Lemma last_removelast_perm {A} (b : list A) d : b <> [] -> Permutation (last b d :: removelast b) b.
Proof.
  intros H. rewrite (app_removelast_last d H) at 3. apply Permutation_cons_append.
Qed.

(* removeTopologySpreadScheduleAnyway removes exactly one ScheduleAnyway constraint and only reorders the others *)
Lemma tsc_remove_spec l l' : tsc_remove l = Some l' ->
  exists c, snd c = true /\ Permutation (c :: l') l.
Proof.
  revert l'. induction l as [|c t IH]; intros l'; simpl; [discriminate|].
  destruct (snd c) eqn:Sc.
  - intros [= <-]. exists c. split; [exact Sc|]. constructor.
    destruct t as [|y t']; [constructor|]. apply last_removelast_perm. discriminate.
  - destruct (tsc_remove t) as [l0|] eqn:E; [|discriminate]. simpl. intros [= <-].
    destruct (IH l0 eq_refl) as (c0 & Hc0 & Hp). exists c0. split; [exact Hc0|].
    eapply Permutation_trans; [apply perm_swap|]. constructor. exact Hp.
Qed.

Ltac rok_start := unfold relaxation_ok;
  cbn [with_req with_pref with_paff with_panti with_tsc with_tols p_key p_sel p_req p_pref p_paff p_panti p_tsc p_tols p_ports p_requests];
  do 4 (split; [reflexivity|]).
Ltac rok_same := intros ? H; exact H.
Ltac rok_tols_same := exists []; split; [symmetry; apply app_nil_r|intros ? []].

Lemma ok_with_req p x rest : p_req p = x :: rest -> rest <> [] -> relaxation_ok p (with_req p rest).
Proof.
  intros E Hne. rok_start. split; [exists [x]; exact E|]. split; [intros _; exact Hne|].
  do 4 (split; [rok_same|]). split; [apply Permutation_refl|rok_tols_same].
Qed.
Lemma ok_with_paff p l : (forall z, List.In z l -> List.In z (p_paff p)) -> relaxation_ok p (with_paff p l).
Proof.
  intros Hl. rok_start. split; [exists []; reflexivity|]. split; [intros H; exact H|].
  split; [rok_same|]. split; [exact Hl|]. do 2 (split; [rok_same|]). split; [apply Permutation_refl|rok_tols_same].
Qed.
Lemma ok_with_panti p l : (forall z, List.In z l -> List.In z (p_panti p)) -> relaxation_ok p (with_panti p l).
Proof.
  intros Hl. rok_start. split; [exists []; reflexivity|]. split; [intros H; exact H|].
  do 2 (split; [rok_same|]). split; [exact Hl|]. split; [rok_same|]. split; [apply Permutation_refl|rok_tols_same].
Qed.
Lemma ok_with_pref p l : (forall z, List.In z l -> List.In z (p_pref p)) -> relaxation_ok p (with_pref p l).
Proof.
  intros Hl. rok_start. split; [exists []; reflexivity|]. split; [intros H; exact H|].
  split; [exact Hl|]. do 3 (split; [rok_same|]). split; [apply Permutation_refl|rok_tols_same].
Qed.
Lemma ok_with_tsc p l : (forall z, List.In z l -> List.In z (p_tsc p)) ->
  Permutation (filter (fun c => negb (snd c)) l) (filter (fun c => negb (snd c)) (p_tsc p)) -> relaxation_ok p (with_tsc p l).
Proof.
  intros Hl Hp. rok_start. split; [exists []; reflexivity|]. split; [intros H; exact H|].
  do 3 (split; [rok_same|]). split; [exact Hl|]. split; [exact Hp|rok_tols_same].
Qed.
Lemma ok_with_tols p : relaxation_ok p (with_tols p (p_tols p ++ [pns_toleration])).
Proof.
  rok_start. split; [exists []; reflexivity|]. split; [intros H; exact H|].
  do 4 (split; [rok_same|]). split; [apply Permutation_refl|].
  exists [pns_toleration]. split; [reflexivity|]. intros t [<-|[]]. reflexivity.
Qed.

Lemma sort_desc_tail {A} (l : list (Z * A)) a rest : sort_desc l = a :: rest -> forall z, List.In z rest -> List.In z l.
Proof. intros E z Hz. apply in_sort_desc. rewrite E. right. exact Hz. Qed.

Lemma relax_soft_ok tp p p' :
  match sort_desc (p_paff p) with
  | _ :: rest => Some (with_paff p rest)
  | [] =>
  match sort_desc (p_panti p) with
  | _ :: rest => Some (with_panti p rest)
  | [] =>
  match sort_desc (p_pref p) with
  | _ :: rest => Some (with_pref p rest)
  | [] =>
  match tsc_remove (p_tsc p) with
  | Some l => Some (with_tsc p l)
  | None =>
      if tp && negb (existsb (fun t => tol_eqb t pns_toleration) (p_tols p))
      then Some (with_tols p (p_tols p ++ [pns_toleration]))
      else None
  end end end end = Some p' -> relaxation_ok p p'.
Proof.
  destruct (sort_desc (p_paff p)) as [|a la] eqn:Ea; [|intros [= <-]; apply ok_with_paff, (sort_desc_tail _ _ _ Ea)].
  destruct (sort_desc (p_panti p)) as [|b lb] eqn:Eb; [|intros [= <-]; apply ok_with_panti, (sort_desc_tail _ _ _ Eb)].
  destruct (sort_desc (p_pref p)) as [|c lc] eqn:Ec; [|intros [= <-]; apply ok_with_pref, (sort_desc_tail _ _ _ Ec)].
  destruct (tsc_remove (p_tsc p)) as [lt|] eqn:Et.
  - intros [= <-]. destruct (tsc_remove_spec _ _ Et) as (c0 & Hc0 & Hp). apply ok_with_tsc.
    + intros z Hz. apply (Permutation_in z Hp). right. exact Hz.
    + pose proof (perm_filter (fun c => negb (snd c)) _ _ Hp) as Hf. cbn [filter] in Hf. rewrite Hc0 in Hf. exact Hf.
  - destruct (tp && negb (existsb (fun t => tol_eqb t pns_toleration) (p_tols p))); [|discriminate].
    intros [= <-]. apply ok_with_tols.
Qed.

Lemma relax_step_ok tp p p' : relax tp p = Some p' -> relaxation_ok p p'.
Proof.
  unfold relax. destruct (p_req p) as [|x [|y rest]] eqn:Er.
  - apply (relax_soft_ok tp).
  - apply (relax_soft_ok tp).
  - intros [= <-]. apply (ok_with_req p x (y :: rest) Er). discriminate.
Qed.

Theorem relax_only_weakens_l tp n : forall p, relaxation_ok p (relax_n tp n p).
Proof.
  induction n as [|n IH]; intros p; simpl; [apply relaxation_ok_refl|].
  destruct (relax tp p) as [p'|] eqn:E; [|apply relaxation_ok_refl].
  eapply relaxation_ok_trans; [apply (relax_step_ok tp _ _ E)|apply IH].
Qed.

(* the first required term of a relaxed pod is one of the ORIGINAL required terms, and relaxation never
   leaves a pod that had required terms without one *)
Lemma relaxed_head_original orig rel t rest :
  relaxation_ok orig rel -> p_req rel = t :: rest -> List.In t (p_req orig).
Proof.
  intros (_ & _ & _ & _ & (d & E) & _) Hr. rewrite E, Hr. apply in_or_app. right. left. reflexivity.
Qed.

Lemma relaxed_keeps_required orig rel :
  relaxation_ok orig rel -> p_req orig <> [] -> p_req rel <> [].
Proof. intros (_ & _ & _ & _ & _ & H & _). exact H. Qed.

(* ================================================================== the oracle decides the specification *)

Lemma empty_b_spec e : wf e -> (empty_b e = true <-> forall v, has e v = false).
Proof.
  intros [Wg Wl]. unfold empty_b. destruct (compl e) eqn:C.
  - fold (empty_bounds (gte e) (lte e)). split.
    + intros H v. unfold has. rewrite (within_empty v _ _ H). apply andb_false_r.
    + intros H. destruct (empty_bounds (gte e) (lte e)) eqn:E; [reflexivity|]. exfalso.
      destruct (fresh_within (vals e) (gte e) (lte e) Wg Wl E) as (v & Hm & Hw).
      specialize (H v). unfold has in H. rewrite C, Hm, Hw in H. discriminate.
  - split.
    + intros H v. apply negb_true_iff in H. destruct (has e v) eqn:Hv; [|reflexivity]. exfalso.
      assert (X : existsb (has e) (vals e) = true).
      { apply existsb_exists. exists v. split; [|exact Hv]. unfold has in Hv. rewrite C in Hv. apply andb_prop in Hv as [Hv _]. apply mem_In, Hv. }
      rewrite X in H. discriminate.
    + intros H. apply negb_true_iff. destruct (existsb (has e) (vals e)) eqn:E; [|reflexivity].
      apply existsb_exists in E as (v & _ & Hv). rewrite H in Hv. discriminate.
Qed.

Definition zwithin (z : Z) (g l : option Z) : Prop :=
  (match g with Some a => a <= z | None => True end) /\ (match l with Some b => z <= b | None => True end).

(* a complement requirement admits some spelling of every int64 inside its bounds *)
Lemma compl_has_numeral e z : compl e = true -> in64 z = true -> zwithin z (gte e) (lte e) ->
  exists v, atoi v = Some z /\ has e v = true.
Proof.
  intros C Hz [Hg Hl]. destruct (fresh_numeral (vals e) z Hz) as (v & Hv & Hm). exists v. split; [exact Hv|].
  unfold has, within. rewrite C, Hm, Hv. cbn [negb andb].
  destruct (gte e) as [a|], (lte e) as [b|]; try reflexivity;
    repeat rewrite andb_true_iff; repeat split; try reflexivity; apply Z.leb_le; assumption.
Qed.

Lemma atoi_x s : atoi (String "x"%char s) = None.
Proof.
  unfold atoi, atoi_raw. cbn [Ascii.eqb Bool.eqb]. unfold udec. cbn [NilEmpty.uint_of_string].
  destruct (NilEmpty.uint_of_string s); reflexivity.
Qed.

(* an unbounded complement requirement admits a non-numeric value *)
Lemma compl_unbounded_nonnumeric e : compl e = true -> gte e = None -> lte e = None ->
  exists v, atoi v = None /\ has e v = true.
Proof.
  intros C G L. exists (String "x"%char (zeros (maxlen (vals e)) "x")). split; [apply atoi_x|].
  unfold has, within. rewrite C, G, L. rewrite andb_true_r. apply negb_true_iff.
  destruct (mem _ (vals e)) eqn:M; [|reflexivity]. apply mem_maxlen in M. cbn [String.length] in M. rewrite length_zeros in M. cbn [String.length] in M. lia.
Qed.

Lemma has_compl_bounds e v : compl e = true -> has e v = true ->
  match gte e, lte e with
  | None, None => True
  | _, _ => exists n, atoi v = Some n /\ zwithin n (gte e) (lte e)
  end.
Proof.
  intros C H. unfold has in H. apply andb_prop in H as [_ H]. unfold within in H.
  destruct (gte e) as [a|] eqn:G, (lte e) as [b|] eqn:L; try exact I;
  (destruct (atoi v) as [n|]; [|discriminate]); exists n; (split; [reflexivity|]); unfold zwithin;
  rewrite ?andb_true_iff, ?andb_true_r in H; rewrite ?Z.leb_le in H; tauto.
Qed.

Lemma in64_bounds z : in64 z = true <-> min64 <= z <= max64.
Proof. unfold in64. rewrite andb_true_iff, !Z.leb_le. tauto. Qed.

Lemma all_values_b_spec e o vs : wf e -> valid_args o vs = true -> empty_b e = false ->
  (all_values_b e o vs = true <-> forall v, has e v = true -> k8s_match o vs (Some v) = true).
Proof.
  intros W Hv Hne. pose proof W as [Wg Wl]. unfold all_values_b. destruct (compl e) eqn:C.
  2:{ rewrite forallb_forall. split.
      - intros H v Hh. assert (Hin : List.In v (vals e)).
        { unfold has in Hh. rewrite C in Hh. apply andb_prop in Hh as [Hh _]. apply mem_In, Hh. }
        specialize (H v Hin). rewrite Hh in H. exact H.
      - intros H v _. destruct (has e v) eqn:Hh; [|reflexivity]. cbn [negb orb]. apply H, Hh. }
  assert (Hbounds : empty_bounds (gte e) (lte e) = false).
  { unfold empty_b in Hne. rewrite C in Hne. exact Hne. }
  (* witnesses inside the bounds *)
  assert (Hwit : forall z, in64 z = true -> zwithin z (gte e) (lte e) -> exists v, atoi v = Some z /\ has e v = true)
    by (intros z; apply compl_has_numeral, C).
  destruct o; cbn [k8s_match].
  - (* In *) split; [discriminate|]. intros H. exfalso.
    destruct (fresh_within (vals e ++ vs) (gte e) (lte e) Wg Wl Hbounds) as (v & Hm & Hw).
    rewrite mem_app in Hm. apply orb_false_elim in Hm as [Hm1 Hm2].
    assert (Hh : has e v = true) by (unfold has; rewrite C, Hm1, Hw; reflexivity).
    specialize (H v Hh). rewrite Hm2 in H. discriminate.
  - (* NotIn *) rewrite forallb_forall. split.
    + intros H v Hh. destruct (mem v vs) eqn:M; [|reflexivity]. apply mem_In in M. specialize (H v M). rewrite Hh in H. discriminate.
    + intros H v Hin. destruct (has e v) eqn:Hh; [|reflexivity]. specialize (H v Hh). apply mem_In in Hin. rewrite Hin in H. discriminate.
  - (* Exists *) split; intros; reflexivity.
  - (* DoesNotExist *) split; [discriminate|]. intros H. exfalso.
    destruct (fresh_within (vals e) (gte e) (lte e) Wg Wl Hbounds) as (v & Hm & Hw).
    assert (Hh : has e v = true) by (unfold has; rewrite C, Hm, Hw; reflexivity). specialize (H v Hh). discriminate.
  - (* Gt *) cbn [valid_args] in Hv. destruct vs as [|b [|? ?]]; try discriminate. destruct (atoi b) as [m|] eqn:Eb; [|discriminate].
    pose proof (proj1 (in64_bounds m) (atoi_in64 b m Eb)) as Hm. unfold num_arg. rewrite Eb. unfold cmp_match. rewrite Eb.
    unfold empty_bounds in Hbounds. split.
    + destruct (gte e) as [g|] eqn:G; [|discriminate]. intros H v Hh. apply Z.ltb_lt in H.
      pose proof (has_compl_bounds e v C Hh) as Hb. rewrite G in Hb. destruct (lte e); destruct Hb as (n & Hn & Hz & _); rewrite Hn; apply Z.ltb_lt; lia.
    + intros H. destruct (gte e) as [g|] eqn:G.
      * apply Z.ltb_lt. destruct (Z.lt_ge_cases m g) as [Hlt|Hge]; [exact Hlt|]. exfalso.
        pose proof (proj1 (in64_bounds g) Wg) as Hg. simpl in Hg.
        destruct (Hwit g Wg) as (v & Hn & Hh).
        { split; [lia|]. destruct (lte e) as [l|]; [|exact I]. apply Z.ltb_ge in Hbounds. lia. }
        specialize (H v Hh). rewrite Hn in H. apply Z.ltb_lt in H. lia.
      * exfalso. destruct (lte e) as [l|] eqn:L.
        -- pose proof (proj1 (in64_bounds l) Wl) as Hl. destruct (Hwit (Z.min l m)) as (v & Hn & Hh).
           { apply in64_bounds. lia. } { split; [exact I|lia]. }
           specialize (H v Hh). rewrite Hn in H. apply Z.ltb_lt in H. lia.
        -- destruct (Hwit m (atoi_in64 b m Eb)) as (v & Hn & Hh); [split; exact I|].
           specialize (H v Hh). rewrite Hn in H. apply Z.ltb_lt in H. lia.
  - (* Lt *) cbn [valid_args] in Hv. destruct vs as [|b [|? ?]]; try discriminate. destruct (atoi b) as [m|] eqn:Eb; [|discriminate].
    pose proof (proj1 (in64_bounds m) (atoi_in64 b m Eb)) as Hm. unfold num_arg. rewrite Eb. unfold cmp_match. rewrite Eb.
    unfold empty_bounds in Hbounds. split.
    + destruct (lte e) as [l|] eqn:L; [|destruct (gte e); discriminate]. intros H v Hh.
      assert (H' : l < m) by (destruct (gte e); apply Z.ltb_lt, H).
      pose proof (has_compl_bounds e v C Hh) as Hb. rewrite L in Hb. destruct (gte e); destruct Hb as (n & Hn & _ & Hz); rewrite Hn; apply Z.ltb_lt; lia.
    + intros H. destruct (lte e) as [l|] eqn:L.
      * assert (X : l < m).
        { destruct (Z.lt_ge_cases l m) as [Hlt|Hge]; [exact Hlt|]. exfalso.
          pose proof (proj1 (in64_bounds l) Wl) as Hl. simpl in Hl.
          destruct (Hwit l Wl) as (v & Hn & Hh).
          { split; [|lia]. destruct (gte e) as [g|]; [|exact I]. apply Z.ltb_ge in Hbounds. lia. }
          specialize (H v Hh). rewrite Hn in H. apply Z.ltb_lt in H. lia. }
        destruct (gte e); apply Z.ltb_lt, X.
      * exfalso. destruct (gte e) as [g|] eqn:G.
        -- pose proof (proj1 (in64_bounds g) Wg) as Hg. destruct (Hwit (Z.max g m)) as (v & Hn & Hh).
           { apply in64_bounds. lia. } { split; [lia|exact I]. }
           specialize (H v Hh). rewrite Hn in H. apply Z.ltb_lt in H. lia.
        -- destruct (Hwit m (atoi_in64 b m Eb)) as (v & Hn & Hh); [split; exact I|].
           specialize (H v Hh). rewrite Hn in H. apply Z.ltb_lt in H. lia.
  - (* Gte *) cbn [valid_args] in Hv. destruct vs as [|b [|? ?]]; try discriminate. destruct (atoi b) as [m|] eqn:Eb; [|discriminate].
    pose proof (proj1 (in64_bounds m) (atoi_in64 b m Eb)) as Hm. unfold num_arg. rewrite Eb. unfold cmp_match. rewrite Eb.
    unfold empty_bounds in Hbounds. split.
    + intros H v Hh. pose proof (has_compl_bounds e v C Hh) as Hb.
      destruct (gte e) as [g|] eqn:G.
      * apply Z.leb_le in H. destruct (lte e); destruct Hb as (n & Hn & Hz & _); rewrite Hn; apply Z.leb_le; lia.
      * destruct (lte e) as [l|] eqn:L; [|discriminate]. apply Z.eqb_eq in H. destruct Hb as (n & Hn & _). rewrite Hn.
        pose proof (proj1 (in64_bounds n) (atoi_in64 v n Hn)). apply Z.leb_le. lia.
    + intros H. destruct (gte e) as [g|] eqn:G.
      * apply Z.leb_le. destruct (Z.le_gt_cases m g) as [Hle|Hgt]; [exact Hle|]. exfalso.
        pose proof (proj1 (in64_bounds g) Wg) as Hg. simpl in Hg.
        destruct (Hwit g Wg) as (v & Hn & Hh).
        { split; [lia|]. destruct (lte e) as [l|]; [|exact I]. apply Z.ltb_ge in Hbounds. lia. }
        specialize (H v Hh). rewrite Hn in H. apply Z.leb_le in H. lia.
      * destruct (lte e) as [l|] eqn:L.
        -- apply Z.eqb_eq. destruct (Z.eq_dec m min64) as [E|Hne']; [exact E|]. exfalso.
           pose proof (proj1 (in64_bounds l) Wl) as Hl. destruct (Hwit (Z.min l (m - 1))) as (v & Hn & Hh).
           { apply in64_bounds. unfold min64, max64 in *. lia. } { split; [exact I|lia]. }
           specialize (H v Hh). rewrite Hn in H. apply Z.leb_le in H. lia.
        -- exfalso. destruct (compl_unbounded_nonnumeric e C G L) as (v & Hn & Hh).
           specialize (H v Hh). rewrite Hn in H. discriminate.
  - (* Lte *) cbn [valid_args] in Hv. destruct vs as [|b [|? ?]]; try discriminate. destruct (atoi b) as [m|] eqn:Eb; [|discriminate].
    pose proof (proj1 (in64_bounds m) (atoi_in64 b m Eb)) as Hm. unfold num_arg. rewrite Eb. unfold cmp_match. rewrite Eb.
    unfold empty_bounds in Hbounds. split.
    + intros H v Hh. pose proof (has_compl_bounds e v C Hh) as Hb.
      destruct (lte e) as [l|] eqn:L.
      * apply Z.leb_le in H. destruct (gte e); destruct Hb as (n & Hn & _ & Hz); rewrite Hn; apply Z.leb_le; lia.
      * destruct (gte e) as [g|] eqn:G; [|discriminate]. apply Z.eqb_eq in H. destruct Hb as (n & Hn & _). rewrite Hn.
        pose proof (proj1 (in64_bounds n) (atoi_in64 v n Hn)). apply Z.leb_le. lia.
    + intros H. destruct (lte e) as [l|] eqn:L.
      * apply Z.leb_le. destruct (Z.le_gt_cases l m) as [Hle|Hgt]; [exact Hle|]. exfalso.
        pose proof (proj1 (in64_bounds l) Wl) as Hl. simpl in Hl.
        destruct (Hwit l Wl) as (v & Hn & Hh).
        { split; [|lia]. destruct (gte e) as [g|]; [|exact I]. apply Z.ltb_ge in Hbounds. lia. }
        specialize (H v Hh). rewrite Hn in H. apply Z.leb_le in H. lia.
      * destruct (gte e) as [g|] eqn:G.
        -- apply Z.eqb_eq. destruct (Z.eq_dec m max64) as [E|Hne']; [exact E|]. exfalso.
           pose proof (proj1 (in64_bounds g) Wg) as Hg. destruct (Hwit (Z.max g (m + 1))) as (v & Hn & Hh).
           { apply in64_bounds. unfold min64, max64 in *. lia. } { split; [lia|exact I]. }
           specialize (H v Hh). rewrite Hn in H. apply Z.leb_le in H. lia.
        -- exfalso. destruct (compl_unbounded_nonnumeric e C G L) as (v & Hn & Hh).
           specialize (H v Hh). rewrite Hn in H. discriminate.
Qed.

Lemma sat_all_b_spec e o vs : wf e -> valid_args o vs = true ->
  (sat_all_b e o vs = true <-> sat_all e o vs).
Proof.
  intros W Hv. unfold sat_all_b, sat_all. destruct (empty_b e) eqn:E.
  - pose proof (proj1 (empty_b_spec e W) E) as He. split.
    + intros H [v|] Hm; simpl in Hm; [rewrite He in Hm; discriminate|exact H].
    + intros H. apply (H None). exact He.
  - rewrite (all_values_b_spec e o vs W Hv E). split.
    + intros H [v|] Hm; simpl in Hm; [apply H, Hm|].
      apply (empty_b_spec e W) in Hm. rewrite Hm in E. discriminate.
    + intros H v Hh. apply (H (Some v)). exact Hh.
Qed.

Lemma sat_all_ob_spec e o vs : (forall x, e = Some x -> wf x) -> valid_args o vs = true ->
  (sat_all_ob e o vs = true <-> sat_all_o e o vs).
Proof.
  intros W Hv. destruct e as [x|]; simpl; [apply sat_all_b_spec; [apply W; reflexivity|exact Hv]|].
  destruct o; try (split; [discriminate|]; intros H).
  - specialize (H None). discriminate.
  - destruct vs as [|x t]; [split; intros; [destruct lbl; reflexivity|reflexivity]|].
    split; [discriminate|]. intros H. specialize (H (Some x)). simpl in H. rewrite String.eqb_refl in H. discriminate.
  - specialize (H None). discriminate.
  - specialize (H (Some EmptyString)). discriminate.
  - specialize (H None). discriminate.
  - specialize (H None). discriminate.
  - specialize (H None). discriminate.
  - specialize (H None). discriminate.
Qed.

Definition eff_wf (eff : string -> option req) : Prop := forall k x, eff k = Some x -> wf x.
Definition pod_valid (p : pod) : Prop := forall t, List.In t (p_req p) -> valid_term t.
Definition vinfo_valid (vi : vinfo) : Prop := forall terms t, List.In terms (vi_volterms vi) -> List.In t terms -> valid_term t.

Lemma labels_ok_b_spec eff p : eff_wf eff -> pod_valid p -> (labels_ok_b eff p = true <-> labels_ok eff p).
Proof.
  intros We Wp. unfold labels_ok_b, labels_ok. rewrite andb_true_iff, forallb_forall.
  assert (Hsel : forall kv : string * string, sat_all_ob (eff (fst kv)) In [snd kv] = true <-> sat_all_o (eff (fst kv)) In [snd kv]).
  { intros kv. apply sat_all_ob_spec; [intros x E; apply (We _ _ E)|reflexivity]. }
  assert (Hterm : forall t, List.In t (p_req p) -> (forallb (expr_ok_b eff) t = true <-> forall x, List.In x t -> expr_ok eff x)).
  { intros t Ht. rewrite forallb_forall. split; intros H [[k o] vs] Hx; specialize (H _ Hx); unfold expr_ok_b, expr_ok in *;
      apply (sat_all_ob_spec (eff k) o vs (fun x E => We _ _ E) (Wp t Ht k o vs Hx)); exact H. }
  split.
  - intros [H1 H2]. split; [intros kv Hin; apply Hsel, H1, Hin|].
    destruct (p_req p) as [|t0 ts] eqn:Er; [left; reflexivity|right].
    apply existsb_exists in H2 as (t & Ht & Hf). exists t. split; [exact Ht|]. apply (Hterm t Ht), Hf.
  - intros [H1 H2]. split; [intros kv Hin; apply Hsel, H1, Hin|].
    destruct H2 as [E|(t & Ht & Hf)]; [rewrite E; reflexivity|].
    destruct (p_req p) as [|t0 ts] eqn:Er; [reflexivity|]. apply existsb_exists. exists t. split; [exact Ht|]. apply (Hterm t Ht), Hf.
Qed.

Lemma terms_ok_b_spec eff (terms : list term) : eff_wf eff -> (forall t, List.In t terms -> valid_term t) ->
  ((match terms with [] => true | _ => existsb (fun t => forallb (expr_ok_b eff) t) terms end) = true <->
   (terms = [] \/ exists t, List.In t terms /\ forall x, List.In x t -> expr_ok eff x)).
Proof.
  intros We Wv.
  assert (Hterm : forall t, List.In t terms -> (forallb (expr_ok_b eff) t = true <-> forall x, List.In x t -> expr_ok eff x)).
  { intros t Ht. rewrite forallb_forall. split; intros H [[k o] vs] Hx; specialize (H _ Hx); unfold expr_ok_b, expr_ok in *;
      apply (sat_all_ob_spec (eff k) o vs (fun x E => We _ _ E) (Wv t Ht k o vs Hx)); exact H. }
  destruct terms as [|t0 ts]; [split; [intros _; left; reflexivity|reflexivity]|]. split.
  - intros H. right. apply existsb_exists in H as (t & Ht & Hf). exists t. split; [exact Ht|]. apply (Hterm t Ht), Hf.
  - intros [E|(t & Ht & Hf)]; [discriminate|]. apply existsb_exists. exists t. split; [exact Ht|]. apply (Hterm t Ht), Hf.
Qed.

Lemma vol_zone_ok_b_spec eff vi : eff_wf eff -> vinfo_valid vi -> (vol_zone_ok_b eff vi = true <-> vol_zone_ok eff vi).
Proof.
  intros We Wv. unfold vol_zone_ok_b, vol_zone_ok. rewrite forallb_forall. split.
  - intros H terms Hin. apply (terms_ok_b_spec eff terms We (fun t Ht => Wv terms t Hin Ht)), H, Hin.
  - intros H terms Hin. apply (terms_ok_b_spec eff terms We (fun t Ht => Wv terms t Hin Ht)), H, Hin.
Qed.

Lemma vol_limits_ok_b_spec limits vis : vol_limits_ok_b limits vis = true <-> vol_limits_ok limits vis.
Proof.
  unfold vol_limits_ok_b, vol_limits_ok. rewrite forallb_forall. split.
  - intros H d l Hin. specialize (H (d, l) Hin). apply Z.leb_le, H.
  - intros H [d l] Hin. apply Z.leb_le, H, Hin.
Qed.

(* the boolean oracle evaluated by the check is the specification *)
Theorem admissible_b_spec_l v ps : eff_wf (v_eff v) -> Forall pod_valid ps ->
  (admissible_b v ps = true <-> admissible v ps).
Proof.
  intros We Wp. unfold admissible_b, admissible. rewrite !andb_true_iff, forallb_forall, ports_ok_b_spec, resources_ok_b_spec.
  rewrite Forall_forall in Wp. split.
  - intros [[H1 H2] H3]. split; [|split; assumption]. intros p Hp. specialize (H1 p Hp). apply andb_prop in H1 as [Ha Hb].
    split; [apply (labels_ok_b_spec _ _ We (Wp p Hp)), Ha|apply k8s_tolerated_b_spec, Hb].
  - intros [H1 [H2 H3]]. split; [split; [|exact H2]|exact H3]. intros p Hp. destruct (H1 p Hp) as [Ha Hb].
    apply andb_true_intro. split; [apply (labels_ok_b_spec _ _ We (Wp p Hp)), Ha|apply k8s_tolerated_b_spec, Hb].
Qed.

Theorem admissible_vb_spec_l v vlimits ps : eff_wf (v_eff v) ->
  Forall (fun vp : vpod => pod_valid (fst vp) /\ vinfo_valid (snd vp)) ps ->
  (admissible_vb v vlimits ps = true <-> admissible_v v vlimits ps).
Proof.
  intros We Wp. unfold admissible_vb, admissible_v. rewrite !andb_true_iff, forallb_forall, vol_limits_ok_b_spec.
  rewrite Forall_forall in Wp.
  assert (Wp1 : Forall pod_valid (map fst ps)).
  { apply Forall_forall. intros p Hp. apply in_map_iff in Hp as (vp & <- & Hin). apply (Wp vp Hin). }
  rewrite (admissible_b_spec_l v (map fst ps) We Wp1). split.
  - intros [[H1 H2] H3]. split; [exact H1|]. split; [|exact H3]. intros vp Hin. apply (vol_zone_ok_b_spec _ _ We (proj2 (Wp vp Hin))), H2, Hin.
  - intros [H1 [H2 H3]]. split; [split; [exact H1|]|exact H3]. intros vp Hin. apply (vol_zone_ok_b_spec _ _ We (proj2 (Wp vp Hin))), H2, Hin.
Qed.

(* ================================================================== findings: refutations on the faithful model *)

Definition claim0 (r : reqs) : nclaim := mkNC [] r [] [] [] [].

(* F11: required `team In [a]` with the preference `team In [c]`: the pod's own requirement for the key is empty,
   is stored as DoesNotExist and passes Compatible on a claim that does not define the key *)
Definition f11_pod : pod :=
  mkPod "default/w1" [] [[("team", In, ["a"])]] [(1, [("team", In, ["c"])])] [] [] [] [] [] [("cpu", 500)].

Lemma f11_compatible : compatible [] [] (pod_reqs true f11_pod) = true /\
  (forall v, has (get (add [] (pod_reqs true f11_pod)) "team") v = false) /\
  k8s_match In ["a"] None = false.
Proof.
  split; [vm_compute; reflexivity|]. split; [|reflexivity]. intros v.
  assert (E : get (add [] (pod_reqs true f11_pod)) "team" = mkReq false [] None None None) by (vm_compute; reflexivity).
  rewrite E. reflexivity.
Qed.

(* F12: an existing node without a `team` label; `team NotIn [a]` then `team In [b]` are both accepted *)
Definition f12_node : enode := mkEN [] [("zone", new_req In None ["z1"])] [("cpu", 4000)] [] [].
Definition f12_p1 : pod := mkPod "default/w3" [] [[("team", NotIn, ["a"])]] [] [] [] [] [] [] [("cpu", 300)].
Definition f12_p2 : pod := mkPod "default/w4" [] [[("team", In, ["b"])]] [] [] [] [] [] [] [("cpu", 200)].

Lemma f12_accepted :
  let n := ex_exec true f12_node [f12_p1; f12_p2] in
  map p_key (en_pods n) = ["default/w3"; "default/w4"] /\
  labels_ok_b (eff_labels [("zone", "z1")]) f12_p2 = false.
Proof. vm_compute. split; reflexivity. Qed.

(* and the same node rejects the second pod when it comes first *)
Lemma f12_order : map p_key (en_pods (ex_exec true f12_node [f12_p2; f12_p1])) = ["default/w3"].
Proof. vm_compute. reflexivity. Qed.

(* F13: ExistingNode.CanAdd never looks at the host ports of daemons that are still to arrive *)
Definition f13_pod : pod := mkPod "default/w5" [] [] [] [] [] [] [] [mkHP "0.0.0.0" 8080 "TCP"] [("cpu", 200)].
Definition f13_daemon : pod := mkPod "default/ds" [] [] [] [] [] [] [mkTol "" "Exists" "" ""] [mkHP "0.0.0.0" 8080 "TCP"] [("cpu", 100)].

Lemma f13_accepted :
  map p_key (en_pods (ex_exec true f12_node [f13_pod])) = ["default/w5"] /\
  existing_admissible_b [("zone", "z1")] [] [("cpu", 4000)] [] [f13_pod] [f13_daemon] = false.
Proof. vm_compute. split; reflexivity. Qed.

(* F11 at step level: the real step function places the pod, the claim then requires `team DoesNotExist`, and the
   pod's only required term `team In [a]` fails for the label state the node will have *)
Definition f11_it : itype := mkIT "it" [] [([("cpu", 1000)], [[]])].
Definition f11_claim : nclaim := mkNC [] [] ["it"] [] [mkDG ["it"] [] []] [].

Lemma f11_step :
  let n := fst (nc_step [] [f11_it] true false f11_claim f11_pod) in
  map p_key (nc_pods n) = ["default/w1"] /\ nc_its n = ["it"] /\
  labels_ok_b (eff_new [] (nc_reqs n) [] []) f11_pod = false.
Proof. vm_compute. repeat split; reflexivity. Qed.

(* non-vacuity: two pods on one claim, the second narrows the options *)
Definition ex_it1 : itype := mkIT "small" [("zone", new_req In None ["z1"; "z2"])] [([("cpu", 1000); ("pods", 4000)], [[("zone", new_req In None ["z1"])]])].
Definition ex_it2 : itype := mkIT "big" [("zone", new_req In None ["z1"])] [([("cpu", 4000); ("pods", 4000)], [[("zone", new_req In None ["z1"])]])].
Definition ex_claim : nclaim := mkNC [mkTaint "dedicated" "x" "NoSchedule"] [] ["small"; "big"] [] [mkDG ["small"; "big"] [("cpu", 100); ("pods", 1000)] []] [].
Definition ex_pod (name : string) (cpu : Z) : pod :=
  mkPod name [("zone", "z1")] [] [] [] [] [] [mkTol "dedicated" "Exists" "" ""] [] [("cpu", cpu); ("pods", 1000)].

Lemma example_two_pods :
  let n := nc_exec ["zone"] [ex_it1; ex_it2] true ex_claim [(ex_pod "a" 600, false); (ex_pod "b" 600, false)] in
  map p_key (nc_pods n) = ["a"; "b"] /\ nc_its n = ["big"] /\ nc_requests n = [("cpu", 1200); ("pods", 2000)].
Proof. vm_compute. repeat split; reflexivity. Qed.

Lemma example_relax :
  let p := mkPod "p" [] [[("a", In, ["1"])]; [("b", In, ["2"])]] [(5, [("c", Exists, [])])] [] [] [("zone", true); ("host", false)] [] [] [] in
  p_req (relax_n true 10 p) = [[("b", In, ["2"])]] /\ p_pref (relax_n true 10 p) = [] /\
  p_tsc (relax_n true 10 p) = [("host", false)] /\ p_tols (relax_n true 10 p) = [pns_toleration].
Proof. vm_compute. repeat split; reflexivity. Qed.

(* ================================================================== pairwise host-port invariant over op sequences *)

Lemma hp_matches_sym a b : hp_matches a b = hp_matches b a.
Proof.
  unfold hp_matches. rewrite (String.eqb_sym (hp_proto a)), (Z.eqb_sym (hp_port a)), (String.eqb_sym (hp_ip a)).
  destruct (unspecified (hp_ip a)), (unspecified (hp_ip b)); rewrite ?orb_true_r, ?orb_false_r; reflexivity.
Qed.

(* reservations of DIFFERENT pods (or daemons) never share a host-port triple *)
Definition usage_ok (u : usage) : Prop :=
  forall k1 ps1 k2 ps2 a b, List.In (k1, ps1) u -> List.In (k2, ps2) u -> k1 <> k2 ->
    List.In a ps1 -> List.In b ps2 -> hp_matches a b = false.

Lemma in_uset u who ports k ps : List.In (k, ps) (uset u who ports) -> (k, ps) = (who, ports) \/ List.In (k, ps) u.
Proof.
  induction u as [|[k' p'] u IH]; simpl.
  - intros [E|[]]. left. symmetry. exact E.
  - destruct (String.eqb_spec who k') as [->|Hn]; simpl.
    + intros [E|H]; [left; symmetry; exact E|right; right; exact H].
    + intros [E|H]; [right; left; exact E|]. destruct (IH H) as [E|Hi]; [left; exact E|right; right; exact Hi].
Qed.

Lemma uset_has u who ports : List.In (who, ports) (uset u who ports).
Proof.
  induction u as [|[k' p'] u IH]; simpl; [left; reflexivity|].
  destruct (String.eqb_spec who k') as [->|Hn]; simpl; [left; reflexivity|right; exact IH].
Qed.

Lemma uset_keeps u who ports k ps : k <> who -> List.In (k, ps) u -> List.In (k, ps) (uset u who ports).
Proof.
  intros Hk. induction u as [|[k' p'] u IH]; simpl; [tauto|].
  destruct (String.eqb_spec who k') as [->|Hn]; simpl.
  - intros [E|H]; [inversion E; subst; congruence|right; exact H].
  - intros [E|H]; [left; exact E|right; apply IH, H].
Qed.

Lemma usage_ok_uset u who ports : usage_ok u -> conflicts u who ports = false -> usage_ok (uset u who ports).
Proof.
  intros Hu Hc k1 ps1 k2 ps2 a b H1 H2 Hne Ha Hb.
  pose proof (proj1 (conflicts_false_spec u who ports) Hc) as Hs.
  apply in_uset in H1 as [E1|H1]; apply in_uset in H2 as [E2|H2].
  - inversion E1; inversion E2; subst. congruence.
  - inversion E1; subst. apply (Hs a Ha k2 ps2 b H2); [intros E; apply Hne; symmetry; exact E|exact Hb].
  - inversion E2; subst. rewrite hp_matches_sym. apply (Hs b Hb k1 ps1 a H1 Hne Ha).
  - apply (Hu k1 ps1 k2 ps2 a b H1 H2 Hne Ha Hb).
Qed.

(* ---- ExistingNode ---- *)
Definition ex_ports_inv (n : enode) : Prop :=
  usage_ok (en_ports n) /\ forall p, List.In p (en_pods n) -> List.In (p_key p, p_ports p) (en_ports n).

Lemma ex_step_v_pods all vn p vi :
  en_pods (ve_node (fst (ex_step_v all vn p vi))) = en_pods (ve_node vn) \/
  en_pods (ve_node (fst (ex_step_v all vn p vi))) = en_pods (ve_node vn) ++ [p].
Proof. unfold ex_step_v. destruct (ex_can_add_v all vn p vi); [right|left]; reflexivity. Qed.

Lemma ex_step_v_ports all vn p vi :
  ex_ports_inv (ve_node vn) -> (forall q, List.In q (en_pods (ve_node vn)) -> p_key q <> p_key p) ->
  ex_ports_inv (ve_node (fst (ex_step_v all vn p vi))).
Proof.
  intros [Hu Hr] Hfresh. unfold ex_step_v. destruct (ex_can_add_v all vn p vi) as [r|e] eqn:C; cbn [fst ve_node]; [|split; assumption].
  assert (Hc : conflicts (en_ports (ve_node vn)) (p_key p) (p_ports p) = false).
  { unfold ex_can_add_v in C. destruct (tolerates_all _ _); cbn [negb] in C; [|discriminate].
    destruct (exceeds_limits _ _ _); [discriminate|]. destruct (conflicts _ _ _); [discriminate|reflexivity]. }
  unfold ex_add, ex_ports_inv. cbn [en_ports en_pods]. split; [apply usage_ok_uset; assumption|].
  intros q Hq. apply in_app_or in Hq as [Hq|[<-|[]]]; [|apply uset_has].
  apply uset_keeps; [apply Hfresh, Hq|apply Hr, Hq].
Qed.

Lemma ex_exec_v_ports all ops : forall vn placed,
  NoDup (map (fun vp : vpod => p_key (fst vp)) ops) ->
  (forall q vp, List.In q (en_pods (ve_node vn)) -> List.In vp ops -> p_key q <> p_key (fst vp)) ->
  ex_ports_inv (ve_node vn) -> ex_ports_inv (ve_node (fst (ex_exec_v all vn placed ops))).
Proof.
  induction ops as [|[p vi] ops IH]; intros vn placed Hnd Hfresh I; simpl; [exact I|].
  inversion Hnd as [|? ? Hnotin Hnd']; subst. cbn [fst] in Hnotin.
  pose proof (ex_step_v_ports all vn p vi I (fun q Hq => Hfresh q (p, vi) Hq (or_introl eq_refl))) as I'.
  pose proof (ex_step_v_pods all vn p vi) as Hpods.
  assert (Hfresh' : forall q vp, List.In q (en_pods (ve_node (fst (ex_step_v all vn p vi)))) -> List.In vp ops -> p_key q <> p_key (fst vp)).
  { intros q vp Hq Hvp. destruct Hpods as [E|E]; rewrite E in Hq.
    - apply Hfresh; [exact Hq|right; exact Hvp].
    - apply in_app_or in Hq as [Hq|[<-|[]]]; [apply Hfresh; [exact Hq|right; exact Hvp]|].
      intros E'. apply Hnotin. rewrite E'. apply (in_map (fun vp0 : vpod => p_key (fst vp0))), Hvp. }
  destruct (ex_step_v all vn p vi) as [vn' [x|e]]; cbn [fst] in I', Hfresh'; apply IH; assumption.
Qed.

(* no two pods placed on an existing node, nor a placed pod and anything reserved on the node before (bound pods),
   share a host-port triple — for every sequence of attempts by distinct pods *)
Theorem ex_ports_pairwise_l all ops vn0 :
  NoDup (map (fun vp : vpod => p_key (fst vp)) ops) -> en_pods (ve_node vn0) = [] -> usage_ok (en_ports (ve_node vn0)) ->
  let n := ve_node (fst (ex_exec_v all vn0 [] ops)) in
  (forall p q a b, List.In p (en_pods n) -> List.In q (en_pods n) -> p_key p <> p_key q ->
     List.In a (p_ports p) -> List.In b (p_ports q) -> hp_matches a b = false) /\
  (forall p k ps a b, List.In p (en_pods n) -> List.In (k, ps) (en_ports n) -> k <> p_key p ->
     List.In a (p_ports p) -> List.In b ps -> hp_matches a b = false).
Proof.
  intros Hnd Hp Hu n.
  assert (I : ex_ports_inv n).
  { apply ex_exec_v_ports; [exact Hnd|rewrite Hp; intros q vp []|split; [exact Hu|rewrite Hp; intros q []]]. }
  destruct I as [Iu Ir]. split.
  - intros p q a b Hp' Hq Hne Ha Hb. apply (Iu _ _ _ _ a b (Ir p Hp') (Ir q Hq) Hne Ha Hb).
  - intros p k ps a b Hp' Hin Hne Ha Hb. apply (Iu _ _ _ _ a b (Ir p Hp') Hin (fun E => Hne (eq_sym E)) Ha Hb).
Qed.

(* ---- NodeClaim: the daemon overhead groups that still have a remaining instance type ---- *)
Definition live (n : nclaim) (g : dgroup) : Prop := exists name, List.In name (nc_its n) /\ List.In name (dg_its g).

(* every instance type belongs to one overhead group (buildDaemonOverheadGroups keys groups by the daemon set) *)
Definition groups_disjoint (gs : list dgroup) : Prop :=
  forall g1 g2 name, List.In g1 gs -> List.In g2 gs -> List.In name (dg_its g1) -> List.In name (dg_its g2) -> g1 = g2.

Definition nc_ports_inv (n : nclaim) : Prop :=
  groups_disjoint (nc_groups n) /\
  forall g, List.In g (nc_groups n) -> live n g ->
    usage_ok (dg_ports g) /\ forall p, List.In p (nc_pods n) -> List.In (p_key p, p_ports p) (dg_ports g).

Definition upd_group (p : pod) (g : dgroup) : dgroup := mkDG (dg_its g) (dg_overhead g) (uset (dg_ports g) (p_key p) (p_ports p)).

Lemma nc_step_v_pods wk cat all rx n p vi :
  nc_pods (fst (nc_step_v wk cat all rx n p vi)) = nc_pods n \/ nc_pods (fst (nc_step_v wk cat all rx n p vi)) = nc_pods n ++ [p].
Proof. unfold nc_step_v. destruct (nc_can_add_v wk cat all rx n p vi) as [[r its]|e]; [right|left]; reflexivity. Qed.

Lemma mem_true_in x l : mem x l = true -> List.In x l.
Proof. apply mem_In. Qed.

Lemma nc_step_v_ports wk cat all rx n p vi :
  nc_ports_inv n -> (forall q, List.In q (nc_pods n) -> p_key q <> p_key p) -> nc_ports_inv (fst (nc_step_v wk cat all rx n p vi)).
Proof.
  intros [Hd Hg] Hfresh. unfold nc_step_v.
  destruct (nc_can_add_v wk cat all rx n p vi) as [[r its]|e] eqn:C; cbn [fst]; [|split; assumption].
  destruct (nc_can_add_v_ok _ _ _ _ _ _ _ _ _ C) as (_ & _ & alt & u & _ & _ & _ & Hits).
  unfold nc_add, nc_ports_inv. cbn [nc_groups nc_pods nc_its]. fold (upd_group p). split.
  - intros g1' g2' name H1 H2 N1 N2. apply in_map_iff in H1 as (g1 & <- & H1). apply in_map_iff in H2 as (g2 & <- & H2).
    cbn [upd_group dg_its] in N1, N2. rewrite (Hd g1 g2 name H1 H2 N1 N2). reflexivity.
  - intros g' Hg' (name & Hn & Hng). apply in_map_iff in Hg' as (g & <- & Hgin). cbn [upd_group dg_its dg_ports] in *.
    destruct (Hits name Hn) as (Hmem & i & g2 & _ & _ & Hg2 & Hd2 & Hc & _).
    assert (E : g2 = g) by (apply (Hd g2 g name Hg2 Hgin Hd2 Hng)). subst g2.
    assert (Hlive : live n g) by (exists name; split; [apply mem_true_in, Hmem|exact Hng]).
    destruct (Hg g Hgin Hlive) as [Hu Hr]. split; [apply usage_ok_uset; assumption|].
    intros q Hq. apply in_app_or in Hq as [Hq|[<-|[]]]; [|apply uset_has].
    apply uset_keeps; [apply Hfresh, Hq|apply Hr, Hq].
Qed.

Lemma nc_exec_v_ports wk cat all ops : forall n placed,
  NoDup (map (fun op : vpod * bool => p_key (fst (fst op))) ops) ->
  (forall q op, List.In q (nc_pods n) -> List.In op ops -> p_key q <> p_key (fst (fst op))) ->
  nc_ports_inv n -> nc_ports_inv (fst (nc_exec_v wk cat all n placed ops)).
Proof.
  induction ops as [|[[p vi] rx] ops IH]; intros n placed Hnd Hfresh I; simpl; [exact I|].
  inversion Hnd as [|? ? Hnotin Hnd']; subst. cbn [fst] in Hnotin.
  pose proof (nc_step_v_ports wk cat all rx n p vi I (fun q Hq => Hfresh q ((p, vi), rx) Hq (or_introl eq_refl))) as I'.
  pose proof (nc_step_v_pods wk cat all rx n p vi) as Hpods.
  assert (Hfresh' : forall q op, List.In q (nc_pods (fst (nc_step_v wk cat all rx n p vi))) -> List.In op ops -> p_key q <> p_key (fst (fst op))).
  { intros q op Hq Hop. destruct Hpods as [E|E]; rewrite E in Hq.
    - apply Hfresh; [exact Hq|right; exact Hop].
    - apply in_app_or in Hq as [Hq|[<-|[]]]; [apply Hfresh; [exact Hq|right; exact Hop]|].
      intros E'. apply Hnotin. rewrite E'. apply (in_map (fun op0 : vpod * bool => p_key (fst (fst op0)))), Hop. }
  destruct (nc_step_v wk cat all rx n p vi) as [n' [x|e]]; cbn [fst] in I', Hfresh'; apply IH; assumption.
Qed.

(* for every overhead group that still has a remaining instance type: no two pods of the claim, nor a pod and a daemon
   of that group, share a host-port triple — for every sequence of attempts by distinct pods *)
Theorem nc_ports_pairwise_l wk cat all ops n0 :
  NoDup (map (fun op : vpod * bool => p_key (fst (fst op))) ops) -> nc_pods n0 = [] ->
  groups_disjoint (nc_groups n0) -> (forall g, List.In g (nc_groups n0) -> usage_ok (dg_ports g)) ->
  let n := fst (nc_exec_v wk cat all n0 [] ops) in
  forall g, List.In g (nc_groups n) -> live n g ->
    (forall p q a b, List.In p (nc_pods n) -> List.In q (nc_pods n) -> p_key p <> p_key q ->
       List.In a (p_ports p) -> List.In b (p_ports q) -> hp_matches a b = false) /\
    (forall p k ps a b, List.In p (nc_pods n) -> List.In (k, ps) (dg_ports g) -> k <> p_key p ->
       List.In a (p_ports p) -> List.In b ps -> hp_matches a b = false).
Proof.
  intros Hnd Hp Hd Hu n g Hg Hl.
  assert (I : nc_ports_inv n).
  { apply nc_exec_v_ports; [exact Hnd|rewrite Hp; intros q op []|].
    split; [exact Hd|]. intros g0 Hg0 _. split; [apply Hu, Hg0|rewrite Hp; intros q []]. }
  destruct I as [_ Ig]. destruct (Ig g Hg Hl) as [Iu Ir]. split.
  - intros p q a b Hp' Hq Hne Ha Hb. apply (Iu _ _ _ _ a b (Ir p Hp') (Ir q Hq) Hne Ha Hb).
  - intros p k ps a b Hp' Hin Hne Ha Hb. apply (Iu _ _ _ _ a b (Ir p Hp') Hin (fun E => Hne (eq_sym E)) Ha Hb).
Qed.

(* ================================================================== expected daemons: the oracle misses none *)

(* a label value a node may carry for a key with effective requirement [e]: admitted by [e]; a complement requirement
   (NotIn / Exists / bounds) is resolved — by the provider, or by Karpenter for a custom key — to a canonical numeral *)
Definition carries (e : req) (v : string) : Prop :=
  has e v = true /\ (compl e = true -> exists n, dec_int v = Some n).

(* some label state the node may have satisfies `key o vs` *)
Definition may_sat (e : option req) (o : oper) (vs : list string) : Prop :=
  match e with
  | None => True
  | Some e => (exists v, carries e v /\ k8s_match o vs (Some v) = true) \/
              ((forall v, has e v = false) /\ k8s_match o vs None = true)
  end.

Lemma dec_int_atoi v n : dec_int v = Some n -> atoi v = Some n.
Proof. unfold dec_int. destruct (atoi v) as [m|]; [|discriminate]. destruct (String.eqb (itoa m) v); [intros [= ->]; reflexivity|discriminate]. Qed.

Lemma some_value_b_complete e o vs v : valid_args o vs = true ->
  carries e v -> k8s_match o vs (Some v) = true -> some_value_b e o vs = true.
Proof.
  intros Hv [Hh Hc] Hm. unfold some_value_b. destruct (compl e) eqn:C.
  2:{ apply existsb_exists. exists v. split; [|rewrite Hh, Hm; reflexivity].
      unfold has in Hh. rewrite C in Hh. apply andb_prop in Hh as [Hh _]. apply mem_In, Hh. }
  destruct (Hc eq_refl) as (n & Hn). pose proof (dec_int_atoi v n Hn) as Ha.
  pose proof (proj1 (in64_bounds n) (atoi_in64 v n Ha)) as Hn64.
  pose proof (has_compl_bounds e v C Hh) as Hb.
  destruct o; cbn [k8s_match] in Hm; try reflexivity; try discriminate.
  - (* In *) apply existsb_exists. exists v. split; [apply mem_In, Hm|]. rewrite Hh, Hn. reflexivity.
  - (* Gt *) cbn [valid_args] in Hv. destruct vs as [|b [|? ?]]; try discriminate. destruct (atoi b) as [m|] eqn:Eb; [|discriminate].
    unfold num_arg. rewrite Eb. unfold cmp_match in Hm. rewrite Ha, Eb in Hm. apply Z.ltb_lt in Hm.
    destruct (lte e) as [l|] eqn:L; apply Z.ltb_lt; [|unfold max64 in *; lia].
    destruct (gte e); destruct Hb as (n' & Hn' & _ & Hz); rewrite Ha in Hn'; injection Hn' as <-; lia.
  - (* Lt *) cbn [valid_args] in Hv. destruct vs as [|b [|? ?]]; try discriminate. destruct (atoi b) as [m|] eqn:Eb; [|discriminate].
    unfold num_arg. rewrite Eb. unfold cmp_match in Hm. rewrite Ha, Eb in Hm. apply Z.ltb_lt in Hm.
    destruct (gte e) as [g|] eqn:G; apply Z.ltb_lt; [|unfold min64 in *; lia].
    destruct (lte e); destruct Hb as (n' & Hn' & Hz & _); rewrite Ha in Hn'; injection Hn' as <-; lia.
  - (* Gte *) cbn [valid_args] in Hv. destruct vs as [|b [|? ?]]; try discriminate. destruct (atoi b) as [m|] eqn:Eb; [|discriminate].
    unfold num_arg. rewrite Eb. unfold cmp_match in Hm. rewrite Ha, Eb in Hm. apply Z.leb_le in Hm.
    destruct (lte e) as [l|] eqn:L; [|reflexivity]. apply Z.leb_le.
    destruct (gte e); destruct Hb as (n' & Hn' & _ & Hz); rewrite Ha in Hn'; injection Hn' as <-; lia.
  - (* Lte *) cbn [valid_args] in Hv. destruct vs as [|b [|? ?]]; try discriminate. destruct (atoi b) as [m|] eqn:Eb; [|discriminate].
    unfold num_arg. rewrite Eb. unfold cmp_match in Hm. rewrite Ha, Eb in Hm. apply Z.leb_le in Hm.
    destruct (gte e) as [g|] eqn:G; [|reflexivity]. apply Z.leb_le.
    destruct (lte e); destruct Hb as (n' & Hn' & Hz & _); rewrite Ha in Hn'; injection Hn' as <-; lia.
Qed.

Lemma may_sat_b_complete e o vs : (forall x, e = Some x -> wf x) -> valid_args o vs = true ->
  may_sat e o vs -> may_sat_b e o vs = true.
Proof.
  intros W Hv H. destruct e as [x|]; [|reflexivity]. simpl in H |- *. specialize (W x eq_refl).
  destruct (empty_b x) eqn:E.
  - pose proof (proj1 (empty_b_spec x W) E) as He. destruct H as [(v & [Hh _] & _)|[_ Hm]]; [rewrite He in Hh; discriminate|exact Hm].
  - destruct H as [(v & Hc & Hm)|[He _]]; [apply (some_value_b_complete x o vs v Hv Hc Hm)|].
    apply (empty_b_spec x W) in He. rewrite He in E. discriminate.
Qed.

(* a daemon MAY run on the node: its hard taints are tolerated and, key by key, some label state the node may have
   satisfies its node selector and one of its required terms *)
Definition may_run (eff : string -> option req) (ts : list taint) (d : pod) : Prop :=
  k8s_tolerated ts (p_tols d) /\
  (forall kv, List.In kv (p_sel d) -> may_sat (eff (fst kv)) In [snd kv]) /\
  (p_req d = [] \/ exists t, List.In t (p_req d) /\ forall k o vs, List.In (k, o, vs) t -> may_sat (eff k) o vs).

Lemma may_run_b_complete eff ts d : eff_wf eff -> (forall t, List.In t (p_req d) -> valid_term t) ->
  may_run eff ts d -> may_run_b eff ts d = true.
Proof.
  intros We Wv (Ht & Hs & Hr). unfold may_run_b. apply andb_true_intro. split; [apply andb_true_intro; split|].
  - apply k8s_tolerated_b_spec, Ht.
  - apply forallb_forall. intros kv Hin. apply may_sat_b_complete; [intros x E; apply (We _ _ E)|reflexivity|apply Hs, Hin].
  - destruct Hr as [E|(t & Hin & Hall)]; [rewrite E; reflexivity|].
    destruct (p_req d) as [|t0 tr] eqn:Er; [destruct Hin|]. apply existsb_exists. exists t. split; [exact Hin|].
    apply forallb_forall. intros [[k o] vs] Hx. apply may_sat_b_complete; [intros x E; apply (We _ _ E)|apply (Wv t Hin k o vs Hx)|apply Hall, Hx].
Qed.

(* the oracle's expected daemons contain every daemon that may run on the node *)
Theorem expected_daemons_complete_l eff ts ds d : eff_wf eff -> (forall t, List.In t (p_req d) -> valid_term t) ->
  List.In d ds -> may_run eff ts d -> List.In d (expected_daemons eff ts ds).
Proof.
  intros We Wv Hin Hm. unfold expected_daemons. apply filter_In. split; [exact Hin|apply may_run_b_complete; assumption].
Qed.
