From KV Require Import C01.Model.
Lemma placeholder : True. Proof. exact I. Qed.
