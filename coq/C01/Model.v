(* C01 — executable model of the placement checks of the provisioning scheduler.

   Mirrors (method granularity, empty Topology, no volumes, no DRA, no reserved offerings):
     pkg/scheduling/taints.go            Taints.ToleratesPod / corev1.Toleration.ToleratesTaint
     pkg/scheduling/hostportusage.go     HostPort.Matches, HostPortUsage.Conflicts / Add
     pkg/utils/resources/resources.go    Merge, Subtract, SubtractFrom, Fits
     pkg/scheduling/requirements.go      newPodRequirements (NewPodRequirements / NewStrictPodRequirements)
     provisioning/scheduling/nodeclaim.go     NodeClaim.CanAdd / Add, filterInstanceTypesByRequirements,
                                              compatible, fits, InstanceTypes.SatisfiesMinValues
     provisioning/scheduling/existingnode.go  NewExistingNode (remaining resources), ExistingNode.CanAdd / Add
     provisioning/scheduling/preferences.go   Preferences.Relax (the six relaxations, in order)
   The requirement algebra is Base/Req.v (proved in C12).  The second half of the file is the
   SPECIFICATION side: Kubernetes admissibility of a placement, written from the scheduling
   rules (Base/K8s.v), not from Karpenter's code. *)
From KV Require Export Base.Req Base.K8s.
Open Scope string_scope.
Open Scope list_scope.
Open Scope Z_scope.

(* ------------------------------------------------------------------ resources *)
(* corev1.ResourceList in milli-units; a Go map, so keys are unique; absent key reads 0 *)
Definition rl := list (string * Z).

Fixpoint rget (k : string) (l : rl) : Z :=
  match l with
  | [] => 0
  | (k', v) :: t => if String.eqb k k' then v else rget k t
  end.

Fixpoint radd1 (l : rl) (k : string) (v : Z) : rl :=
  match l with
  | [] => [(k, v)]
  | (k', v') :: t => if String.eqb k k' then (k', v' + v) :: t else (k', v') :: radd1 t k v
  end.

(* resources.Merge(a, b) / MergeInto *)
Definition rmerge (a b : rl) : rl := fold_left (fun acc kv => radd1 acc (fst kv) (snd kv)) b a.

(* resources.Subtract(lhs, rhs): keys of lhs only *)
Definition rsub (a b : rl) : rl := map (fun kv => (fst kv, snd kv - rget (fst kv) b)) a.

(* resources.SubtractFrom(dest, src): every key of src, created when absent *)
Definition rsub_from (dest src : rl) : rl := fold_left (fun acc kv => radd1 acc (fst kv) (- snd kv)) src dest.

(* resources.Fits(candidate, total) *)
Definition fits (cand total : rl) : bool :=
  forallb (fun kv => 0 <=? snd kv) total &&
  forallb (fun kv => snd kv <=? rget (fst kv) total) cand.

(* ------------------------------------------------------------------ taints *)
Record taint := mkTaint { t_key : string; t_val : string; t_eff : string }.
Record toleration := mkTol { tl_key : string; tl_op : string; tl_val : string; tl_eff : string }.

(* content.IsDecimalInteger + strconv.ParseInt: canonical spelling only (no '+', no leading zeros, no "-0") *)
Definition dec_int (s : string) : option Z :=
  match atoi s with
  | Some n => if String.eqb (itoa n) s then Some n else None
  | None => None
  end.

(* corev1.Toleration.ToleratesTaint(logger, taint, enableComparisonOperators = true) *)
Definition tolerates_taint (t : toleration) (ta : taint) : bool :=
  if negb (String.eqb (tl_eff t) "") && negb (String.eqb (tl_eff t) (t_eff ta)) then false
  else if negb (String.eqb (tl_key t) "") && negb (String.eqb (tl_key t) (t_key ta)) then false
  else if String.eqb (tl_op t) "" || String.eqb (tl_op t) "Equal" then String.eqb (tl_val t) (t_val ta)
  else if String.eqb (tl_op t) "Exists" then true
  else if String.eqb (tl_op t) "Lt" then
    match dec_int (tl_val t), dec_int (t_val ta) with Some a, Some b => b <? a | _, _ => false end
  else if String.eqb (tl_op t) "Gt" then
    match dec_int (tl_val t), dec_int (t_val ta) with Some a, Some b => a <? b | _, _ => false end
  else false.

(* Taints.Tolerates == nil *)
Definition tolerates_all (ts : list taint) (tols : list toleration) : bool :=
  forallb (fun ta => existsb (fun t => tolerates_taint t ta) tols) ts.

(* ------------------------------------------------------------------ host ports *)
(* ip is net.IP.String() of net.ParseIP(hostIP or "0.0.0.0") *)
Record hp := mkHP { hp_ip : string; hp_port : Z; hp_proto : string }.
Definition unspecified (ip : string) : bool := String.eqb ip "0.0.0.0" || String.eqb ip "::".
Definition hp_matches (a b : hp) : bool :=
  String.eqb (hp_proto a) (hp_proto b) && (hp_port a =? hp_port b) &&
  (String.eqb (hp_ip a) (hp_ip b) || unspecified (hp_ip a) || unspecified (hp_ip b)).

(* HostPortUsage.reserved: pod key -> ports *)
Definition usage := list (string * list hp).

Definition conflicts (u : usage) (who : string) (ports : list hp) : bool :=
  existsb (fun n => existsb (fun e => negb (String.eqb (fst e) who) && existsb (hp_matches n) (snd e)) u) ports.

Fixpoint uset (u : usage) (who : string) (ports : list hp) : usage :=
  match u with
  | [] => [(who, ports)]
  | (k, p) :: t => if String.eqb who k then (k, ports) :: t else (k, p) :: uset t who ports
  end.

(* ------------------------------------------------------------------ pods *)
Definition expr := (string * oper * list string)%type.     (* NodeSelectorRequirement *)
Definition term := list expr.                              (* NodeSelectorTerm.MatchExpressions *)

Record pod := mkPod {
  p_key : string;                       (* namespace/name *)
  p_sel : list (string * string);       (* spec.nodeSelector *)
  p_req : list term;                    (* required node affinity: OR of terms *)
  p_pref : list (Z * term);             (* preferred node affinity: weight, term *)
  p_paff : list (Z * string);           (* preferred pod affinity: weight, id *)
  p_panti : list (Z * string);          (* preferred pod anti-affinity *)
  p_tsc : list (string * bool);         (* topology spread: id, WhenUnsatisfiable = ScheduleAnyway *)
  p_tols : list toleration;
  p_ports : list hp;                    (* GetHostPorts(pod) *)
  p_requests : rl                       (* PodData.Requests (incl. "pods": 1000) *)
}.

(* the volume inputs of a pod, kept beside the pod record (which other developments share) *)
Record vinfo := mkVI {
  vi_vols : list (string * string);     (* scheduling.GetVolumes(pod): CSI driver, PVC id *)
  vi_valts : list reqs;                 (* PodData.VolumeRequirements: alternatives computed by VolumeTopology.GetRequirements *)
  vi_volterms : list (list term)        (* SPEC side: per volume the OR-ed topology terms of its PV node affinity /
                                           StorageClass allowedTopologies (hostname dropped for local volumes) *)
}.
Definition vi0 : vinfo := mkVI [] [] [].
Definition vpod := (pod * vinfo)%type.

(* v1.NormalizedLabels: deprecated label keys are rewritten by NewRequirementWithFlexibility. The model works on
   NORMALISED keys: the harness applies this renaming to the pod it hands to the model (the real code receives the
   deprecated keys) and checks the table against the code on every run; the oracle below uses [nk] to read the label a
   deprecated key aliases (the value table v1.NormalizedLabelValues is empty in core) *)
Definition norm_table : list (string * string) :=
  [("failure-domain.beta.kubernetes.io/zone", "topology.kubernetes.io/zone");
   ("beta.kubernetes.io/arch", "kubernetes.io/arch");
   ("beta.kubernetes.io/os", "kubernetes.io/os");
   ("beta.kubernetes.io/instance-type", "node.kubernetes.io/instance-type");
   ("failure-domain.beta.kubernetes.io/region", "topology.kubernetes.io/region")].
Definition nk (k : string) : string := norm_key norm_table k.

Definition expr_req (e : expr) : string * req := let '(k, o, vs) := e in (k, new_req o None vs).

(* NewNodeSelectorRequirements(term...) *)
Definition term_reqs (t : term) : reqs := add [] (map expr_req t).
(* NewLabelRequirements(nodeSelector) *)
Definition sel_reqs (s : list (string * string)) : reqs := add [] (map (fun kv => (fst kv, new_req In None [snd kv])) s).

(* stable sort, descending weight (sort.SliceStable(terms, w[i] > w[j])): an earlier element stays in front of
   later ones of equal weight *)
Fixpoint ins_desc {A} (x : Z * A) (l : list (Z * A)) : list (Z * A) :=
  match l with
  | [] => [x]
  | y :: t => if fst y <=? fst x then x :: y :: t else y :: ins_desc x t
  end.
Definition sort_desc {A} (l : list (Z * A)) : list (Z * A) := fold_right ins_desc [] l.

(* newPodRequirements(pod, typ): all = podRequirementTypeAll (preferences respected) *)
Definition pod_reqs (all : bool) (p : pod) : reqs :=
  let r0 := sel_reqs (p_sel p) in
  let r1 := if all then match sort_desc (p_pref p) with (_, t) :: _ => add r0 (term_reqs t) | [] => r0 end else r0 in
  match p_req p with
  | t :: _ => add r1 (term_reqs t)
  | [] => r1
  end.

(* ------------------------------------------------------------------ instance types *)
Record itype := mkIT {
  it_name : string;
  it_reqs : reqs;
  it_groups : list (rl * list reqs)    (* AllocatableOfferingsList(): allocatable, AVAILABLE offerings' requirements *)
}.

Record dgroup := mkDG { dg_its : list string; dg_overhead : rl; dg_ports : usage }.

Fixpoint find_it (n : string) (cat : list itype) : option itype :=
  match cat with
  | [] => None
  | i :: t => if String.eqb n (it_name i) then Some i else find_it n t
  end.

(* fits(instanceType, requests, requirements) -> (itFits, hasOffering) *)
Fixpoint it_fits_go (wk : list string) (gs : list (rl * list reqs)) (req : rl) (r : reqs) (hasoff : bool) : bool * bool :=
  match gs with
  | [] => (false, hasoff)
  | (alloc, offs) :: gs' =>
      if existsb (fun o => compatible wk r o) offs
      then (if fits req alloc then (true, true) else it_fits_go wk gs' req r true)
      else it_fits_go wk gs' req r hasoff
  end.
Definition it_fits (wk : list string) (i : itype) (req : rl) (r : reqs) : bool * bool :=
  it_fits_go wk (it_groups i) req r false.

(* compatible(instanceType, requirements) *)
Definition it_compatible (i : itype) (r : reqs) : bool := intersects (it_reqs i) r.

Definition it_ok (wk : list string) (i : itype) (req : rl) (r : reqs) : bool :=
  it_compatible i r && fst (it_fits wk i req r) && snd (it_fits wk i req r).

(* Requirements.HasMinValues *)
Definition has_min_values (r : reqs) : bool :=
  existsb (fun kr => match minv (snd kr) with Some _ => true | None => false end) r.

(* InstanceTypes.SatisfiesMinValues: the keys whose distinct-value count stays below minValues, with the count *)
Definition min_values_unsat (its : list itype) (r : reqs) : list (string * Z) :=
  match its with [] => [] | _ =>          (* the per-instance-type loop never runs: nothing is recorded *)
  flat_map (fun kr =>
    match minv (snd kr) with
    | None => []
    | Some m =>
        let n := Z.of_nat (length (dedup (flat_map (fun i => vals (get (it_reqs i) (fst kr))) its))) in
        if n <? m then [(fst kr, n)] else []
    end) r
  end.

Definition total_for (g : dgroup) (total : rl) : rl :=
  match dg_overhead g with [] => total | _ => rmerge total (dg_overhead g) end.

(* the instance types one daemon-overhead group contributes *)
Definition group_remaining (wk : list string) (cat : list itype) (elig : list string) (r : reqs)
           (who : string) (ports : list hp) (total : rl) (g : dgroup) : list itype :=
  if conflicts (dg_ports g) who ports then []
  else flat_map (fun n =>
         if mem n elig then
           match find_it n cat with
           | Some i => if it_ok wk i (total_for g total) r then [i] else []
           | None => []
           end
         else []) (dg_its g).

Inductive ferr := FNone | FMinValues.

(* filterInstanceTypesByRequirements -> (remaining, unsatisfiableKeys, error?) *)
Definition filter_its (wk : list string) (cat : list itype) (elig : list string) (r : reqs)
           (who : string) (ports : list hp) (groups : list dgroup) (total : rl) (relax : bool)
  : list itype * list (string * Z) * option ferr :=
  let remaining := flat_map (group_remaining wk cat elig r who ports total) groups in
  let unsat := if has_min_values r then min_values_unsat remaining r else [] in
  let strict_fail := match unsat with [] => false | _ => negb relax end in
  let remaining' := if strict_fail then [] else remaining in
  match remaining' with
  | [] => ([], unsat, Some (if strict_fail then FMinValues else FNone))
  | _ => (remaining', unsat, None)
  end.

(* nodeClaimRequirements.Get(key).MinValues = new(minValues) for the relaxed keys *)
Definition set_minv (r : reqs) (unsat : list (string * Z)) : reqs :=
  map (fun kr => match List.find (fun u => String.eqb (fst u) (fst kr)) unsat with
                 | Some u => (fst kr, mkReq (compl (snd kr)) (vals (snd kr)) (gte (snd kr)) (lte (snd kr)) (Some (snd u)))
                 | None => kr
                 end) r.

(* ------------------------------------------------------------------ volumes *)
(* scheduling.Volumes as a list of (driver, pvc id) pairs; VolumeUsage = the union so far + per-driver limits *)
Definition vols := list (string * string).
Definition vcount (d : string) (v : vols) : Z :=
  Z.of_nat (length (dedup (map snd (filter (fun dv => String.eqb (fst dv) d) v)))).
(* VolumeUsage.ExceedsLimits(vols) != nil *)
Definition exceeds_limits (limits : list (string * Z)) (used new : vols) : bool :=
  existsb (fun dl => snd dl <? vcount (fst dl) (used ++ new)) limits.

(* VolumeTopology.getPersistentVolumeRequirements / getStorageClassRequirements: the alternatives one volume contributes.
   [local]: Local / HostPath volume, whose hostname expressions are ignored *)
Definition hostname_key : string := "kubernetes.io/hostname".
Definition vol_alts (local : bool) (terms : list term) : list reqs :=
  flat_map (fun t : term =>
    let t' := if local then filter (fun x : expr => negb (String.eqb (fst (fst x)) hostname_key)) t else t in
    match t, t' with
    | _ :: _, [] => if local then [[]] else []
    | _, [] => []
    | _, _ => [term_reqs t']
    end) terms.

(* mergeVolumeRequirementAlternatives: cross product, keeping only the branches whose requirements intersect unless
   that prunes everything *)
Definition merge_alts (alts volalts : list reqs) : list reqs :=
  let comp := flat_map (fun ex => flat_map (fun v => if intersects ex v then [add (add [] ex) v] else []) volalts) alts in
  match comp with
  | [] => flat_map (fun ex => map (fun v => add (add [] ex) v) volalts) alts
  | _ => comp
  end.

(* VolumeTopology.GetRequirements: None = the pod's volumes impose nothing *)
Definition pod_vol_alts (volumes : list (bool * list term)) : list reqs :=
  let contributing := filter (fun l => match l with [] => false | _ => true end)
                             (map (fun v : bool * list term => vol_alts (fst v) (snd v)) volumes) in
  match contributing with
  | [] => []
  | _ => fold_left merge_alts contributing [[]]
  end.

(* the alternatives CanAdd iterates: a single "no constraint" entry when there are none *)
Definition alt_list (vi : vinfo) : list (option reqs) :=
  match vi_valts vi with [] => [None] | l => map Some l end.

(* ------------------------------------------------------------------ NodeClaim *)
Record nclaim := mkNC {
  nc_taints : list taint;
  nc_reqs : reqs;
  nc_its : list string;
  nc_requests : rl;
  nc_groups : list dgroup;
  nc_pods : list pod
}.

Inductive err := ETaints | EReqs | EFilter | EMinValues | EPorts | EResources | EVolumes | EVolReqs.

Inductive res (A : Type) := Ok (a : A) | Err (e : err).
Arguments Ok {A} a. Arguments Err {A} e.

(* NodeClaim.CanAdd (empty topology, no volume alternatives): updated requirements, instance types.
   [all]: preference policy Respect (pod requirements include the heaviest preferred term). *)
(* the first alternative that succeeds; otherwise the error of the last one *)
Fixpoint first_ok {A B} (f : A -> res B) (l : list A) (last : res B) : res B :=
  match l with
  | [] => last
  | a :: t => match f a with Ok b => Ok b | Err e => first_ok f t (Err e) end
  end.

(* NodeClaim.tryVolumeAlternative (empty topology, no DRA) *)
Definition nc_try (wk : list string) (cat : list itype) (relax : bool) (n : nclaim) (p : pod) (base : reqs) (alt : option reqs)
  : res (reqs * list string) :=
  let r' := match alt with
            | None => Ok base
            | Some a => if compatible wk base a then Ok (add base a) else Err EVolReqs
            end in
  match r' with
  | Err e => Err e
  | Ok r =>
      let total := rmerge (nc_requests n) (p_requests p) in
      match filter_its wk cat (nc_its n) r (p_key p) (p_ports p) (nc_groups n) total relax with
      | (_, _, Some FMinValues) => Err EMinValues
      | (_, _, Some FNone) => Err EFilter
      | (rem, unsat, None) => Ok ((if relax then set_minv r unsat else r), map it_name rem)
      end
  end.

(* NodeClaim.CanAdd for a pod without volume requirements: updated requirements, instance types.
   [all]: preference policy Respect (pod requirements include the heaviest preferred term). *)
Definition nc_can_add (wk : list string) (cat : list itype) (all relax : bool) (n : nclaim) (p : pod)
  : res (reqs * list string) :=
  if negb (tolerates_all (nc_taints n) (p_tols p)) then Err ETaints
  else
    let pr := pod_reqs all p in
    if negb (compatible wk (nc_reqs n) pr) then Err EReqs
    else
      let r := add (nc_reqs n) pr in
      let total := rmerge (nc_requests n) (p_requests p) in
      match filter_its wk cat (nc_its n) r (p_key p) (p_ports p) (nc_groups n) total relax with
      | (_, _, Some FMinValues) => Err EMinValues
      | (_, _, Some FNone) => Err EFilter
      | (rem, unsat, None) => Ok ((if relax then set_minv r unsat else r), map it_name rem)
      end.

(* NodeClaim.CanAdd in general: the volume-topology alternatives are tried in order *)
Definition nc_can_add_v (wk : list string) (cat : list itype) (all relax : bool) (n : nclaim) (p : pod) (vi : vinfo)
  : res (reqs * list string) :=
  if negb (tolerates_all (nc_taints n) (p_tols p)) then Err ETaints
  else
    let pr := pod_reqs all p in
    if negb (compatible wk (nc_reqs n) pr) then Err EReqs
    else first_ok (nc_try wk cat relax n p (add (nc_reqs n) pr)) (alt_list vi) (Err EVolReqs).

(* NodeClaim.Add *)
Definition nc_add (n : nclaim) (p : pod) (r : reqs) (its : list string) : nclaim :=
  mkNC (nc_taints n) r its (rmerge (nc_requests n) (p_requests p))
       (map (fun g => mkDG (dg_its g) (dg_overhead g) (uset (dg_ports g) (p_key p) (p_ports p))) (nc_groups n))
       (nc_pods n ++ [p]).

(* one scheduler step against this claim: CanAdd, and Add on success *)
Definition nc_step (wk : list string) (cat : list itype) (all relax : bool) (n : nclaim) (p : pod) : nclaim * res (reqs * list string) :=
  match nc_can_add wk cat all relax n p with
  | Ok (r, its) => (nc_add n p r its, Ok (r, its))
  | Err e => (n, Err e)
  end.

Definition nc_step_v (wk : list string) (cat : list itype) (all relax : bool) (n : nclaim) (p : pod) (vi : vinfo) : nclaim * res (reqs * list string) :=
  match nc_can_add_v wk cat all relax n p vi with
  | Ok (r, its) => (nc_add n p r its, Ok (r, its))
  | Err e => (n, Err e)
  end.

(* ------------------------------------------------------------------ ExistingNode *)
Record enode := mkEN {
  en_taints : list taint;
  en_reqs : reqs;
  en_remaining : rl;
  en_ports : usage;
  en_pods : list pod
}.

(* NewExistingNode: remaining = available - max(0, daemonResources - alreadyScheduledDaemonRequests) *)
Definition new_existing_remaining (available daemon_total ds_scheduled : rl) : rl :=
  let d := rsub_from daemon_total ds_scheduled in
  let d := map (fun kv => (fst kv, if snd kv <? 0 then 0 else snd kv)) d in
  rsub available d.

(* ExistingNode.CanAdd for a pod without volumes *)
Definition ex_can_add (all : bool) (n : enode) (p : pod) : res reqs :=
  if negb (tolerates_all (en_taints n) (p_tols p)) then Err ETaints
  else if conflicts (en_ports n) (p_key p) (p_ports p) then Err EPorts
  else if negb (fits (p_requests p) (en_remaining n)) then Err EResources
  else
    let pr := pod_reqs all p in
    if negb (compatible [] (en_reqs n) pr) then Err EReqs
    else Ok (add (en_reqs n) pr).

Definition ex_add (n : enode) (p : pod) (r : reqs) : enode :=
  mkEN (en_taints n) r (rsub_from (en_remaining n) (p_requests p)) (uset (en_ports n) (p_key p) (p_ports p)) (en_pods n ++ [p]).

(* ---- with volumes: the node's VolumeUsage (union of attached volumes, CSINode attach limits) beside the node ---- *)
Record venode := mkVEN { ve_node : enode; ve_vols : vols; ve_vlimits : list (string * Z) }.

Definition ex_try (base : reqs) (alt : option reqs) : res reqs :=
  match alt with
  | None => Ok base
  | Some a => if compatible [] base a then Ok (add base a) else Err EVolReqs
  end.

Definition ex_can_add_v (all : bool) (vn : venode) (p : pod) (vi : vinfo) : res reqs :=
  let n := ve_node vn in
  if negb (tolerates_all (en_taints n) (p_tols p)) then Err ETaints
  else if exceeds_limits (ve_vlimits vn) (ve_vols vn) (vi_vols vi) then Err EVolumes
  else if conflicts (en_ports n) (p_key p) (p_ports p) then Err EPorts
  else if negb (fits (p_requests p) (en_remaining n)) then Err EResources
  else
    let pr := pod_reqs all p in
    if negb (compatible [] (en_reqs n) pr) then Err EReqs
    else first_ok (ex_try (add (en_reqs n) pr)) (alt_list vi) (Err EVolReqs).

Definition ex_step_v (all : bool) (vn : venode) (p : pod) (vi : vinfo) : venode * res reqs :=
  match ex_can_add_v all vn p vi with
  | Ok r => (mkVEN (ex_add (ve_node vn) p r) (ve_vols vn ++ vi_vols vi) (ve_vlimits vn), Ok r)
  | Err e => (vn, Err e)
  end.

Definition ex_step (all : bool) (n : enode) (p : pod) : enode * res reqs :=
  match ex_can_add all n p with
  | Ok r => (ex_add n p r, Ok r)
  | Err e => (n, Err e)
  end.

(* ------------------------------------------------------------------ Preferences.Relax *)
Definition pns_toleration : toleration := mkTol "" "Exists" "" "PreferNoSchedule".
Definition tol_eqb (a b : toleration) : bool :=
  String.eqb (tl_key a) (tl_key b) && String.eqb (tl_eff a) (tl_eff b) &&
  String.eqb (tl_op a) (tl_op b) && String.eqb (tl_val a) (tl_val b).

Definition with_req (p : pod) (x : list term) : pod :=
  mkPod (p_key p) (p_sel p) x (p_pref p) (p_paff p) (p_panti p) (p_tsc p) (p_tols p) (p_ports p) (p_requests p).
Definition with_pref (p : pod) (x : list (Z * term)) : pod :=
  mkPod (p_key p) (p_sel p) (p_req p) x (p_paff p) (p_panti p) (p_tsc p) (p_tols p) (p_ports p) (p_requests p).
Definition with_paff (p : pod) (x : list (Z * string)) : pod :=
  mkPod (p_key p) (p_sel p) (p_req p) (p_pref p) x (p_panti p) (p_tsc p) (p_tols p) (p_ports p) (p_requests p).
Definition with_panti (p : pod) (x : list (Z * string)) : pod :=
  mkPod (p_key p) (p_sel p) (p_req p) (p_pref p) (p_paff p) x (p_tsc p) (p_tols p) (p_ports p) (p_requests p).
Definition with_tsc (p : pod) (x : list (string * bool)) : pod :=
  mkPod (p_key p) (p_sel p) (p_req p) (p_pref p) (p_paff p) (p_panti p) x (p_tols p) (p_ports p) (p_requests p).
Definition with_tols (p : pod) (x : list toleration) : pod :=
  mkPod (p_key p) (p_sel p) (p_req p) (p_pref p) (p_paff p) (p_panti p) (p_tsc p) x (p_ports p) (p_requests p).

(* removeTopologySpreadScheduleAnyway: first ScheduleAnyway entry is overwritten with the last, slice shrinks by one *)
Fixpoint tsc_remove (l : list (string * bool)) : option (list (string * bool)) :=
  match l with
  | [] => None
  | c :: t =>
      if snd c then Some (match t with [] => [] | _ => last t c :: removelast t end)
      else option_map (cons c) (tsc_remove t)
  end.

(* Preferences.Relax: the first relaxation that applies; None = nothing left to relax *)
Definition relax (tol_pns : bool) (p : pod) : option pod :=
  match p_req p with
  | _ :: (_ :: _) as rest => Some (with_req p rest)
  | _ =>
  match sort_desc (p_paff p) with
  | _ :: rest => Some (with_paff p rest)
  | [] =>
  match sort_desc (p_panti p) with
  | _ :: rest => Some (with_panti p rest)
  | [] =>
  match sort_desc (p_pref p) with
  | _ :: rest => Some (with_pref p rest)
  | [] =>
  match tsc_remove (p_tsc p) with
  | Some l => Some (with_tsc p l)
  | None =>
      if tol_pns && negb (existsb (fun t => tol_eqb t pns_toleration) (p_tols p))
      then Some (with_tols p (p_tols p ++ [pns_toleration]))
      else None
  end end end end end.

Fixpoint relax_n (tol_pns : bool) (n : nat) (p : pod) : pod :=
  match n with
  | O => p
  | S n' => match relax tol_pns p with Some p' => relax_n tol_pns n' p' | None => p end
  end.

(* ================================================================== SPECIFICATION SIDE *)
(* Kubernetes admissibility of a placement.  Nothing below refers to Compatible / Intersects /
   filterInstanceTypes; it is phrased with k8s_match (Base/K8s.v), sums and plain quantifiers. *)

(* what label a node may carry for a key whose effective requirement is [e]: any admitted value;
   no label at all only when nothing is admitted *)
Definition may_get (e : req) (lbl : option string) : Prop :=
  match lbl with
  | Some v => has e v = true
  | None => forall v, has e v = false
  end.

(* `key o vs` holds for every label the node may get *)
Definition sat_all (e : req) (o : oper) (vs : list string) : Prop :=
  forall lbl, may_get e lbl -> k8s_match o vs lbl = true.

(* [None]: nothing is known about the key (a well-known label no party constrains): the node may
   carry any value or none *)
Definition sat_all_o (e : option req) (o : oper) (vs : list string) : Prop :=
  match e with
  | Some e => sat_all e o vs
  | None => forall lbl, k8s_match o vs lbl = true
  end.

Definition expr_ok (eff : string -> option req) (x : expr) : Prop :=
  let '(k, o, vs) := x in sat_all_o (eff k) o vs.

(* node selector AND (no required terms OR some required term) *)
Definition labels_ok (eff : string -> option req) (p : pod) : Prop :=
  (forall kv, List.In kv (p_sel p) -> sat_all_o (eff (fst kv)) In [snd kv]) /\
  (p_req p = [] \/ exists t, List.In t (p_req p) /\ forall x, List.In x t -> expr_ok eff x).

(* kube-scheduler TaintToleration filter: only NoSchedule and NoExecute taints must be tolerated *)
Definition hard_effect (e : string) : bool := String.eqb e "NoSchedule" || String.eqb e "NoExecute".
Definition k8s_tolerated (ts : list taint) (tols : list toleration) : Prop :=
  forall ta, List.In ta ts -> hard_effect (t_eff ta) = true -> exists t, List.In t tols /\ tolerates_taint t ta = true.

(* kube-scheduler NodePorts: same protocol and port, and equal IP or one of them 0.0.0.0 *)
Definition k8s_port_clash (a b : hp) : Prop :=
  hp_proto a = hp_proto b /\ hp_port a = hp_port b /\
  (hp_ip a = hp_ip b \/ hp_ip a = "0.0.0.0" \/ hp_ip b = "0.0.0.0").

(* no port of pod [p] clashes with a port of a different pod of [ps] or with a daemon port *)
Definition ports_ok (ps : list pod) (dports : list hp) : Prop :=
  forall p, List.In p ps ->
    (forall q, List.In q ps -> p_key q <> p_key p ->
       forall a b, List.In a (p_ports p) -> List.In b (p_ports q) -> ~ k8s_port_clash a b) /\
    (forall a b, List.In a (p_ports p) -> List.In b dports -> ~ k8s_port_clash a b).

Definition rsum (ls : list rl) (k : string) : Z := fold_right (fun l acc => rget k l + acc) 0 ls.

(* summed requests of the pods plus the expected daemon overhead within allocatable, for every resource *)
Definition resources_ok (ps : list pod) (overhead alloc : rl) : Prop :=
  forall k, rsum (map p_requests ps) k + rget k overhead <= rget k alloc.

(* every volume of the pod is usable from the node: it has no topology terms, or some OR-ed term of its PV node
   affinity / StorageClass allowedTopologies holds for every label the node may get *)
Definition vol_zone_ok (eff : string -> option req) (vi : vinfo) : Prop :=
  forall terms, List.In terms (vi_volterms vi) ->
    terms = [] \/ exists t, List.In t terms /\ forall x, List.In x t -> expr_ok eff x.

(* distinct volumes per CSI driver within the node's attach limits (CSINode allocatable count) *)
Definition vol_limits_ok (limits : list (string * Z)) (vis : list vinfo) : Prop :=
  forall d l, List.In (d, l) limits -> vcount d (flat_map vi_vols vis) <= l.

(* a node view: effective label requirements, taints, allocatable, expected daemons *)
Record nview := mkView {
  v_eff : string -> option req;
  v_taints : list taint;
  v_alloc : rl;
  v_overhead : rl;
  v_dports : list hp
}.

(* [ps]: the pods with their ORIGINAL specs *)
Definition admissible (v : nview) (ps : list pod) : Prop :=
  (forall p, List.In p ps -> labels_ok (v_eff v) p /\ k8s_tolerated (v_taints v) (p_tols p)) /\
  ports_ok ps (v_dports v) /\
  resources_ok ps (v_overhead v) (v_alloc v).

(* ... and with volumes: [vlimits] the CSI attach limits of the node (CSINode), [ps] pods with their volume inputs *)
Definition admissible_v (v : nview) (vlimits : list (string * Z)) (ps : list vpod) : Prop :=
  admissible v (map fst ps) /\
  (forall vp, List.In vp ps -> vol_zone_ok (v_eff v) (snd vp)) /\
  vol_limits_ok vlimits (map snd ps).

(* relaxation may only: drop leading OR-ed required terms while one is left, drop preferred terms,
   drop ScheduleAnyway spread constraints, append the PreferNoSchedule toleration *)
From Coq Require Import Permutation.
Definition relaxation_ok (orig rel : pod) : Prop :=
  p_key rel = p_key orig /\ p_sel rel = p_sel orig /\ p_ports rel = p_ports orig /\ p_requests rel = p_requests orig /\
  (exists dropped, p_req orig = dropped ++ p_req rel) /\ (p_req orig <> [] -> p_req rel <> []) /\
  (forall x, List.In x (p_pref rel) -> List.In x (p_pref orig)) /\
  (forall x, List.In x (p_paff rel) -> List.In x (p_paff orig)) /\
  (forall x, List.In x (p_panti rel) -> List.In x (p_panti orig)) /\
  (forall x, List.In x (p_tsc rel) -> List.In x (p_tsc orig)) /\
  Permutation (filter (fun c => negb (snd c)) (p_tsc rel)) (filter (fun c => negb (snd c)) (p_tsc orig)) /\
  (exists extra, p_tols rel = p_tols orig ++ extra /\ forall t, List.In t extra -> t = pns_toleration).

(* ================================================================== BOOLEAN ORACLE *)
(* decision procedures for the specification above; Proofs.v shows them equivalent to the Props *)

Definition empty_b (e : req) : bool :=
  if compl e then (match gte e, lte e with Some x, Some y => y <? x | _, _ => false end)
  else negb (existsb (has e) (vals e)).

Definition num_arg (vs : list string) : option Z := match vs with [b] => atoi b | _ => None end.

(* every admitted VALUE satisfies `o vs` (e is not empty) *)
Definition all_values_b (e : req) (o : oper) (vs : list string) : bool :=
  if compl e then
    match o with
    | In => false
    | NotIn => forallb (fun v => negb (has e v)) vs
    | Exists => true
    | DoesNotExist => false
    | Gt => match num_arg vs, gte e with Some m, Some g => m <? g | _, _ => false end
    | Gte => match num_arg vs with
             | Some m => match gte e, lte e with
                         | Some g, _ => m <=? g
                         | None, Some _ => m =? min64        (* only numerals are admitted, all of them are >= MinInt64 *)
                         | None, None => false
                         end
             | None => false end
    | Lt => match num_arg vs, lte e with Some m, Some l => l <? m | _, _ => false end
    | Lte => match num_arg vs with
             | Some m => match lte e, gte e with
                         | Some l, _ => l <=? m
                         | None, Some _ => m =? max64
                         | None, None => false
                         end
             | None => false end
    end
  else forallb (fun v => negb (has e v) || k8s_match o vs (Some v)) (vals e).

Definition sat_all_b (e : req) (o : oper) (vs : list string) : bool :=
  if empty_b e then k8s_match o vs None else all_values_b e o vs.

(* with no knowledge about the key only a vacuous expression holds for every labelling *)
Definition sat_all_ob (e : option req) (o : oper) (vs : list string) : bool :=
  match e with
  | Some e => sat_all_b e o vs
  | None => match o, vs with NotIn, [] => true | _, _ => false end
  end.

Definition expr_ok_b (eff : string -> option req) (x : expr) : bool :=
  let '(k, o, vs) := x in sat_all_ob (eff k) o vs.

Definition labels_ok_b (eff : string -> option req) (p : pod) : bool :=
  forallb (fun kv => sat_all_ob (eff (fst kv)) In [snd kv]) (p_sel p) &&
  (match p_req p with [] => true | _ => existsb (fun t => forallb (expr_ok_b eff) t) (p_req p) end).

Definition k8s_tolerated_b (ts : list taint) (tols : list toleration) : bool :=
  forallb (fun ta => negb (hard_effect (t_eff ta)) || existsb (fun t => tolerates_taint t ta) tols) ts.

Definition k8s_port_clash_b (a b : hp) : bool :=
  String.eqb (hp_proto a) (hp_proto b) && (hp_port a =? hp_port b) &&
  (String.eqb (hp_ip a) (hp_ip b) || String.eqb (hp_ip a) "0.0.0.0" || String.eqb (hp_ip b) "0.0.0.0").

Definition ports_ok_gen_b (ps qs : list pod) (dports : list hp) : bool :=
  forallb (fun p =>
    forallb (fun q => String.eqb (p_key q) (p_key p) ||
       forallb (fun a => forallb (fun b => negb (k8s_port_clash_b a b)) (p_ports q)) (p_ports p)) qs &&
    forallb (fun a => forallb (fun b => negb (k8s_port_clash_b a b)) dports) (p_ports p)) ps.
Definition ports_ok_b (ps : list pod) (dports : list hp) : bool := ports_ok_gen_b ps ps dports.

Definition rkeys (ls : list rl) : list string := flat_map (map fst) ls.

Definition resources_ok_b (ps : list pod) (overhead alloc : rl) : bool :=
  forallb (fun k => rsum (map p_requests ps) k + rget k overhead <=? rget k alloc)
          (rkeys (overhead :: alloc :: map p_requests ps)) .

Definition vol_zone_ok_b (eff : string -> option req) (vi : vinfo) : bool :=
  forallb (fun terms => match terms with [] => true | _ => existsb (fun t => forallb (expr_ok_b eff) t) terms end) (vi_volterms vi).

Definition vol_limits_ok_b (limits : list (string * Z)) (vis : list vinfo) : bool :=
  forallb (fun dl => vcount (fst dl) (flat_map vi_vols vis) <=? snd dl) limits.

Definition admissible_b (v : nview) (ps : list pod) : bool :=
  forallb (fun p => labels_ok_b (v_eff v) p && k8s_tolerated_b (v_taints v) (p_tols p)) ps &&
  ports_ok_b ps (v_dports v) && resources_ok_b ps (v_overhead v) (v_alloc v).

Definition admissible_vb (v : nview) (vlimits : list (string * Z)) (ps : list vpod) : bool :=
  admissible_b v (map fst ps) && forallb (fun vp : vpod => vol_zone_ok_b (v_eff v) (snd vp)) ps && vol_limits_ok_b vlimits (map snd ps).

(* ---- expected daemons: a daemon MAY run on the node when some labelling the node can get
   satisfies its selector and one of its required terms and its taints are tolerated (over-approximation
   per key) ---- *)
(* a label whose requirement is a complement (NotIn / Exists / bounds) is resolved by the provider or, for a custom
   key, by Karpenter to a decimal numeral inside the bounds: only canonical numerals can be hit by an `In` *)
Definition some_value_b (e : req) (o : oper) (vs : list string) : bool :=
  if compl e then
    match o with
    | In => existsb (fun v => has e v && match dec_int v with Some _ => true | None => false end) vs
    | NotIn => true
    | Exists => true
    | DoesNotExist => false
    | Gt => match num_arg vs with Some m => (match lte e with Some l => m <? l | None => m <? max64 end) | None => false end
    | Gte => match num_arg vs with Some m => (match lte e with Some l => m <=? l | None => true end) | None => false end
    | Lt => match num_arg vs with Some m => (match gte e with Some g => g <? m | None => min64 <? m end) | None => false end
    | Lte => match num_arg vs with Some m => (match gte e with Some g => g <=? m | None => true end) | None => false end
    end
  else existsb (fun v => has e v && k8s_match o vs (Some v)) (vals e).

Definition may_sat_b (e : option req) (o : oper) (vs : list string) : bool :=
  match e with
  | Some e => if empty_b e then k8s_match o vs None else some_value_b e o vs
  | None => true
  end.

Definition may_run_b (eff : string -> option req) (ts : list taint) (d : pod) : bool :=
  k8s_tolerated_b ts (p_tols d) &&
  forallb (fun kv => may_sat_b (eff (fst kv)) In [snd kv]) (p_sel d) &&
  (match p_req d with [] => true
   | _ => existsb (fun t => forallb (fun x : expr => let '(k, o, vs) := x in may_sat_b (eff k) o vs) t) (p_req d) end).

Definition expected_daemons (eff : string -> option req) (ts : list taint) (ds : list pod) : list pod :=
  filter (may_run_b eff ts) ds.

Definition roverhead (ds : list pod) : rl := fold_left (fun acc d => rmerge acc (p_requests d)) ds [].

(* ---- effective label requirement of a launch option: claim requirements, instance type, offering ---- *)
Definition inter_o (a : option req) (b : option req) : option req :=
  match a, b with
  | Some x, Some y => Some (intersection x y)
  | Some x, None => Some x
  | None, b => b
  end.

Definition eff_new (wk : list string) (r it_r of_r : reqs) (k0 : string) : option req :=
  let k := nk k0 in     (* a deprecated key carries the same value as the label it aliases (the kubelet sets both) *)
  match inter_o (find k r) (inter_o (find k it_r) (find k of_r)) with
  | Some e => Some e
  | None => if mem k wk then None else Some (req_dne None)      (* a custom label nobody defines is absent *)
  end.

Definition eff_labels (labels : list (string * string)) (k0 : string) : option req :=
  let k := if mem k0 (map fst labels) then k0 else nk k0 in
  match List.find (fun kv => String.eqb k (fst kv)) labels with
  | Some kv => Some (new_req In None [snd kv])
  | None => Some (req_dne None)
  end.

Record offer := mkOffer { of_reqs : reqs; of_alloc : rl }.      (* an AVAILABLE offering and the allocatable it yields *)
Record lopt := mkOpt { o_name : string; o_reqs : reqs; o_offers : list offer }.

Definition view_new (wk : list string) (r : reqs) (ts : list taint) (o : lopt) (f : offer) (daemons : list pod) : nview :=
  let eff := eff_new wk r (o_reqs o) (of_reqs f) in
  let ds := expected_daemons eff ts daemons in
  mkView eff ts (of_alloc f) (roverhead ds) (flat_map p_ports ds).

(* for EVERY remaining instance type SOME available offering compatible with the claim's requirements
   under which the placement of all pods is admissible *)
Definition claim_admissible_b (wk : list string) (r : reqs) (ts : list taint) (opts : list lopt)
           (pods daemons : list pod) : bool :=
  match opts with [] => false | _ =>
  forallb (fun o => existsb (fun f => compatible wk r (of_reqs f) && admissible_b (view_new wk r ts o f daemons) pods)
                            (o_offers o)) opts end.

(* an existing node: labels are known; [bound] are the pods already on it (their requests count),
   [daemons] the daemonsets without a pod on the node yet *)
Definition view_existing (labels : list (string * string)) (ts : list taint) (alloc : rl) (daemons : list pod) : nview :=
  let eff := eff_labels labels in
  let ds := expected_daemons eff ts daemons in
  mkView eff ts alloc (roverhead ds) (flat_map p_ports ds).

(* bound pods are facts (ports and requests count, their own constraints are not re-judged) *)
Definition existing_admissible_b (labels : list (string * string)) (ts : list taint) (alloc : rl)
           (bound placed daemons : list pod) : bool :=
  let v := view_existing labels ts alloc daemons in
  forallb (fun p => labels_ok_b (v_eff v) p && k8s_tolerated_b (v_taints v) (p_tols p)) placed &&
  ports_ok_gen_b placed (placed ++ bound) (v_dports v) && resources_ok_b (placed ++ bound) (v_overhead v) (v_alloc v).

(* ---- with volumes ---- *)
(* for a new claim no CSINode exists yet: no attach limit is known *)
Definition claim_admissible_vb (wk : list string) (r : reqs) (ts : list taint) (opts : list lopt)
           (pods : list vpod) (daemons : list pod) : bool :=
  match opts with [] => false | _ =>
  forallb (fun o => existsb (fun f => compatible wk r (of_reqs f) && admissible_vb (view_new wk r ts o f daemons) [] pods)
                            (o_offers o)) opts end.

Definition existing_admissible_vb (labels : list (string * string)) (ts : list taint) (alloc : rl) (vlimits : list (string * Z))
           (bound placed : list vpod) (daemons : list pod) : bool :=
  existing_admissible_b labels ts alloc (map fst bound) (map fst placed) daemons &&
  forallb (fun vp : vpod => vol_zone_ok_b (eff_labels labels) (snd vp)) placed &&
  vol_limits_ok_b vlimits (map snd (placed ++ bound)).
