(* C01 — correspondence check and oracle, evaluated by vm_compute on what the Go harness observed on
   the real code (harness/cmd/c01).  "corr:<function>": the model disagrees with the implementation;
   "oracle:<what>": the Kubernetes admissibility oracle is false on a placement the implementation made. *)
From Coq Require Import ZArith String List Bool.
From KV Require Import C01.Model.
Import ListNotations.
Open Scope string_scope.
Open Scope list_scope.
Open Scope Z_scope.

(* ---------------------------------------------------------------- equalities on observations *)
Definition optZ_eqb (a b : option Z) : bool :=
  match a, b with Some x, Some y => x =? y | None, None => true | _, _ => false end.
Definition set_eqb (a b : list string) : bool :=
  forallb (fun x => mem x b) a && forallb (fun x => mem x a) b.
Definition req_eqb (a b : req) : bool :=
  Bool.eqb (compl a) (compl b) && set_eqb (vals a) (vals b) && optZ_eqb (gte a) (gte b) &&
  optZ_eqb (lte a) (lte b) && optZ_eqb (minv a) (minv b).
(* Go map vs association list: same keys, same requirement per key *)
Definition reqs_eqb (a b : reqs) : bool :=
  set_eqb (map fst a) (map fst b) &&
  forallb (fun kr => match find (fst kr) b with Some r => req_eqb (snd kr) r | None => false end) a.
Definition rl_eqb (a b : rl) : bool :=
  forallb (fun k => rget k a =? rget k b) (map fst a ++ map fst b).
(* presence matters for Fits' negative scan only; remaining resources are compared with presence *)
Definition rl_eqb_strict (a b : rl) : bool := rl_eqb a b && set_eqb (map fst a) (map fst b).

Fixpoint list_eqb {A} (f : A -> A -> bool) (a b : list A) : bool :=
  match a, b with
  | [], [] => true
  | x :: a', y :: b' => f x y && list_eqb f a' b'
  | _, _ => false
  end.
Definition oper_eq := oper_eqb.
Definition expr_eqb (a b : expr) : bool :=
  let '(k, o, vs) := a in let '(k', o', vs') := b in
  String.eqb k k' && oper_eq o o' && list_eqb String.eqb vs vs'.
Definition term_eqb := list_eqb expr_eqb.
Definition wterm_eqb (a b : Z * term) : bool := (fst a =? fst b) && term_eqb (snd a) (snd b).
Definition wid_eqb (a b : Z * string) : bool := (fst a =? fst b) && String.eqb (snd a) (snd b).
Definition tsc_eqb (a b : string * bool) : bool := String.eqb (fst a) (fst b) && Bool.eqb (snd a) (snd b).
(* the part of a pod spec that Relax may touch *)
Definition pod_eqb (a b : pod) : bool :=
  list_eqb term_eqb (p_req a) (p_req b) && list_eqb wterm_eqb (p_pref a) (p_pref b) &&
  list_eqb wid_eqb (p_paff a) (p_paff b) && list_eqb wid_eqb (p_panti a) (p_panti b) &&
  list_eqb tsc_eqb (p_tsc a) (p_tsc b) && list_eqb tol_eqb (p_tols a) (p_tols b).

Definition err_eqb (a b : err) : bool :=
  match a, b with
  | ETaints, ETaints | EReqs, EReqs | EFilter, EFilter | EMinValues, EMinValues
  | EPorts, EPorts | EResources, EResources | EVolumes, EVolumes | EVolReqs, EVolReqs => true
  | _, _ => false
  end.

(* ---------------------------------------------------------------- cases *)
Inductive nobs := NOk (r : reqs) (its : list string) (requests : rl) | NErr (e : err).
Inductive eobs := EOk (r : reqs) (remaining : rl) | EErr (e : err).

Inductive case :=
| CTol (ts : list taint) (tols : list toleration) (ok : bool)               (* Taints.ToleratesPod == nil *)
| CPorts (u : usage) (who : string) (ports : list hp) (conflict : bool)     (* HostPortUsage.Conflicts != nil *)
| CFits (cand total : rl) (ok : bool)                                       (* resources.Fits *)
| CPodReqs (all : bool) (p : pod) (obs : reqs)                              (* NewPodRequirements / NewStrictPodRequirements *)
| CRelax (tol_pns : bool) (p : pod) (obs : list pod)                        (* pod after each successful Preferences.Relax *)
| CNewEx (available daemon_total ds_scheduled remaining : rl)               (* NewExistingNode remaining resources *)
| CVolLimits (limits : list (string * Z)) (used new : vols) (exceeds : bool) (* VolumeUsage.ExceedsLimits != nil *)
| CVolAlts (volumes : list (bool * list term)) (obs : list reqs)            (* VolumeTopology.GetRequirements *)
| CNC (wk : list string) (cat : list itype) (all : bool) (n0 : nclaim) (steps : list (vpod * bool * nobs))
| CEX (all : bool) (n0 : venode) (steps : list (vpod * eobs))
| CFilter (wk : list string) (cat : list itype) (elig : list string) (r : reqs) (who : string) (ports : list hp)
          (groups : list dgroup) (total : rl) (relax : bool) (names : list string) (unsat : list (string * Z)) (e : option bool)
| BNew (wk : list string) (r : reqs) (ts : list taint) (opts : list lopt) (pods : list vpod) (daemons : list pod)
| BEx (labels : list (string * string)) (ts : list taint) (alloc : rl) (vlimits : list (string * Z)) (bound placed : list vpod) (daemons : list pod).

Definition tag (ok : bool) (t : string) : list string := if ok then [] else [t].

(* observed relaxation chain: every element is the model's next relaxation, and the chain is complete *)
Fixpoint relax_chain (tol_pns : bool) (fuel : nat) (p : pod) (obs : list pod) : bool :=
  match obs with
  | [] => match relax tol_pns p with None => true | Some _ => false end
  | o :: obs' =>
      match fuel, relax tol_pns p with
      | S f, Some p' => pod_eqb p' o && relax_chain tol_pns f p' obs'
      | _, _ => false
      end
  end.

Fixpoint nc_run (wk : list string) (cat : list itype) (all : bool) (n : nclaim) (steps : list (vpod * bool * nobs)) : bool :=
  match steps with
  | [] => true
  | (vp, rx, o) :: rest =>
      let '(n', out) := nc_step_v wk cat all rx n (fst vp) (snd vp) in
      (match out, o with
       | Ok (r, its), NOk r' its' rq' => reqs_eqb r r' && set_eqb its its' && rl_eqb (nc_requests n') rq'
       | Err e, NErr e' => err_eqb e e'
       | _, _ => false
       end) && nc_run wk cat all n' rest
  end.

Fixpoint ex_run (all : bool) (n : venode) (steps : list (vpod * eobs)) : bool :=
  match steps with
  | [] => true
  | (vp, o) :: rest =>
      let '(n', out) := ex_step_v all n (fst vp) (snd vp) in
      (match out, o with
       | Ok r, EOk r' rem' => reqs_eqb r r' && rl_eqb (en_remaining (ve_node n')) rem'
       | Err e, EErr e' => err_eqb e e'
       | _, _ => false
       end) && ex_run all n' rest
  end.

Definition unsat_eqb (a b : list (string * Z)) : bool :=
  set_eqb (map fst a) (map fst b) && forallb (fun kv => rget (fst kv) a =? rget (fst kv) b) a.

Definition check_case (c : case) : list string :=
  match c with
  | CTol ts tols ok => tag (Bool.eqb (tolerates_all ts tols) ok) "corr:Taints.ToleratesPod"
  | CPorts u who ports cf => tag (Bool.eqb (conflicts u who ports) cf) "corr:HostPortUsage.Conflicts"
  | CFits cand total ok => tag (Bool.eqb (fits cand total) ok) "corr:resources.Fits"
  | CPodReqs all p obs => tag (reqs_eqb (pod_reqs all p) obs) "corr:NewPodRequirements"
  | CRelax tp p obs => tag (relax_chain tp (S (length obs)) p obs) "corr:Preferences.Relax"
  | CNewEx av dt ds rem => tag (rl_eqb_strict (new_existing_remaining av dt ds) rem) "corr:NewExistingNode.remaining"
  | CVolLimits limits used new ex => tag (Bool.eqb (exceeds_limits limits used new) ex) "corr:VolumeUsage.ExceedsLimits"
  | CVolAlts volumes obs => tag (list_eqb reqs_eqb (pod_vol_alts volumes) obs) "corr:VolumeTopology.GetRequirements"
  | CNC wk cat all n0 steps => tag (nc_run wk cat all n0 steps) "corr:NodeClaim.CanAdd/Add"
  | CEX all n0 steps => tag (ex_run all n0 steps) "corr:ExistingNode.CanAdd/Add"
  | CFilter wk cat elig r who ports groups total relax names unsat e =>
      let '(rem, us, fe) := filter_its wk cat elig r who ports groups total relax in
      tag (set_eqb (map it_name rem) names && unsat_eqb us unsat &&
           match fe, e with
           | None, None => true
           | Some FMinValues, Some true => true
           | Some FNone, Some false => true
           | _, _ => false
           end) "corr:filterInstanceTypesByRequirements"
  | BNew wk r ts opts pods daemons => tag (claim_admissible_vb wk r ts opts pods daemons) "oracle:new-nodeclaim-placement-inadmissible"
  | BEx labels ts alloc vlimits bound placed daemons =>
      tag (existing_admissible_vb labels ts alloc vlimits bound placed daemons) "oracle:existing-node-placement-inadmissible"
  end.

Definition check_all (cs : list (Z * case)) : list (Z * string) :=
  flat_map (fun ic => map (fun t => (fst ic, t)) (check_case (snd ic))) cs.
