(* C08 — the boolean clauses evaluated by the oracle are equivalent to the Prop clauses of the
   specification (Model.v, last section). *)
From KV Require Import C08.Model.

Lemma mem_In : forall x l, mem x l = true <-> In x l.
Proof.
  induction l as [|y t IH]; simpl.
  - split; [discriminate | tauto].
  - rewrite orb_true_iff, Nat.eqb_eq, IH. split; intros [H|H]; auto.
Qed.

Lemma mem_false : forall x l, mem x l = false <-> ~ In x l.
Proof.
  intros x l. rewrite <- mem_In. destruct (mem x l); split; congruence.
Qed.

Lemma is_nil_eq : forall A (l : list A), is_nil l = true <-> l = [].
Proof. destruct l; simpl; split; congruence. Qed.

Lemma forallb_seq : forall (f : nat -> bool) n,
  forallb f (seq 0 n) = true <-> forall j, j < n -> f j = true.
Proof.
  intros f n. rewrite forallb_forall. split; intros H j Hj.
  - apply H. apply in_seq. lia.
  - apply H. apply in_seq in Hj. lia.
Qed.

Lemma nodup_b_NoDup : forall l, nodup_b l = true <-> NoDup l.
Proof.
  induction l as [|a t IH]; simpl.
  - split; [constructor | reflexivity].
  - rewrite andb_true_iff, negb_true_iff, mem_false, IH. split.
    + intros [H1 H2]. constructor; assumption.
    + intros H. inversion H; subst. split; assumption.
Qed.

Lemma list_eqb_eq : forall A (eqb : A -> A -> bool),
  (forall a b, eqb a b = true <-> a = b) -> forall l1 l2, list_eqb eqb l1 l2 = true <-> l1 = l2.
Proof.
  intros A eqb H. induction l1 as [|a t IH]; destruct l2 as [|b t2]; simpl; try (split; congruence).
  rewrite andb_true_iff, H, IH. split.
  - intros [-> ->]. reflexivity.
  - intros E. inversion E. auto.
Qed.

Lemma cmd_eqb_eq : forall a b, cmd_eqb a b = true <-> a = b.
Proof.
  intros [i1 c1 l1 d1 t1] [i2 c2 l2 d2 t2]. unfold cmd_eqb. simpl. split.
  - intros H.
    apply andb_true_iff in H. destruct H as [H H5].
    apply andb_true_iff in H. destruct H as [H H4].
    apply andb_true_iff in H. destruct H as [H H3].
    apply andb_true_iff in H. destruct H as [H1 H2].
    apply Nat.eqb_eq in H1. apply Z.eqb_eq in H5.
    destruct (list_eq_dec Nat.eq_dec c1 c2); [|discriminate].
    destruct (list_eq_dec bool_dec l1 l2); [|discriminate].
    destruct (list_eq_dec bool_dec d1 d2); [|discriminate].
    subst. reflexivity.
  - intros E. inversion E; subst. rewrite Nat.eqb_refl, Z.eqb_refl.
    destruct (list_eq_dec Nat.eq_dec c2 c2); [|congruence].
    destruct (list_eq_dec bool_dec l2 l2); [|congruence].
    destruct (list_eq_dec bool_dec d2 d2); [|congruence].
    reflexivity.
Qed.

Lemma bool_eqb_eq : forall a b, Bool.eqb a b = true <-> a = b.
Proof. intros a b. split; [apply eqb_prop | intros ->; apply eqb_reflx]. Qed.

Lemma opt_nat_eqb_eq : forall a b, opt_nat_eqb a b = true <-> a = b.
Proof.
  intros [x|] [y|]; simpl; try (split; congruence).
  rewrite Nat.eqb_eq. split; congruence.
Qed.

Lemma in_deletes : forall e n a t, In (n, a, t) (deletes e) <-> In (EDelete n a t) e.
Proof.
  intros e n a t. unfold deletes. rewrite in_flat_map. split.
  - intros [x [Hx Hin]]. destruct x; simpl in Hin; try contradiction.
    destruct Hin as [E|[]]. inversion E; subst. assumption.
  - intros H. exists (EDelete n a t). split; [assumption | simpl; auto].
Qed.

(* ---------------------------------------------------------------- the clauses *)

Lemma del_after_init_reflect : forall x, del_after_init_b x = true <-> del_after_init x.
Proof.
  intros [[pre o] ob]. unfold del_after_init_b, del_after_init. rewrite forallb_forall. split.
  - intros H n a t Hin. specialize (H (n, a, t) Hin). apply andb_true_iff in H. destruct H as [Ht H].
    simpl in Ht. split; [assumption|].
    apply existsb_exists in H. destruct H as [c [Hc Hb]].
    apply andb_true_iff in Hb. destruct Hb as [Hm Hf]. simpl in Hm.
    exists c. split; [assumption|]. split; [apply mem_In; assumption|].
    apply forallb_seq. assumption.
  - intros H [[n a] t] Hin. destruct (H n a t Hin) as [Ht [c [Hc [Hm Hf]]]].
    apply andb_true_iff. split; [assumption|].
    apply existsb_exists. exists c. split; [assumption|].
    apply andb_true_iff. split; [apply mem_In; assumption | apply forallb_seq; assumption].
Qed.

Lemma del_while_ready_reflect : forall x, del_while_ready_b x = true <-> del_while_ready x.
Proof.
  intros [[pre o] ob]. unfold del_while_ready_b, del_while_ready. rewrite forallb_forall. split.
  - intros H n a t Hin. apply (H (n, a, t) Hin).
  - intros H [[n a] t] Hin. simpl. apply (H n a t Hin).
Qed.

Lemma is_failed_eq : forall r, is_failed r = true <-> r = RFailed.
Proof. destruct r; simpl; split; congruence. Qed.

Lemma failed_deletes_nothing_reflect : forall x, failed_deletes_nothing_b x = true <-> failed_deletes_nothing x.
Proof.
  intros [[pre o] ob]. unfold failed_deletes_nothing_b, failed_deletes_nothing.
  rewrite orb_true_iff, negb_true_iff, andb_true_iff, is_nil_eq. split.
  - intros [Hn | [Hd Hc]] Hr.
    + apply is_failed_eq in Hr. congruence.
    + split; [assumption|]. intros n c Hrn Hin d Hd'. rewrite Hrn in Hc.
      rewrite forallb_forall in Hc. specialize (Hc c Hin). rewrite forallb_forall in Hc.
      specialize (Hc d Hd'). destruct d; simpl in Hc; congruence.
  - intros H. destruct (is_failed (o_ret ob)) eqn:E; [right | left; reflexivity].
    apply is_failed_eq in E. destruct (H E) as [Hd Hc]. split; [assumption|].
    destruct (recon_node o) as [n|]; [|reflexivity].
    apply forallb_forall. intros c Hin. apply forallb_forall. intros d Hd'.
    rewrite (Hc n c eq_refl Hin d Hd'). reflexivity.
Qed.

Lemma failed_rolls_back_reflect : forall x, failed_rolls_back_b x = true <-> failed_rolls_back x.
Proof.
  intros [[pre o] ob]. unfold failed_rolls_back_b, failed_rolls_back.
  rewrite orb_true_iff, negb_true_iff. split.
  - intros [Hn | Hc] Hr n c m Hrn Hin Hm.
    + apply is_failed_eq in Hr. congruence.
    + rewrite Hrn in Hc. rewrite forallb_forall in Hc. specialize (Hc c Hin).
      rewrite forallb_forall in Hc. specialize (Hc m Hm). apply andb_true_iff in Hc.
      destruct Hc as [H1 H2]. apply negb_true_iff in H1. split; [assumption|].
      destruct (sn_owner (o_snap ob) m); [discriminate | reflexivity].
  - intros H. destruct (is_failed (o_ret ob)) eqn:E; [right | left; reflexivity].
    apply is_failed_eq in E. destruct (recon_node o) as [n|]; [|reflexivity].
    apply forallb_forall. intros c Hin. apply forallb_forall. intros m Hm.
    destruct (H E n c m eq_refl Hin Hm) as [H1 H2]. rewrite H1, H2. reflexivity.
Qed.

Lemma start_failure_inert_reflect : forall x, start_failure_inert_b x = true <-> start_failure_inert x.
Proof.
  intros [[pre o] ob]. unfold start_failure_inert_b, start_failure_inert.
  rewrite orb_true_iff, negb_true_iff, !andb_true_iff, is_nil_eq,
          (list_eqb_eq _ cmd_eqb cmd_eqb_eq), (list_eqb_eq _ Bool.eqb bool_eqb_eq). split.
  - intros [Hn | [[H1 H2] H3]] Hr; [congruence | auto].
  - intros H. destruct (is_start_error (o_ret ob)); [right | left; reflexivity].
    destruct (H eq_refl) as [H1 [H2 H3]]. auto.
Qed.

Lemma cleanup_restores_reflect : forall x, cleanup_restores_b x = true <-> cleanup_restores x.
Proof.
  intros [[pre o] ob]. unfold cleanup_restores_b, cleanup_restores.
  rewrite orb_true_iff, negb_true_iff, forallb_seq. split.
  - intros [Hn | H] Hc n Hlt Ho Hm Hg Hp; [congruence|].
    specialize (H n Hlt). rewrite Ho, Hm, Hg, Hp in H. simpl in H.
    apply andb_true_iff in H. destruct H as [H1 H2]. apply negb_true_iff in H1. apply negb_true_iff in H2. auto.
  - intros H. destruct (clean_pass o (o_ret ob)); [right | left; reflexivity].
    intros n Hlt. destruct (sn_owner pre n) eqn:Ho; [reflexivity|].
    destruct (sn_mview pre n) eqn:Hm; [reflexivity|].
    destruct (n_gone (sn_fact pre n)) eqn:Hg; [reflexivity|].
    destruct (obj_present (sn_fact pre n)) eqn:Hp; [|reflexivity]. simpl.
    destruct (H eq_refl n Hlt Ho Hm Hg Hp) as [H1 H2]. rewrite H1, H2. reflexivity.
Qed.

Lemma is_started_eq : forall r, is_started r = true <-> r = Started.
Proof. destruct r; simpl; split; congruence. Qed.

Lemma one_cmd_per_node_reflect : forall x, one_cmd_per_node_b x = true <-> one_cmd_per_node x.
Proof.
  intros [[pre o] ob]. unfold one_cmd_per_node_b, one_cmd_per_node.
  rewrite !andb_true_iff, nodup_b_NoDup, forallb_seq, orb_true_iff, negb_true_iff. split.
  - intros [[H1 H2] H3]. split; [assumption|]. split.
    + intros n Hn. apply opt_nat_eqb_eq. apply H2. assumption.
    + intros Hr n Hin. destruct H3 as [H3|H3].
      * apply is_started_eq in Hr. congruence.
      * rewrite forallb_forall in H3. specialize (H3 n Hin). destruct (sn_owner pre n); [discriminate|reflexivity].
  - intros [H1 [H2 H3]]. split; [split; [assumption|]|].
    + intros n Hn. apply opt_nat_eqb_eq. apply H2. assumption.
    + destruct (is_started (o_ret ob)) eqn:E; [right | left; reflexivity].
      apply is_started_eq in E. apply forallb_forall. intros n Hin. rewrite (H3 E n Hin). reflexivity.
Qed.

Lemma is_dropped_eq : forall r, is_dropped r = true <-> r = RDropped.
Proof. destruct r; simpl; split; congruence. Qed.

Lemma cmd_reachable_reflect : forall x, cmd_reachable_b x = true <-> cmd_reachable x.
Proof.
  intros [[pre o] ob]. unfold cmd_reachable_b, cmd_reachable.
  rewrite orb_true_iff, negb_true_iff. split.
  - intros [Hn | Hc] Hr n c m Hrn Hin Hm.
    + apply is_dropped_eq in Hr. congruence.
    + rewrite Hrn in Hc. rewrite forallb_forall in Hc. specialize (Hc c Hin).
      rewrite forallb_forall in Hc. apply Hc. assumption.
  - intros H. destruct (is_dropped (o_ret ob)) eqn:E; [right | left; reflexivity].
    apply is_dropped_eq in E. destruct (recon_node o) as [n|]; [|reflexivity].
    apply forallb_forall. intros c Hin. apply forallb_forall. intros m Hm.
    apply (H E n c m eq_refl Hin Hm).
Qed.

Lemma is_busy_eq : forall r, is_busy r = true <-> r = ErrBusy.
Proof. destruct r; simpl; split; congruence. Qed.

Lemma rejected_start_inert_reflect : forall x, rejected_start_inert_b x = true <-> rejected_start_inert x.
Proof.
  intros [[pre o] ob]. unfold rejected_start_inert_b, rejected_start_inert.
  rewrite andb_true_iff, !orb_true_iff, !negb_true_iff, !andb_true_iff, is_nil_eq,
          (list_eqb_eq _ opt_nat_eqb opt_nat_eqb_eq), !(list_eqb_eq _ Bool.eqb bool_eqb_eq), (list_eqb_eq _ cmd_eqb cmd_eqb_eq).
  split.
  - intros [H1 H2]. split.
    + intros Hr. destruct H1 as [H1|H1]; [congruence | assumption].
    + intros Hr. destruct H2 as [H2|H2]; [apply is_busy_eq in Hr; congruence | tauto].
  - intros [H1 H2]. split.
    + destruct (is_start_error (o_ret ob)); [right; auto | left; reflexivity].
    + destruct (is_busy (o_ret ob)) eqn:E; [right | left; reflexivity].
      apply is_busy_eq in E. specialize (H2 E). tauto.
Qed.
