(* C08 — model of the orchestration queue of pkg/controllers/disruption/queue.go
   (StartCommand, markDisrupted, createReplacementNodeClaims, Reconcile, waitOrTerminate,
   CompleteCommand, HasAny, GetMaxRetryDuration), of the stale taint/condition cleanup at the head
   of Controller.Reconcile (controller.go), of state.RequireNoScheduleTaint /
   state.ClearNodeClaimsCondition (statenode.go) under client-go's retry.OnError, and of the pieces of
   state.Cluster the protocol reads and writes (MarkForDeletion, UnmarkForDeletion,
   StateNode.MarkedForDeletion, NodeClaimExists, Synced).

   Granularity: one StartCommand / Queue.Reconcile / controller cleanup / environment event is one
   atomic step (the methods serialise on the queue's and the cluster's mutexes; goroutine
   interleavings inside workqueue.ParallelizeUntil are independent per candidate and are represented
   by processing the candidates in list order).  Candidates are Karpenter-managed, initialized nodes
   with a Node object (what GetCandidates produces, C07).

   Executable definitions only; the specification clauses (Prop) and their boolean reflections are
   at the end; proofs are in C08/Proofs.v. *)
From Coq Require Export List Arith Bool ZArith Lia.
Export ListNotations.
Open Scope nat_scope.

(* ------------------------------------------------------------------ API faults *)

(* A fault is attached to one call site for the duration of one step. [OnGet]: the read inside the
   retried closure; [OnWrite]: the Patch / Status().Patch / Delete itself. [KFail a]: the first [a]
   attempts fail with a retriable (non-NotFound) error. *)
Inductive site := OnGet | OnWrite.
Inductive fkind := KNotFound | KFail (attempts : nat).
Definition fault := (site * fkind)%type.
Definition fplan := list (nat * fault).           (* keyed by node id *)
Inductive gfault := GErr | GNotFound.             (* on the Get of a replacement in waitOrTerminate *)

Fixpoint lookup {A} (l : list (nat * A)) (k : nat) : option A :=
  match l with
  | [] => None
  | (k', v) :: t => if k' =? k then Some v else lookup t k
  end.

Fixpoint mem (x : nat) (l : list nat) : bool :=
  match l with [] => false | y :: t => (x =? y) || mem x t end.

(* retry.DefaultBackoff.Steps *)
Definition attempt_limit : nat := 4.

Inductive outcome := Applied | Skipped | Failed.

(* retry.OnError(DefaultBackoff, retriable = not NotFound, closure) followed by IgnoreNotFound:
   NotFound ends the call without an error and without an effect; another error is retried and
   surfaces only if all [attempt_limit] attempts fail.  A fault on the write cannot fire when the
   closure finds nothing to write ([needs_write] = false). *)
Definition call_result (needs_write : bool) (f : option fault) : outcome :=
  match f with
  | None => Applied
  | Some (st, k) =>
      if (match st with OnWrite => negb needs_write | OnGet => false end) then Applied
      else match k with
           | KNotFound => Skipped
           | KFail a => if a <? attempt_limit then Applied else Failed
           end
  end.

(* ------------------------------------------------------------------ state *)

(* one candidate-capable node: API facts (taint on the Node, DisruptionReason condition and
   deletionTimestamp on the NodeClaim) and cluster-state facts (markedForDeletion field, and whether
   the cached NodeClaim copy already shows the deletionTimestamp) *)
(* the Node object of a candidate-capable node: present; present with a deletionTimestamp (the termination
   controller is at work); gone from the API and from the cluster state while the NodeClaim remains *)
Inductive nobj := NPresent | NDeleting | NGone.

Record node := mkNode { n_taint : bool; n_cond : bool; n_del : bool; n_mark : bool; n_stdel : bool;
                        n_gone : bool;  (* Node and NodeClaim are gone from the API and from the cluster state *)
                        n_obj : nobj }.

(* one replacement NodeClaim: exists in the API, has (ever) reported Initialized, has a provider id,
   is known to the cluster state (Cluster.NodeClaimExists) *)
Record repl := mkRepl { r_exists : bool; r_init : bool; r_launched : bool; r_st : bool }.

(* one in-flight command; [c_deleted] is ghost: per candidate, whether a Delete call of this command
   succeeded so far *)
Record cmd := mkCmd { c_id : nat; c_cands : list nat; c_latched : list bool; c_deleted : list bool; c_created : Z }.

Record state := mkState {
  s_n : nat;                        (* the nodes are 0 .. s_n-1 *)
  s_nodes : nat -> node;
  s_q : list cmd;                   (* Queue.ProviderIDToCommand, as the list of distinct commands *)
  s_keys : list (nat * nat);        (* replacements ever created: (command id, index) *)
  s_repl : nat -> nat -> repl;
  s_now : Z;                        (* milliseconds *)
  s_next : nat                      (* id of the next command *)
}.

Definition node0 := mkNode false false false false false false NPresent.
Definition gone_node := mkNode false false false false false true NGone.
Definition repl0 := mkRepl false false false false.

Definition init (n : nat) : state := mkState n (fun _ => node0) [] [] (fun _ _ => repl0) 0%Z 0.

Definition upd {A} (f : nat -> A) (k : nat) (v : A) : nat -> A := fun x => if x =? k then v else f x.
Definition upd2 {A} (f : nat -> nat -> A) (k j : nat) (v : A) : nat -> nat -> A :=
  fun x y => if (x =? k) && (y =? j) then v else f x y.

Definition set_taint (x : node) b := mkNode b (n_cond x) (n_del x) (n_mark x) (n_stdel x) (n_gone x) (n_obj x).
Definition set_cond (x : node) b := mkNode (n_taint x) b (n_del x) (n_mark x) (n_stdel x) (n_gone x) (n_obj x).
Definition set_del (x : node) b := mkNode (n_taint x) (n_cond x) b (n_mark x) (n_stdel x) (n_gone x) (n_obj x).
Definition set_mark (x : node) b := mkNode (n_taint x) (n_cond x) (n_del x) b (n_stdel x) (n_gone x) (n_obj x).
Definition set_stdel (x : node) b := mkNode (n_taint x) (n_cond x) (n_del x) (n_mark x) b (n_gone x) (n_obj x).
Definition set_obj (x : node) o := mkNode (n_taint x) (n_cond x) (n_del x) (n_mark x) (n_stdel x) (n_gone x) o.
Definition obj_present (x : node) : bool := match n_obj x with NPresent => true | _ => false end.
Definition obj_gone (x : node) : bool := match n_obj x with NGone => true | _ => false end.

(* StateNode.MarkedForDeletion() *)
Definition mview (x : node) : bool := n_mark x || n_stdel x.

(* Queue.HasAny for one provider id *)
Definition in_queue (q : list cmd) (n : nat) : bool := existsb (fun c => mem n (c_cands c)) q.
Definition owner (q : list cmd) (n : nat) : option nat :=
  option_map c_id (find (fun c => mem n (c_cands c)) q).

(* ------------------------------------------------------------------ observations *)

Inductive effect :=
| ETaint (n : nat) | ECond (n : nat)
| ECreate (k j : nat) (marked : bool)   (* marked: a candidate already carried the deletion mark when the replacement was created *)
| EDelete (n : nat) (api st : bool)     (* at the call, every replacement: [api] existed in the API and was Initialized;
                                           [st] was tracked by the cluster state (Cluster.NodeClaimExists) *)
| EUntaint (n : nat) | EClear (n : nat).

Inductive ret :=
| Started | ErrInvalid | ErrBusy | ErrMark | ErrCreate
| RNoCmd | RRequeue | RSucceeded | RFailed
| RDropped     (* reconcile.AsReconciler found no NodeClaim for the request key and dropped the request *)
| COk | CErr | CUnsynced
| EnvOk.

Inductive op :=
| Start (cands : list nat) (nrepl : nat) (ft fc : fplan) (fcr : list nat)
| Recon (n : nat) (fget : list (nat * gfault)) (fdel fut fcl : fplan)
| Cleanup (fut fcl : fplan)
| ReplLaunch (k j : nat) | ReplInit (k j : nat) | ReplDelApi (k j : nat) | ReplDelState (k j : nat)
| Deliver | Advance (ms : Z) | Restart
| CandGone (n : nat) | NodeObjDeleting (n : nat) | NodeObjGone (n : nat).

(* ------------------------------------------------------------------ StartCommand *)

Fixpoint increasing (l : list nat) : bool :=
  match l with
  | a :: ((b :: _) as t) => (a <? b) && increasing t
  | _ => true
  end.

(* commands have at least one candidate, distinct candidates (listed in increasing order, which
   fixes the canonical order of the effect log), all of them existing nodes *)
Definition valid_cands (n : nat) (cands : list nat) : bool :=
  negb (match cands with [] => true | _ => false end) && increasing cands && forallb (fun c => c <? n) cands.

(* markDisrupted for one candidate: RequireNoScheduleTaint(add), then the DisruptionReason condition
   (always patched, MergeFrom without a diff check).  Returns the nodes, the effects and whether the
   candidate counts as marked. *)
Definition mark_one (nodes : nat -> node) (ft fc : fplan) (c : nat) : (nat -> node) * list effect * bool :=
  let nd := nodes c in
  match call_result (negb (n_taint nd)) (lookup ft c) with
  | Failed => (nodes, [], false)
  | rt =>
      let tainted := match rt with Applied => true | _ => n_taint nd end in
      let e1 := match rt with Applied => if n_taint nd then [] else [ETaint c] | _ => [] end in
      let nd1 := set_taint nd tainted in
      match call_result true (lookup fc c) with
      | Failed => (upd nodes c nd1, e1, false)
      | Applied => (upd nodes c (set_cond nd1 true), e1 ++ (if n_cond nd then [] else [ECond c]), true)
      | Skipped => (upd nodes c nd1, e1, true)
      end
  end.

Fixpoint mark_all (nodes : nat -> node) (ft fc : fplan) (cands : list nat)
  : (nat -> node) * list effect * list nat * bool :=
  match cands with
  | [] => (nodes, [], [], false)
  | c :: t =>
      let '(nodes1, e1, ok) := mark_one nodes ft fc c in
      let '(nodes2, e2, marked, err) := mark_all nodes1 ft fc t in
      (nodes2, e1 ++ e2, (if ok then c :: marked else marked), negb ok || err)
  end.

(* Provisioner.CreateNodeClaims: every replacement is attempted; a created NodeClaim is put into the
   cluster state at once (Cluster.UpdateNodeClaim) with an empty provider id *)
Fixpoint create_all (k : nat) (marked : bool) (fcr : list nat) (js : list nat)
                    (keys : list (nat * nat)) (renv : nat -> nat -> repl)
  : list (nat * nat) * (nat -> nat -> repl) * list effect * bool :=
  match js with
  | [] => (keys, renv, [], false)
  | j :: t =>
      if mem j fcr then
        let '(keys1, renv1, e, _) := create_all k marked fcr t keys renv in (keys1, renv1, e, true)
      else
        let '(keys1, renv1, e, err) := create_all k marked fcr t (keys ++ [(k, j)]) (upd2 renv k j (mkRepl true false false true)) in
        (keys1, renv1, ECreate k j marked :: e, err)
  end.

Definition mark_set (nodes : nat -> node) (cs : list nat) (b : bool) : nat -> node :=
  fun x => if mem x cs then set_mark (nodes x) b else nodes x.

Definition is_nil {A} (l : list A) : bool := match l with [] => true | _ => false end.

Definition start (s : state) (cands : list nat) (nrepl : nat) (ft fc : fplan) (fcr : list nat)
  : state * (ret * list effect) :=
  let k := s_next s in
  let s0 := mkState (s_n s) (s_nodes s) (s_q s) (s_keys s) (s_repl s) (s_now s) (S k) in
  if negb (valid_cands (s_n s) cands) then (s0, (ErrInvalid, []))
  else if existsb (in_queue (s_q s)) cands then (s0, (ErrBusy, []))
  else if existsb (fun c => n_gone (s_nodes s c) || obj_gone (s_nodes s c)) cands then (s0, (ErrInvalid, []))   (* never a candidate (C07) *)
  else
    let '(nodes1, e1, marked, err) := mark_all (s_nodes s) ft fc cands in
    if err && ((0 <? nrepl) || is_nil marked) then
      (mkState (s_n s) nodes1 (s_q s) (s_keys s) (s_repl s) (s_now s) (S k), (ErrMark, e1))
    else
      let anymark := existsb (fun c => n_mark (nodes1 c)) marked in
      let '(keys1, renv1, e2, cerr) := create_all k anymark fcr (seq 0 nrepl) (s_keys s) (s_repl s) in
      if cerr then
        (mkState (s_n s) nodes1 (s_q s) keys1 renv1 (s_now s) (S k), (ErrCreate, e1 ++ e2))
      else
        (mkState (s_n s) (mark_set nodes1 marked true)
                 (s_q s ++ [mkCmd k marked (repeat false nrepl) (repeat false (length marked)) (s_now s)])
                 keys1 renv1 (s_now s) (S k),
         (Started, e1 ++ e2)).

(* ------------------------------------------------------------------ Reconcile / waitOrTerminate *)

(* GetMaxRetryDuration: lo.Clamp(80ms * len(ProviderIDToCommand), 10min, 1h) *)
Definition map_size (q : list cmd) : nat := length (concat (map c_cands q)).
Definition retry_ms (q : list cmd) : Z :=
  Z.max 600000 (Z.min 3600000 (80 * Z.of_nat (map_size q))).

(* the loop over cmd.Replacements: returns the new latches, whether some replacement is still
   waited for, and whether one was found deleted (the loop returns at once, later replacements are not
   looked at): a replacement already latched Initialized must still be tracked by the cluster state
   (since 61c12d2bd); an unlatched one is read from the API, NotFound and unknown to the cluster state
   means deleted *)
Fixpoint wait_loop (renv : nat -> repl) (fget : list (nat * gfault)) (j : nat) (latched : list bool)
  : list bool * bool * bool :=
  match latched with
  | [] => ([], false, false)
  | true :: rest =>
      if r_st (renv j) then let '(l, w, v) := wait_loop renv fget (S j) rest in (true :: l, w, v)
      else (true :: rest, false, true)
  | false :: rest =>
      let r := renv j in
      let found := match lookup fget j with
                   | Some GErr => None                   (* some other error: recoverable *)
                   | Some GNotFound => Some false
                   | None => Some (r_exists r)
                   end in
      match found with
      | None => let '(l, w, v) := wait_loop renv fget (S j) rest in (false :: l, true, v)
      | Some false =>
          if r_st r then let '(l, w, v) := wait_loop renv fget (S j) rest in (false :: l, true, v)
          else (false :: rest, false, true)
      | Some true =>
          if r_init r then let '(l, w, v) := wait_loop renv fget (S j) rest in (true :: l, w, v)
          else let '(l, w, v) := wait_loop renv fget (S j) rest in (false :: l, true, v)
      end
  end.

(* the delete loop: retry.OnError around kubeClient.Delete, NotFound ignored *)
Fixpoint delete_all (nodes : nat -> node) (fdel : fplan) (ready : bool * bool) (cands : list nat) (deleted : list bool)
  : (nat -> node) * list effect * list bool * bool :=
  match cands with
  | [] => (nodes, [], [], false)
  | c :: t =>
      let d := hd false deleted in
      match call_result true (lookup fdel c) with
      | Applied =>
          if n_gone (nodes c) then   (* NotFound from the API: ignored, nothing was deleted by this command *)
            let '(nodes1, e, dl, err) := delete_all nodes fdel ready t (tl deleted) in (nodes1, e, d :: dl, err)
          else
          let '(nodes1, e, dl, err) := delete_all (upd nodes c (set_del (nodes c) true)) fdel ready t (tl deleted) in
          (nodes1, EDelete c (fst ready) (snd ready) :: e, true :: dl, err)
      | Skipped =>
          let '(nodes1, e, dl, err) := delete_all nodes fdel ready t (tl deleted) in (nodes1, e, d :: dl, err)
      | Failed =>
          let '(nodes1, e, dl, _) := delete_all nodes fdel ready t (tl deleted) in (nodes1, e, d :: dl, true)
      end
  end.

(* RequireNoScheduleTaint(false, nodes...); the taint of a Node that is being deleted is left alone (it belongs
   to the termination controller) *)
Definition removable (x : node) : bool := n_taint x && obj_present x.

Fixpoint untaint_all (nodes : nat -> node) (fut : fplan) (cs : list nat) : (nat -> node) * list effect * bool :=
  match cs with
  | [] => (nodes, [], false)
  | c :: t =>
      match call_result (removable (nodes c)) (lookup fut c) with
      | Applied =>
          let '(nodes1, e, err) := untaint_all (upd nodes c (set_taint (nodes c) (n_taint (nodes c) && negb (removable (nodes c))))) fut t in
          ((nodes1, (if removable (nodes c) then [EUntaint c] else []) ++ e), err)
      | Skipped => untaint_all nodes fut t
      | Failed => let '(nodes1, e, _) := untaint_all nodes fut t in (nodes1, e, true)
      end
  end.

(* ClearNodeClaimsCondition(DisruptionReason, nodes...) *)
Fixpoint clear_all (nodes : nat -> node) (fcl : fplan) (cs : list nat) : (nat -> node) * list effect * bool :=
  match cs with
  | [] => (nodes, [], false)
  | c :: t =>
      match call_result (n_cond (nodes c)) (lookup fcl c) with
      | Applied =>
          let '(nodes1, e, err) := clear_all (upd nodes c (set_cond (nodes c) false)) fcl t in
          ((nodes1, (if n_cond (nodes c) then [EClear c] else []) ++ e), err)
      | Skipped => clear_all nodes fcl t
      | Failed => let '(nodes1, e, _) := clear_all nodes fcl t in (nodes1, e, true)
      end
  end.

Definition holds_node (n : nat) (c : cmd) : bool := mem n (c_cands c).

(* CompleteCommand's map cleanup: every key of the command's candidates *)
Definition remove_cmd (q : list cmd) (n : nat) : list cmd := filter (fun c => negb (holds_node n c)) q.
Definition replace_cmd (q : list cmd) (n : nat) (c' : cmd) : list cmd :=
  map (fun c => if holds_node n c then c' else c) q.

Definition all_ready (renv : nat -> repl) (nrepl : nat) : bool :=
  forallb (fun j => r_exists (renv j) && r_init (renv j)) (seq 0 nrepl).

Definition all_tracked (renv : nat -> repl) (nrepl : nat) : bool :=
  forallb (fun j => r_st (renv j)) (seq 0 nrepl).

Definition recon (s : state) (n : nat) (fget : list (nat * gfault)) (fdel fut fcl : fplan)
  : state * (ret * list effect) :=
  match find (holds_node n) (s_q s) with
  | None => (s, (RNoCmd, []))
  | Some c =>
      (* the queue only ever enqueues the NodeClaim of cmd.Candidates[0]; reconcile.AsReconciler reads it from the
         API first and drops the request, without a requeue, if it is gone *)
      if n_gone (s_nodes s (hd 0 (c_cands c))) then (s, (RDropped, [])) else
      let timed := (retry_ms (s_q s) <? s_now s - c_created c)%Z in
      let '(latched', wait, vanished) := wait_loop (s_repl s (c_id c)) fget 0 (c_latched c) in
      (* the unrecoverable branch of Reconcile: untaint, clear the condition, UnmarkForDeletion, drop the command *)
      let fail (nodes : nat -> node) (e : list effect) :=
        let '(nodes1, e1, _) := untaint_all nodes fut (c_cands c) in
        let '(nodes2, e2, _) := clear_all nodes1 fcl (c_cands c) in
        (mkState (s_n s) (mark_set nodes2 (c_cands c) false) (remove_cmd (s_q s) n) (s_keys s) (s_repl s) (s_now s) (s_next s),
         (RFailed, e ++ e1 ++ e2)) in
      let requeue (nodes : nat -> node) (c' : cmd) (e : list effect) :=
        (mkState (s_n s) nodes (replace_cmd (s_q s) n c') (s_keys s) (s_repl s) (s_now s) (s_next s), (RRequeue, e)) in
      let c1 := mkCmd (c_id c) (c_cands c) latched' (c_deleted c) (c_created c) in
      if vanished then fail (s_nodes s) []
      else if wait then (if timed then fail (s_nodes s) [] else requeue (s_nodes s) c1 [])
      else
        let ready := (all_ready (s_repl s (c_id c)) (length (c_latched c)),
                      all_tracked (s_repl s (c_id c)) (length (c_latched c))) in
        let '(nodes1, e, deleted', derr) := delete_all (s_nodes s) fdel ready (c_cands c) (c_deleted c) in
        let c2 := mkCmd (c_id c) (c_cands c) latched' deleted' (c_created c) in
        (* the deferred wrapper: past the timeout an ERROR becomes unrecoverable (since 14eb43d3c a pass that
           deleted every candidate is a success whatever the clock says) *)
        if derr then (if timed then fail nodes1 e else requeue nodes1 c2 e)
        else (mkState (s_n s) nodes1 (remove_cmd (s_q s) n) (s_keys s) (s_repl s) (s_now s) (s_next s), (RSucceeded, e))
  end.

(* ------------------------------------------------------------------ controller cleanup *)

(* Cluster.Synced once hydrated: no tracked NodeClaim without a provider id *)
Definition synced (s : state) : bool :=
  forallb (fun kj => let r := s_repl s (fst kj) (snd kj) in negb (r_st r) || r_launched r) (s_keys s).

(* nodes of the cluster state (a node that is gone is not among them) neither in the queue nor MarkedForDeletion() *)
Definition outdated (s : state) : list nat :=
  filter (fun n => negb (in_queue (s_q s) n) && negb (mview (s_nodes s n)) && negb (n_gone (s_nodes s n)) &&
                   negb (obj_gone (s_nodes s n)))   (* a StateNode without a Node is skipped by both calls *)
         (seq 0 (s_n s)).

Definition cleanup (s : state) (fut fcl : fplan) : state * (ret * list effect) :=
  if negb (synced s) then (s, (CUnsynced, []))
  else
    let '(nodes1, e1, err1) := untaint_all (s_nodes s) fut (outdated s) in
    if err1 then (mkState (s_n s) nodes1 (s_q s) (s_keys s) (s_repl s) (s_now s) (s_next s), (CErr, e1))
    else
      let '(nodes2, e2, err2) := clear_all nodes1 fcl (outdated s) in
      (mkState (s_n s) nodes2 (s_q s) (s_keys s) (s_repl s) (s_now s) (s_next s), ((if err2 then CErr else COk), e1 ++ e2)).

(* ------------------------------------------------------------------ environment *)

Definition with_repl (s : state) (renv : nat -> nat -> repl) : state :=
  mkState (s_n s) (s_nodes s) (s_q s) (s_keys s) renv (s_now s) (s_next s).

Definition env_repl (s : state) (k j : nat) (f : repl -> repl) : state :=
  with_repl s (upd2 (s_repl s) k j (f (s_repl s k j))).

Definition step (s : state) (o : op) : state * (ret * list effect) :=
  match o with
  | Start cands nrepl ft fc fcr => start s cands nrepl ft fc fcr
  | Recon n fget fdel fut fcl => recon s n fget fdel fut fcl
  | Cleanup fut fcl => cleanup s fut fcl
  | ReplLaunch k j =>   (* the lifecycle controller launches it; the informer delivers the update *)
      (env_repl s k j (fun r => if r_exists r then mkRepl true (r_init r) true true else r), (EnvOk, []))
  | ReplInit k j =>
      (env_repl s k j (fun r => if r_exists r then mkRepl true true (r_launched r) (r_st r) else r), (EnvOk, []))
  | ReplDelApi k j =>   (* the NodeClaim disappears from the API (ICE, liveness, expiry, user) *)
      (env_repl s k j (fun r => mkRepl false (r_init r) (r_launched r) (r_st r)), (EnvOk, []))
  | ReplDelState k j => (* the informer delivers the deletion (only of an object that is gone): Cluster.DeleteNodeClaim *)
      (env_repl s k j (fun r => if r_exists r then r else mkRepl false (r_init r) (r_launched r) false), (EnvOk, []))
  | Deliver =>          (* the informers deliver the candidates' current API objects *)
      (mkState (s_n s) (fun x => set_stdel (s_nodes s x) (n_del (s_nodes s x))) (s_q s) (s_keys s) (s_repl s) (s_now s) (s_next s),
       (EnvOk, []))
  | Advance ms => (mkState (s_n s) (s_nodes s) (s_q s) (s_keys s) (s_repl s) (s_now s + ms)%Z (s_next s), (EnvOk, []))
  | Restart =>          (* every in-memory component is lost; the cluster state is re-hydrated from the API *)
      (mkState (s_n s)
               (fun x => set_stdel (set_mark (s_nodes s x) false) (n_del (s_nodes s x)))
               [] (s_keys s)
               (fun k j => let r := s_repl s k j in mkRepl (r_exists r) (r_init r) (r_launched r) (r_exists r))
               (s_now s) (s_next s),
       (EnvOk, []))
  | CandGone n =>       (* the instance is reclaimed / the objects are finalized: Node and NodeClaim leave the API and the
                           informers deliver both deletions (Cluster.DeleteNodeClaim + DeleteNode drop the StateNode with
                           its in-memory mark); the queue's map entry, if any, stays *)
      (mkState (s_n s) (upd (s_nodes s) n gone_node) (s_q s) (s_keys s) (s_repl s) (s_now s) (s_next s), (EnvOk, []))
  | NodeObjDeleting n => (* the Node object gets a deletionTimestamp (it keeps a finalizer) *)
      (mkState (s_n s) (upd (s_nodes s) n (if obj_present (s_nodes s n) then set_obj (s_nodes s n) NDeleting else s_nodes s n))
               (s_q s) (s_keys s) (s_repl s) (s_now s) (s_next s), (EnvOk, []))
  | NodeObjGone n =>     (* the Node object leaves the API and the cluster state (Cluster.DeleteNode; the in-memory
                            mark stays with the NodeClaim-only StateNode); the NodeClaim remains *)
      (mkState (s_n s) (upd (s_nodes s) n (if n_gone (s_nodes s n) then s_nodes s n else set_obj (set_taint (s_nodes s n) false) NGone))
               (s_q s) (s_keys s) (s_repl s) (s_now s) (s_next s), (EnvOk, []))
  end.

Fixpoint run (s : state) (ops : list op) : state :=
  match ops with [] => s | o :: t => run (fst (step s o)) t end.

(* ------------------------------------------------------------------ snapshots and traces *)

(* what is observable of a state, on the model and on the implementation alike *)
Record snap := mkSnap {
  sn_nodes : list (node * bool * option nat);   (* per node: facts, MarkedForDeletion(), owning command *)
  sn_cmds : list cmd;
  sn_repls : list (nat * nat * repl);
  sn_now : Z
}.

Definition snap_of (s : state) : snap :=
  mkSnap (map (fun n => (s_nodes s n, mview (s_nodes s n), owner (s_q s) n)) (seq 0 (s_n s)))
         (s_q s)
         (map (fun kj => (fst kj, snd kj, s_repl s (fst kj) (snd kj))) (s_keys s))
         (s_now s).

Record obs := mkObs { o_ret : ret; o_eff : list effect; o_snap : snap }.

(* one observed step: the snapshot before, the operation, what happened *)
Definition ostep := (snap * op * obs)%type.

Fixpoint trace (s : state) (ops : list op) : list ostep :=
  match ops with
  | [] => []
  | o :: t => let '(s', (r, e)) := step s o in (snap_of s, o, mkObs r e (snap_of s')) :: trace s' t
  end.

(* ------------------------------------------------------------------ specification clauses
   Written against snapshots, so that the same clauses are evaluated on what the implementation did
   (the oracle of Check.v) and proved of the model (Proofs.v).  Each clause has a Prop form and a
   boolean form; Proofs.v shows them equivalent. *)

Definition sn_node (sn : snap) (n : nat) : node * bool * option nat := nth n (sn_nodes sn) (node0, false, None).
Definition sn_fact (sn : snap) (n : nat) : node := fst (fst (sn_node sn n)).
Definition sn_mview (sn : snap) (n : nat) : bool := snd (fst (sn_node sn n)).
Definition sn_owner (sn : snap) (n : nat) : option nat := snd (sn_node sn n).

Definition deletes (e : list effect) : list (nat * bool * bool) :=
  flat_map (fun x => match x with EDelete n a t => [(n, a, t)] | _ => [] end) e.

Definition repl_inited (sn : snap) (k j : nat) : bool :=
  existsb (fun x => let '(k', j', r) := x in (k' =? k) && (j' =? j) && r_init r) (sn_repls sn).

(* the commands of a snapshot that hold node n *)
Definition cmds_of (sn : snap) (n : nat) : list cmd := filter (holds_node n) (sn_cmds sn).

(* (1) a candidate's NodeClaim is deleted only by the command that holds it, and only when every
   replacement of that command has been created, has reported Initialized, and is still tracked by the
   cluster state at the Delete call *)
Definition del_after_init (x : ostep) : Prop :=
  let '(pre, _, o) := x in
  forall n a t, In (n, a, t) (deletes (o_eff o)) ->
    t = true /\
    exists c, In c (sn_cmds pre) /\ In n (c_cands c) /\
      forall j, j < length (c_latched c) -> repl_inited pre (c_id c) j = true.

Definition del_after_init_b (x : ostep) : bool :=
  let '(pre, _, o) := x in
  forallb (fun nr => snd nr &&
                     existsb (fun c => mem (fst (fst nr)) (c_cands c) &&
                                        forallb (fun j => repl_inited pre (c_id c) j) (seq 0 (length (c_latched c))))
                             (sn_cmds pre))
          (deletes (o_eff o)).

(* (1') the reading against the API itself: at the Delete call every replacement exists in the API and is
   Initialized.  This can only hold up to informer lag (the queue re-checks latched replacements against
   the cluster state), see [deliveries_done]. *)
Definition del_while_ready (x : ostep) : Prop :=
  let '(_, _, o) := x in forall n a t, In (n, a, t) (deletes (o_eff o)) -> a = true.
Definition del_while_ready_b (x : ostep) : bool :=
  let '(_, _, o) := x in forallb (fun nr => snd (fst nr)) (deletes (o_eff o)).

Definition recon_node (o : op) : option nat := match o with Recon n _ _ _ _ => Some n | _ => None end.
Definition is_failed (r : ret) : bool := match r with RFailed => true | _ => false end.
Definition is_start_error (r : ret) : bool :=
  match r with ErrInvalid | ErrBusy | ErrMark | ErrCreate => true | _ => false end.

(* (2) a command that is given up (unrecoverable error: replacement gone, or timeout) has deleted
   none of its candidates, neither in this pass nor in an earlier one *)
Definition failed_deletes_nothing (x : ostep) : Prop :=
  let '(pre, op, o) := x in
  o_ret o = RFailed ->
  deletes (o_eff o) = [] /\
  forall n c, recon_node op = Some n -> In c (cmds_of pre n) -> forall d, In d (c_deleted c) -> d = false.

Definition failed_deletes_nothing_b (x : ostep) : bool :=
  let '(pre, op, o) := x in
  negb (is_failed (o_ret o)) ||
  (is_nil (deletes (o_eff o)) &&
   match recon_node op with
   | Some n => forallb (fun c => forallb negb (c_deleted c)) (cmds_of pre n)
   | None => true
   end).

(* whether the pass ran within the command's retry window *)
Definition within_timeout (pre : snap) (n : nat) : bool :=
  forallb (fun c => (sn_now pre - c_created c <=? retry_ms (sn_cmds pre))%Z) (cmds_of pre n).

(* (3a) a command that is given up leaves its candidates without a queue entry and without the
   deletion mark; (3b) a StartCommand that fails changes neither the queue nor any mark and deletes
   nothing; (3c) a fault-free, synced controller pass leaves no taint and no DisruptionReason
   condition on any node that is neither queued nor marked for deletion *)
Definition failed_rolls_back (x : ostep) : Prop :=
  let '(pre, op, o) := x in
  o_ret o = RFailed -> forall n c m, recon_node op = Some n -> In c (cmds_of pre n) -> In m (c_cands c) ->
    n_mark (sn_fact (o_snap o) m) = false /\ sn_owner (o_snap o) m = None.

Definition failed_rolls_back_b (x : ostep) : bool :=
  let '(pre, op, o) := x in
  negb (is_failed (o_ret o)) ||
  match recon_node op with
  | Some n => forallb (fun c => forallb (fun m => negb (n_mark (sn_fact (o_snap o) m)) &&
                                                   match sn_owner (o_snap o) m with None => true | Some _ => false end)
                                        (c_cands c)) (cmds_of pre n)
  | None => true
  end.

Definition marks (sn : snap) : list bool := map (fun x => n_mark (fst (fst x))) (sn_nodes sn).

Definition cmd_eqb (a b : cmd) : bool :=
  (c_id a =? c_id b) && (if list_eq_dec Nat.eq_dec (c_cands a) (c_cands b) then true else false) &&
  (if list_eq_dec bool_dec (c_latched a) (c_latched b) then true else false) &&
  (if list_eq_dec bool_dec (c_deleted a) (c_deleted b) then true else false) &&
  (c_created a =? c_created b)%Z.

Fixpoint list_eqb {A} (eqb : A -> A -> bool) (l1 l2 : list A) : bool :=
  match l1, l2 with
  | [], [] => true
  | a :: t1, b :: t2 => eqb a b && list_eqb eqb t1 t2
  | _, _ => false
  end.

Definition start_failure_inert (x : ostep) : Prop :=
  let '(pre, _, o) := x in
  is_start_error (o_ret o) = true ->
  deletes (o_eff o) = [] /\ sn_cmds (o_snap o) = sn_cmds pre /\ marks (o_snap o) = marks pre.

Definition start_failure_inert_b (x : ostep) : bool :=
  let '(pre, _, o) := x in
  negb (is_start_error (o_ret o)) ||
  (is_nil (deletes (o_eff o)) && list_eqb cmd_eqb (sn_cmds (o_snap o)) (sn_cmds pre) &&
   list_eqb Bool.eqb (marks (o_snap o)) (marks pre)).

Definition opt_nat_eqb (a b : option nat) : bool :=
  match a, b with None, None => true | Some x, Some y => x =? y | _, _ => false end.

(* (3b') a StartCommand that fails changes no node's queue membership; one that is REJECTED because a candidate is
   already the subject of an in-flight command changes nothing at all: no API effect, every taint, condition, mark
   and queue entry - in particular those of the in-flight command - as before *)
Definition taints (sn : snap) : list bool := map (fun x => n_taint (fst (fst x))) (sn_nodes sn).
Definition conds (sn : snap) : list bool := map (fun x => n_cond (fst (fst x))) (sn_nodes sn).
Definition owners (sn : snap) : list (option nat) := map snd (sn_nodes sn).
Definition is_busy (r : ret) : bool := match r with ErrBusy => true | _ => false end.

Definition rejected_start_inert (x : ostep) : Prop :=
  let '(pre, _, o) := x in
  (is_start_error (o_ret o) = true -> owners (o_snap o) = owners pre) /\
  (o_ret o = ErrBusy ->
     o_eff o = [] /\ taints (o_snap o) = taints pre /\ conds (o_snap o) = conds pre /\
     marks (o_snap o) = marks pre /\ sn_cmds (o_snap o) = sn_cmds pre).

Definition rejected_start_inert_b (x : ostep) : bool :=
  let '(pre, _, o) := x in
  (negb (is_start_error (o_ret o)) || list_eqb opt_nat_eqb (owners (o_snap o)) (owners pre)) &&
  (negb (is_busy (o_ret o)) ||
   (is_nil (o_eff o) && list_eqb Bool.eqb (taints (o_snap o)) (taints pre) && list_eqb Bool.eqb (conds (o_snap o)) (conds pre) &&
    list_eqb Bool.eqb (marks (o_snap o)) (marks pre) && list_eqb cmd_eqb (sn_cmds (o_snap o)) (sn_cmds pre))).

Definition clean_pass (op : op) (r : ret) : bool :=
  match op, r with Cleanup [] [], COk => true | _, _ => false end.

Definition cleanup_restores (x : ostep) : Prop :=
  let '(pre, op, o) := x in
  clean_pass op (o_ret o) = true ->
  forall n, n < length (sn_nodes pre) -> sn_owner pre n = None -> sn_mview pre n = false ->
    n_gone (sn_fact pre n) = false -> obj_present (sn_fact pre n) = true ->
    n_taint (sn_fact (o_snap o) n) = false /\ n_cond (sn_fact (o_snap o) n) = false.

Definition cleanup_restores_b (x : ostep) : bool :=
  let '(pre, op, o) := x in
  negb (clean_pass op (o_ret o)) ||
  forallb (fun n => match sn_owner pre n with Some _ => true | None => false end || sn_mview pre n || n_gone (sn_fact pre n) || negb (obj_present (sn_fact pre n)) ||
                    (negb (n_taint (sn_fact (o_snap o) n)) && negb (n_cond (sn_fact (o_snap o) n))))
          (seq 0 (length (sn_nodes pre))).

(* (4) a node is the subject of at most one command: the candidate sets of the in-flight commands
   are pairwise disjoint, the per-node owner agrees with them, and a command is accepted only if none
   of its candidates had an owner *)
Fixpoint nodup_b (l : list nat) : bool :=
  match l with [] => true | a :: t => negb (mem a t) && nodup_b t end.

Definition start_cands (o : op) : list nat := match o with Start cands _ _ _ _ => cands | _ => [] end.
Definition is_started (r : ret) : bool := match r with Started => true | _ => false end.

Definition one_cmd_per_node (x : ostep) : Prop :=
  let '(pre, op, o) := x in
  NoDup (concat (map c_cands (sn_cmds (o_snap o)))) /\
  (forall n, n < length (sn_nodes (o_snap o)) ->
     sn_owner (o_snap o) n = option_map c_id (find (holds_node n) (sn_cmds (o_snap o)))) /\
  (o_ret o = Started -> forall n, In n (start_cands op) -> sn_owner pre n = None).


Definition one_cmd_per_node_b (x : ostep) : bool :=
  let '(pre, op, o) := x in
  nodup_b (concat (map c_cands (sn_cmds (o_snap o)))) &&
  forallb (fun n => opt_nat_eqb (sn_owner (o_snap o) n) (option_map c_id (find (holds_node n) (sn_cmds (o_snap o)))))
          (seq 0 (length (sn_nodes (o_snap o)))) &&
  (negb (is_started (o_ret o)) ||
   forallb (fun n => match sn_owner pre n with None => true | Some _ => false end) (start_cands op)).

(* (5) every in-flight command stays reachable: a reconcile request is dropped only for a command none of whose
   candidates is left *)
Definition is_dropped (r : ret) : bool := match r with RDropped => true | _ => false end.

Definition cmd_reachable (x : ostep) : Prop :=
  let '(pre, op, o) := x in
  o_ret o = RDropped -> forall n c m, recon_node op = Some n -> In c (cmds_of pre n) -> In m (c_cands c) ->
    n_gone (sn_fact pre m) = true.

Definition cmd_reachable_b (x : ostep) : bool :=
  let '(pre, op, o) := x in
  negb (is_dropped (o_ret o)) ||
  match recon_node op with
  | Some n => forallb (fun c => forallb (fun m => n_gone (sn_fact pre m)) (c_cands c)) (cmds_of pre n)
  | None => true
  end.

(* ------------------------------------------------------------------ guards of the partial theorems *)

(* the deletion of every replacement of the reconciled command that is gone from the API has been
   delivered to the cluster state *)
Definition deliveries_done (x : ostep) : Prop :=
  let '(pre, op, _) := x in
  forall n c, recon_node op = Some n -> In c (cmds_of pre n) ->
    forall j r, j < length (c_latched c) -> In (c_id c, j, r) (sn_repls pre) -> r_exists r = false -> r_st r = false.

(* no Delete call of the step fails on all its attempts *)
Definition fails (f : fault) : bool := match call_result true (Some f) with Failed => true | _ => false end.
Definition nofail_op (o : op) : bool :=
  match o with Recon _ _ fdel _ _ => forallb (fun kv => negb (fails (snd kv))) fdel | _ => true end.

(* ------------------------------------------------------------------ the queue before the two fixes
   (14eb43d3c: the deferred timeout wrapper also wrapped a nil error; 61c12d2bd: a latched replacement was
   never looked at again).  Kept so that the two defects stay stated and refuted. *)

Fixpoint wait_loop_old (renv : nat -> repl) (fget : list (nat * gfault)) (j : nat) (latched : list bool)
  : list bool * bool * bool :=
  match latched with
  | [] => ([], false, false)
  | true :: rest =>
      let '(l, w, v) := wait_loop_old renv fget (S j) rest in (true :: l, w, v)
  | false :: rest =>
      let r := renv j in
      let found := match lookup fget j with
                   | Some GErr => None
                   | Some GNotFound => Some false
                   | None => Some (r_exists r)
                   end in
      match found with
      | None => let '(l, w, v) := wait_loop_old renv fget (S j) rest in (false :: l, true, v)
      | Some false =>
          if r_st r then let '(l, w, v) := wait_loop_old renv fget (S j) rest in (false :: l, true, v)
          else (false :: rest, false, true)
      | Some true =>
          if r_init r then let '(l, w, v) := wait_loop_old renv fget (S j) rest in (true :: l, w, v)
          else let '(l, w, v) := wait_loop_old renv fget (S j) rest in (false :: l, true, v)
      end
  end.

Definition recon_old (s : state) (n : nat) (fget : list (nat * gfault)) (fdel fut fcl : fplan)
  : state * (ret * list effect) :=
  match find (holds_node n) (s_q s) with
  | None => (s, (RNoCmd, []))
  | Some c =>
      let timed := (retry_ms (s_q s) <? s_now s - c_created c)%Z in
      let '(latched', wait, vanished) := wait_loop_old (s_repl s (c_id c)) fget 0 (c_latched c) in
      let fail (nodes : nat -> node) (e : list effect) :=
        let '(nodes1, e1, _) := untaint_all nodes fut (c_cands c) in
        let '(nodes2, e2, _) := clear_all nodes1 fcl (c_cands c) in
        (mkState (s_n s) (mark_set nodes2 (c_cands c) false) (remove_cmd (s_q s) n) (s_keys s) (s_repl s) (s_now s) (s_next s),
         (RFailed, e ++ e1 ++ e2)) in
      let requeue (nodes : nat -> node) (c' : cmd) (e : list effect) :=
        (mkState (s_n s) nodes (replace_cmd (s_q s) n c') (s_keys s) (s_repl s) (s_now s) (s_next s), (RRequeue, e)) in
      let c1 := mkCmd (c_id c) (c_cands c) latched' (c_deleted c) (c_created c) in
      if vanished then fail (s_nodes s) []
      else if wait then (if timed then fail (s_nodes s) [] else requeue (s_nodes s) c1 [])
      else
        let ready := (all_ready (s_repl s (c_id c)) (length (c_latched c)),
                      all_tracked (s_repl s (c_id c)) (length (c_latched c))) in
        let '(nodes1, e, deleted', derr) := delete_all (s_nodes s) fdel ready (c_cands c) (c_deleted c) in
        let c2 := mkCmd (c_id c) (c_cands c) latched' deleted' (c_created c) in
        if timed then fail nodes1 e
        else if derr then requeue nodes1 c2 e
        else (mkState (s_n s) nodes1 (remove_cmd (s_q s) n) (s_keys s) (s_repl s) (s_now s) (s_next s), (RSucceeded, e))
  end.

Definition step_old (s : state) (o : op) : state * (ret * list effect) :=
  match o with Recon n fget fdel fut fcl => recon_old s n fget fdel fut fcl | _ => step s o end.

Fixpoint trace_old (s : state) (ops : list op) : list ostep :=
  match ops with
  | [] => []
  | o :: t => let '(s', (r, e)) := step_old s o in (snap_of s, o, mkObs r e (snap_of s')) :: trace_old s' t
  end.
