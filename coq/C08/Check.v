(* C08 — correspondence check and oracle, evaluated by vm_compute on the histories the Go harness
   ran through the real Queue.StartCommand / Queue.Reconcile / Controller.Reconcile. *)
From Coq Require Import ZArith String.
From KV Require Import C08.Model.
Open Scope string_scope.
Open Scope nat_scope.
Open Scope list_scope.

(* A history that exhibits the known finding (a command is given up after a Delete call failed on all
   attempts while another candidate was already deleted) is emitted twice by the harness: once with
   [MCore] (correspondence and every clause except the refuted one, without a key) and once with
   [MPartial], which evaluates only that clause and carries the finding's key. [MAll] evaluates everything. *)
Inductive mode := MAll | MCore | MPartial | MOrphan.   (* MOrphan: only the reachability clause (finding first-candidate-vanished) *)

Inductive case := Case (m : mode) (n : nat) (steps : list (op * obs)).

Definition ret_eqb (a b : ret) : bool :=
  match a, b with
  | Started, Started | ErrInvalid, ErrInvalid | ErrBusy, ErrBusy | ErrMark, ErrMark | ErrCreate, ErrCreate
  | RDropped, RDropped | RNoCmd, RNoCmd | RRequeue, RRequeue | RSucceeded, RSucceeded | RFailed, RFailed
  | COk, COk | CErr, CErr | CUnsynced, CUnsynced | EnvOk, EnvOk => true
  | _, _ => false
  end.

Definition effect_eqb (a b : effect) : bool :=
  match a, b with
  | ETaint x, ETaint y | ECond x, ECond y | EUntaint x, EUntaint y | EClear x, EClear y => x =? y
  | ECreate k j m, ECreate k' j' m' => (k =? k') && (j =? j') && Bool.eqb m m'
  | EDelete x a t, EDelete y a' t' => (x =? y) && Bool.eqb a a' && Bool.eqb t t'
  | _, _ => false
  end.

Definition node_eqb (a b : node) : bool :=
  Bool.eqb (n_taint a) (n_taint b) && Bool.eqb (n_cond a) (n_cond b) && Bool.eqb (n_del a) (n_del b) &&
  Bool.eqb (n_mark a) (n_mark b) && Bool.eqb (n_stdel a) (n_stdel b) && Bool.eqb (n_gone a) (n_gone b) &&
  match n_obj a, n_obj b with NPresent, NPresent | NDeleting, NDeleting | NGone, NGone => true | _, _ => false end.

Definition repl_eqb (a b : repl) : bool :=
  Bool.eqb (r_exists a) (r_exists b) && Bool.eqb (r_init a) (r_init b) &&
  Bool.eqb (r_launched a) (r_launched b) && Bool.eqb (r_st a) (r_st b).

Definition nsnap_eqb (a b : node * bool * option nat) : bool :=
  let '(x, v, o) := a in let '(x', v', o') := b in node_eqb x x' && Bool.eqb v v' && opt_nat_eqb o o'.

Definition rsnap_eqb (a b : nat * nat * repl) : bool :=
  let '(k, j, r) := a in let '(k', j', r') := b in (k =? k') && (j =? j') && repl_eqb r r'.

Definition nodes_eqb (a b : snap) := list_eqb nsnap_eqb (sn_nodes a) (sn_nodes b).
Definition cmds_eqb (a b : snap) := list_eqb cmd_eqb (sn_cmds a) (sn_cmds b).
Definition repls_eqb (a b : snap) := list_eqb rsnap_eqb (sn_repls a) (sn_repls b).

(* the clauses evaluated on one implementation step *)
Definition oracle (m : mode) (x : ostep) : list string :=
  let core := match m with MAll | MCore => true | _ => false end in
  let t := match m with MAll | MPartial => true | _ => false end in
  (if core && negb (del_after_init_b x) then ["oracle:candidate-deleted-before-replacements-ready"] else []) ++
  (if t && negb (failed_deletes_nothing_b x) then ["oracle:failed-command-deleted-a-candidate"] else []) ++
  (if (match m with MAll | MOrphan => true | _ => false end) && negb (cmd_reachable_b x)
   then ["oracle:command-unreachable-with-live-candidates"] else []) ++
  (if core && negb (failed_rolls_back_b x) then ["oracle:failed-command-not-rolled-back"] else []) ++
  (if core && negb (start_failure_inert_b x) then ["oracle:failed-start-not-inert"] else []) ++
  (if core && negb (rejected_start_inert_b x) then ["oracle:rejected-start-changed-an-in-flight-command"] else []) ++
  (if core && negb (cleanup_restores_b x) then ["oracle:cleanup-left-stale-marking"] else []) ++
  (if core && negb (one_cmd_per_node_b x) then ["oracle:node-in-two-commands"] else []).

(* correspondence of one step; the first mismatch ends the comparison (the two runs have diverged) *)
Definition corr_step (s : state) (o : op) (ob : obs) : state * list string :=
  let '(s', (r, e)) := step s o in
  let sm := snap_of s' in
  (s',
   (if ret_eqb r (o_ret ob) then [] else ["corr:return-class"]) ++
   (if list_eqb effect_eqb e (o_eff ob) then [] else ["corr:effect-log"]) ++
   (if nodes_eqb sm (o_snap ob) then [] else ["corr:node-state"]) ++
   (if cmds_eqb sm (o_snap ob) then [] else ["corr:queue"]) ++
   (if repls_eqb sm (o_snap ob) then [] else ["corr:replacements"]) ++
   (if (sn_now sm =? sn_now (o_snap ob))%Z then [] else ["corr:clock"])).

Fixpoint check_steps (m : mode) (docorr : bool) (s : state) (pre : snap) (steps : list (op * obs)) : list string :=
  match steps with
  | [] => []
  | (o, ob) :: t =>
      let '(s', bad) := if docorr then corr_step s o ob else (s, []) in
      oracle m (pre, o, ob) ++ bad ++
      check_steps m (docorr && is_nil bad) s' (o_snap ob) t
  end.

Fixpoint dedup (l : list string) : list string :=
  match l with
  | [] => []
  | a :: t => if existsb (String.eqb a) t then dedup t else a :: dedup t
  end.

Definition check_case (c : case) : list string :=
  let '(Case m n steps) := c in
  let docorr := match m with MAll | MCore => true | _ => false end in
  dedup (check_steps m docorr (init n) (snap_of (init n)) steps).

Definition check_all (cs : list (Z * case)) : list (Z * string) :=
  flat_map (fun ic => map (fun t => (fst ic, t)) (check_case (snd ic))) cs.
