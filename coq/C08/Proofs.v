(* C08 — proofs about the model: an invariant of every reachable state and, from it, the clauses of
   the specification for every step of every history (any operations, faults, replacement event
   orders, clock jumps and restarts, of any length). *)
From KV Require Import C08.Model C08.Proofs1.

(* ------------------------------------------------------------------ lists *)

Lemma NoDup_app_disj : forall (l1 l2 : list nat) x, NoDup (l1 ++ l2) -> In x l1 -> In x l2 -> False.
Proof.
  induction l1 as [|a t IH]; simpl; intros l2 x Hnd H1 H2; [contradiction|].
  inversion Hnd as [|? ? Hni Hnd']; subst. destruct H1 as [->|H1].
  - apply Hni. apply in_or_app. right. assumption.
  - eapply IH; eauto.
Qed.

Lemma NoDup_app_intro : forall (l1 l2 : list nat),
  NoDup l1 -> NoDup l2 -> (forall x, In x l1 -> ~ In x l2) -> NoDup (l1 ++ l2).
Proof.
  induction l1 as [|a t IH]; simpl; intros l2 H1 H2 Hd; [assumption|].
  inversion H1 as [|? ? Hni Hnd]; subst. constructor.
  - intros Hin. apply in_app_or in Hin. destruct Hin as [Hin|Hin]; [contradiction|].
    apply (Hd a); auto.
  - apply IH; auto.
Qed.

Lemma NoDup_app_l : forall (l1 l2 : list nat), NoDup (l1 ++ l2) -> NoDup l1.
Proof.
  induction l1 as [|a t IH]; simpl; intros l2 H; [constructor|].
  inversion H as [|? ? Hni Hnd]; subst. constructor.
  - intros Hin. apply Hni. apply in_or_app. left. assumption.
  - eapply IH; eauto.
Qed.

Lemma NoDup_app_r : forall (l1 l2 : list nat), NoDup (l1 ++ l2) -> NoDup l2.
Proof.
  induction l1 as [|a t IH]; simpl; intros l2 H; [assumption|].
  inversion H; subst. auto.
Qed.

Lemma nth_map_seq : forall A (f : nat -> A) d n N, n < N -> nth n (map f (seq 0 N)) d = f n.
Proof.
  intros A f d n N H.
  rewrite nth_indep with (d' := f 0) by (rewrite map_length, seq_length; lia).
  rewrite map_nth. rewrite seq_nth by lia. reflexivity.
Qed.

Lemma deletes_app : forall a b, deletes (a ++ b) = deletes a ++ deletes b.
Proof. intros. unfold deletes. apply flat_map_app. Qed.

(* ------------------------------------------------------------------ the queue *)

Lemma in_queue_spec : forall q n, in_queue q n = true <-> exists c, In c q /\ In n (c_cands c).
Proof.
  intros q n. unfold in_queue. rewrite existsb_exists. split; intros [c [H1 H2]]; exists c; split; auto; apply mem_In; auto.
Qed.

Lemma find_none_in_queue : forall q n, find (holds_node n) q = None <-> in_queue q n = false.
Proof.
  induction q as [|c t IH]; simpl; intros n; [tauto|].
  unfold holds_node at 1. destruct (mem n (c_cands c)); simpl; [split; discriminate | apply IH].
Qed.

Lemma owner_none : forall q n, owner q n = None <-> in_queue q n = false.
Proof.
  intros q n. unfold owner. rewrite <- find_none_in_queue.
  change (fun c : cmd => mem n (c_cands c)) with (holds_node n).
  destruct (find (holds_node n) q); simpl; split; congruence.
Qed.

Lemma find_holds : forall q n c, find (holds_node n) q = Some c -> In c q /\ In n (c_cands c).
Proof.
  intros q n c H. apply find_some in H. destruct H as [H1 H2]. split; [assumption | apply mem_In; assumption].
Qed.

Lemma in_concat_cands : forall q n, In n (concat (map c_cands q)) <-> exists c, In c q /\ In n (c_cands c).
Proof.
  intros q n. rewrite in_concat. split.
  - intros [l [Hl Hn]]. apply in_map_iff in Hl. destruct Hl as [c [<- Hc]]. eauto.
  - intros [c [Hc Hn]]. exists (c_cands c). split; [apply in_map; assumption | assumption].
Qed.

Lemma uniq_holder : forall q a b n,
  NoDup (concat (map c_cands q)) -> In a q -> In b q -> In n (c_cands a) -> In n (c_cands b) -> a = b.
Proof.
  induction q as [|c t IH]; simpl; intros a b n Hnd Ha Hb Hna Hnb; [contradiction|].
  destruct Ha as [->|Ha], Hb as [->|Hb].
  - reflexivity.
  - exfalso. eapply NoDup_app_disj; [exact Hnd | exact Hna |]. apply in_concat_cands. eauto.
  - exfalso. eapply NoDup_app_disj; [exact Hnd | exact Hnb |]. apply in_concat_cands. eauto.
  - eapply IH; eauto. eapply NoDup_app_r; eauto.
Qed.

Lemma NoDup_concat_filter : forall f q,
  NoDup (concat (map c_cands q)) -> NoDup (concat (map c_cands (filter f q))).
Proof.
  induction q as [|c t IH]; simpl; intros H; [assumption|].
  destruct (f c); simpl.
  - apply NoDup_app_intro.
    + eapply NoDup_app_l; eauto.
    + apply IH. eapply NoDup_app_r; eauto.
    + intros x H1 H2. eapply NoDup_app_disj; [exact H | exact H1 |].
      apply in_concat_cands in H2. destruct H2 as [c' [Hc' Hx]]. apply filter_In in Hc'.
      apply in_concat_cands. exists c'. tauto.
  - apply IH. eapply NoDup_app_r; eauto.
Qed.

Lemma replace_same_cands : forall q n c c',
  NoDup (concat (map c_cands q)) -> find (holds_node n) q = Some c -> c_cands c' = c_cands c ->
  map c_cands (replace_cmd q n c') = map c_cands q.
Proof.
  intros q n c c' Hnd Hf Hc. unfold replace_cmd. rewrite map_map. apply map_ext_in.
  intros x Hx. destruct (holds_node n x) eqn:E; [|reflexivity].
  apply find_holds in Hf. destruct Hf as [Hin Hn]. unfold holds_node in E. apply mem_In in E.
  rewrite (uniq_holder q x c n Hnd Hx Hin E Hn). assumption.
Qed.

Lemma in_replace : forall q n c' x, In x (replace_cmd q n c') -> x = c' \/ (In x q /\ holds_node n x = false).
Proof.
  intros q n c' x H. unfold replace_cmd in H. apply in_map_iff in H. destruct H as [y [Hy Hin]].
  destruct (holds_node n y) eqn:E; [left; congruence | right; subst; auto].
Qed.

Lemma in_remove : forall q n x, In x (remove_cmd q n) <-> In x q /\ holds_node n x = false.
Proof.
  intros q n x. unfold remove_cmd. rewrite filter_In, negb_true_iff. tauto.
Qed.

(* ------------------------------------------------------------------ the per-candidate loops *)

Lemma upd_same : forall A (f : nat -> A) k v, upd f k v k = v.
Proof. intros. unfold upd. rewrite Nat.eqb_refl. reflexivity. Qed.

Lemma upd_other : forall A (f : nat -> A) k v x, x <> k -> upd f k v x = f x.
Proof. intros. unfold upd. destruct (x =? k) eqn:E; [apply Nat.eqb_eq in E; contradiction | reflexivity]. Qed.

Lemma mark_one_props : forall nodes ft fc c nodes' e ok,
  mark_one nodes ft fc c = (nodes', e, ok) ->
  deletes e = [] /\ forall x, n_mark (nodes' x) = n_mark (nodes x).
Proof.
  intros nodes ft fc c nodes' e ok H. unfold mark_one in H. cbv zeta in H.
  destruct (n_taint (nodes c)) eqn:Et; destruct (n_cond (nodes c)) eqn:Ecd;
  destruct (call_result _ (lookup ft c)); destruct (call_result true (lookup fc c));
  inversion H; subst; clear H;
  (split; [reflexivity |
           intros x; first [reflexivity | unfold upd; destruct (x =? c) eqn:E;
           [apply Nat.eqb_eq in E; subst; reflexivity | reflexivity]]]).
Qed.

Lemma mark_all_props : forall cands nodes ft fc nodes' e marked err,
  mark_all nodes ft fc cands = (nodes', e, marked, err) ->
  deletes e = [] /\ (forall x, n_mark (nodes' x) = n_mark (nodes x)) /\
  (forall m, In m marked -> In m cands) /\ (NoDup cands -> NoDup marked).
Proof.
  induction cands as [|c t IH]; simpl; intros nodes ft fc nodes' e marked err H.
  - inversion H; subst. repeat split; auto; intros; contradiction.
  - destruct (mark_one nodes ft fc c) as [[nodes1 e1] ok] eqn:E1.
    destruct (mark_all nodes1 ft fc t) as [[[nodes2 e2] mk] er] eqn:E2.
    inversion H; subst; clear H.
    apply mark_one_props in E1. destruct E1 as [D1 M1].
    apply IH in E2. destruct E2 as [D2 [M2 [S2 N2]]].
    split; [rewrite deletes_app, D1, D2; reflexivity|].
    split; [intros x; rewrite M2, M1; reflexivity|].
    split.
    + intros m Hm. destruct ok; [destruct Hm as [->|Hm]|]; auto.
    + intros Hnd. inversion Hnd; subst. destruct ok; auto. constructor; auto.
Qed.

Lemma create_all_props : forall k mk fcr js keys renv keys1 renv1 e err,
  create_all k mk fcr js keys renv = (keys1, renv1, e, err) ->
  deletes e = [] /\ incl keys keys1 /\ (forall k' j, k' <> k -> renv1 k' j = renv k' j) /\
  (err = false -> forall j, In j js -> In (k, j) keys1) /\
  ((forall k' j, r_exists (renv k' j) = true -> r_st (renv k' j) = true) ->
   forall k' j, r_exists (renv1 k' j) = true -> r_st (renv1 k' j) = true).
Proof.
  induction js as [|j t IH]; simpl; intros keys renv keys1 renv1 e err H.
  - inversion H; subst. split; [reflexivity|]. split; [apply incl_refl|]. split; [reflexivity|].
    split; [intros _ j []|]. auto.
  - destruct (mem j fcr).
    + destruct (create_all k mk fcr t keys renv) as [[[ks rv] e'] er] eqn:E.
      inversion H; subst; clear H. apply IH in E. destruct E as [D [I [R [A T]]]].
      split; [assumption|]. split; [assumption|]. split; [assumption|]. split; [discriminate | assumption].
    + destruct (create_all k mk fcr t (keys ++ [(k, j)]) (upd2 renv k j (mkRepl true false false true))) as [[[ks rv] e'] er] eqn:E.
      inversion H; subst; clear H. apply IH in E. destruct E as [D [I [R [A T]]]].
      split; [simpl; assumption|]. split; [intros x Hx; apply I; apply in_or_app; auto|].
      split; [|split].
      * intros k' j' Hk. rewrite R by assumption. unfold upd2.
        destruct (k' =? k) eqn:Ek; [apply Nat.eqb_eq in Ek; contradiction | reflexivity].
      * intros He j' [<-|Hj]; [apply I; apply in_or_app; right; simpl; auto | auto].
      * intros Ht. apply T. intros k' j'. unfold upd2. destruct ((k' =? k) && (j' =? j)); [reflexivity | apply Ht].
Qed.

Lemma untaint_all_props : forall cs nodes fut nodes' e err,
  untaint_all nodes fut cs = (nodes', e, err) ->
  deletes e = [] /\
  (forall x, n_cond (nodes' x) = n_cond (nodes x) /\ n_del (nodes' x) = n_del (nodes x) /\
             n_mark (nodes' x) = n_mark (nodes x) /\ n_stdel (nodes' x) = n_stdel (nodes x)) /\
  (forall x, n_taint (nodes' x) = true -> n_taint (nodes x) = true) /\
  (fut = [] -> err = false /\ forall x, In x cs -> obj_present (nodes x) = true -> n_taint (nodes' x) = false).
Proof.
  induction cs as [|c t IH]; simpl; intros nodes fut nodes' e err H.
  - inversion H; subst. repeat split; auto. intros; contradiction.
  - destruct (call_result (removable (nodes c)) (lookup fut c)) eqn:Ec.
    + destruct (untaint_all (upd nodes c (set_taint (nodes c) (n_taint (nodes c) && negb (removable (nodes c))))) fut t) as [[n1 e1] er] eqn:E.
      inversion H; subst; clear H. apply IH in E. destruct E as [D [F [T A]]].
      split; [rewrite deletes_app, D; destruct (removable (nodes c)); reflexivity|].
      split; [intros x; destruct (F x) as [F1 [F2 [F3 F4]]]; rewrite F1, F2, F3, F4; unfold upd;
              destruct (x =? c) eqn:Ex; [apply Nat.eqb_eq in Ex; subst|]; auto|].
      split.
      * intros x Hx. apply T in Hx. unfold upd in Hx. destruct (x =? c) eqn:Ex; [|assumption].
        apply Nat.eqb_eq in Ex. subst. simpl in Hx. apply andb_true_iff in Hx. tauto.
      * intros Hf. destruct (A Hf) as [A1 A2]. split; [assumption|].
        intros x [<-|Hx] Hp.
        -- destruct (n_taint (nodes' c)) eqn:Et; [|reflexivity].
           apply T in Et. rewrite upd_same in Et. simpl in Et. unfold removable in Et. rewrite Hp in Et.
           destruct (n_taint (nodes c)); simpl in Et; discriminate.
        -- apply A2; [assumption|]. unfold upd. destruct (x =? c) eqn:Ex; [|assumption].
           apply Nat.eqb_eq in Ex. subst. exact Hp.
    + apply IH in H. destruct H as [D [F [T A]]].
      split; [assumption|]. split; [assumption|]. split; [assumption|].
      intros Hf. subst fut. simpl in Ec. discriminate.
    + destruct (untaint_all nodes fut t) as [[n1 e1] er] eqn:E.
      inversion H; subst; clear H. apply IH in E. destruct E as [D [F [T A]]].
      split; [assumption|]. split; [assumption|]. split; [assumption|].
      intros Hf. subst fut. simpl in Ec. discriminate.
Qed.

Lemma clear_all_props : forall cs nodes fcl nodes' e err,
  clear_all nodes fcl cs = (nodes', e, err) ->
  deletes e = [] /\
  (forall x, n_taint (nodes' x) = n_taint (nodes x) /\ n_del (nodes' x) = n_del (nodes x) /\
             n_mark (nodes' x) = n_mark (nodes x) /\ n_stdel (nodes' x) = n_stdel (nodes x)) /\
  (forall x, n_cond (nodes' x) = true -> n_cond (nodes x) = true) /\
  (fcl = [] -> err = false /\ forall x, In x cs -> n_cond (nodes' x) = false).
Proof.
  induction cs as [|c t IH]; simpl; intros nodes fcl nodes' e err H.
  - inversion H; subst. repeat split; auto. intros; contradiction.
  - destruct (call_result (n_cond (nodes c)) (lookup fcl c)) eqn:Ec.
    + destruct (clear_all (upd nodes c (set_cond (nodes c) false)) fcl t) as [[n1 e1] er] eqn:E.
      inversion H; subst; clear H. apply IH in E. destruct E as [D [F [T A]]].
      split; [rewrite deletes_app, D; destruct (n_cond (nodes c)); reflexivity|].
      split; [intros x; destruct (F x) as [F1 [F2 [F3 F4]]]; rewrite F1, F2, F3, F4; unfold upd;
              destruct (x =? c) eqn:Ex; [apply Nat.eqb_eq in Ex; subst|]; auto|].
      split.
      * intros x Hx. apply T in Hx. unfold upd in Hx. destruct (x =? c) eqn:Ex; [simpl in Hx; discriminate | assumption].
      * intros Hf. destruct (A Hf) as [A1 A2]. split; [assumption|].
        intros x [<-|Hx]; [|auto].
        destruct (n_cond (nodes' c)) eqn:Et; [|reflexivity].
        apply T in Et. rewrite upd_same in Et. simpl in Et. discriminate.
    + apply IH in H. destruct H as [D [F [T A]]].
      split; [assumption|]. split; [assumption|]. split; [assumption|].
      intros Hf. subst fcl. simpl in Ec. discriminate.
    + destruct (clear_all nodes fcl t) as [[n1 e1] er] eqn:E.
      inversion H; subst; clear H. apply IH in E. destruct E as [D [F [T A]]].
      split; [assumption|]. split; [assumption|]. split; [assumption|].
      intros Hf. subst fcl. simpl in Ec. discriminate.
Qed.

Lemma delete_all_props : forall cands nodes fdel ready deleted nodes' e dl err,
  delete_all nodes fdel ready cands deleted = (nodes', e, dl, err) ->
  (forall n a t, In (n, a, t) (deletes e) -> In n cands /\ a = fst ready /\ t = snd ready) /\
  (forall x, n_mark (nodes' x) = n_mark (nodes x)) /\
  ((forall m, call_result true (lookup fdel m) <> Failed) -> err = false).
Proof.
  induction cands as [|c t IH]; simpl; intros nodes fdel ready deleted nodes' e dl err H.
  - inversion H; subst. split; [intros n0 a0 t0 []|]. split; reflexivity.
  - destruct (call_result true (lookup fdel c)) eqn:Ec.
    + destruct (n_gone (nodes c)).
      { destruct (delete_all nodes fdel ready t (tl deleted)) as [[[n1 e1] d1] er] eqn:E.
        inversion H; subst; clear H. apply IH in E. destruct E as [A [M N]]. split; [|split]; auto.
        intros n a t0 Hin. destruct (A n a t0 Hin) as [? [? ?]]; auto. }
      destruct (delete_all (upd nodes c (set_del (nodes c) true)) fdel ready t (tl deleted)) as [[[n1 e1] d1] er] eqn:E.
      inversion H; subst; clear H. apply IH in E. destruct E as [A [M N]].
      split; [|split].
      * intros n a t0 [Heq|Hin]; [inversion Heq; subst; auto | destruct (A n a t0 Hin) as [? [? ?]]; auto].
      * intros x. rewrite M. unfold upd. destruct (x =? c) eqn:Ex; [apply Nat.eqb_eq in Ex; subst|]; reflexivity.
      * assumption.
    + destruct (delete_all nodes fdel ready t (tl deleted)) as [[[n1 e1] d1] er] eqn:E.
      inversion H; subst; clear H. apply IH in E. destruct E as [A [M N]]. split; [|split]; auto.
      intros n a t0 Hin. destruct (A n a t0 Hin) as [? [? ?]]; auto.
    + destruct (delete_all nodes fdel ready t (tl deleted)) as [[[n1 e1] d1] er] eqn:E.
      inversion H; subst; clear H. apply IH in E. destruct E as [A [M N]]. split; [|split]; auto.
      * intros n a t0 Hin. destruct (A n a t0 Hin) as [? [? ?]]; auto.
      * intros Hno. exfalso. apply (Hno c). assumption.
Qed.

(* ------------------------------------------------------------------ the wait loop *)

Lemma wait_loop_general : forall l renv fget j0 l' w v,
  wait_loop renv fget j0 l = (l', w, v) ->
  length l' = length l /\
  (forall i, nth i l' false = true -> nth i l false = true \/ r_init (renv (j0 + i)) = true) /\
  (w = false -> v = false ->
     forallb id l' = true /\
     forall i, i < length l ->
       (nth i l false = true /\ r_st (renv (j0 + i)) = true) \/
       (r_exists (renv (j0 + i)) = true /\ r_init (renv (j0 + i)) = true)).
Proof.
  induction l as [|b rest IH]; simpl; intros renv fget j0 l' w v H.
  - inversion H; subst. split; [reflexivity|]. split; [intros i Hi; destruct i; discriminate|].
    intros _ _. split; [reflexivity | intros i Hi; lia].
  - assert (Hshift : forall i, j0 + S i = S j0 + i) by (intros; lia).
    destruct b.
    + destruct (r_st (renv j0)) eqn:Est.
      * destruct (wait_loop renv fget (S j0) rest) as [[l1 w1] v1] eqn:E. inversion H; subst; clear H.
        apply IH in E. destruct E as [L [A B]]. split; [simpl; congruence|]. split.
        -- intros [|i] Hi; [left; reflexivity|]. simpl in Hi. rewrite Hshift. apply A. assumption.
        -- intros Hw Hv. destruct (B Hw Hv) as [B1 B2]. split; [simpl; assumption|].
           intros [|i] Hi; [left; rewrite Nat.add_0_r; auto|]. rewrite Hshift. apply B2. lia.
      * inversion H; subst; clear H. split; [reflexivity|]. split; [intros i Hi; left; assumption | discriminate].
    + destruct (lookup fget j0) as [[|]|] eqn:Ef.
      * destruct (wait_loop renv fget (S j0) rest) as [[l1 w1] v1] eqn:E. inversion H; subst; clear H.
        apply IH in E. destruct E as [L [A B]]. split; [simpl; congruence|]. split.
        -- intros [|i] Hi; [simpl in Hi; discriminate|]. simpl in Hi. rewrite Hshift. apply A. assumption.
        -- discriminate.
      * destruct (r_st (renv j0)).
        -- destruct (wait_loop renv fget (S j0) rest) as [[l1 w1] v1] eqn:E. inversion H; subst; clear H.
           apply IH in E. destruct E as [L [A B]]. split; [simpl; congruence|]. split.
           ++ intros [|i] Hi; [simpl in Hi; discriminate|]. simpl in Hi. rewrite Hshift. apply A. assumption.
           ++ discriminate.
        -- inversion H; subst; clear H. split; [reflexivity|]. split.
           ++ intros i Hi. left. assumption.
           ++ discriminate.
      * destruct (r_exists (renv j0)) eqn:Ex.
        -- destruct (r_init (renv j0)) eqn:Ei.
           ++ destruct (wait_loop renv fget (S j0) rest) as [[l1 w1] v1] eqn:E. inversion H; subst; clear H.
              apply IH in E. destruct E as [L [A B]]. split; [simpl; congruence|]. split.
              ** intros [|i] Hi; [right; rewrite Nat.add_0_r; assumption|]. simpl in Hi. rewrite Hshift. apply A. assumption.
              ** intros Hw Hv. destruct (B Hw Hv) as [B1 B2]. split; [simpl; assumption|].
                 intros [|i] Hi; [right; rewrite Nat.add_0_r; auto|]. rewrite Hshift. apply B2. lia.
           ++ destruct (wait_loop renv fget (S j0) rest) as [[l1 w1] v1] eqn:E. inversion H; subst; clear H.
              apply IH in E. destruct E as [L [A B]]. split; [simpl; congruence|]. split.
              ** intros [|i] Hi; [simpl in Hi; discriminate|]. simpl in Hi. rewrite Hshift. apply A. assumption.
              ** discriminate.
        -- destruct (r_st (renv j0)).
           ++ destruct (wait_loop renv fget (S j0) rest) as [[l1 w1] v1] eqn:E. inversion H; subst; clear H.
              apply IH in E. destruct E as [L [A B]]. split; [simpl; congruence|]. split.
              ** intros [|i] Hi; [simpl in Hi; discriminate|]. simpl in Hi. rewrite Hshift. apply A. assumption.
              ** discriminate.
           ++ inversion H; subst; clear H. split; [reflexivity|]. split.
              ** intros i Hi. left. assumption.
              ** discriminate.
Qed.

(* a command whose replacements are all latched is never "waiting" *)
Lemma wait_loop_alltrue : forall l renv fget j0, forallb id l = true -> exists v, wait_loop renv fget j0 l = (l, false, v).
Proof.
  induction l as [|b rest IH]; simpl; intros renv fget j0 H; [eexists; reflexivity|].
  apply andb_true_iff in H. destruct H as [Hb Hr]. unfold id in Hb. subst b.
  destruct (r_st (renv j0)); [|eexists; reflexivity].
  destruct (IH renv fget (S j0) Hr) as [v ->]. eexists; reflexivity.
Qed.

Lemma forallb_id_nth : forall l i, forallb id l = true -> i < length l -> nth i l false = true.
Proof.
  induction l as [|b t IH]; simpl; intros i H Hi; [lia|].
  apply andb_true_iff in H. destruct H as [Hb Ht]. destruct i; [exact Hb | apply IH; [assumption | lia]].
Qed.

(* ------------------------------------------------------------------ the invariant *)

Record inv (s : state) : Prop := mkInv {
  inv_nodup : NoDup (concat (map c_cands (s_q s)));
  inv_latch : forall c j, In c (s_q s) -> nth j (c_latched c) false = true -> r_init (s_repl s (c_id c) j) = true;
  inv_keys  : forall c j, In c (s_q s) -> j < length (c_latched c) -> In (c_id c, j) (s_keys s);
  inv_fresh : forall c, In c (s_q s) -> c_id c < s_next s;
  inv_del   : forall c, In c (s_q s) -> existsb id (c_deleted c) = true -> forallb id (c_latched c) = true;
  inv_track : forall k j, r_exists (s_repl s k j) = true -> r_st (s_repl s k j) = true
}.

Lemma inv_init : forall n, inv (init n).
Proof. intros n. constructor; simpl; try (intros; contradiction); try discriminate. constructor. Qed.

(* the queue is untouched, Initialized facts of existing commands' replacements only grow *)
Lemma inv_weaken : forall s s',
  inv s -> s_q s' = s_q s ->
  (forall k j, k < s_next s -> r_init (s_repl s k j) = true -> r_init (s_repl s' k j) = true) ->
  (forall k j, r_exists (s_repl s' k j) = true -> r_st (s_repl s' k j) = true) ->
  incl (s_keys s) (s_keys s') -> s_next s <= s_next s' -> inv s'.
Proof.
  intros s s' [I1 I2 I3 I4 I5 I6] Hq Hr Ht Hk Hn. constructor.
  - rewrite Hq. assumption.
  - rewrite Hq. intros c j Hc Hl. apply Hr; [apply I4; assumption | apply I2; assumption].
  - rewrite Hq. intros c j Hc Hj. apply Hk. apply I3; assumption.
  - rewrite Hq. intros c Hc. specialize (I4 c Hc). lia.
  - rewrite Hq. assumption.
  - assumption.
Qed.

Lemma existsb_id_false : forall l, existsb id l = false -> forall d, In d l -> d = false.
Proof.
  intros l H d Hd. destruct d; [|reflexivity].
  assert (existsb id l = true) by (apply existsb_exists; exists true; auto). congruence.
Qed.

Lemma existsb_repeat_false : forall n, existsb id (repeat false n) = false.
Proof. induction n; simpl; auto. Qed.

Lemma nth_repeat_false : forall n j, nth j (repeat false n) false = false.
Proof. induction n; destruct j; simpl; auto. Qed.

(* ------------------------------------------------------------------ StartCommand *)

Lemma start_facts : forall s cands nrepl ft fc fcr s' r e,
  inv s -> start s cands nrepl ft fc fcr = (s', (r, e)) ->
  deletes e = [] /\
  (is_start_error r = true -> s_q s' = s_q s /\ forall x, n_mark (s_nodes s' x) = n_mark (s_nodes s x)) /\
  (r = Started -> forall m, In m cands -> in_queue (s_q s) m = false) /\
  inv s' /\ s_n s' = s_n s /\
  (r = Started \/ is_start_error r = true).
Proof.
  intros s cands nrepl ft fc fcr s' r e Hinv H. unfold start in H.
  assert (Hw : forall nodes keys renv,
            incl (s_keys s) keys -> (forall k' j, k' <> s_next s -> renv k' j = s_repl s k' j) ->
            (forall k' j, r_exists (renv k' j) = true -> r_st (renv k' j) = true) ->
            inv (mkState (s_n s) nodes (s_q s) keys renv (s_now s) (S (s_next s)))).
  { intros nodes keys renv Hk Hr Ht. apply (inv_weaken s); simpl; auto.
    intros k j Hlt Hi. rewrite Hr by lia. assumption. }
  pose proof (inv_track s Hinv) as Htrack.
  destruct (negb (valid_cands (s_n s) cands)) eqn:Ev.
  { inversion H; subst; clear H. simpl.
    split; [reflexivity|]. split; [intros _; split; [reflexivity | intros; reflexivity]|].
    split; [discriminate|]. split; [apply Hw; [apply incl_refl | reflexivity | assumption]|].
    split; [reflexivity | right; reflexivity]. }
  destruct (existsb (in_queue (s_q s)) cands) eqn:Eb.
  { inversion H; subst; clear H. simpl.
    split; [reflexivity|]. split; [intros _; split; [reflexivity | intros; reflexivity]|].
    split; [discriminate|]. split; [apply Hw; [apply incl_refl | reflexivity | assumption]|].
    split; [reflexivity | right; reflexivity]. }
  destruct (existsb (fun c => n_gone (s_nodes s c) || obj_gone (s_nodes s c)) cands).
  { inversion H; subst; clear H. simpl.
    split; [reflexivity|]. split; [intros _; split; [reflexivity | intros; reflexivity]|].
    split; [discriminate|]. split; [apply Hw; [apply incl_refl | reflexivity | assumption]|].
    split; [reflexivity | right; reflexivity]. }
  destruct (mark_all (s_nodes s) ft fc cands) as [[[nodes1 e1] marked] err] eqn:Em.
  apply mark_all_props in Em. destruct Em as [D1 [M1 [Sub Nd]]].
  destruct (err && ((0 <? nrepl) || is_nil marked)).
  { inversion H; subst; clear H. simpl.
    split; [assumption|]. split; [intros _; split; [reflexivity | assumption]|].
    split; [discriminate|]. split; [apply Hw; [apply incl_refl | reflexivity | assumption]|].
    split; [reflexivity | right; reflexivity]. }
  destruct (create_all (s_next s) (existsb (fun c => n_mark (nodes1 c)) marked) fcr (seq 0 nrepl) (s_keys s) (s_repl s))
    as [[[keys1 renv1] e2] cerr] eqn:Ec.
  apply create_all_props in Ec. destruct Ec as [D2 [Inc [Rv [All Trk]]]]. specialize (Trk Htrack).
  destruct cerr.
  { inversion H; subst; clear H. simpl. rewrite deletes_app, D1, D2.
    split; [reflexivity|]. split; [intros _; split; [reflexivity | assumption]|].
    split; [discriminate|]. split; [apply Hw; assumption|].
    split; [reflexivity | right; reflexivity]. }
  inversion H; subst; clear H. simpl. rewrite deletes_app, D1, D2.
  split; [reflexivity|]. split; [discriminate|]. split.
  { intros _ m Hm. rewrite <- not_true_iff_false. intros Hq.
    assert (existsb (in_queue (s_q s)) cands = true) by (apply existsb_exists; eauto). congruence. }
  split; [|auto].
  (* the invariant with the new command appended *)
  assert (Hvalid : NoDup cands).
  { apply negb_false_iff in Ev. unfold valid_cands in Ev. apply andb_true_iff in Ev. destruct Ev as [Ev _].
    apply andb_true_iff in Ev. destruct Ev as [_ Hinc]. clear - Hinc.
    assert (G : forall l, increasing l = true -> (forall a, (forall x, In x l -> a < x) -> True) /\ NoDup l /\ forall x, In x l -> hd 0 l <= x).
    { induction l as [|a t IH]; intros Hi.
      - repeat split; auto; [constructor | intros x []].
      - destruct t as [|b t'].
        + repeat split; auto; [constructor; [intros []|constructor] | intros x [<-|[]]; simpl; lia].
        + simpl in Hi. apply andb_true_iff in Hi. destruct Hi as [Hab Hi]. apply Nat.ltb_lt in Hab.
          destruct (IH Hi) as [_ [Hnd Hhd]]. repeat split; auto.
          * constructor; [|assumption]. intros Hin. specialize (Hhd a Hin). simpl in Hhd. lia.
          * intros x [<-|Hx]; simpl; [lia|]. specialize (Hhd x Hx). simpl in Hhd. lia. }
    apply G; assumption. }
  destruct Hinv as [I1 I2 I3 I4 I5 I6]. constructor; simpl; [| | | | | exact Trk].
  - rewrite map_app, concat_app. simpl. rewrite app_nil_r. apply NoDup_app_intro; auto.
    intros x Hx Hm. apply in_concat_cands in Hx. destruct Hx as [c [Hc Hxc]].
    assert (existsb (in_queue (s_q s)) cands = true).
    { apply existsb_exists. exists x. split; [auto|]. apply in_queue_spec. eauto. }
    congruence.
  - intros c j Hc Hl. apply in_app_or in Hc. destruct Hc as [Hc|[<-|[]]].
    + rewrite Rv by (specialize (I4 c Hc); lia). auto.
    + simpl in Hl. rewrite nth_repeat_false in Hl. discriminate.
  - intros c j Hc Hl. apply in_app_or in Hc. destruct Hc as [Hc|[<-|[]]].
    + apply Inc. auto.
    + simpl in *. rewrite repeat_length in Hl. apply All; [reflexivity | apply in_seq; lia].
  - intros c Hc. apply in_app_or in Hc. destruct Hc as [Hc|[<-|[]]]; [specialize (I4 c Hc); lia | simpl; lia].
  - intros c Hc Hd. apply in_app_or in Hc. destruct Hc as [Hc|[<-|[]]]; [auto|].
    simpl in Hd. rewrite existsb_repeat_false in Hd. discriminate.
Qed.

(* ------------------------------------------------------------------ Reconcile *)

Lemma mark_set_false : forall nodes cs m, In m cs -> n_mark (mark_set nodes cs false m) = false.
Proof. intros nodes cs m H. unfold mark_set. apply mem_In in H. rewrite H. reflexivity. Qed.

Lemma mark_set_del : forall nodes cs b x, n_del (mark_set nodes cs b x) = n_del (nodes x).
Proof. intros. unfold mark_set. destruct (mem x cs); reflexivity. Qed.

Lemma all_ready_intro : forall renv n, (forall i, i < n -> r_exists (renv i) = true /\ r_init (renv i) = true) -> all_ready renv n = true.
Proof.
  intros renv n H. unfold all_ready. apply forallb_seq. intros j Hj. destruct (H j Hj) as [-> ->]. reflexivity.
Qed.

Lemma all_tracked_intro : forall renv n, (forall i, i < n -> r_st (renv i) = true) -> all_tracked renv n = true.
Proof. intros renv n H. unfold all_tracked. apply forallb_seq. assumption. Qed.

Lemma inv_remove : forall s n nodes,
  inv s -> inv (mkState (s_n s) nodes (remove_cmd (s_q s) n) (s_keys s) (s_repl s) (s_now s) (s_next s)).
Proof.
  intros s n nodes [I1 I2 I3 I4 I5 I6]. constructor; simpl.
  - apply NoDup_concat_filter. assumption.
  - intros c j; rewrite in_remove; intros [Hc _]; auto.
  - intros c j; rewrite in_remove; intros [Hc _]; auto.
  - intros c; rewrite in_remove; intros [Hc _]; auto.
  - intros c; rewrite in_remove; intros [Hc _]; auto.
  - assumption.
Qed.

Lemma inv_replace : forall s n nodes c c',
  inv s -> find (holds_node n) (s_q s) = Some c ->
  c_id c' = c_id c -> c_cands c' = c_cands c -> length (c_latched c') = length (c_latched c) ->
  (forall j, nth j (c_latched c') false = true -> r_init (s_repl s (c_id c) j) = true) ->
  (existsb id (c_deleted c') = true -> forallb id (c_latched c') = true) ->
  inv (mkState (s_n s) nodes (replace_cmd (s_q s) n c') (s_keys s) (s_repl s) (s_now s) (s_next s)).
Proof.
  intros s n nodes c c' [I1 I2 I3 I4 I5 I6] Hf Hid Hc Hlen Hl Hd.
  destruct (find_holds _ _ _ Hf) as [Hin Hn].
  constructor; simpl.
  - rewrite (replace_same_cands _ _ c c'); auto.
  - intros x j Hx Hnth. apply in_replace in Hx. destruct Hx as [->|[Hx _]]; [rewrite Hid; auto | auto].
  - intros x j Hx Hj. apply in_replace in Hx. destruct Hx as [->|[Hx _]]; [rewrite Hid; apply I3; [assumption | lia] | auto].
  - intros x Hx. apply in_replace in Hx. destruct Hx as [->|[Hx _]]; [rewrite Hid; auto | auto].
  - intros x Hx Hdx. apply in_replace in Hx. destruct Hx as [->|[Hx _]]; auto.
  - assumption.
Qed.

(* no command of the queue has deleted anything yet *)
Definition clean (q : list cmd) : Prop := forall c, In c q -> forall d, In d (c_deleted c) -> d = false.

Lemma recon_facts : forall s n fget fdel fut fcl c s' r e,
  inv s -> find (holds_node n) (s_q s) = Some c -> recon s n fget fdel fut fcl = (s', (r, e)) ->
  (forall m a t, In (m, a, t) (deletes e) ->
     In m (c_cands c) /\ t = true /\
     (forall j, j < length (c_latched c) -> In (c_id c, j) (s_keys s) /\ r_init (s_repl s (c_id c) j) = true) /\
     ((forall j, j < length (c_latched c) -> r_exists (s_repl s (c_id c) j) = false -> r_st (s_repl s (c_id c) j) = false) -> a = true)) /\
  ((forall m, call_result true (lookup fdel m) <> Failed) ->
     (r = RFailed -> deletes e = []) /\ (clean (s_q s) -> clean (s_q s'))) /\
  (r = RFailed -> s_q s' = remove_cmd (s_q s) n /\ forall m, In m (c_cands c) -> n_mark (s_nodes s' m) = false) /\
  inv s' /\ s_n s' = s_n s /\
  (r = RDropped <-> n_gone (s_nodes s (hd 0 (c_cands c))) = true).
Proof.
  intros s n fget fdel fut fcl c s' r e Hinv Hf H. unfold recon in H. rewrite Hf in H.
  destruct (find_holds _ _ _ Hf) as [Hin Hn].
  destruct (n_gone (s_nodes s (hd 0 (c_cands c)))) eqn:Ehd.
  { inversion H; subst; clear H.
    split; [intros m a t []|]. split; [intros _; split; [discriminate | auto]|].
    split; [discriminate|]. split; [assumption|]. split; [reflexivity|]. split; auto. }
  assert (Hnd : forall r0 : ret, r0 <> RDropped -> (r0 = RDropped <-> false = true)).
  { intros r0 Hr0. split; [intros; contradiction | discriminate]. }
  destruct (wait_loop (s_repl s (c_id c)) fget 0 (c_latched c)) as [[l' w] v] eqn:Ew.
  pose proof (wait_loop_general _ _ _ _ _ _ _ Ew) as [Hlen [Hlat Hnow]].
  assert (Hfail : forall nodes e0,
    let '(nodes1, e1, _) := untaint_all nodes fut (c_cands c) in
    let '(nodes2, e2, _) := clear_all nodes1 fcl (c_cands c) in
    deletes (e0 ++ e1 ++ e2) = deletes e0).
  { intros nodes e0. destruct (untaint_all nodes fut (c_cands c)) as [[nodes1 e1] er1] eqn:E1.
    destruct (clear_all nodes1 fcl (c_cands c)) as [[nodes2 e2] er2] eqn:E2.
    apply untaint_all_props in E1. destruct E1 as [D1 _].
    apply clear_all_props in E2. destruct E2 as [D2 _].
    rewrite !deletes_app, D1, D2, app_nil_r. reflexivity. }
  assert (Hlatch : forall j, nth j l' false = true -> r_init (s_repl s (c_id c) j) = true).
  { intros j Hj. destruct (Hlat j Hj) as [Ho|Hi]; [eapply inv_latch; eauto | exact Hi]. }
  assert (Hclean_rm : clean (s_q s) -> clean (remove_cmd (s_q s) n)).
  { intros Hc x Hx. apply in_remove in Hx. destruct Hx as [Hx _]. apply Hc. assumption. }
  assert (Hclean_rp : forall c', c_deleted c' = c_deleted c -> clean (s_q s) -> clean (replace_cmd (s_q s) n c')).
  { intros c' Hd Hc x Hx. apply in_replace in Hx. destruct Hx as [->|[Hx _]]; [rewrite Hd; apply Hc; assumption | apply Hc; assumption]. }
  destruct v.
  { (* a replacement is gone: unrecoverable *)
    specialize (Hfail (s_nodes s) []).
    destruct (untaint_all (s_nodes s) fut (c_cands c)) as [[nodes1 e1] er1].
    destruct (clear_all nodes1 fcl (c_cands c)) as [[nodes2 e2] er2].
    inversion H; subst; clear H. simpl in Hfail.
    split; [intros m a t Hm; simpl in Hm; rewrite Hfail in Hm; contradiction|].
    split; [intros _; split; [intros _; exact Hfail | exact Hclean_rm]|].
    split; [intros _; split; [reflexivity | intros m Hm; apply mark_set_false; assumption]|].
    split; [apply inv_remove; assumption|]. split; [reflexivity | apply Hnd; discriminate]. }
  destruct w.
  { destruct (retry_ms (s_q s) <? s_now s - c_created c)%Z eqn:Et.
    - specialize (Hfail (s_nodes s) []).
      destruct (untaint_all (s_nodes s) fut (c_cands c)) as [[nodes1 e1] er1].
      destruct (clear_all nodes1 fcl (c_cands c)) as [[nodes2 e2] er2].
      inversion H; subst; clear H. simpl in Hfail.
      split; [intros m a t Hm; simpl in Hm; rewrite Hfail in Hm; contradiction|].
      split; [intros _; split; [intros _; exact Hfail | exact Hclean_rm]|].
      split; [intros _; split; [reflexivity | intros m Hm; apply mark_set_false; assumption]|].
      split; [apply inv_remove; assumption|]. split; [reflexivity | apply Hnd; discriminate].
    - inversion H; subst; clear H.
      split; [intros m a t []|].
      split; [intros _; split; [discriminate | apply Hclean_rp; reflexivity]|].
      split; [discriminate|].
      split; [|split; [reflexivity | apply Hnd; discriminate]].
      apply (inv_replace s n (s_nodes s) c); simpl; auto.
      intros Hd. pose proof (inv_del s Hinv c Hin Hd) as Hall.
      destruct (wait_loop_alltrue _ (s_repl s (c_id c)) fget 0 Hall) as [v' Hv']. rewrite Hv' in Ew. discriminate. }
  (* every replacement is latched: the delete phase *)
  destruct (Hnow eq_refl eq_refl) as [Hall Hready].
  destruct (delete_all (s_nodes s) fdel
              (all_ready (s_repl s (c_id c)) (length (c_latched c)), all_tracked (s_repl s (c_id c)) (length (c_latched c)))
              (c_cands c) (c_deleted c)) as [[[nodes1 ed] dl] derr] eqn:Ed.
  apply delete_all_props in Ed. destruct Ed as [Hd1 [Hd2 Hd3]].
  assert (Hdel : forall m a t, In (m, a, t) (deletes ed) ->
     In m (c_cands c) /\ t = true /\
     (forall j, j < length (c_latched c) -> In (c_id c, j) (s_keys s) /\ r_init (s_repl s (c_id c) j) = true) /\
     ((forall j, j < length (c_latched c) -> r_exists (s_repl s (c_id c) j) = false -> r_st (s_repl s (c_id c) j) = false) -> a = true)).
  { intros m a t Hm. destruct (Hd1 m a t Hm) as [Hmc [-> ->]]. simpl. split; [assumption|]. split; [|split].
    - apply all_tracked_intro. intros i Hi. destruct (Hready i Hi) as [[_ Hs]|[Hx _]]; [exact Hs | apply (inv_track s Hinv); exact Hx].
    - intros j Hj. split; [eapply inv_keys; eauto|].
      destruct (Hready j Hj) as [[Ho _]|[_ Hi]]; [eapply inv_latch; eauto | exact Hi].
    - intros Hdone. apply all_ready_intro. intros i Hi. destruct (Hready i Hi) as [[Ho Hs]|Hr]; [|exact Hr].
      split; [|eapply inv_latch; eauto].
      destruct (r_exists (s_repl s (c_id c) i)) eqn:Ex; [reflexivity|].
      simpl in Hs. rewrite (Hdone i Hi Ex) in Hs. discriminate. }
  destruct derr.
  - destruct (retry_ms (s_q s) <? s_now s - c_created c)%Z eqn:Et.
    + specialize (Hfail nodes1 ed).
      destruct (untaint_all nodes1 fut (c_cands c)) as [[nodes2 e1] er1].
      destruct (clear_all nodes2 fcl (c_cands c)) as [[nodes3 e2] er2].
      inversion H; subst; clear H.
      split; [intros m a t Hm; rewrite Hfail in Hm; auto|].
      split; [intros Hno; specialize (Hd3 Hno); discriminate|].
      split; [intros _; split; [reflexivity | intros m Hm; apply mark_set_false; assumption]|].
      split; [apply inv_remove; assumption|]. split; [reflexivity | apply Hnd; discriminate].
    + inversion H; subst; clear H.
      split; [assumption|].
      split; [intros Hno; specialize (Hd3 Hno); discriminate|].
      split; [discriminate|]. split; [|split; [reflexivity | apply Hnd; discriminate]].
      apply (inv_replace s n nodes1 c); simpl; auto.
  - inversion H; subst; clear H.
    split; [assumption|].
    split; [intros _; split; [discriminate | exact Hclean_rm]|].
    split; [discriminate|].
    split; [apply inv_remove; assumption|]. split; [reflexivity | apply Hnd; discriminate].
Qed.

Lemma recon_nocmd : forall s n fget fdel fut fcl,
  find (holds_node n) (s_q s) = None -> recon s n fget fdel fut fcl = (s, (RNoCmd, [])).
Proof. intros. unfold recon. rewrite H. reflexivity. Qed.

(* ------------------------------------------------------------------ controller cleanup *)

Lemma cleanup_facts : forall s fut fcl s' r e,
  inv s -> cleanup s fut fcl = (s', (r, e)) ->
  deletes e = [] /\ s_q s' = s_q s /\ s_n s' = s_n s /\ inv s' /\
  (forall x, n_mark (s_nodes s' x) = n_mark (s_nodes s x)) /\
  (r = COk -> fut = [] -> fcl = [] -> forall n, In n (outdated s) -> obj_present (s_nodes s n) = true ->
     n_taint (s_nodes s' n) = false /\ n_cond (s_nodes s' n) = false).
Proof.
  intros s fut fcl s' r e Hinv H. unfold cleanup in H.
  assert (Hw : forall nodes, inv (mkState (s_n s) nodes (s_q s) (s_keys s) (s_repl s) (s_now s) (s_next s))).
  { intros nodes. apply (inv_weaken s); simpl; auto using incl_refl. apply (inv_track s Hinv). }
  destruct (negb (synced s)).
  { inversion H; subst; clear H.
    split; [reflexivity|]. split; [reflexivity|]. split; [reflexivity|]. split; [assumption|].
    split; [reflexivity | discriminate]. }
  destruct (untaint_all (s_nodes s) fut (outdated s)) as [[nodes1 e1] err1] eqn:E1.
  pose proof (untaint_all_props _ _ _ _ _ _ E1) as [D1 [F1 [T1 A1]]].
  destruct err1.
  { inversion H; subst; clear H. simpl.
    split; [assumption|]. split; [reflexivity|]. split; [reflexivity|]. split; [apply Hw|].
    split; [intros x; apply F1 | discriminate]. }
  destruct (clear_all nodes1 fcl (outdated s)) as [[nodes2 e2] err2] eqn:E2.
  pose proof (clear_all_props _ _ _ _ _ _ E2) as [D2 [F2 [T2 A2]]].
  inversion H; subst; clear H. simpl. rewrite deletes_app, D1, D2.
  split; [reflexivity|]. split; [reflexivity|]. split; [reflexivity|]. split; [apply Hw|].
  split.
  - intros x. destruct (F2 x) as [_ [_ [-> _]]]. apply F1.
  - intros _ Hfu Hfc n Hn Hp. split.
    + destruct (F2 n) as [-> _]. apply A1; assumption.
    + apply A2; assumption.
Qed.

(* ------------------------------------------------------------------ environment steps *)

Lemma env_facts : forall s o s' r e,
  inv s -> step s o = (s', (r, e)) ->
  match o with Start _ _ _ _ _ | Recon _ _ _ _ _ | Cleanup _ _ => True
  | _ => e = [] /\ r = EnvOk /\ inv s' /\ s_n s' = s_n s end.
Proof.
  intros s o s' r e Hinv H.
  pose proof (inv_track s Hinv) as Htrack.
  assert (Hrepl : forall k j f, (forall x, r_init x = true -> r_init (f x) = true) ->
            (forall x, (r_exists x = true -> r_st x = true) -> r_exists (f x) = true -> r_st (f x) = true) ->
            inv (env_repl s k j f)).
  { intros k j f Hf Hg. apply (inv_weaken s); simpl; auto using incl_refl.
    - intros k' j' _ Hi. unfold upd2. destruct ((k' =? k) && (j' =? j)) eqn:E; [|assumption].
      apply andb_true_iff in E. destruct E as [E1 E2]. apply Nat.eqb_eq in E1. apply Nat.eqb_eq in E2. subst. auto.
    - intros k' j'. unfold upd2. destruct ((k' =? k) && (j' =? j)) eqn:E; [|apply Htrack].
      apply Hg. apply Htrack. }
  destruct o; simpl in H; auto; inversion H; subst; clear H; (split; [reflexivity|]); (split; [reflexivity|]); (split; [|reflexivity]).
  - apply Hrepl; intros x Hx; destruct (r_exists x) eqn:Ex; simpl; rewrite ?Ex; auto; try discriminate.
  - apply Hrepl; intros x Hx; destruct (r_exists x) eqn:Ex; simpl; rewrite ?Ex; auto; try discriminate.
  - apply Hrepl; intros x Hx; simpl; auto; try discriminate.
  - apply Hrepl; intros x Hx; destruct (r_exists x) eqn:Ex; simpl; rewrite ?Ex; auto; try discriminate.
  - apply (inv_weaken s); simpl; auto using incl_refl.
  - apply (inv_weaken s); simpl; auto using incl_refl.
  - constructor; simpl; try (intros; contradiction); auto. constructor.
  - apply (inv_weaken s); simpl; auto using incl_refl.
  - apply (inv_weaken s); simpl; auto using incl_refl.
  - apply (inv_weaken s); simpl; auto using incl_refl.
Qed.

Lemma step_inv : forall s o, inv s -> inv (fst (step s o)).
Proof.
  intros s o Hinv. destruct (step s o) as [s' [r e]] eqn:E. simpl.
  destruct o; try (pose proof (env_facts _ _ _ _ _ Hinv E) as Hf; simpl in Hf; tauto).
  - simpl in E. apply start_facts in E; tauto.
  - simpl in E. destruct (find (holds_node n) (s_q s)) as [c|] eqn:Ef.
    + eapply recon_facts in E; eauto. tauto.
    + rewrite recon_nocmd in E by assumption. inversion E; subst. assumption.
  - simpl in E. apply cleanup_facts in E; tauto.
Qed.

Lemma run_inv : forall ops s, inv s -> inv (run s ops).
Proof. induction ops as [|o t IH]; simpl; intros s H; [assumption | apply IH, step_inv, H]. Qed.

(* ------------------------------------------------------------------ snapshots of model states *)

Definition ostep_of (s : state) (o : op) : ostep :=
  (snap_of s, o, mkObs (fst (snd (step s o))) (snd (snd (step s o))) (snap_of (fst (step s o)))).

Lemma trace_cons : forall s o t, trace s (o :: t) = ostep_of s o :: trace (fst (step s o)) t.
Proof. intros s o t. unfold ostep_of. simpl. destruct (step s o) as [s' [r e]]. reflexivity. Qed.

Lemma trace_forall : forall (P : ostep -> Prop),
  (forall s o, inv s -> P (ostep_of s o)) -> forall ops s, inv s -> Forall P (trace s ops).
Proof.
  intros P HP. induction ops as [|o t IH]; intros s Hs; [constructor|].
  rewrite trace_cons. constructor; [apply HP; assumption | apply IH, step_inv, Hs].
Qed.

Lemma sn_len : forall s, length (sn_nodes (snap_of s)) = s_n s.
Proof. intros. simpl. rewrite map_length, seq_length. reflexivity. Qed.

Lemma sn_node_in : forall s n, n < s_n s ->
  sn_node (snap_of s) n = (s_nodes s n, mview (s_nodes s n), owner (s_q s) n).
Proof. intros s n H. unfold sn_node. simpl. apply (nth_map_seq _ (fun n => (s_nodes s n, mview (s_nodes s n), owner (s_q s) n))). assumption. Qed.

Lemma sn_node_out : forall s n, s_n s <= n -> sn_node (snap_of s) n = (node0, false, None).
Proof. intros s n H. unfold sn_node. apply nth_overflow. rewrite sn_len. assumption. Qed.

Lemma repl_inited_intro : forall s k j,
  In (k, j) (s_keys s) -> r_init (s_repl s k j) = true -> repl_inited (snap_of s) k j = true.
Proof.
  intros s k j Hk Hi. unfold repl_inited. apply existsb_exists.
  exists (k, j, s_repl s k j). split.
  - simpl. apply in_map_iff. exists (k, j). auto.
  - rewrite !Nat.eqb_refl, Hi. reflexivity.
Qed.

Lemma cmds_of_uniq : forall s n c c', inv s -> find (holds_node n) (s_q s) = Some c ->
  In c' (cmds_of (snap_of s) n) -> c' = c.
Proof.
  intros s n c c' Hinv Hf Hin. unfold cmds_of in Hin. simpl in Hin. apply filter_In in Hin.
  destruct Hin as [Hq Hh]. destruct (find_holds _ _ _ Hf) as [Hc Hn].
  unfold holds_node in Hh. apply mem_In in Hh.
  eapply uniq_holder; eauto. apply inv_nodup. assumption.
Qed.

Lemma cmds_of_none : forall s n c', find (holds_node n) (s_q s) = None -> ~ In c' (cmds_of (snap_of s) n).
Proof.
  intros s n c' Hf Hin. unfold cmds_of in Hin. simpl in Hin. apply filter_In in Hin. destruct Hin as [Hq Hh].
  pose proof (find_none _ _ Hf c' Hq). congruence.
Qed.

(* every step's effects and result class, by kind of operation *)
Lemma step_deletes_nonrecon : forall s o, inv s -> recon_node o = None -> deletes (snd (snd (step s o))) = [].
Proof.
  intros s o Hinv Hr. destruct (step s o) as [s' [r e]] eqn:E. simpl.
  destruct o; simpl in Hr; try discriminate;
    try (pose proof (env_facts _ _ _ _ _ Hinv E) as Hf; simpl in Hf; destruct Hf as [-> _]; reflexivity).
  - simpl in E. apply start_facts in E; tauto.
  - simpl in E. apply cleanup_facts in E; tauto.
Qed.

(* ------------------------------------------------------------------ (1) delete after all replacements initialized *)

Lemma in_cmds_of : forall s n c, find (holds_node n) (s_q s) = Some c -> In c (cmds_of (snap_of s) n).
Proof.
  intros s n c Hf. unfold cmds_of. simpl. apply filter_In. destruct (find_holds _ _ _ Hf) as [Hq Hn].
  split; [assumption | apply mem_In; assumption].
Qed.

Lemma del_after_init_step : forall s o, inv s -> del_after_init (ostep_of s o).
Proof.
  intros s o Hinv. unfold ostep_of, del_after_init. simpl o_eff. intros n a t Hin.
  destruct (recon_node o) as [m|] eqn:Er.
  - destruct o; simpl in Er; try discriminate. inversion Er; subst; clear Er.
    simpl in Hin. destruct (find (holds_node m) (s_q s)) as [c|] eqn:Ef.
    + destruct (recon s m fget fdel fut fcl) as [s' [r' e]] eqn:E. simpl in Hin.
      pose proof (recon_facts _ _ _ _ _ _ _ _ _ _ Hinv Ef E) as [F1 _].
      destruct (F1 n a t Hin) as [Hc [Ht [Hj _]]]. split; [assumption|].
      exists c. split; [apply (find_holds _ _ _ Ef)|].
      split; [assumption|]. intros j Hlt. destruct (Hj j Hlt). apply repl_inited_intro; assumption.
    + rewrite recon_nocmd in Hin by assumption. simpl in Hin. contradiction.
  - rewrite step_deletes_nonrecon in Hin by assumption. contradiction.
Qed.

Lemma delete_after_all_initialized_l : forall n ops, Forall del_after_init (trace (init n) ops).
Proof. intros n ops. apply trace_forall; [exact del_after_init_step | apply inv_init]. Qed.

(* (1') against the API itself: holds whenever the deletions of the command's replacements have been
   delivered to the cluster state; refuted without that (informer lag) *)
Lemma del_while_ready_step : forall s o, inv s -> deliveries_done (ostep_of s o) -> del_while_ready (ostep_of s o).
Proof.
  intros s o Hinv Hdone. unfold ostep_of, del_while_ready, deliveries_done in *. simpl o_eff. intros n a t Hin.
  destruct (recon_node o) as [m|] eqn:Er.
  - destruct o; simpl in Er; try discriminate. inversion Er; subst; clear Er.
    simpl in Hin. destruct (find (holds_node m) (s_q s)) as [c|] eqn:Ef.
    + destruct (recon s m fget fdel fut fcl) as [s' [r' e]] eqn:E. simpl in Hin.
      pose proof (recon_facts _ _ _ _ _ _ _ _ _ _ Hinv Ef E) as [F1 _].
      destruct (F1 n a t Hin) as [_ [_ [_ Hr]]]. apply Hr. intros j Hj Hex.
      apply (Hdone m c eq_refl (in_cmds_of _ _ _ Ef) j (s_repl s (c_id c) j) Hj); [|assumption].
      simpl. apply in_map_iff. exists (c_id c, j). split; [reflexivity|].
      destruct (find_holds _ _ _ Ef) as [Hq _]. eapply inv_keys; eauto.
    + rewrite recon_nocmd in Hin by assumption. simpl in Hin. contradiction.
  - rewrite step_deletes_nonrecon in Hin by assumption. contradiction.
Qed.

Lemma delete_while_replacements_exist_partial_l : forall n ops,
  Forall (fun x => deliveries_done x -> del_while_ready x) (trace (init n) ops).
Proof. intros n ops. apply trace_forall; [exact del_while_ready_step | apply inv_init]. Qed.

(* two replacements; the first initializes and is latched; it is then deleted from the API but the
   informer has not delivered the deletion; the second initializes; the candidates are deleted *)
Definition lag_witness : list op :=
  [Start [0; 1] 2 [] [] []; ReplLaunch 0 0; ReplLaunch 0 1; ReplInit 0 0; Recon 0 [] [] [] [];
   ReplDelApi 0 0; ReplInit 0 1; Recon 0 [] [] [] []].

Lemma delete_while_replacements_exist_refuted_l :
  exists n ops, ~ Forall del_while_ready (trace (init n) ops).
Proof.
  exists 2, lag_witness. intros H.
  assert (E : forallb del_while_ready_b (trace (init 2) lag_witness) = false) by (vm_compute; reflexivity).
  assert (E' : forallb del_while_ready_b (trace (init 2) lag_witness) = true).
  { apply forallb_forall. intros x Hx. apply del_while_ready_reflect. rewrite Forall_forall in H. auto. }
  congruence.
Qed.

(* before 61c12d2bd the same happened even after the deletion had been delivered *)
Definition gone_witness : list op :=
  [Start [0; 1] 2 [] [] []; ReplLaunch 0 0; ReplLaunch 0 1; ReplInit 0 0; Recon 0 [] [] [] [];
   ReplDelApi 0 0; ReplDelState 0 0; ReplInit 0 1; Recon 0 [] [] [] []].

Lemma prefix_latched_replacement_gone_refuted_l :
  ~ Forall del_after_init (trace_old (init 2) gone_witness) /\ Forall del_after_init (trace (init 2) gone_witness).
Proof.
  split.
  - intros H.
    assert (E : forallb del_after_init_b (trace_old (init 2) gone_witness) = false) by (vm_compute; reflexivity).
    assert (E' : forallb del_after_init_b (trace_old (init 2) gone_witness) = true).
    { apply forallb_forall. intros x Hx. apply del_after_init_reflect. rewrite Forall_forall in H. auto. }
    congruence.
  - apply delete_after_all_initialized_l.
Qed.

(* ------------------------------------------------------------------ (2) a failed command deletes nothing *)

Lemma lookup_in : forall A (l : list (nat * A)) k v, lookup l k = Some v -> In (k, v) l.
Proof.
  induction l as [|[k' v'] t IH]; simpl; intros k v H; [discriminate|].
  destruct (k' =? k) eqn:E; [apply Nat.eqb_eq in E; inversion H; subst; auto | auto].
Qed.

Lemma nofail_lookup : forall fdel, forallb (fun kv => negb (fails (snd kv))) fdel = true ->
  forall m, call_result true (lookup fdel m) <> Failed.
Proof.
  intros fdel H m. destruct (lookup fdel m) as [f|] eqn:E; [|simpl; discriminate].
  apply lookup_in in E. rewrite forallb_forall in H. specialize (H (m, f) E). simpl in H.
  apply negb_true_iff in H. unfold fails in H. intros Hc. rewrite Hc in H. discriminate.
Qed.

Lemma step_clean : forall s o, inv s -> clean (s_q s) -> nofail_op o = true ->
  clean (s_q (fst (step s o))) /\ failed_deletes_nothing (ostep_of s o).
Proof.
  intros s o Hinv Hcl Hno. unfold ostep_of, failed_deletes_nothing. simpl o_ret. simpl o_eff.
  destruct (step s o) as [s' [r e]] eqn:E. simpl.
  destruct o.
  - (* Start *)
    simpl in E. pose proof (start_facts _ _ _ _ _ _ _ _ _ Hinv E) as [D [Herr [_ [_ [_ Hr]]]]].
    split.
    + destruct Hr as [->|Hr].
      * (* Started: the queue grew by a command that has deleted nothing *)
        clear - E Hcl. unfold start in E.
        repeat match type of E with
        | context [let '(_, _) := ?x in _] => destruct x
        | context [if ?x then _ else _] => destruct x
        end; inversion E; subst; simpl; auto.
        intros c Hc d Hd. apply in_app_or in Hc. destruct Hc as [Hc|[<-|[]]]; [eapply Hcl; eauto|].
        simpl in Hd. apply repeat_spec in Hd. assumption.
      * destruct (Herr Hr) as [-> _]. assumption.
    + intros Hf. split; [assumption | intros; discriminate].
  - (* Recon *)
    simpl in E, Hno. destruct (find (holds_node n) (s_q s)) as [c|] eqn:Ef.
    + pose proof (recon_facts _ _ _ _ _ _ _ _ _ _ Hinv Ef E) as [_ [F2 _]].
      destruct (F2 (nofail_lookup _ Hno)) as [Hd Hc]. split; [auto|].
      intros Hr. split; [auto|]. intros m c' Hm Hc' d Hdd. inversion Hm; subst.
      rewrite (cmds_of_uniq _ _ _ _ Hinv Ef Hc') in Hdd.
      destruct (find_holds _ _ _ Ef) as [Hq _]. eapply Hcl; eauto.
    + rewrite recon_nocmd in E by assumption. inversion E; subst. split; [assumption | discriminate].
  - simpl in E. pose proof (cleanup_facts _ _ _ _ _ _ Hinv E) as [D [-> _]]. split; [assumption|].
    intros _. split; [assumption | intros; discriminate].
  - pose proof (env_facts _ _ _ _ _ Hinv E) as Hf; simpl in Hf. destruct Hf as [-> [-> _]].
    simpl in E. inversion E; subst. split; [assumption | discriminate].
  - pose proof (env_facts _ _ _ _ _ Hinv E) as Hf; simpl in Hf. destruct Hf as [-> [-> _]].
    simpl in E. inversion E; subst. split; [assumption | discriminate].
  - pose proof (env_facts _ _ _ _ _ Hinv E) as Hf; simpl in Hf. destruct Hf as [-> [-> _]].
    simpl in E. inversion E; subst. split; [assumption | discriminate].
  - pose proof (env_facts _ _ _ _ _ Hinv E) as Hf; simpl in Hf. destruct Hf as [-> [-> _]].
    simpl in E. inversion E; subst. split; [assumption | discriminate].
  - pose proof (env_facts _ _ _ _ _ Hinv E) as Hf; simpl in Hf. destruct Hf as [-> [-> _]].
    simpl in E. inversion E; subst. split; [assumption | discriminate].
  - pose proof (env_facts _ _ _ _ _ Hinv E) as Hf; simpl in Hf. destruct Hf as [-> [-> _]].
    simpl in E. inversion E; subst. split; [assumption | discriminate].
  - pose proof (env_facts _ _ _ _ _ Hinv E) as Hf; simpl in Hf. destruct Hf as [-> [-> _]].
    simpl in E. inversion E; subst. split; [intros c [] | discriminate].
  - pose proof (env_facts _ _ _ _ _ Hinv E) as Hf; simpl in Hf. destruct Hf as [-> [-> _]].
    simpl in E. inversion E; subst. split; [assumption | discriminate].
  - pose proof (env_facts _ _ _ _ _ Hinv E) as Hf; simpl in Hf. destruct Hf as [-> [-> _]].
    simpl in E. inversion E; subst. split; [assumption | discriminate].
  - pose proof (env_facts _ _ _ _ _ Hinv E) as Hf; simpl in Hf. destruct Hf as [-> [-> _]].
    simpl in E. inversion E; subst. split; [assumption | discriminate].
Qed.

(* as long as no Delete call fails on all its attempts, a command that is given up - replacement gone
   or timeout, at any time - has deleted nothing, in this pass or before *)
Lemma failed_command_deletes_nothing_l : forall n ops,
  forallb nofail_op ops = true -> Forall failed_deletes_nothing (trace (init n) ops).
Proof.
  intros n ops. assert (G : forall ops s, inv s -> clean (s_q s) -> forallb nofail_op ops = true ->
                             Forall failed_deletes_nothing (trace s ops)).
  { induction ops0 as [|o t IH]; intros s Hinv Hcl Hno; [constructor|].
    simpl in Hno. apply andb_true_iff in Hno. destruct Hno as [Ho Ht].
    rewrite trace_cons. destruct (step_clean s o Hinv Hcl Ho) as [Hcl' Hf].
    constructor; [assumption | apply IH; [apply step_inv; assumption | assumption | assumption]]. }
  intros Hno. apply G; [apply inv_init | intros c [] | assumption].
Qed.

(* two candidates, one replacement, ready; the Delete of node 1 fails on all 4 attempts while node 0 is
   deleted; the command then times out (or its replacement vanishes) and is rolled back although node 0
   is being deleted *)
Definition partial_witness : list op :=
  [Start [0; 1] 1 [] [] []; ReplLaunch 0 0; ReplInit 0 0; Recon 0 [] [(1, (OnWrite, KFail 4))] [] [];
   Advance 600001; Recon 0 [] [(1, (OnWrite, KFail 4))] [] []].

Lemma failed_command_deletes_nothing_refuted_l :
  exists n ops, ~ Forall failed_deletes_nothing (trace (init n) ops).
Proof.
  exists 2, partial_witness. intros H.
  assert (E : forallb failed_deletes_nothing_b (trace (init 2) partial_witness) = false) by (vm_compute; reflexivity).
  assert (E' : forallb failed_deletes_nothing_b (trace (init 2) partial_witness) = true).
  { apply forallb_forall. intros x Hx. apply failed_deletes_nothing_reflect. rewrite Forall_forall in H. auto. }
  congruence.
Qed.

(* before 14eb43d3c no fault was needed: a pass that deleted every candidate after the timeout was reported failed *)
Definition timeout_witness : list op :=
  [Start [0] 1 [] [] []; ReplLaunch 0 0; ReplInit 0 0; Advance 600001; Recon 0 [] [] [] []].

Lemma prefix_timeout_wrapper_refuted_l :
  forallb nofail_op timeout_witness = true /\
  ~ Forall failed_deletes_nothing (trace_old (init 1) timeout_witness) /\
  Forall failed_deletes_nothing (trace (init 1) timeout_witness).
Proof.
  split; [reflexivity|]. split.
  - intros H.
    assert (E : forallb failed_deletes_nothing_b (trace_old (init 1) timeout_witness) = false) by (vm_compute; reflexivity).
    assert (E' : forallb failed_deletes_nothing_b (trace_old (init 1) timeout_witness) = true).
    { apply forallb_forall. intros x Hx. apply failed_deletes_nothing_reflect. rewrite Forall_forall in H. auto. }
    congruence.
  - apply failed_command_deletes_nothing_l. reflexivity.
Qed.

(* ------------------------------------------------------------------ (3) roll back *)

Lemma failed_rolls_back_step : forall s o, inv s -> failed_rolls_back (ostep_of s o).
Proof.
  intros s o Hinv. unfold ostep_of, failed_rolls_back. simpl o_ret. simpl o_snap. intros Hr n c m Hn Hc Hm.
  destruct o; simpl in Hn; try discriminate. inversion Hn; subst; clear Hn. simpl in Hr |- *.
  destruct (find (holds_node n) (s_q s)) as [c0|] eqn:Ef.
  - destruct (recon s n fget fdel fut fcl) as [s' [r' e]] eqn:E. simpl in Hr |- *.
    pose proof (recon_facts _ _ _ _ _ _ _ _ _ _ Hinv Ef E) as [_ [_ [F3 [Hinv' Hsn]]]].
    destruct (F3 Hr) as [Hq Hmk]. rewrite (cmds_of_uniq _ _ _ _ Hinv Ef Hc) in Hm.
    unfold sn_fact, sn_owner. destruct (Nat.lt_ge_cases m (s_n s')) as [Hlt|Hge].
    + rewrite sn_node_in by assumption. simpl. split; [apply Hmk; assumption|].
      apply owner_none. rewrite Hq. rewrite <- not_true_iff_false. intros Hiq.
      apply in_queue_spec in Hiq. destruct Hiq as [c' [Hc' Hmc']]. apply in_remove in Hc'. destruct Hc' as [Hc'q Hh].
      destruct (find_holds _ _ _ Ef) as [Hc0 Hn0].
      assert (c' = c0) by (eapply uniq_holder; eauto; apply inv_nodup; assumption). subst c'.
      unfold holds_node in Hh. apply mem_false in Hh. contradiction.
    + rewrite sn_node_out by assumption. simpl. auto.
  - exfalso. eapply cmds_of_none; eauto.
Qed.

Lemma failed_command_rolls_back_l : forall n ops, Forall failed_rolls_back (trace (init n) ops).
Proof. intros n ops. apply trace_forall; [exact failed_rolls_back_step | apply inv_init]. Qed.

Lemma marks_snap : forall s, marks (snap_of s) = map (fun n => n_mark (s_nodes s n)) (seq 0 (s_n s)).
Proof. intros s. unfold marks. simpl. rewrite map_map. reflexivity. Qed.

Lemma start_failure_inert_step : forall s o, inv s -> start_failure_inert (ostep_of s o).
Proof.
  intros s o Hinv. unfold ostep_of, start_failure_inert. simpl o_ret. simpl o_eff. simpl o_snap. intros Hr.
  destruct (step s o) as [s' [r e]] eqn:E. simpl in Hr |- *.
  destruct o; try (pose proof (env_facts _ _ _ _ _ Hinv E) as Hf; simpl in Hf; destruct Hf as [_ [-> _]]; discriminate).
  - simpl in E. pose proof (start_facts _ _ _ _ _ _ _ _ _ Hinv E) as [D [Herr [_ [_ [Hn _]]]]].
    destruct (Herr Hr) as [Hq Hm]. split; [assumption|]. split; [assumption|].
    rewrite !marks_snap, Hn. apply map_ext. assumption.
  - simpl in E. destruct (find (holds_node n) (s_q s)) as [c|] eqn:Ef.
    + pose proof (recon_facts _ _ _ _ _ _ _ _ _ _ Hinv Ef E) as [_ [_ [_ _]]].
      exfalso. clear - E Hr Ef. unfold recon in E. rewrite Ef in E.
      destruct (wait_loop (s_repl s (c_id c)) fget 0 (c_latched c)) as [[l' w] v].
      repeat match type of E with
      | context [match ?x with _ => _ end] => destruct x
      | context [if ?x then _ else _] => destruct x
      end; inversion E; subst; discriminate.
    + rewrite recon_nocmd in E by assumption. inversion E; subst. discriminate.
  - simpl in E. exfalso. clear - E Hr. unfold cleanup in E.
    repeat match type of E with
    | context [match ?x with _ => _ end] => destruct x
    | context [if ?x then _ else _] => destruct x
    end; inversion E; subst; discriminate.
Qed.

Lemma start_failure_is_inert_l : forall n ops, Forall start_failure_inert (trace (init n) ops).
Proof. intros n ops. apply trace_forall; [exact start_failure_inert_step | apply inv_init]. Qed.

Lemma cleanup_restores_step : forall s o, inv s -> cleanup_restores (ostep_of s o).
Proof.
  intros s o Hinv. unfold ostep_of, cleanup_restores. simpl o_ret. simpl o_snap. intros Hc n Hlt Ho Hm Hg Hp.
  destruct o; simpl in Hc; try discriminate.
  destruct fut; [|discriminate]. destruct fcl; [|discriminate].
  simpl in Hc |- *. destruct (cleanup s [] []) as [s' [r e]] eqn:E. simpl in Hc |- *.
  destruct r; try discriminate.
  pose proof (cleanup_facts _ _ _ _ _ _ Hinv E) as [_ [_ [Hn [_ [_ Hclean]]]]].
  rewrite sn_len in Hlt. unfold sn_owner, sn_mview, sn_fact in Ho, Hm, Hg, Hp. rewrite sn_node_in in Ho, Hm, Hg, Hp by assumption.
  simpl in Ho, Hm, Hg, Hp. unfold sn_fact. rewrite sn_node_in by lia. simpl.
  apply Hclean; auto. unfold outdated. apply filter_In. split; [apply in_seq; lia|].
  apply owner_none in Ho. rewrite Ho, Hm, Hg. unfold obj_gone. unfold obj_present in Hp.
  destruct (n_obj (s_nodes s n)); try discriminate. reflexivity.
Qed.

Lemma cleanup_restores_service_l : forall n ops, Forall cleanup_restores (trace (init n) ops).
Proof. intros n ops. apply trace_forall; [exact cleanup_restores_step | apply inv_init]. Qed.

(* ------------------------------------------------------------------ (4) one command per node *)

Lemma one_cmd_per_node_step : forall s o, inv s -> one_cmd_per_node (ostep_of s o).
Proof.
  intros s o Hinv. unfold ostep_of, one_cmd_per_node. simpl o_ret. simpl o_snap.
  pose proof (step_inv s o Hinv) as Hinv'.
  split; [apply inv_nodup; assumption|]. split.
  - intros n Hn. rewrite sn_len in Hn. unfold sn_owner. rewrite sn_node_in by assumption. reflexivity.
  - intros Hr n Hin. destruct o; simpl in Hin; try contradiction.
    simpl in Hr. destruct (start s cands nrepl ft fc fcr) as [s' [r e]] eqn:E. simpl in Hr.
    pose proof (start_facts _ _ _ _ _ _ _ _ _ Hinv E) as [_ [_ [Hs _]]].
    unfold sn_owner. destruct (Nat.lt_ge_cases n (s_n s)) as [Hlt|Hge].
    + rewrite sn_node_in by assumption. simpl. apply owner_none. apply Hs; assumption.
    + rewrite sn_node_out by assumption. reflexivity.
Qed.

Lemma one_command_per_node_l : forall n ops, Forall one_cmd_per_node (trace (init n) ops).
Proof. intros n ops. apply trace_forall; [exact one_cmd_per_node_step | apply inv_init]. Qed.

(* a command whose candidates overlap an in-flight command is refused and changes nothing but the id counter *)
Lemma start_refuses_overlap_l : forall n ops cands nrepl ft fc fcr m,
  let s := run (init n) ops in
  valid_cands (s_n s) cands = true -> In m cands -> in_queue (s_q s) m = true ->
  let '(s', (r, e)) := step s (Start cands nrepl ft fc fcr) in
  r = ErrBusy /\ e = [] /\ s_q s' = s_q s /\ (forall x, s_nodes s' x = s_nodes s x).
Proof.
  intros n ops cands nrepl ft fc fcr m s Hv Hm Hq. simpl. unfold start. rewrite Hv. simpl.
  assert (E : existsb (in_queue (s_q s)) cands = true) by (apply existsb_exists; eauto).
  rewrite E. auto.
Qed.

(* a restart forgets every command and every mark; the candidates are then ordinary nodes again *)
Lemma restart_forgets_l : forall n ops,
  let s' := fst (step (run (init n) ops) Restart) in
  s_q s' = [] /\ forall x, n_mark (s_nodes s' x) = false.
Proof. intros n ops. simpl. split; [reflexivity | intros x; reflexivity]. Qed.

(* ------------------------------------------------------------------ (5) every command stays reachable *)

(* a reconcile request for a command is dropped exactly when the NodeClaim the queue enqueued - that of the
   command's first candidate - is gone *)
Lemma reconcile_reaches_command_l : forall n ops m fget fdel fut fcl c,
  let s := run (init n) ops in
  find (holds_node m) (s_q s) = Some c ->
  (fst (snd (step s (Recon m fget fdel fut fcl))) = RDropped <-> n_gone (s_nodes s (hd 0 (c_cands c))) = true).
Proof.
  intros n ops m fget fdel fut fcl c s Hf. simpl.
  destruct (recon s m fget fdel fut fcl) as [s' [r e]] eqn:E. simpl.
  assert (Hinv : inv s) by (apply run_inv, inv_init).
  pose proof (recon_facts _ _ _ _ _ _ _ _ _ _ Hinv Hf E) as [_ [_ [_ [_ [_ H]]]]]. exact H.
Qed.

(* three candidates, the first vanishes completely while the command waits: every later request is dropped,
   the command is never reconciled again - no timeout, no rollback - and candidates 1 and 2 stay tainted, marked
   and queued *)
Definition orphan_witness : list op :=
  [Start [0; 1; 2] 1 [] [] []; ReplLaunch 0 0; CandGone 0; Advance 3600001; Recon 1 [] [] [] []; Cleanup [] []].

Lemma command_reachable_refuted_l : exists n ops, ~ Forall cmd_reachable (trace (init n) ops).
Proof.
  exists 3, orphan_witness. intros H.
  assert (E : forallb cmd_reachable_b (trace (init 3) orphan_witness) = false) by (vm_compute; reflexivity).
  assert (E' : forallb cmd_reachable_b (trace (init 3) orphan_witness) = true).
  { apply forallb_forall. intros x Hx. apply cmd_reachable_reflect. rewrite Forall_forall in H. auto. }
  congruence.
Qed.

(* ------------------------------------------------------------------ (3b') a rejected start changes nothing *)

Lemma start_busy : forall s cands nrepl ft fc fcr s' e,
  start s cands nrepl ft fc fcr = (s', (ErrBusy, e)) -> e = [] /\ snap_of s' = snap_of s.
Proof.
  intros s cands nrepl ft fc fcr s' e E. unfold start in E.
  destruct (negb (valid_cands (s_n s) cands)); [inversion E|].
  destruct (existsb (in_queue (s_q s)) cands).
  { inversion E; subst. split; reflexivity. }
  destruct (existsb (fun c => n_gone (s_nodes s c) || obj_gone (s_nodes s c)) cands); [inversion E|].
  destruct (mark_all (s_nodes s) ft fc cands) as [[[nodes1 e1] marked] err].
  destruct (err && ((0 <? nrepl) || is_nil marked)); [inversion E|].
  destruct (create_all (s_next s) (existsb (fun c => n_mark (nodes1 c)) marked) fcr (seq 0 nrepl) (s_keys s) (s_repl s))
    as [[[keys1 renv1] e2] cerr].
  destruct cerr; inversion E.
Qed.

Lemma owners_snap : forall s, owners (snap_of s) = map (fun n => owner (s_q s) n) (seq 0 (s_n s)).
Proof. intros s. unfold owners. simpl. rewrite map_map. reflexivity. Qed.

Lemma rejected_start_inert_step : forall s o, inv s -> rejected_start_inert (ostep_of s o).
Proof.
  intros s o Hinv. unfold ostep_of, rejected_start_inert. simpl o_ret. simpl o_eff. simpl o_snap.
  destruct (step s o) as [s' [r e]] eqn:E. simpl.
  destruct o; try (pose proof (env_facts _ _ _ _ _ Hinv E) as Hf; simpl in Hf; destruct Hf as [_ [-> _]]; split; discriminate).
  - simpl in E. split.
    + intros Hr. pose proof (start_facts _ _ _ _ _ _ _ _ _ Hinv E) as [_ [Herr [_ [_ [Hn _]]]]].
      destruct (Herr Hr) as [Hq _]. rewrite !owners_snap, Hn, Hq. reflexivity.
    + intros Hr. subst r. destruct (start_busy _ _ _ _ _ _ _ _ E) as [-> Hs].
      split; [reflexivity|]. split; [exact (f_equal taints Hs)|]. split; [exact (f_equal conds Hs)|].
      split; [exact (f_equal marks Hs) | exact (f_equal sn_cmds Hs)].
  - simpl in E. assert (Hne : is_start_error r = false /\ r <> ErrBusy).
    { destruct (find (holds_node n) (s_q s)) as [c|] eqn:Ef.
      - clear - E Ef. unfold recon in E. rewrite Ef in E.
        destruct (wait_loop (s_repl s (c_id c)) fget 0 (c_latched c)) as [[l' w] v].
        repeat match type of E with
        | context [match ?x with _ => _ end] => destruct x
        | context [if ?x then _ else _] => destruct x
        end; inversion E; subst; split; (reflexivity || discriminate).
      - rewrite recon_nocmd in E by assumption. inversion E; subst. split; [reflexivity | discriminate]. }
    destruct Hne as [H1 H2]. split; [rewrite H1; discriminate | intros; contradiction].
  - simpl in E. assert (Hne : is_start_error r = false /\ r <> ErrBusy).
    { clear - E. unfold cleanup in E.
      repeat match type of E with
      | context [match ?x with _ => _ end] => destruct x
      | context [if ?x then _ else _] => destruct x
      end; inversion E; subst; split; (reflexivity || discriminate). }
    destruct Hne as [H1 H2]. split; [rewrite H1; discriminate | intros; contradiction].
Qed.

Lemma rejected_start_changes_nothing_l : forall n ops, Forall rejected_start_inert (trace (init n) ops).
Proof. intros n ops. apply trace_forall; [exact rejected_start_inert_step | apply inv_init]. Qed.
