(* C03 — the boolean oracles of C03/Check.v that are evaluated on the implementation's observations
   are the Prop-level statements. *)
From KV Require Import C03.Model C03.Check.
Open Scope Z_scope.

Lemma reserve_ok_spec pools np l w after d :
  0 <= w -> dump_of pools after np = Some d ->
  (reserve_ok pools (OReserve np l w) after = true <->
   0 <= o_out after <= w /\ (0 < o_out after -> d_cnt d + d_res d <= l)).
Proof.
  intros Hw Hd. unfold reserve_ok. rewrite Hd.
  destruct (w <? 0) eqn:E; [apply Z.ltb_lt in E; lia|].
  rewrite !andb_true_iff, !Z.leb_le. destruct (0 <? o_out after) eqn:E2.
  - apply Z.ltb_lt in E2. rewrite Z.leb_le. split; intros H; [split; [lia|intros; tauto] | split; [lia | apply H; lia]].
  - apply Z.ltb_ge in E2. split; intros H; [split; [lia|intros; lia] | split; [lia | reflexivity]].
Qed.

Lemma node_limit_oracle_spec o limit : (so_api o <=? limit) = true <-> so_api o <= limit.
Proof. apply Z.leb_le. Qed.
