(* C03 — static_fixpoint: on a quiescent pool one provisioning reconcile (scale-up) or one deprovisioning
   reconcile followed by the terminations (scale-down) reaches count = replicas, and further reconciles
   change nothing. NodePoolState level (nothing is in flight, so the ticket bookkeeping is idle). *)
From KV Require Import C03.Model C03.Proofs.
Open Scope Z_scope.

Lemma In_firstn {A} (x : A) n : forall l, In x (firstn n l) -> In x l.
Proof. induction n as [|n IH]; intros [|y t] H; simpl in *; try contradiction. destruct H; [now left | right; now apply IH]. Qed.

Lemma NoDup_firstn {A} n : forall l : list A, NoDup l -> NoDup (firstn n l).
Proof.
  induction n as [|n IH]; intros [|y t] H; simpl; try constructor.
  - inversion H; subst. intros Hin. apply H2. eapply In_firstn; eauto.
  - inversion H; subst. now apply IH.
Qed.

Lemma srem_notin c l : mem c l = false -> srem c l = l.
Proof.
  induction l as [|y t IH]; simpl; [reflexivity|]. intros H. apply orb_false_iff in H. destruct H as [H1 H2].
  rewrite H1. simpl. now rewrite IH.
Qed.

Lemma entry_of_counts s np e :
  pool s np = Some e ->
  counts s np = (Z.of_nat (List.length (act e)), Z.of_nat (List.length (del e)), Z.of_nat (List.length (pen e))) /\
  (forall c, known s np c = mem c (act e) || mem c (del e) || mem c (pen e)).
Proof. intros H. unfold counts, known. rewrite H. auto. Qed.

(* UpdateNodeClaim of a claim the pool does not know yet: one more active claim *)
Lemma update_new s np c a d p :
  np <> 0%nat -> known s np c = false -> counts s np = (a, d, p) ->
  exists s', update_nc s np c false = Ok s' 0 /\ counts s' np = (a + 1, d, p) /\
    (forall q, reserved s' q = reserved s q) /\
    (forall x, known s' np x = known s np x || Nat.eqb x c).
Proof.
  intros Hnz Hk Hc. unfold update_nc. destruct (Nat.eqb np 0) eqn:E; [apply Nat.eqb_eq in E; contradiction|].
  destruct (set_mapping_effect s np c) as [Sr [Sk Sc]]. set (s0 := set_mapping s np c) in *.
  unfold mark. destruct (ensure_pool_some s0 np) as [e He]. rewrite He.
  destruct (entry_of_counts _ _ _ He) as [Hce Hke].
  rewrite ensure_counts, Sc, Hc in Hce.
  assert (Hkc : mem c (act e) || mem c (del e) || mem c (pen e) = false).
  { rewrite <- Hke, ensure_known, Sk. exact Hk. }
  apply orb_false_iff in Hkc. destruct Hkc as [Hkc Hp]. apply orb_false_iff in Hkc. destruct Hkc as [Ha Hd].
  eexists. split; [reflexivity|]. repeat split.
  - unfold counts; simpl. rewrite upd_same. simpl. unfold sadd. rewrite Ha, (srem_notin _ _ Hd), (srem_notin _ _ Hp).
    simpl List.length. inversion Hce. rewrite Nat2Z.inj_succ. replace (Z.succ (Z.of_nat (List.length (act e)))) with (Z.of_nat (List.length (act e)) + 1) by lia. reflexivity.
  - intros q. rewrite <- Sr, <- (ensure_reserved s0 np q). reflexivity.
  - intros x. unfold known at 1; simpl. rewrite upd_same. simpl.
    rewrite mem_sadd, (srem_notin _ _ Hd), (srem_notin _ _ Hp).
    rewrite <- Sk, <- (ensure_known s0 np np x), Hke.
    destruct (Nat.eqb x c), (mem x (act e)), (mem x (del e)), (mem x (pen e)); reflexivity.
Qed.

Definition create_one (np : name) (s' : st) (c : name) : st :=
  match update_nc s' np c false with
  | Ok s2 _ => match release_gen true s2 np 1 with Ok s3 _ => s3 | Panic => s2 end
  | Panic => s'
  end.

Lemma prov_loop np : np <> 0%nat -> forall names s a d p R,
  NoDup names -> (forall c, In c names -> known s np c = false) ->
  counts s np = (a, d, p) -> reserved s np = R -> Z.of_nat (List.length names) <= R ->
  let s' := fold_left (create_one np) names s in
  counts s' np = (a + Z.of_nat (List.length names), d, p) /\ reserved s' np = R - Z.of_nat (List.length names).
Proof.
  intros Hnz. induction names as [|c t IH]; intros s a d p R Hnd Hk Hc Hr Hlen; cbn [fold_left].
  - simpl. split; [rewrite Hc; f_equal; f_equal; lia | lia].
  - inversion Hnd as [|x xs Hnin Hnd']. subst x xs.
    destruct (update_new s np c a d p Hnz (Hk c (or_introl eq_refl)) Hc) as [s2 [Hu [Hc2 [Hr2 Hk2]]]].
    destruct (release_ok s2 np 1) as [s3 Hrel].
    assert (Hstep : create_one np s c = s3) by (unfold create_one; rewrite Hu, Hrel; reflexivity).
    rewrite Hstep.
    change (List.length (c :: t)) with (S (List.length t)) in *. rewrite Nat2Z.inj_succ in *.
    destruct (release_effect _ _ _ _ _ Hrel) as [Hk3 [Hc3 [Hr3 _]]].
    destruct (IH s3 (a + 1) d p (R - 1) Hnd') as [IHc IHr].
    + intros c' Hin. rewrite Hk3, Hk2, (Hk c' (or_intror Hin)). simpl.
      apply Nat.eqb_neq. intros ->. contradiction.
    + now rewrite Hc3.
    + rewrite Hr3, Hr2, Hr. lia.
    + lia.
    + split; [rewrite IHc; f_equal; f_equal; lia | rewrite IHr; lia].
Qed.

Lemma prov_reconcile_fold s np l r names :
  prov_reconcile s np l r names =
  let '(a, _, p) := counts s np in
  if r <=? a + p then s
  else match reserve s np l (r - a) with
       | Panic => s
       | Ok s1 g => fold_left (create_one np) (firstn (Z.to_nat g) names) s1
       end.
Proof. reflexivity. Qed.

(* scale-up: from a <= replicas <= limit the pool reaches exactly replicas, nothing stays reserved, and
   a further provisioning or deprovisioning reconcile does nothing *)
Lemma static_fixpoint_up_l : forall s np l r a names names' victims,
  np <> 0%nat -> counts s np = (a, 0, 0) -> reserved s np = 0 -> a <= r -> r <= l ->
  NoDup names -> (forall c, In c names -> known s np c = false) -> r - a <= Z.of_nat (List.length names) ->
  let s1 := prov_reconcile s np l r names in
  counts s1 np = (r, 0, 0) /\ reserved s1 np = 0 /\
  prov_reconcile s1 np l r names' = s1 /\ deprov_reconcile s1 np r victims = s1.
Proof.
  intros s np l r a names names' victims Hnz Hc Hr Har Hrl Hnd Hk Hlen.
  assert (H1 : counts (prov_reconcile s np l r names) np = (r, 0, 0) /\ reserved (prov_reconcile s np l r names) np = 0).
  { rewrite prov_reconcile_fold, Hc. destruct (r <=? a + 0) eqn:E.
    - apply Z.leb_le in E. assert (a = r) by lia. subst. auto.
    - apply Z.leb_gt in E.
      destruct (provision_grant_l s np l r a 0 0 Hc Hr ltac:(lia)) as [s1 [g [Hres [Hg [Hc1 [Hr1 _]]]]]].
      rewrite Hres. assert (Hgv : g = r - a) by lia.
      set (ns := firstn (Z.to_nat g) names).
      assert (Hl : Z.of_nat (List.length ns) = g).
      { unfold ns. rewrite firstn_length, Nat.min_l by lia. lia. }
      destruct (reserve_spec s np l (r - a)) as [s1' [g' [Hres' [_ [Hk1 _]]]]]. rewrite Hres in Hres'. inversion Hres'; subst s1' g'.
      destruct (prov_loop np Hnz ns s1 a 0 0 g) as [Hcf Hrf].
      + apply NoDup_firstn, Hnd.
      + intros c Hin. rewrite Hk1. apply Hk. eapply In_firstn; exact Hin.
      + exact Hc1.
      + exact Hr1.
      + lia.
      + split; [rewrite Hcf; f_equal; f_equal; lia | lia]. }
  destruct H1 as [Hc1 Hr1]. cbv zeta. repeat split; [exact Hc1 | exact Hr1 | |].
  - rewrite prov_reconcile_fold, Hc1. replace (r <=? r + 0) with true by (symmetry; apply Z.leb_le; lia). reflexivity.
  - unfold deprov_reconcile. rewrite Hc1. replace (r - r <=? 0) with true by (symmetry; apply Z.leb_le; lia). reflexivity.
Qed.

(* ------------------------------------------------------------------ int64: where Go could wrap *)

Definition in64 (z : Z) : Prop := - 2 ^ 63 <= z < 2 ^ 63.

(* Every intermediate value of ReserveNodeCount / ReleaseNodeCount is an int64 (so the model's Z arithmetic
   IS the Go arithmetic) as long as: the limit is a non-negative int64 (MaxInt64 when unset), the tracked
   count fits 32 bits, the reserved counter is in [0, 2^61] and the request / release count is within
   +-2^61. Outside: a reserved counter driven negative by a negative request together with the MaxInt64
   limit, or requests of the order of 2^62 (replicas ~ 2^62) can wrap. *)
Lemma reserve_no_wrap_l : forall l c R w,
  0 <= l < 2 ^ 63 -> 0 <= c <= 2 ^ 32 -> 0 <= R <= 2 ^ 61 -> - 2 ^ 61 <= w <= 2 ^ 61 ->
  in64 (l - c) /\ in64 (l - c - R) /\
  in64 (R + (if l - c - R <? w then l - c - R else w)) /\ in64 (R - w).
Proof.
  intros l c R w Hl Hc HR Hw. unfold in64.
  assert (E63 : 2 ^ 63 = 9223372036854775808) by reflexivity.
  assert (E61 : 2 ^ 61 = 2305843009213693952) by reflexivity.
  assert (E32 : 2 ^ 32 = 4294967296) by reflexivity.
  rewrite E63, E61, E32 in *.
  destruct (l - c - R <? w) eqn:E; [apply Z.ltb_lt in E | apply Z.ltb_ge in E]; repeat split; lia.
Qed.
