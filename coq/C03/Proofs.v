(* C03 — proofs about the NodePoolState model (part A). The static protocol (part A') is in
   C03/Proofs1.v, the limit arithmetic (part B) in C03/Proofs2.v, the oracle equivalences in C03/Proofs3.v. *)
From KV Require Import C03.Model.
Open Scope Z_scope.

(* ------------------------------------------------------------------ basic facts *)

Lemma upd_same {A} (f : name -> option A) k v : upd f k v k = v.
Proof. unfold upd. now rewrite Nat.eqb_refl. Qed.

Lemma upd_other {A} (f : name -> option A) k v x : x <> k -> upd f k v x = f x.
Proof. intros Hne. unfold upd. destruct (Nat.eqb x k) eqn:E; [apply Nat.eqb_eq in E; contradiction | reflexivity]. Qed.

Lemma mem_In x l : mem x l = true <-> In x l.
Proof.
  induction l as [|y t IH]; simpl; [split; [discriminate | tauto]|].
  rewrite orb_true_iff, IH, Nat.eqb_eq. split; intros [H|H]; auto.
Qed.

Lemma mem_srem x c l : mem x (srem c l) = mem x l && negb (Nat.eqb c x).
Proof.
  induction l as [|y t IH]; simpl; [reflexivity|].
  destruct (Nat.eqb c y) eqn:Ecy; simpl.
  - rewrite IH. apply Nat.eqb_eq in Ecy; subst y.
    destruct (Nat.eqb x c) eqn:Exc; simpl; [|reflexivity].
    apply Nat.eqb_eq in Exc; subst x. rewrite Nat.eqb_refl. simpl. now rewrite andb_false_r.
  - rewrite IH. destruct (Nat.eqb x y) eqn:Exy; simpl; [|reflexivity].
    apply Nat.eqb_eq in Exy; subst y. now rewrite Ecy.
Qed.

Lemma mem_sadd x c l : mem x (sadd c l) = Nat.eqb x c || mem x l.
Proof.
  unfold sadd. destruct (mem c l) eqn:E; simpl; [|reflexivity].
  destruct (Nat.eqb x c) eqn:Exc; simpl; [|reflexivity].
  apply Nat.eqb_eq in Exc; subst. exact E.
Qed.

(* ------------------------------------------------------------------ ensure *)

Lemma ensure_pool_some s np : exists e, pool (ensure s np) np = Some e.
Proof.
  unfold ensure; simpl. destruct (pool s np) eqn:E; [eauto|]. rewrite upd_same. eauto.
Qed.

Lemma ensure_lim_some s np : exists z, lim (ensure s np) np = Some z.
Proof.
  unfold ensure; simpl. destruct (lim s np) eqn:E; [eauto|]. rewrite upd_same. eauto.
Qed.

Lemma ensure_counts s np p : counts (ensure s np) p = counts s p.
Proof.
  unfold counts, ensure; simpl. destruct (pool s np) eqn:E; [reflexivity|].
  unfold upd. destruct (Nat.eqb p np) eqn:Ep; [|reflexivity].
  apply Nat.eqb_eq in Ep; subst. now rewrite E.
Qed.

Lemma ensure_cnt s np p : cnt (ensure s np) p = cnt s p.
Proof. unfold cnt. now rewrite ensure_counts. Qed.

Lemma ensure_reserved s np p : reserved (ensure s np) p = reserved s p.
Proof.
  unfold reserved, ensure; simpl. destruct (lim s np) eqn:E; [reflexivity|].
  unfold upd. destruct (Nat.eqb p np) eqn:Ep; [|reflexivity].
  apply Nat.eqb_eq in Ep; subst. now rewrite E.
Qed.

Lemma ensure_known s np p c : known (ensure s np) p c = known s p c.
Proof.
  unfold known, ensure; simpl. destruct (pool s np) eqn:E; [reflexivity|].
  unfold upd. destruct (Nat.eqb p np) eqn:Ep; [|reflexivity].
  apply Nat.eqb_eq in Ep; subst. now rewrite E.
Qed.

Lemma ensure_mp s np : mp (ensure s np) = mp s.
Proof. reflexivity. Qed.

(* ------------------------------------------------------------------ totality (no panic) *)

Lemma mark_ok k s np nc : exists s', mark k s np nc = Ok s' 0.
Proof. unfold mark. destruct (ensure_pool_some s np) as [e He]. rewrite He. eauto. Qed.

Lemma update_ok s np nc d : exists s', update_nc s np nc d = Ok s' 0.
Proof. unfold update_nc. destruct (Nat.eqb np 0); [eauto | apply mark_ok]. Qed.

Lemma cleanup_ok_l s nc : exists s', cleanup_gen true s nc = Ok s' 0.
Proof. unfold cleanup_gen. eauto. Qed.

Lemma reserve_ok_l s np l w : exists s' g, reserve s np l w = Ok s' g.
Proof.
  unfold reserve. destruct (ensure_lim_some s np) as [z Hz]. rewrite Hz.
  destruct (_ <? 0); eauto.
Qed.

Lemma release_ok s np c : exists s', release_gen true s np c = Ok s' 0.
Proof. unfold release_gen. destruct (ensure_lim_some s np) as [z Hz]. rewrite Hz. eauto. Qed.

(* static_ops_total: no call panics, on ANY state (not only reachable ones) *)
Lemma step_total : forall s o, step s o <> Panic.
Proof.
  intros s o. unfold step, step_gen. destruct o.
  - discriminate.
  - destruct (mark_ok k s np nc) as [s' H]. rewrite H. discriminate.
  - discriminate.
  - destruct (reserve_ok_l s np limit wanted) as [s' [g H]]. rewrite H. discriminate.
  - destruct (release_ok s np count) as [s' H]. rewrite H. discriminate.
  - destruct (update_ok s np nc deleting) as [s' H]. rewrite H. discriminate.
  - discriminate.
Qed.

Lemma run_total : forall ops s, run_gen true s ops <> None.
Proof.
  induction ops as [|o t IH]; intros s; simpl; [discriminate|].
  destruct (step_gen true s o) eqn:E; [apply IH | exfalso; exact (step_total s o E)].
Qed.

(* F4 on the tree before 644f10eaa: Reserve; UpdateNodeClaim; Cleanup; Release panics *)
Lemma prefix_panics :
  run_gen false st0 [OReserve 1%nat 5 2; OUpdate 1%nat 1%nat false; OCleanup 1%nat; ORelease 1%nat 1] = None.
Proof. vm_compute. reflexivity. Qed.

(* ------------------------------------------------------------------ ReserveNodeCount *)

Lemma reserve_spec s np l w :
  exists s' g, reserve s np l w = Ok s' g /\
    (forall p, counts s' p = counts s p) /\
    (forall p c, known s' p c = known s p c) /\
    mp s' = mp s /\
    reserved s' np = reserved s np + g /\
    (forall p, p <> np -> reserved s' p = reserved s p) /\
    g = (if l - cnt s np - reserved s np <? 0 then 0 else Z.min (l - cnt s np - reserved s np) w).
Proof.
  unfold reserve. destruct (ensure_lim_some s np) as [z Hz]. rewrite Hz.
  assert (Hr : reserved s np = z).
  { rewrite <- (ensure_reserved s np np). unfold reserved. now rewrite Hz. }
  rewrite ensure_cnt. rewrite <- Hr.
  destruct (l - cnt s np - reserved s np <? 0) eqn:Erem.
  - exists (ensure s np), 0. repeat split.
    + intros p. apply ensure_counts.
    + intros p c. apply ensure_known.
    + rewrite ensure_reserved. lia.
    + intros p _. apply ensure_reserved.
  - set (rem := l - cnt s np - reserved s np) in *.
    set (g := if rem <? w then rem else w).
    exists (mkSt (pool (ensure s np)) (mp (ensure s np)) (upd (lim (ensure s np)) np (Some (reserved s np + g)))), g.
    repeat split.
    + intros p. unfold counts; simpl. fold (counts (ensure s np) p). apply ensure_counts.
    + intros p c. unfold known; simpl. fold (known (ensure s np) p c). apply ensure_known.
    + unfold reserved; simpl. now rewrite upd_same.
    + intros p Hp. unfold reserved; simpl. rewrite upd_other by exact Hp.
      fold (reserved (ensure s np) p). apply ensure_reserved.
    + unfold g. destruct (rem <? w) eqn:E; [apply Z.ltb_lt in E | apply Z.ltb_ge in E]; lia.
Qed.

(* reserve_bound: the grant is within [0, wanted] for a non-negative request, and after a
   positive grant tracked + reserved is within the limit *)
Lemma reserve_bound_l : forall s np l w s' g,
  reserve s np l w = Ok s' g -> 0 <= w ->
  0 <= g <= w /\
  cnt s' np = cnt s np /\
  reserved s' np = reserved s np + g /\
  (0 < g -> cnt s' np + reserved s' np <= l) /\
  (cnt s np + reserved s np <= l -> cnt s' np + reserved s' np <= l).
Proof.
  intros s np l w s' g H Hw.
  destruct (reserve_spec s np l w) as [s1 [g1 [H1 [Hc [_ [_ [Hr [_ Hg]]]]]]]].
  rewrite H in H1. inversion H1; subst s1 g1. clear H1.
  assert (Hcnt : cnt s' np = cnt s np) by (unfold cnt; now rewrite Hc).
  rewrite Hcnt, Hr.
  destruct (l - cnt s np - reserved s np <? 0) eqn:E; [apply Z.ltb_lt in E | apply Z.ltb_ge in E]; subst g.
  - repeat split; lia.
  - repeat split; lia.
Qed.

(* ------------------------------------------------------------------ effect of the other calls *)

Lemma mark_effect k s np nc s' o :
  mark k s np nc = Ok s' o ->
  (forall p, reserved s' p = reserved s p) /\
  (forall p c, known s p c = true -> known s' p c = true) /\
  known s' np nc = true /\ mp s' = mp s.
Proof.
  unfold mark. destruct (ensure_pool_some s np) as [e He]. rewrite He.
  intros H. inversion H; subst s' o; clear H. repeat split.
  - intros p. unfold reserved; simpl. fold (reserved (ensure s np) p). apply ensure_reserved.
  - intros p c Hk. rewrite <- (ensure_known s np) in Hk. unfold known in *; simpl.
    unfold upd. destruct (Nat.eqb p np) eqn:Ep; [|exact Hk].
    apply Nat.eqb_eq in Ep; subst p. rewrite He in Hk.
    destruct k; simpl; rewrite ?mem_sadd, ?mem_srem;
      destruct (Nat.eqb c nc) eqn:Ec; simpl; try reflexivity;
      try (rewrite orb_true_r; reflexivity);
      assert (Hn : Nat.eqb nc c = false) by (rewrite Nat.eqb_sym; exact Ec); rewrite Hn; simpl;
      rewrite ?andb_true_r; exact Hk.
  - unfold known; simpl. rewrite upd_same.
    destruct k; simpl; rewrite ?mem_sadd, Nat.eqb_refl; simpl; rewrite ?orb_true_r; reflexivity.
Qed.

Lemma set_mapping_effect s np nc :
  (forall p, reserved (set_mapping s np nc) p = reserved s p) /\
  (forall p c, known (set_mapping s np nc) p c = known s p c) /\
  (forall p, counts (set_mapping s np nc) p = counts s p).
Proof.
  unfold set_mapping. destruct (Nat.eqb np 0 || Nat.eqb nc 0); [repeat split|].
  repeat split.
  - intros p. unfold reserved; simpl. fold (reserved (ensure s np) p). apply ensure_reserved.
  - intros p c. unfold known; simpl. fold (known (ensure s np) p c). apply ensure_known.
  - intros p. unfold counts; simpl. fold (counts (ensure s np) p). apply ensure_counts.
Qed.

Lemma update_effect s np nc d s' o :
  update_nc s np nc d = Ok s' o ->
  (forall p, reserved s' p = reserved s p) /\
  (forall p c, known s p c = true -> known s' p c = true) /\
  (np <> 0%nat -> known s' np nc = true).
Proof.
  unfold update_nc. destruct (Nat.eqb np 0) eqn:E.
  - intros H; inversion H; subst. apply Nat.eqb_eq in E. repeat split; auto; try (intros; contradiction).
  - intros H. apply mark_effect in H. destruct H as [Hr [Hk [Hn _]]].
    destruct (set_mapping_effect s np nc) as [Sr [Sk _]]. repeat split.
    + intros p. now rewrite Hr, Sr.
    + intros p c Hc. apply Hk. now rewrite Sk.
    + intros _. exact Hn.
Qed.

(* Cleanup (fixed code) forgets only the named claim and never a reservation: F4/F5 *)
Lemma cleanup_effect s nc s' o :
  cleanup_gen true s nc = Ok s' o ->
  (forall p, reserved s' p = reserved s p) /\
  (forall p c, c <> nc -> known s' p c = known s p c).
Proof.
  unfold cleanup_gen. intros H. inversion H; subst s' o; clear H.
  set (np := match mp s nc with Some p => p | None => 0%nat end).
  destruct (pool s np) as [e|] eqn:He; simpl.
  2:{ split; intros; reflexivity. }
  match goal with |- context [if ?b then _ else _] => destruct b eqn:Edrop end; simpl.
  - apply andb_true_iff in Edrop. destruct Edrop as [Ee Hz].
    apply andb_true_iff in Ee. destruct Ee as [Ee Hp]. apply andb_true_iff in Ee. destruct Ee as [Ha Hd].
    split.
    + intros p. unfold reserved; simpl. unfold upd. destruct (Nat.eqb p np) eqn:Ep; [|reflexivity].
      apply Nat.eqb_eq in Ep; subst p. destruct (lim s np); [apply Z.eqb_eq in Hz; subst; reflexivity | reflexivity].
    + intros p c Hc. unfold known; simpl. unfold upd. destruct (Nat.eqb p np) eqn:Ep; [|reflexivity].
      apply Nat.eqb_eq in Ep; subst p. rewrite He.
      assert (Hm : forall l, is_nil (srem nc l) = true -> mem c l = false).
      { intros l Hl. destruct (mem c l) eqn:Em; [|reflexivity].
        assert (Hx : mem c (srem nc l) = true).
        { rewrite mem_srem, Em. simpl. destruct (Nat.eqb nc c) eqn:En; [apply Nat.eqb_eq in En; congruence | reflexivity]. }
        destruct (srem nc l); [discriminate | discriminate]. }
      simpl in Ha, Hd, Hp. rewrite (Hm _ Ha), (Hm _ Hd), (Hm _ Hp). reflexivity.
  - split.
    + intros p. reflexivity.
    + intros p c Hc. unfold known; simpl. unfold upd. destruct (Nat.eqb p np) eqn:Ep; [|reflexivity].
      apply Nat.eqb_eq in Ep; subst p. rewrite He. simpl. rewrite !mem_srem.
      assert (Hn : Nat.eqb nc c = false) by (apply Nat.eqb_neq; congruence).
      rewrite Hn. simpl. now rewrite !andb_true_r.
Qed.

(* F5 on the tree before 644f10eaa: a, b active; MarkPendingDisruption(a); Cleanup(b) forgets a *)
Lemma prefix_cleanup_loses_pending :
  exists s, run_gen false st0 [OUpdate 1%nat 1%nat false; OUpdate 1%nat 2%nat false; OMark KPending 1%nat 1%nat; OCleanup 2%nat] = Some s /\
            known s 1%nat 1%nat = false /\ counts s 1%nat = (0, 0, 0).
Proof. eexists. vm_compute. repeat split. Qed.

Lemma release_effect s np c s' o :
  release_gen true s np c = Ok s' o ->
  (forall p x, known s' p x = known s p x) /\
  (forall p, counts s' p = counts s p) /\
  reserved s' np = Z.max 0 (reserved s np - c) /\
  (forall p, p <> np -> reserved s' p = reserved s p).
Proof.
  unfold release_gen. destruct (ensure_lim_some s np) as [z Hz]. rewrite Hz.
  assert (Hr : reserved s np = z).
  { rewrite <- (ensure_reserved s np np). unfold reserved. now rewrite Hz. }
  intros H. inversion H; subst s' o; clear H. repeat split.
  - intros p x. unfold known; simpl. fold (known (ensure s np) p x). apply ensure_known.
  - intros p. unfold counts; simpl. fold (counts (ensure s np) p). apply ensure_counts.
  - rewrite Hr. unfold reserved; simpl. rewrite upd_same.
    destruct (z - c <? 0) eqn:E; [apply Z.ltb_lt in E | apply Z.ltb_ge in E]; lia.
  - intros p Hp. unfold reserved; simpl. rewrite upd_other by exact Hp.
    fold (reserved (ensure s np) p). apply ensure_reserved.
Qed.

(* every tracked name is in one of the three sets, so a duplicate-free list of tracked names is
   no longer than active + deleting + pending *)
Lemma known_count s np (l : list name) :
  NoDup l -> (forall c, In c l -> known s np c = true) -> Z.of_nat (List.length l) <= cnt s np.
Proof.
  intros Hnd Hk. unfold cnt, counts. destruct (pool s np) as [e|] eqn:He.
  - assert (Hincl : incl l (act e ++ del e ++ pen e)).
    { intros c Hc. specialize (Hk c Hc). unfold known in Hk. rewrite He in Hk.
      rewrite !orb_true_iff, !mem_In in Hk. rewrite !in_app_iff. tauto. }
    pose proof (NoDup_incl_length Hnd Hincl) as Hlen. rewrite !app_length in Hlen. lia.
  - destruct l as [|c t]; [simpl; lia|].
    specialize (Hk c (or_introl eq_refl)). unfold known in Hk. rewrite He in Hk. discriminate.
Qed.

(* the grant of a static provisioning reconcile on a pool with nothing reserved: it asks for
   replicas - active and gets that unless the node limit is closer; with enough headroom the pool
   reaches the replica count, and then the reconcile's guard (active + pending >= replicas) holds *)
Lemma provision_grant_l : forall s np l r a d p,
  counts s np = (a, d, p) -> reserved s np = 0 -> a + p < r ->
  exists s' g, reserve s np l (r - a) = Ok s' g /\
    g = Z.max 0 (Z.min (r - a) (l - (a + d + p))) /\
    counts s' np = (a, d, p) /\ reserved s' np = g /\
    (r + d + p <= l -> a + g = r) /\
    (0 <= p -> 0 <= l - (a + d + p) -> a + d + p + g <= l).
Proof.
  intros s np l r a d p Hc Hr Hlt.
  destruct (reserve_spec s np l (r - a)) as [s' [g [H [Hc' [_ [_ [Hr' [_ Hg]]]]]]]].
  exists s', g. unfold cnt in Hg. rewrite Hc, Hr in Hg. cbv beta iota in Hg. rewrite Hc', Hr' , Hr, Hc.
  assert (Hnn : 0 <= a /\ 0 <= d /\ 0 <= p).
  { unfold counts in Hc. destruct (pool s np); inversion Hc; lia. }
  assert (Hgv : g = Z.max 0 (Z.min (r - a) (l - (a + d + p)))).
  { match type of Hg with context [if ?b then _ else _] => destruct b eqn:E end;
      [apply Z.ltb_lt in E | apply Z.ltb_ge in E]; lia. }
  repeat split; try assumption; try lia.
Qed.
