(* C03 — the static-pool protocol keeps NodeClaims within the node limit and never panics:
   an inductive invariant of [sstep] over all interleavings of reconcile steps, creations,
   informer deliveries, disruption marks and deletions. *)
From KV Require Import C03.Model C03.Proofs.
Open Scope Z_scope.

(* ------------------------------------------------------------------ list helpers *)

Lemma nth_split {A} (l : list A) i x :
  nth_error l i = Some x -> l = firstn i l ++ x :: skipn (S i) l.
Proof.
  revert i. induction l as [|y t IH]; intros [|i] H; simpl in *; try discriminate.
  - now inversion H.
  - f_equal. now apply IH.
Qed.

Lemma filter_split_length {A} (f : A -> bool) (l : list A) :
  List.length l = (List.length (filter f l) + List.length (filter (fun x => negb (f x)) l))%nat.
Proof. induction l as [|x t IH]; simpl; [reflexivity|]. destruct (f x); simpl; lia. Qed.

Lemma filter_filter_le {A} (f g : A -> bool) (l : list A) :
  (List.length (filter f (filter g l)) <= List.length (filter f l))%nat.
Proof. induction l as [|x t IH]; simpl; [lia|]. destruct (g x); simpl; destruct (f x); simpl; lia. Qed.

Lemma NoDup_map_filter {A B} (h : A -> B) (f : A -> bool) (l : list A) :
  NoDup (map h l) -> NoDup (map h (filter f l)).
Proof.
  induction l as [|x t IH]; simpl; intros H; [constructor|].
  inversion H as [|? ? Hn Hd]; subst. destruct (f x); simpl; [|auto].
  constructor; [|auto]. intros Hin. apply Hn. apply in_map_iff in Hin. destruct Hin as [y [Hy Hin]].
  apply filter_In in Hin. apply in_map_iff. exists y. tauto.
Qed.

Arguments replace_nth : simpl never.

Definition ind (b : bool) : nat := if b then 1%nat else 0%nat.

Ltac gen_len :=
  repeat match goal with |- context [List.length ?l] =>
    let n := fresh "n" in generalize (List.length l); intro n end.

(* ------------------------------------------------------------------ ticket measures *)

Definition live (t : ticket) : bool := match tst t with TDone => false | _ => true end.
Definition is_granted (t : ticket) : bool := match tst t with TGranted => true | _ => false end.
Definition cname (np : name) (t : ticket) : list name :=
  match tst t with TCreated c => if Nat.eqb (tpool t) np then [c] else [] | _ => [] end.

Definition nlive (np : name) (l : list ticket) : nat :=
  List.length (filter (fun t => Nat.eqb (tpool t) np && live t) l).
Definition ngranted (np : name) (l : list ticket) : nat :=
  List.length (filter (fun t => Nat.eqb (tpool t) np && is_granted t) l).
Definition created (np : name) (l : list ticket) : list name := flat_map (cname np) l.

Lemma nlive_app np a t b :
  nlive np (a ++ t :: b) = (nlive np a + ind (Nat.eqb (tpool t) np && live t) + nlive np b)%nat.
Proof.
  unfold nlive. rewrite filter_app, app_length. simpl.
  destruct (Nat.eqb (tpool t) np && live t); simpl; gen_len; lia.
Qed.

Lemma ngranted_app np a t b :
  ngranted np (a ++ t :: b) = (ngranted np a + ind (Nat.eqb (tpool t) np && is_granted t) + ngranted np b)%nat.
Proof.
  unfold ngranted. rewrite filter_app, app_length. simpl.
  destruct (Nat.eqb (tpool t) np && is_granted t); simpl; gen_len; lia.
Qed.

Lemma created_app np a t b : created np (a ++ t :: b) = created np a ++ cname np t ++ created np b.
Proof. unfold created. rewrite flat_map_app. reflexivity. Qed.

Lemma nlive_repeat np p n : nlive np (repeat (mkT p TGranted) n) = (ind (Nat.eqb p np) * n)%nat.
Proof.
  unfold nlive. induction n as [|n IH]; simpl; [lia|].
  destruct (Nat.eqb p np) eqn:E; simpl in *; rewrite IH; lia.
Qed.

Lemma ngranted_repeat np p n : ngranted np (repeat (mkT p TGranted) n) = (ind (Nat.eqb p np) * n)%nat.
Proof.
  unfold ngranted. induction n as [|n IH]; simpl; [lia|].
  destruct (Nat.eqb p np) eqn:E; simpl in *; rewrite IH; lia.
Qed.

Lemma created_repeat np p n : created np (repeat (mkT p TGranted) n) = [].
Proof. induction n as [|n IH]; simpl; [reflexivity | exact IH]. Qed.

Lemma nlive_app2 np a b : nlive np (a ++ b) = (nlive np a + nlive np b)%nat.
Proof. unfold nlive. now rewrite filter_app, app_length. Qed.
Lemma ngranted_app2 np a b : ngranted np (a ++ b) = (ngranted np a + ngranted np b)%nat.
Proof. unfold ngranted. now rewrite filter_app, app_length. Qed.
Lemma created_app2 np a b : created np (a ++ b) = created np a ++ created np b.
Proof. unfold created. now rewrite flat_map_app. Qed.

Lemma created_granted_le_live np l :
  (List.length (created np l) + ngranted np l <= nlive np l)%nat.
Proof.
  induction l as [|t l IH]; [unfold created, ngranted, nlive; simpl; lia|].
  change (t :: l) with ([] ++ t :: l). rewrite created_app, ngranted_app, nlive_app.
  rewrite !app_length. change (created np []) with (@nil name). change (ngranted np []) with 0%nat.
  change (nlive np []) with 0%nat. simpl.
  unfold cname, is_granted, live. destruct t as [p [| |c|c|]]; simpl; destruct (Nat.eqb p np); simpl; lia.
Qed.

Section ProtocolProofs.
  Variable L : name -> Z.
  Hypothesis HL : forall np, 0 <= L np.

  Record inv (s : sys) : Prop := mkInv {
    i_nocrash : crashed s = false;
    i_res : forall np, Z.of_nat (nlive np (tks s)) <= reserved (nps s) np;
    i_tracked : synced s = true -> forall c p, In (c, p) (api s) -> known (nps s) p c = true \/ In c (created p (tks s));
    i_nodup : NoDup (map fst (api s));
    i_fresh : forall c p, In (c, p) (api s) -> (c < fresh s)%nat;
    i_nz : forall t, In t (tks s) -> tpool t <> 0%nat;
    i_cap : forall np, api_count s np + granted_count s np <= L np
  }.

  Lemma granted_count_eq s np : granted_count s np = Z.of_nat (ngranted np (tks s)).
  Proof. reflexivity. Qed.

  (* NodeClaims in the API plus not yet attempted creations never exceed tracked + reserved *)
  Lemma count_bound s np : inv s -> synced s = true ->
    api_count s np + granted_count s np <= cnt (nps s) np + reserved (nps s) np.
  Proof.
    intros I Hsy. rewrite granted_count_eq. unfold api_count.
    match goal with |- context [filter ?f (api s)] => set (sel := filter f (api s)) end.
    set (names := map fst sel).
    assert (Hnd : NoDup names) by (apply NoDup_map_filter, (i_nodup s I)).
    assert (Hlen : List.length sel = List.length names) by (unfold names; now rewrite map_length).
    set (K := filter (fun c => known (nps s) np c) names).
    set (U := filter (fun c => negb (known (nps s) np c)) names).
    assert (Hsplit : List.length names = (List.length K + List.length U)%nat) by apply filter_split_length.
    assert (HK : Z.of_nat (List.length K) <= cnt (nps s) np).
    { apply known_count; [apply NoDup_filter, Hnd|]. intros c Hc. apply filter_In in Hc. tauto. }
    assert (HU : (List.length U <= List.length (created np (tks s)))%nat).
    { apply NoDup_incl_length; [apply NoDup_filter, Hnd|]. intros c Hc. apply filter_In in Hc.
      destruct Hc as [Hin Hnk]. unfold names in Hin. apply in_map_iff in Hin.
      destruct Hin as [[c' p] [Hfst Hin]]. simpl in Hfst; subst c'. unfold sel in Hin.
      apply filter_In in Hin. destruct Hin as [Hin Hp]. simpl in Hp. apply Nat.eqb_eq in Hp; subst p.
      destruct (i_tracked s I Hsy c np Hin) as [Hk|Hc]; [|exact Hc].
      rewrite Hk in Hnk. discriminate. }
    pose proof (created_granted_le_live np (tks s)) as Hcg.
    pose proof (i_res s I np) as Hres.
    clearbody K U names sel. lia.
  Qed.

  (* ---------------------------------------------------------------- steps that only touch NodePoolState *)

  Lemma inv_with_nps s n : inv s ->
    (forall p, reserved n p = reserved (nps s) p) ->
    (forall c p, In (c, p) (api s) -> known (nps s) p c = true -> known n p c = true) ->
    inv (with_nps s n).
  Proof.
    intros I Hr Hk. constructor; simpl.
    - apply (i_nocrash s I).
    - intros np. rewrite Hr. apply (i_res s I).
    - intros Hsy c p Hin. destruct (i_tracked s I Hsy c p Hin) as [H|H]; [left; now apply Hk | right; exact H].
    - apply (i_nodup s I).
    - apply (i_fresh s I).
    - apply (i_nz s I).
    - apply (i_cap s I).
  Qed.

  Lemma pool_of_none nc l : pool_of nc l = None -> forall c p, In (c, p) l -> c <> nc.
  Proof.
    induction l as [|[c' p'] t IH]; simpl; intros H c p Hin; [contradiction|].
    destruct (Nat.eqb nc c') eqn:E; [discriminate|]. destruct Hin as [Heq|Hin].
    - inversion Heq; subst. apply Nat.eqb_neq in E. congruence.
    - eapply IH; eauto.
  Qed.

  (* ---------------------------------------------------------------- ReserveNodeCount at the start of a reconcile *)

  Lemma inv_begin_reserve drift s np w : inv s -> synced s = true -> np <> 0%nat -> 0 <= w -> inv (begin_reserve L drift s np w).
  Proof.
    intros I Hsy Hnz Hw. unfold begin_reserve.
    destruct (reserve_spec (nps s) np (L np) w) as [n [g [Hres [Hc [Hk [_ [Hr [Hro Hg]]]]]]]].
    rewrite Hres.
    assert (Hcnt : cnt n np = cnt (nps s) np) by (unfold cnt; now rewrite Hc).
    assert (Hg0 : 0 <= g).
    { destruct (L np - cnt (nps s) np - reserved (nps s) np <? 0) eqn:E;
        [apply Z.ltb_lt in E | apply Z.ltb_ge in E]; lia. }
    assert (Hgl : g = 0 \/ cnt (nps s) np + reserved (nps s) np + g <= L np).
    { destruct (L np - cnt (nps s) np - reserved (nps s) np <? 0) eqn:E;
        [apply Z.ltb_lt in E | apply Z.ltb_ge in E]; lia. }
    destruct (g <? 0) eqn:Eg; [apply Z.ltb_lt in Eg; lia|].
    constructor; simpl.
    - apply (i_nocrash s I).
    - intros q. rewrite nlive_app2, nlive_repeat. pose proof (i_res s I q) as Hq.
      destruct (Nat.eqb np q) eqn:E.
      + apply Nat.eqb_eq in E; subst q. rewrite Hr. simpl. rewrite Nat2Z.inj_add, Nat2Z.inj_add, Z2Nat.id by lia. simpl. lia.
      + apply Nat.eqb_neq in E. rewrite Hro by congruence. simpl. lia.
    - intros _ c p Hin. rewrite Hk, created_app2, created_repeat, app_nil_r. apply (i_tracked s I Hsy c p Hin).
    - apply (i_nodup s I).
    - apply (i_fresh s I).
    - intros t Hin. apply in_app_iff in Hin. destruct Hin as [Hin|Hin]; [apply (i_nz s I t Hin)|].
      apply repeat_spec in Hin. subst t. exact Hnz.
    - intros q. pose proof (i_cap s I q) as Hcap. pose proof (count_bound s np I Hsy) as Hb.
      rewrite granted_count_eq in *. unfold api_count in *. simpl.
      rewrite ngranted_app2, ngranted_repeat.
      destruct (Nat.eqb np q) eqn:E.
      + apply Nat.eqb_eq in E; subst q. simpl ind. rewrite Nat2Z.inj_add, Nat.mul_1_l, Z2Nat.id by lia. lia.
      + simpl ind. rewrite Nat.mul_0_l, Nat.add_0_r. exact Hcap.
  Qed.

  (* ---------------------------------------------------------------- ticket transitions *)

  Lemma set_tk_tks (l : list ticket) i t0 t : nth_error l i = Some t0 ->
    exists a b, l = a ++ t0 :: b /\ replace_nth i t l = a ++ t :: b.
  Proof.
    intros H. exists (firstn i l), (skipn (S i) l). split; [now apply nth_split | reflexivity].
  Qed.

  Lemma in_tks_pool s i t0 : inv s -> nth_error (tks s) i = Some t0 -> tpool t0 <> 0%nat.
  Proof. intros I H. apply (i_nz s I). eapply nth_error_In; eauto. Qed.

  Lemma inv_gate s s1 : inv s -> gate s = Some s1 ->
    inv s1 /\ synced s1 = true /\ nps s1 = nps s.
  Proof.
    intros I Hg. unfold gate in Hg. destruct (synced s) eqn:Esy.
    - inversion Hg; subst s1. auto.
    - destruct (api_tracked s) eqn:Et; [|discriminate]. inversion Hg; subst s1; clear Hg.
      split; [|split; reflexivity]. constructor; simpl.
      + apply (i_nocrash s I).
      + apply (i_res s I).
      + intros _ c p Hin. left. unfold api_tracked in Et. rewrite forallb_forall in Et. apply (Et (c, p) Hin).
      + apply (i_nodup s I).
      + apply (i_fresh s I).
      + apply (i_nz s I).
      + apply (i_cap s I).
  Qed.

  Lemma inv_smark s k np nc : inv s -> inv (smark s k np nc).
  Proof.
    intros I. unfold smark. destruct (mark_ok k (nps s) np nc) as [n Hn]. rewrite Hn.
    destruct (mark_effect _ _ _ _ _ _ Hn) as [Hr [Hk _]].
    apply inv_with_nps; [exact I | exact Hr | intros; now apply Hk].
  Qed.

  Lemma inv_step : forall s o, inv s -> inv (sstep L s o).
  Proof.
    intros s o I. destruct o as [np r|np r budget ncands|i ok|i|i|nc d|nc|nc|k np nc|np r victims|]; cbn [sstep].
    - (* ProvBegin *)
      destruct (counts (nps s) np) as [[a d] p] eqn:Ec.
      destruct (Nat.eqb np 0) eqn:Enz; [exact I|]. apply Nat.eqb_neq in Enz.
      destruct (gate s) as [s1|] eqn:Eg; [|exact I].
      destruct (inv_gate s s1 I Eg) as [I1 [Hsy1 Hn1]].
      destruct (r <=? a + p) eqn:E; [exact I1|]. apply Z.leb_gt in E.
      apply inv_begin_reserve; [exact I1 | exact Hsy1 | exact Enz |].
      assert (0 <= p).
      { unfold counts in Ec. destruct (pool (nps s) np); inversion Ec; lia. }
      lia.
    - (* DriftBegin *)
      destruct (counts (nps s) np) as [[a d] p] eqn:Ec.
      destruct (Nat.eqb np 0) eqn:Enz; simpl; [exact I|]. apply Nat.eqb_neq in Enz.
      destruct (gate s) as [s1|] eqn:Eg; [|exact I].
      destruct (inv_gate s s1 I Eg) as [I1 [Hsy1 Hn1]].
      destruct (Nat.eqb budget 0 || Nat.eqb ncands 0); [exact I1|].
      destruct (r <? a + p); [exact I1|].
      apply inv_begin_reserve; [exact I1 | exact Hsy1 | exact Enz | lia].
    - (* TkCreate *)
      destruct (nth_error (tks s) i) as [[p [| |c|c|]]|] eqn:En; try exact I.
      pose proof (in_tks_pool s i _ I En) as Hpz. simpl in Hpz.
      destruct ok.
      + destruct (set_tk_tks (tks s) i _ (mkT p (TCreated (fresh s))) En) as [a [b [Ha Hb]]].
        constructor; simpl.
        * apply (i_nocrash s I).
        * intros q. rewrite Hb, nlive_app.
          pose proof (i_res s I q) as Hq. rewrite Ha, nlive_app in Hq. simpl in *. exact Hq.
        * intros Hsy c q Hin. rewrite Hb, created_app.
          destruct Hin as [Heq|Hin].
          { inversion Heq; subst c q. right. rewrite !in_app_iff. right. left.
            unfold cname; simpl. rewrite Nat.eqb_refl. now left. }
          { destruct (i_tracked s I Hsy c q Hin) as [H|H]; [now left|]. right.
            rewrite Ha, created_app in H. rewrite !in_app_iff in *. simpl in H. tauto. }
        * constructor; [|apply (i_nodup s I)]. intros Hin. apply in_map_iff in Hin.
          destruct Hin as [[c q] [Hf Hin]]. simpl in Hf; subst c.
          pose proof (i_fresh s I _ _ Hin). lia.
        * intros c q [Heq|Hin]; [inversion Heq; lia | pose proof (i_fresh s I c q Hin); lia].
        * intros t Hin. rewrite Hb in Hin.
          apply in_app_iff in Hin. destruct Hin as [Hin|[Heq|Hin]].
          { apply (i_nz s I). rewrite Ha. apply in_app_iff. now left. }
          { subst t. exact Hpz. }
          { apply (i_nz s I). rewrite Ha. apply in_app_iff. right. now right. }
        * intros q. pose proof (i_cap s I q) as Hcap. rewrite granted_count_eq in *. unfold api_count in *. simpl.
          rewrite Hb, ngranted_app. rewrite Ha, ngranted_app in Hcap.
          unfold is_granted in *. simpl in *. revert Hcap. destruct (Nat.eqb p q); cbn [ind andb List.length]; gen_len; lia.
      + destruct (set_tk_tks (tks s) i _ (mkT p TFailed) En) as [a [b [Ha Hb]]].
        constructor; simpl.
        * apply (i_nocrash s I).
        * intros q. rewrite Hb, nlive_app.
          pose proof (i_res s I q) as Hq. rewrite Ha, nlive_app in Hq. simpl in *. exact Hq.
        * intros Hsy c q Hin. rewrite Hb, created_app.
          destruct (i_tracked s I Hsy c q Hin) as [H|H]; [now left|]. right.
          rewrite Ha, created_app in H. rewrite !in_app_iff in *. simpl in *. tauto.
        * apply (i_nodup s I).
        * apply (i_fresh s I).
        * intros t Hin. rewrite Hb in Hin.
          apply in_app_iff in Hin. destruct Hin as [Hin|[Heq|Hin]].
          { apply (i_nz s I). rewrite Ha. apply in_app_iff. now left. }
          { subst t. exact Hpz. }
          { apply (i_nz s I). rewrite Ha. apply in_app_iff. right. now right. }
        * intros q. pose proof (i_cap s I q) as Hcap. rewrite granted_count_eq in *. unfold api_count in *. simpl.
          rewrite Hb, ngranted_app. rewrite Ha, ngranted_app in Hcap.
          unfold is_granted in *. simpl in *. revert Hcap. destruct (Nat.eqb p q); cbn [ind andb List.length]; gen_len; lia.
    - (* TkUpdate *)
      destruct (nth_error (tks s) i) as [[p [| |c|c|]]|] eqn:En; try exact I.
      pose proof (in_tks_pool s i _ I En) as Hpz. simpl in Hpz.
      destruct (update_ok (nps s) p c false) as [n Hn]. rewrite Hn.
      destruct (update_effect _ _ _ _ _ _ Hn) as [Hr [Hk Hnew]]. specialize (Hnew Hpz).
      destruct (set_tk_tks (tks s) i _ (mkT p (TUpdated c)) En) as [a [b [Ha Hb]]].
      constructor; simpl.
      + apply (i_nocrash s I).
      + intros q. rewrite Hb, nlive_app, Hr.
        pose proof (i_res s I q) as Hq. rewrite Ha, nlive_app in Hq. simpl in *. exact Hq.
      + intros Hsy c' q Hin. rewrite Hb, created_app.
        destruct (i_tracked s I Hsy c' q Hin) as [H|H]; [left; now apply Hk|].
        rewrite Ha, created_app in H. rewrite !in_app_iff in H. destruct H as [H|[H|H]].
        * right. rewrite !in_app_iff. now left.
        * unfold cname in H; simpl in H. destruct (Nat.eqb p q) eqn:E; [|contradiction].
          apply Nat.eqb_eq in E; subst q. destruct H as [H|[]]. subst c'. now left.
        * right. rewrite !in_app_iff. right. now right.
      + apply (i_nodup s I).
      + apply (i_fresh s I).
      + intros t Hin. rewrite Hb in Hin.
        apply in_app_iff in Hin. destruct Hin as [Hin|[Heq|Hin]].
        { apply (i_nz s I). rewrite Ha. apply in_app_iff. now left. }
        { subst t. exact Hpz. }
        { apply (i_nz s I). rewrite Ha. apply in_app_iff. right. now right. }
      + intros q. pose proof (i_cap s I q) as Hcap. rewrite granted_count_eq in *. unfold api_count in *. simpl.
          rewrite Hb, ngranted_app. rewrite Ha, ngranted_app in Hcap.
        unfold is_granted in *. simpl in *. exact Hcap.
    - (* TkRelease *)
      assert (Hrel : forall p t0, nth_error (tks s) i = Some (mkT p t0) -> live (mkT p t0) = true ->
                cname p (mkT p t0) = [] -> (forall q, cname q (mkT p t0) = []) -> is_granted (mkT p t0) = false ->
                inv (match release_gen true (nps s) p 1 with
                     | Ok n _ => set_tk (with_nps s n) i (mkT p TDone)
                     | Panic => crash s end)).
      { intros p t0 En Hlive _ Hcn Hng.
        destruct (release_ok (nps s) p 1) as [n Hn]. rewrite Hn.
        destruct (release_effect _ _ _ _ _ Hn) as [Hk [_ [Hr Hro]]].
        destruct (set_tk_tks (tks s) i _ (mkT p TDone) En) as [a [b [Ha Hb]]].
        constructor; simpl.
        + apply (i_nocrash s I).
        + intros q. rewrite Hb, nlive_app.
          pose proof (i_res s I q) as Hq. rewrite Ha, nlive_app in Hq. cbn [tpool] in *.
          rewrite Hlive in Hq. change (live (mkT p TDone)) with false. rewrite andb_false_r. rewrite andb_true_r in Hq.
          destruct (Nat.eqb p q) eqn:E; cbn [ind] in *.
          * apply Nat.eqb_eq in E; subst q. rewrite Hr. lia.
          * apply Nat.eqb_neq in E. rewrite Hro by congruence. lia.
        + intros Hsy c q Hin. rewrite Hb, created_app, Hk.
          destruct (i_tracked s I Hsy c q Hin) as [H|H]; [now left|]. right.
          rewrite Ha, created_app, Hcn in H. rewrite !in_app_iff in *. simpl in *. tauto.
        + apply (i_nodup s I).
        + apply (i_fresh s I).
        + intros t Hin. rewrite Hb in Hin.
          pose proof (in_tks_pool s i _ I En) as Hpz. simpl in Hpz.
          apply in_app_iff in Hin. destruct Hin as [Hin|[Heq|Hin]].
          { apply (i_nz s I). rewrite Ha. apply in_app_iff. now left. }
          { subst t. exact Hpz. }
          { apply (i_nz s I). rewrite Ha. apply in_app_iff. right. now right. }
        + intros q. pose proof (i_cap s I q) as Hcap. rewrite granted_count_eq in *. unfold api_count in *. simpl.
          rewrite Hb, ngranted_app. rewrite Ha, ngranted_app in Hcap.
          cbn [tpool] in *. rewrite Hng in Hcap. change (is_granted (mkT p TDone)) with false.
          rewrite andb_false_r in *. exact Hcap. }
      destruct (nth_error (tks s) i) as [[p [| |c|c|]]|] eqn:En; try exact I.
      + apply (Hrel p TFailed eq_refl); try reflexivity.
      + apply (Hrel p (TUpdated c) eq_refl); try reflexivity.
    - (* InfUpdate *)
      destruct (pool_of nc (api s)) as [p|]; [|exact I].
      destruct (update_ok (nps s) p nc d) as [n Hn]. rewrite Hn.
      destruct (update_effect _ _ _ _ _ _ Hn) as [Hr [Hk _]].
      apply inv_with_nps; [exact I | exact Hr | intros; now apply Hk].
    - (* ApiRemove *)
      constructor; simpl.
      + apply (i_nocrash s I).
      + apply (i_res s I).
      + intros Hsy c p Hin. apply filter_In in Hin. apply (i_tracked s I Hsy). tauto.
      + apply NoDup_map_filter, (i_nodup s I).
      + intros c p Hin. apply filter_In in Hin. apply (i_fresh s I c p). tauto.
      + apply (i_nz s I).
      + intros q. pose proof (i_cap s I q) as Hcap. unfold granted_count, api_count in *. simpl.
        eapply Z.le_trans; [|exact Hcap]. apply Z.add_le_mono_r. apply inj_le. apply filter_filter_le.
    - (* InfDelete *)
      destruct (pool_of nc (api s)) as [p|] eqn:Ep; [exact I|].
      destruct (cleanup_ok_l (nps s) nc) as [n Hn]. rewrite Hn.
      destruct (cleanup_effect _ _ _ _ Hn) as [Hr Hk].
      apply inv_with_nps; [exact I | exact Hr |].
      intros c p Hin Hkn. rewrite Hk; [exact Hkn|]. eapply pool_of_none; eauto.
    - (* SMark *)
      apply inv_smark, I.
    - (* DeprovMark *)
      destruct (counts (nps s) np) as [[a d] p].
      destruct (Nat.eqb np 0); [exact I|]. destruct (a - r <=? 0); [exact I|].
      generalize (firstn (Z.to_nat (a - r)) victims). intros l. revert s I.
      induction l as [|c t IH]; intros s I; simpl; [exact I | apply IH, inv_smark, I].
    - (* Restart *)
      constructor; simpl.
      + apply (i_nocrash s I).
      + intros q. unfold nlive, reserved; simpl. lia.
      + intros Hsy. discriminate.
      + apply (i_nodup s I).
      + apply (i_fresh s I).
      + intros t [].
      + intros q. pose proof (i_cap s I q) as Hcap. rewrite granted_count_eq in *. unfold api_count in *. simpl.
        change (ngranted q []) with 0%nat. lia.
  Qed.

  Lemma inv_init : inv (sys0).
  Proof.
    constructor; simpl.
    - reflexivity.
    - intros np. unfold nlive, reserved; simpl. lia.
    - intros _ c p [].
    - constructor.
    - intros c p [].
    - intros t [].
    - intros np. unfold api_count, granted_count; simpl. apply HL.
  Qed.

  Lemma inv_run : forall ops s, inv s -> inv (fold_left (sstep L) ops s).
  Proof. induction ops as [|o t IH]; intros s I; simpl; [exact I | apply IH, inv_step, I]. Qed.

  (* static_cap: for every interleaving, the NodeClaims of a static pool that exist in the API plus the
     creations already granted never exceed the pool's node limit, and nothing panicked *)
  Lemma static_cap_l : forall ops np,
    crashed (srun L ops) = false /\
    api_count (srun L ops) np + granted_count (srun L ops) np <= L np.
  Proof.
    intros ops np. pose proof (inv_run ops sys0 inv_init) as I. split; [apply (i_nocrash _ I) | apply (i_cap _ I)].
  Qed.
End ProtocolProofs.
