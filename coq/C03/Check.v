(* C03 — correspondence check and oracles, evaluated by vm_compute on what the Go harness
   observed on the real NodePoolState, the real limit functions and the real Scheduler. *)
From KV Require Import C03.Model.
Open Scope string_scope.
Open Scope Z_scope.
Open Scope list_scope.

(* ---------------------------------------------------------------- observations, part A *)

(* one NodePool entry as dumped by the hook: key present in the state map, the three sets,
   key present in the limit map, reserved counter *)
Record pdump := mkD { d_has : bool; d_act : list name; d_del : list name; d_pen : list name;
                      d_haslim : bool; d_res : Z }.

(* after one call: panicked?, returned value, dump of every pool of the universe,
   mapping of every claim of the universe *)
Record aobs := mkO { o_panic : bool; o_out : Z; o_pools : list pdump; o_map : list (option name) }.

(* part S: one step of a history on the real static provisioning controller (pool 1) *)
Inductive hop :=
| HProv (replicas : Z) (nfail : nat)   (* set replicas, Reconcile; nfail of the NodeClaim creates fail *)
| HMark (k : kind) (c : name)
| HDelete (c : name)                   (* API delete + Cluster.DeleteNodeClaim *)
| HInfUpd (c : name).                  (* Cluster.UpdateNodeClaim from the API object *)

(* after a step: NodeClaims of the pool in the API, GetNodeCount, reserved counter *)
Record sobs := mkSO { so_api : Z; so_a : Z; so_d : Z; so_p : Z; so_res : Z }.

(* part D: the static protocol on the real provisioning + deprovisioning controllers, the real disruption
   Controller restricted to StaticDrift with the real Queue.StartCommand, faults, limit changes, restarts *)
Inductive fault := FNone | FTaint | FCreate | FStatus.   (* no fault / tainting the candidate fails / creating the
   replacement fails / the DisruptionReason status patch fails *)
Inductive dop :=
| DProv (r : Z) (nfail : nat)
| DInfUpd (c : name) (del : bool)
| DDisrupt (r : Z) (budget ncands : nat) (f : fault) (cands : list name)
| DDeprov (r : Z) (victims gone : list name) (nfail : nat) (* victims the code deleted and marked; those that left the API at
                                                     once; picked candidates that did not become new victims: their API
                                                     delete failed, or they were terminating already (stale cluster-state entry) *)
| DInterleave (r : Z) (ran : bool) (budget ncands : nat) (cands : list name)
    (* a provisioning reconcile that wants one NodeClaim; INSIDE its kubeClient.Create (after ReserveNodeCount, before the
       claim is active) a whole disruption pass runs: StaticDrift.ComputeCommands + StartCommand + its CreateNodeClaims.
       [ran] = the Create was reached (a slot was granted) *)
| DSkip                                          (* a reconcile that must not act: NodePool not ready / deleting / not
                                                     managed, or cluster state not synced (unlaunched claim, partial replay) *)
| DFinalize (c : name)
| DLimit (l : Z)
| DRestart (replay : list (name * bool)).

Inductive case :=
| CaseA (fixed : bool) (pools claims : list name) (ops : list op) (obs : list aobs)
| CaseF (caps : list rl) (remaining : rl) (kept : list bool)          (* filterByRemainingResources *)
| CaseM (remaining : rl) (caps : list rl) (out : rl)                  (* subtractMax *)
| CaseE (limits : option rl) (usage : rl) (exceeded : bool)           (* Limits.ExceededBy *)
| CaseSub (lhs rhs out : rl)                                          (* resources.Subtract *)
| CaseP (exact : bool) (limits : rl) (existing : list (nstate * rl)) (claims : list (list itype))
        (final_remaining : rl) (launched : list rl)                   (* Scheduler.Solve, one pool *)
| CaseS (limit : Z) (hops : list hop) (sobs : list sobs)              (* static provisioning controller *)
| CaseD (limit0 : Z) (dops : list dop) (dobs : list sobs) (settle : option (Z * Z * Z)) (* replicas, limit, final API count *)
| CaseC (limits : option rl) (usage : rl) (nclaims created : nat)     (* Provisioner.CreateNodeClaims: the ExceededBy guard *)
| CaseR (nodes : list (nstate * rl)) (npres : rl)                     (* Cluster.NodePoolResourcesFor vs the API *)
| CaseMk (tracked : list name) (hist : list mop)
         (obs : list (name * bool)) (expected : list (name * bool)).  (* Cluster mark/unmark history *)

Definition set_eqb (a b : list name) : bool :=
  Nat.eqb (List.length a) (List.length b) && forallb (fun x => mem x b) a.

Definition opt_name_eqb (a b : option name) : bool :=
  match a, b with
  | None, None => true
  | Some x, Some y => Nat.eqb x y
  | _, _ => false
  end.

Definition dump_matches (s : st) (np : name) (d : pdump) : bool :=
  match pool s np with
  | None => negb (d_has d)
  | Some e => d_has d && set_eqb (act e) (d_act d) && set_eqb (del e) (d_del d) && set_eqb (pen e) (d_pen d)
  end &&
  match lim s np with
  | None => negb (d_haslim d)
  | Some z => d_haslim d && (z =? d_res d)
  end.

Fixpoint all2 {A B} (f : A -> B -> bool) (l : list A) (m : list B) : bool :=
  match l, m with
  | [], [] => true
  | a :: l', b :: m' => f a b && all2 f l' m'
  | _, _ => false
  end.

Definition state_matches (s : st) (pools claims : list name) (o : aobs) : bool :=
  all2 (dump_matches s) pools (o_pools o) &&
  all2 (fun c m => opt_name_eqb (mp s c) m) claims (o_map o).

(* ---- oracles on the implementation's observations (no model state involved) ---- *)

Definition d_cnt (d : pdump) : Z :=
  Z.of_nat (List.length (d_act d)) + Z.of_nat (List.length (d_del d)) + Z.of_nat (List.length (d_pen d)).

Fixpoint index_of (x : name) (l : list name) (i : nat) : option nat :=
  match l with [] => None | y :: t => if Nat.eqb x y then Some i else index_of x t (S i) end.

Definition dump_of (pools : list name) (o : aobs) (np : name) : option pdump :=
  match index_of np pools 0 with Some i => nth_error (o_pools o) i | None => None end.

(* ReserveNodeCount never grants more than the headroom: for a non-negative request the grant is
   within [0, wanted] and, when something was granted, tracked + reserved stays within the limit. *)
Definition reserve_ok (pools : list name) (o : op) (after : aobs) : bool :=
  match o with
  | OReserve np l w =>
      if w <? 0 then true else
      (0 <=? o_out after) && (o_out after <=? w) &&
      match dump_of pools after np with
      | Some d => if 0 <? o_out after then d_cnt d + d_res d <=? l else true
      | None => true
      end
  | _ => true
  end.

(* Cleanup(nc) forgets only nc: every other tracked claim of every pool and every reserved
   counter survive (a dropped entry reads as empty sets and 0). *)
Definition without (nc : name) (l : list name) : list name := srem nc l.
Definition cleanup_ok (o : op) (before after : aobs) : bool :=
  match o with
  | OCleanup nc =>
      all2 (fun b a =>
              set_eqb (without nc (d_act b)) (without nc (d_act a)) &&
              set_eqb (without nc (d_del b)) (without nc (d_del a)) &&
              set_eqb (without nc (d_pen b)) (without nc (d_pen a)) &&
              (d_res b =? d_res a))
           (o_pools before) (o_pools after)
  | _ => true
  end.

Definition empty_obs (pools claims : list name) : aobs :=
  mkO false 0 (map (fun _ => mkD false [] [] [] false 0) pools) (map (fun _ => None) claims).

(* returns the list of failure tags *)
Fixpoint checkA (fixed : bool) (pools claims : list name) (s : st) (prev : aobs)
                (ops : list op) (obs : list aobs) : list string :=
  match ops, obs with
  | [], [] => []
  | o :: ops', x :: obs' =>
      let orc := (if o_panic x then ["oracle:panic"] else []) ++
                 (if reserve_ok pools o x then [] else ["oracle:reserve-bound"]) ++
                 (if o_panic x || cleanup_ok o prev x then [] else ["oracle:cleanup-lost"]) in
      match step_gen fixed s o with
      | Panic => (if o_panic x then [] else ["corr:model-panics"]) ++ orc
      | Ok s' out =>
          if o_panic x then "corr:impl-panics" :: orc
          else (if (out =? o_out x) && state_matches s' pools claims x then [] else ["corr:nodepoolstate"]) ++
               orc ++ checkA fixed pools claims s' x ops' obs'
      end
  | _, _ => ["corr:length"]
  end.

(* ---------------------------------------------------------------- part B *)

Fixpoint rl_eqb (a b : rl) : bool :=
  match a, b with
  | [], [] => true
  | (k, v) :: a', (k', v') :: b' => String.eqb k k' && (v =? v') && rl_eqb a' b'
  | _, _ => false
  end.

Fixpoint bools_eqb (a b : list bool) : bool :=
  match a, b with
  | [], [] => true
  | x :: a', y :: b' => Bool.eqb x y && bools_eqb a' b'
  | _, _ => false
  end.

(* pointwise a <= b on the keys of a *)
Definition rl_le (a b : rl) : bool := forallb (fun kv => snd kv <=? get (fst kv) b) a.

(* [nodes]: every node / NodeClaim of the pool found in the API with its lifecycle state; the usage the
   oracle recomputes is the capacity of those that are not being deleted *)
Definition checkP (exact : bool) (limits : rl) (nodes : list (nstate * rl)) (claims : list (list itype))
                  (final : rl) (launched : list rl) : list string :=
  let existing := active_caps nodes in
  (match run_pass (remaining0 limits existing) claims with
   | None => ["corr:pass-not-admissible"]
   | Some r => if (if exact then rl_eqb r final else rl_le final r && Nat.eqb (List.length r) (List.length final))
               then [] else ["corr:remaining"]
   end) ++
  (if launches_b rl_eqb claims launched then [] else ["corr:launch-not-an-option"]) ++
  (if within_b limits existing launched then [] else ["oracle:limit-exceeded"]).

(* CreateNodeClaims for the n tickets starting at index i: create (the first nfail fail), in-line state
   update, release. The real code runs them in parallel; the end state does not depend on the order. *)
Fixpoint drive (L : name -> Z) (s : sys) (i n nfail : nat) : sys :=
  match n with
  | O => s
  | S n' =>
      let ok := match nfail with O => true | _ => false end in
      let s1 := sstep L s (TkCreate i ok) in
      let s2 := if ok then sstep L s1 (TkUpdate i) else s1 in
      drive L (sstep L s2 (TkRelease i)) (S i) n' (pred nfail)
  end.

Definition hstep (L : name -> Z) (s : sys) (h : hop) : sys :=
  match h with
  | HProv r nf =>
      let s1 := sstep L s (ProvBegin 1%nat r) in
      drive L s1 (List.length (tks s)) (List.length (tks s1) - List.length (tks s)) nf
  | HMark k c => sstep L s (SMark k 1%nat c)
  | HDelete c => sstep L (sstep L s (ApiRemove c)) (InfDelete c)
  | HInfUpd c => sstep L s (InfUpdate c false)
  end.

Definition sobs_matches (L : name -> Z) (s : sys) (o : sobs) : bool :=
  let '(a, d, p) := counts (nps s) 1%nat in
  negb (crashed s) && (api_count s 1%nat =? so_api o) && (a =? so_a o) && (d =? so_d o) && (p =? so_p o) &&
  (reserved (nps s) 1%nat =? so_res o).

Fixpoint checkS (L : name -> Z) (limit : Z) (s : sys) (hops : list hop) (obs : list sobs) : list string :=
  match hops, obs with
  | [], [] => []
  | h :: hops', o :: obs' =>
      let s' := hstep L s h in
      (if sobs_matches L s' o then [] else ["corr:static-controller"]) ++
      (if so_api o <=? limit then [] else ["oracle:node-limit"]) ++
      checkS L limit s' hops' obs'
  | _, _ => ["corr:length"]
  end.

(* the commands of one disruption pass: ticket i belongs to candidate c *)
Fixpoint drive_drift (L : name -> Z) (s : sys) (i : nat) (f : fault) (cands : list name) : sys :=
  match cands with
  | [] => s
  | c :: t =>
      let s1 := sstep L s (SMark KPending 1%nat c) in                       (* queue.markDisrupted *)
      let s2 := match f with
                | FNone => sstep L (sstep L (sstep L (sstep L s1 (TkCreate i true)) (TkUpdate i)) (TkRelease i))
                                   (SMark KDeleting 1%nat c)                (* replacement created; MarkForDeletion *)
                | _ => sstep L (sstep L s1 (TkCreate i false)) (TkRelease i) (* CreateNodeClaims failed, released *)
                end in
      drive_drift L s2 (S i) f t
  end.

(* returns the new state and whether the step's witnesses are consistent with the model *)
Definition dstep (l : Z) (s : sys) (o : dop) : sys * bool * Z :=
  let L := fun _ : name => l in
  match o with
  | DProv r nf => (hstep L s (HProv r nf), true, l)
  | DInfUpd c d => (sstep L s (InfUpdate c d), true, l)
  | DDisrupt r b n f cands =>
      let s1 := sstep L s (DriftBegin 1%nat r b n) in
      let g := (List.length (tks s1) - List.length (tks s))%nat in
      match f with
      | FTaint | FStatus => (s1, is_nil cands, l)             (* StartCommand returned before creating anything *)
      | _ => (drive_drift L s1 (List.length (tks s)) f cands, Nat.eqb (List.length cands) g, l)
      end
  | DDeprov r victims gone nfail =>
      let '(a, _, _) := counts (nps s) 1%nat in
      let s1 := sstep L s (DeprovMark 1%nat r victims) in
      (fold_left (fun s' c => sstep L (sstep L s' (ApiRemove c)) (InfDelete c)) gone s1,
       Z.of_nat (List.length victims) + Z.of_nat nfail =? Z.max 0 (a - r), l)
  | DInterleave r ran b n cands =>
      let i := List.length (tks s) in
      let s1 := sstep L s (ProvBegin 1%nat r) in
      let g := (List.length (tks s1) - i)%nat in
      if ran then
        let s2 := sstep L s1 (DriftBegin 1%nat r b n) in              (* the second actor, between reserve and active *)
        let g2 := (List.length (tks s2) - List.length (tks s1))%nat in
        let s3 := drive_drift L s2 (List.length (tks s1)) FNone cands in
        let s4 := sstep L (sstep L (sstep L s3 (TkCreate i true)) (TkUpdate i)) (TkRelease i) in
        (s4, Nat.eqb g 1 && Nat.eqb (List.length cands) g2, l)
      else (s1, Nat.eqb g 0, l)
  | DSkip => (s, true, l)
  | DFinalize c => (sstep L (sstep L s (ApiRemove c)) (InfDelete c), true, l)
  | DLimit l' => (s, true, l')
  | DRestart replay =>
      (fold_left (fun s' cd => sstep L s' (InfUpdate (fst cd) (snd cd))) replay (sstep L s Restart), true, l)
  end.

Fixpoint checkD (l : Z) (s : sys) (prev : Z) (ops : list dop) (obs : list sobs) : list string :=
  match ops, obs with
  | [], [] => []
  | o :: ops', x :: obs' =>
      let '(s', wit, l') := dstep l s o in
      let total := so_api x + so_res x in
      (if wit then [] else ["corr:static-witness"]) ++
      (if sobs_matches (fun _ => l') s' x then [] else ["corr:static-protocol"]) ++
      (* NodeClaims in the API + outstanding reservations never grow beyond the node limit *)
      (if total <=? Z.max l' prev then [] else ["oracle:node-limit"]) ++
      checkD l' s' total ops' obs'
  | _, _ => ["corr:length"]
  end.

Definition settle_ok (settle : option (Z * Z * Z)) : bool :=
  match settle with
  | None => true
  | Some (r, l, n) => if r <=? l then n =? r else true   (* above the limit nothing is created; the cap is checked per step *)
  end.

Definition check_case (c : case) : list string :=
  match c with
  | CaseA fixed pools claims ops obs => checkA fixed pools claims st0 (empty_obs pools claims) ops obs
  | CaseF caps remaining kept =>
      if bools_eqb (map (fun c => viable c remaining) caps) kept then [] else ["corr:filterByRemainingResources"]
  | CaseM remaining caps out =>
      if rl_eqb (subtract_max remaining caps) out then [] else ["corr:subtractMax"]
  | CaseE limits usage e =>
      if Bool.eqb (exceeded_by limits usage) e then [] else ["corr:ExceededBy"]
  | CaseSub lhs rhs out =>
      if rl_eqb (subtract lhs rhs) out then [] else ["corr:Subtract"]
  | CaseP exact limits existing claims final launched => checkP exact limits existing claims final launched
  | CaseS limit hops obs => checkS (fun _ => limit) limit (sys0) hops obs
  | CaseD l ops obs settle =>
      checkD l sys0 0 ops obs ++ (if settle_ok settle then [] else ["oracle:not-settled"])
  | CaseC limits usage n created =>
      (* every NodeClaim of the pass is created unless the pool's usage already exceeds a limit; then none is *)
      if exceeded_by limits usage
      then (if Nat.eqb created 0 then [] else ["oracle:created-over-limit"])
      else (if Nat.eqb created n then [] else ["corr:Create-ExceededBy"])
  | CaseR nodes npres =>
      (* the incrementally maintained per-pool sum equals the capacity of the nodes that are not being deleted;
         resources the map no longer lists are zero *)
      let ex := active_caps nodes in
      if forallb (fun kv => snd kv =? sum_get (fst kv) ex) npres &&
         forallb (fun c => forallb (fun kv => has (fst kv) npres || (sum_get (fst kv) ex =? 0)) c) ex
      then [] else ["oracle:nodePoolResources"]
  | CaseMk tracked hist obs expected =>
      (* obs: MarkedForDeletion() of every node the real Cluster still tracks; expected: what the harness assumed
         when it computed which nodes count against the limits *)
      let s := mrun tracked hist in
      let ok (l : list (name * bool)) :=
        set_eqb (m_tracked s) (map fst l) && forallb (fun nb => Bool.eqb (mem (fst nb) (m_marked s)) (snd nb)) l in
      (if ok obs then [] else ["corr:mark-history"]) ++ (if ok expected then [] else ["corr:harness-mark-bookkeeping"])
  end.

Definition check_all (cs : list (Z * case)) : list (Z * string) :=
  flat_map (fun ic => map (fun t => (fst ic, t)) (nodup string_dec (check_case (snd ic)))) cs.
