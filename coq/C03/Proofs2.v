(* C03 — resource limits: one scheduling pass and any number of rounds stay within the NodePool
   limits for every launch choice (part B). *)
From KV Require Import C03.Model.
Open Scope Z_scope.

(* ------------------------------------------------------------------ get / has *)

Lemma has_false_get k l : has k l = false -> get k l = 0.
Proof.
  induction l as [|[k' v] t IH]; simpl; [reflexivity|].
  destruct (String.eqb k k'); simpl; [discriminate | exact IH].
Qed.

Lemma get_map_sub k (m : string -> Z) (r : rl) :
  get k (map (fun kv => (fst kv, snd kv - m (fst kv))) r) = if has k r then get k r - m k else 0.
Proof.
  induction r as [|[k' v] t IH]; simpl; [reflexivity|].
  destruct (String.eqb k k') eqn:E; simpl; [apply String.eqb_eq in E; subst; reflexivity | exact IH].
Qed.

Lemma has_map_sub k (m : string -> Z) (r : rl) :
  has k (map (fun kv => (fst kv, snd kv - m (fst kv))) r) = has k r.
Proof.
  induction r as [|[k' v] t IH]; simpl; [reflexivity|]. now rewrite IH.
Qed.

Lemma get_subtract k lhs rhs : has k lhs = true -> get k (subtract lhs rhs) = get k lhs - get k rhs.
Proof. intros H. unfold subtract. rewrite (get_map_sub k (fun x => get x rhs)). now rewrite H. Qed.

Lemma has_subtract k lhs rhs : has k (subtract lhs rhs) = has k lhs.
Proof. unfold subtract. apply (has_map_sub k (fun x => get x rhs)). Qed.

Lemma remaining0_spec k existing : forall limits, has k limits = true ->
  has k (remaining0 limits existing) = true /\
  get k (remaining0 limits existing) = get k limits - sum_get k existing.
Proof.
  unfold remaining0. induction existing as [|c t IH]; intros limits H; simpl.
  - split; [exact H | lia].
  - destruct (IH (subtract limits c)) as [Hh Hg]; [now rewrite has_subtract|].
    split; [exact Hh|]. rewrite Hg, get_subtract by exact H. lia.
Qed.

Lemma get_assign k b ov : get k (assign b ov) = if has k ov then get k ov else get k b.
Proof.
  unfold assign. induction ov as [|[k' v] t IH]; simpl; [reflexivity|].
  destruct (String.eqb k k'); simpl; [reflexivity | exact IH].
Qed.

(* ------------------------------------------------------------------ MaxResources *)

Lemma fold_max_ge_init l : forall a, a <= fold_left Z.max l a.
Proof. induction l as [|x t IH]; intros a; simpl; [lia|]. specialize (IH (Z.max a x)). lia. Qed.

Lemma fold_max_ge_elem l : forall a x, In x l -> x <= fold_left Z.max l a.
Proof.
  induction l as [|y t IH]; intros a x Hin; simpl; [contradiction|].
  destruct Hin as [Heq|Hin]; [subst; pose proof (fold_max_ge_init t (Z.max a x)); lia | now apply IH].
Qed.

Lemma fold_max_in l : forall a, fold_left Z.max l a = a \/ In (fold_left Z.max l a) l.
Proof.
  induction l as [|y t IH]; intros a; simpl; [now left|].
  destruct (IH (Z.max a y)) as [H|H]; [|now right; right].
  rewrite H. destruct (Z.max_spec a y) as [[_ Hm]|[_ Hm]]; rewrite Hm; [right; now left | now left].
Qed.

Lemma in_present k caps v : In v (present k caps) <-> exists c, In c caps /\ has k c = true /\ v = get k c.
Proof.
  unfold present. rewrite in_flat_map. split.
  - intros [c [Hc Hin]]. destruct (has k c) eqn:E; [|contradiction].
    destruct Hin as [Heq|[]]. exists c. auto.
  - intros [c [Hc [Hh Hv]]]. exists c. split; [exact Hc|]. rewrite Hh. subst. now left.
Qed.

Lemma max_of_ge k caps c : In c caps -> has k c = true -> get k c <= max_of k caps.
Proof.
  intros Hc Hh. assert (Hin : In (get k c) (present k caps)) by (apply in_present; eauto).
  unfold max_of. destruct (present k caps) as [|v vs]; [contradiction|].
  destruct Hin as [Heq|Hin]; [rewrite Heq; apply fold_max_ge_init | now apply fold_max_ge_elem].
Qed.

Lemma max_of_cases k caps :
  (max_of k caps = 0 /\ forall c, In c caps -> has k c = false) \/
  (exists c, In c caps /\ has k c = true /\ max_of k caps = get k c).
Proof.
  unfold max_of. destruct (present k caps) as [|v vs] eqn:E.
  - left. split; [reflexivity|]. intros c Hc. destruct (has k c) eqn:Hh; [|reflexivity].
    assert (Hin : In (get k c) (present k caps)) by (apply in_present; eauto). rewrite E in Hin. contradiction.
  - right. assert (Hin : In (fold_left Z.max vs v) (present k caps)).
    { rewrite E. destruct (fold_max_in vs v) as [H|H]; [rewrite H; now left | now right]. }
    apply in_present in Hin. destruct Hin as [c [Hc [Hh Hv]]]. exists c. auto.
Qed.

(* with non-negative capacities an absent key (= 0) is also below the maximum *)
Lemma get_le_max_of k caps c :
  (forall c', In c' caps -> 0 <= get k c') -> In c caps -> get k c <= max_of k caps.
Proof.
  intros Hnn Hc. destruct (has k c) eqn:Hh; [now apply max_of_ge|].
  rewrite (has_false_get _ _ Hh).
  destruct (max_of_cases k caps) as [[H0 _]|[c' [Hc' [_ Hm]]]]; [lia | rewrite Hm; now apply Hnn].
Qed.

(* ------------------------------------------------------------------ filter / subtractMax *)

Lemma viable_le cap r k : viable cap r = true -> has k r = true -> get k cap <= get k r.
Proof.
  unfold viable. induction r as [|[k' v] t IH]; simpl; [discriminate|].
  intros H Hh. apply andb_true_iff in H. destruct H as [H1 H2].
  destruct (String.eqb k k') eqn:E.
  - apply String.eqb_eq in E; subst k'. simpl in H1. apply negb_true_iff, Z.ltb_ge in H1. exact H1.
  - simpl in Hh. now apply IH.
Qed.

Lemma exceeded_by_spec limits usage :
  exceeded_by (Some limits) usage = true <->
  exists k u, In (k, u) usage /\ has k limits = true /\ get k limits < u.
Proof.
  unfold exceeded_by. rewrite existsb_exists. split.
  - intros [[k u] [Hin H]]. simpl in H. apply andb_true_iff in H. destruct H as [Hh Hl].
    apply Z.ltb_lt in Hl. exists k, u. auto.
  - intros [k [u [Hin [Hh Hl]]]]. exists (k, u). split; [exact Hin|]. simpl. rewrite Hh. simpl. now apply Z.ltb_lt.
Qed.

Lemma get_map_gen k (f : string -> Z -> Z) (r : rl) :
  get k (map (fun kv => (fst kv, f (fst kv) (snd kv))) r) = if has k r then f k (get k r) else 0.
Proof.
  induction r as [|[k' v] t IH]; simpl; [reflexivity|].
  destruct (String.eqb k k') eqn:E; simpl; [apply String.eqb_eq in E; subst; reflexivity | exact IH].
Qed.

Lemma has_map_gen k (f : string -> Z -> Z) (r : rl) :
  has k (map (fun kv => (fst kv, f (fst kv) (snd kv))) r) = has k r.
Proof. induction r as [|[k' v] t IH]; simpl; [reflexivity|]. now rewrite IH. Qed.

(* what one new NodeClaim costs beyond the largest option: one node of a node limit *)
Definition dec (fixed : bool) (k : string) : Z := if fixed && String.eqb k nodes then one_node else 0.

Lemma subtract_max_get fixed k r caps : caps <> [] -> has k r = true ->
  get k (subtract_max_gen fixed r caps) = get k r - max_of k caps - dec fixed k /\
  has k (subtract_max_gen fixed r caps) = true.
Proof.
  intros Hne Hh. unfold subtract_max_gen. destruct caps as [|c t]; [contradiction|].
  rewrite (get_map_gen k (fun x v => v - max_of x (c :: t) - (if fixed && String.eqb x nodes then one_node else 0))),
          (has_map_gen k (fun x v => v - max_of x (c :: t) - (if fixed && String.eqb x nodes then one_node else 0))), Hh.
  auto.
Qed.

Lemma admissible_parts r opts :
  admissible r opts = true ->
  nodes_exhausted r = false /\ map base opts <> [] /\ (forall it, In it opts -> viable (base it) r = true).
Proof.
  intros Ha. unfold admissible in Ha. apply andb_true_iff in Ha. destruct Ha as [Ha Hv].
  apply andb_true_iff in Ha. destruct Ha as [Hex Hne]. rewrite forallb_forall in Hv.
  repeat split; [now apply negb_true_iff in Hex | destruct opts; discriminate | exact Hv].
Qed.

(* one admissible NodeClaim: the worst case is subtracted; max_of is below the headroom *)
Lemma admissible_step fixed r opts k :
  admissible r opts = true -> has k r = true ->
  let r1 := subtract_max_gen fixed r (map base opts) in
  has k r1 = true /\ get k r1 = get k r - max_of k (map base opts) - dec fixed k /\
  max_of k (map base opts) <= get k r.
Proof.
  intros Ha Hh. destruct (admissible_parts _ _ Ha) as [_ [Hne Hv]].
  destruct (subtract_max_get fixed k r _ Hne Hh) as [Hg Hh1]. simpl. repeat split; [exact Hh1 | exact Hg |].
  destruct (max_of_cases k (map base opts)) as [[H0 Hall]|[c [Hc [Hhc Hm]]]].
  - rewrite H0. destruct opts as [|it t]; [contradiction Hne; reflexivity|].
    pose proof (viable_le _ _ k (Hv it (or_introl eq_refl)) Hh) as Hle.
    rewrite (has_false_get k (base it)) in Hle by (apply Hall; now left). exact Hle.
  - rewrite Hm. apply in_map_iff in Hc. destruct Hc as [it [Hb Hit]]. subst c.
    exact (viable_le _ _ k (Hv it Hit) Hh).
Qed.

(* ------------------------------------------------------------------ one pass *)

(* guards on the catalog: capacities are non-negative, no offering raises a resource above the base
   capacity (F12), and instance types do not report a "nodes" capacity *)
Definition it_ok (it : itype) : Prop :=
  nonneg (base it) /\ (forall k, ov_le_base k it) /\ get nodes (base it) = 0.
Definition claims_ok (claims : list (list itype)) : Prop :=
  forall opts it, In opts claims -> In it opts -> it_ok it.

Lemma max_of_nonneg k opts : opts <> [] -> (forall it, In it opts -> it_ok it) -> 0 <= max_of k (map base opts).
Proof.
  intros Hne Hok. destruct opts as [|it t]; [contradiction|].
  assert (get k (base it) <= max_of k (map base (it :: t))).
  { apply get_le_max_of; [|now left].
    intros c' Hc'. apply in_map_iff in Hc'. destruct Hc' as [it' [Hb Hit']]. subst c'. apply (Hok it' Hit'). }
  pose proof (proj1 (Hok it (or_introl eq_refl)) k). lia.
Qed.

Lemma launch_le_max k opts c :
  (forall it, In it opts -> it_ok it) -> In c (launch_caps opts) -> get k c <= max_of k (map base opts).
Proof.
  intros Hok Hin. unfold launch_caps in Hin. apply in_flat_map in Hin. destruct Hin as [it [Hit Hc]].
  apply in_map_iff in Hc. destruct Hc as [ov [Hc Hov]]. subst c.
  destruct (Hok it Hit) as [Hnn [Hle _]]. specialize (Hle k). unfold ov_le_base in Hle.
  rewrite Forall_forall in Hle. specialize (Hle ov Hov).
  assert (get k (base it) <= max_of k (map base opts)).
  { apply get_le_max_of; [|now apply in_map].
    intros c' Hc'. apply in_map_iff in Hc'. destruct Hc' as [it' [Hb Hit']]. subst c'. apply (Hok it' Hit'). }
  lia.
Qed.

(* a launched node as the cluster counts it costs at most what the pass subtracted for it *)
Lemma node_cap_le k opts c :
  opts <> [] -> (forall it, In it opts -> it_ok it) -> In c (launch_caps opts) ->
  get k (node_cap c) <= max_of k (map base opts) + dec true k.
Proof.
  intros Hne Hok Hin. unfold node_cap, dec. simpl.
  destruct (String.eqb k nodes) eqn:E; simpl.
  - pose proof (max_of_nonneg k opts Hne Hok). lia.
  - pose proof (launch_le_max k opts c Hok Hin). lia.
Qed.

Lemma pass_bound k : forall claims r r' launched,
  run_pass r claims = Some r' -> has k r = true -> claims_ok claims -> launches claims launched ->
  sum_get k (map node_cap launched) <= get k r - get k r' /\ has k r' = true.
Proof.
  unfold run_pass. induction claims as [|opts t IH]; intros r r' launched Hrun Hh Hok Hl; simpl in *.
  - inversion Hrun; subst r'. destruct launched; [|contradiction]. simpl. split; [lia | exact Hh].
  - destruct launched as [|c launched]; [contradiction|]. destruct Hl as [Hc Hl].
    destruct (admissible r opts) eqn:Ea; [|discriminate].
    destruct (admissible_step true r opts k Ea Hh) as [Hh1 [Hg1 _]].
    assert (Hok' : claims_ok t) by (intros o it Ho Hit; apply (Hok o it); [now right | exact Hit]).
    destruct (IH _ _ _ Hrun Hh1 Hok' Hl) as [Hs Hh'].
    assert (Hne : opts <> []) by (destruct (admissible_parts _ _ Ea) as [_ [Hne _]]; destruct opts; [contradiction Hne; reflexivity | discriminate]).
    assert (Hcle : get k (node_cap c) <= max_of k (map base opts) + dec true k).
    { apply node_cap_le; [exact Hne | | exact Hc]. intros it Hit. apply (Hok opts it); [now left | exact Hit]. }
    change (sum_get k (map node_cap (c :: launched))) with (get k (node_cap c) + sum_get k (map node_cap launched)).
    split; [lia | exact Hh'].
Qed.

(* headroom in whole nodes (trivially true for every other resource) *)
Definition whole (k : string) (v : Z) : Prop := String.eqb k nodes = false \/ exists n, v = n * one_node.

(* after at least one NodeClaim the headroom is still non-negative *)
Lemma pass_nonneg k : forall claims r r',
  run_pass r claims = Some r' -> has k r = true -> claims_ok claims -> whole k (get k r) ->
  claims <> [] -> 0 <= get k r'.
Proof.
  unfold run_pass. induction claims as [|opts t IH]; intros r r' Hrun Hh Hok Hw Hne; [contradiction|]. simpl in Hrun.
  destruct (admissible r opts) eqn:Ea; [|discriminate].
  destruct (admissible_step true r opts k Ea Hh) as [Hh1 [Hg1 Hm]].
  destruct (admissible_parts _ _ Ea) as [Hex [Hne' Hv]].
  assert (Hoks : forall it, In it opts -> it_ok it) by (intros it Hit; apply (Hok opts it); [now left | exact Hit]).
  assert (Hok' : claims_ok t) by (intros o it Ho Hit; apply (Hok o it); [now right | exact Hit]).
  set (r1 := subtract_max_gen true r (map base opts)) in *.
  assert (H1 : 0 <= get k r1 /\ whole k (get k r1)).
  { unfold dec in Hg1. simpl in Hg1. destruct (String.eqb k nodes) eqn:E.
    - apply String.eqb_eq in E. subst k. destruct Hw as [Hw|[n Hn]]; [discriminate|].
      assert (Hm0 : max_of nodes (map base opts) = 0).
      { destruct (max_of_cases nodes (map base opts)) as [[H0 _]|[c [Hc [_ Hmc]]]]; [exact H0|].
        rewrite Hmc. apply in_map_iff in Hc. destruct Hc as [it [Hb Hit]]. subst c. apply (Hoks it Hit). }
      unfold nodes_exhausted in Hex. rewrite Hh in Hex. simpl in Hex. apply Z.eqb_neq in Hex.
      unfold one_node in *. clearbody r1. split; [lia | right; exists (n - 1); unfold one_node; lia].
    - split; [lia | now left]. }
  destruct H1 as [Hnn1 Hw1].
  destruct t as [|o t']; [simpl in Hrun; inversion Hrun; subst r'; exact Hnn1|].
  apply (IH r1 r' Hrun Hh1 Hok' Hw1). discriminate.
Qed.

Lemma sum_get_app k a b : sum_get k (a ++ b) = sum_get k a + sum_get k b.
Proof. induction a as [|c t IH]; simpl; [lia|]. rewrite IH. lia. Qed.

(* pass_within_limits for EVERY limited resource including "nodes" (since 1e4ed4d16), under the catalog
   guards of [it_ok] (F12: no offering above the base capacity) and a whole-number node headroom *)
Lemma pass_within_limits_partial_l : forall limits existing claims r' launched k,
  run_pass (remaining0 limits existing) claims = Some r' ->
  launches claims launched -> claims_ok claims ->
  has k limits = true -> whole k (get k limits - sum_get k existing) ->
  sum_get k existing + sum_get k (map node_cap launched) <= Z.max (get k limits) (sum_get k existing).
Proof.
  intros limits existing claims r' launched k Hrun Hl Hok Hh Hw.
  destruct (remaining0_spec k existing limits Hh) as [Hh0 Hg0].
  destruct (pass_bound k _ _ _ _ Hrun Hh0 Hok Hl) as [Hs _].
  destruct claims as [|o t].
  - destruct launched; [simpl; lia | contradiction].
  - assert (0 <= get k r').
    { apply (pass_nonneg k (o :: t) _ _ Hrun Hh0 Hok); [now rewrite Hg0 | discriminate]. }
    lia.
Qed.

(* ------------------------------------------------------------------ rounds *)

(* the non-deleting nodes of the pool over any number of synced scheduling rounds; between rounds
   nodes may disappear. Every launched node is visible to the next round (Cluster.Synced gating). *)
Inductive rounds (limits : rl) : list rl -> list rl -> Prop :=
| r_done ex : rounds limits ex ex
| r_pass ex claims r' launched ex' :
    run_pass (remaining0 limits ex) claims = Some r' -> launches claims launched -> claims_ok claims ->
    rounds limits (map node_cap launched ++ ex) ex' -> rounds limits ex ex'
| r_remove a x b ex' : nonneg x -> rounds limits (a ++ b) ex' -> rounds limits (a ++ x :: b) ex'.

(* every node counts as exactly one node (StateNode.Capacity) and the node limit is a whole number *)
Definition whole_nodes (k : string) (limits : rl) (ex : list rl) : Prop :=
  String.eqb k nodes = false \/
  ((exists n, get nodes limits = n * one_node) /\ Forall (fun x => get nodes x = one_node) ex).

Lemma sum_nodes_whole ex : Forall (fun x => get nodes x = one_node) ex ->
  sum_get nodes ex = Z.of_nat (List.length ex) * one_node.
Proof.
  induction 1 as [|x t Hx Ht IH]; [reflexivity|].
  change (sum_get nodes (x :: t)) with (get nodes x + sum_get nodes t). rewrite Hx, IH.
  change (List.length (x :: t)) with (S (List.length t)). lia.
Qed.

Lemma rounds_within_limits_partial_l : forall limits ex ex' k,
  rounds limits ex ex' -> has k limits = true -> whole_nodes k limits ex ->
  sum_get k ex <= get k limits -> sum_get k ex' <= get k limits.
Proof.
  intros limits ex ex' k Hr Hh.
  induction Hr as [ex|ex claims r' launched ex' Hrun Hl Hok Hr IH|a x b ex' Hx Hr IH]; intros Hw Hs.
  - exact Hs.
  - apply IH.
    + destruct Hw as [Hw|[Hlim Hall]]; [now left | right]. split; [exact Hlim|].
      apply Forall_app. split; [|exact Hall]. apply Forall_forall. intros y Hy.
      apply in_map_iff in Hy. destruct Hy as [c [Hc _]]. subst y. reflexivity.
    + rewrite sum_get_app.
      assert (Hwh : whole k (get k limits - sum_get k ex)).
      { destruct Hw as [Hw|[[n Hn] Hall]]; [now left|]. destruct (String.eqb k nodes) eqn:E; [|now left].
        apply String.eqb_eq in E. subst k. right. rewrite (sum_nodes_whole _ Hall), Hn.
        exists (n - Z.of_nat (List.length ex)). lia. }
      pose proof (pass_within_limits_partial_l _ _ _ _ _ k Hrun Hl Hok Hh Hwh). lia.
  - apply IH.
    + destruct Hw as [Hw|[Hlim Hall]]; [now left | right]. split; [exact Hlim|].
      apply Forall_app in Hall. destruct Hall as [Ha Hb]. inversion Hb; subst. apply Forall_app. now split.
    + rewrite sum_get_app in *. change (sum_get k (x :: b)) with (get k x + sum_get k b) in Hs.
      specialize (Hx k). lia.
Qed.

(* ------------------------------------------------------------------ the oracle *)

Definition within (limits : rl) (existing launched : list rl) : Prop :=
  forall k l, In (k, l) limits ->
    sum_get k existing + sum_get k (map node_cap launched) <= Z.max l (sum_get k existing).

Lemma within_b_spec limits existing launched :
  within_b limits existing launched = true <-> within limits existing launched.
Proof.
  unfold within_b, within. rewrite forallb_forall. split.
  - intros H k l Hin. specialize (H (k, l) Hin). simpl in H. now apply Z.leb_le.
  - intros H [k l] Hin. simpl. apply Z.leb_le. now apply H.
Qed.

(* ------------------------------------------------------------------ the full-strength statement is false *)

Definition pass_within_limits_stmt : Prop :=
  forall limits existing claims r' launched,
    run_pass (remaining0 limits existing) claims = Some r' ->
    launches claims launched ->
    (forall opts it, In opts claims -> In it opts -> it_nonneg it) ->
    within limits existing launched.

Open Scope string_scope.

(* F11 (fixed in /repo by 1e4ed4d16): a dynamic pool with limits.nodes = 2 and three NodeClaims in one
   pass; the former subtractMax never lowered "nodes" *)
Definition w_nodes_limits : rl := [("nodes", 2000)].
Definition w_nodes_it : itype := mkIT [("cpu", 2000)] [[]].
Definition w_nodes_claims : list (list itype) := [[w_nodes_it]; [w_nodes_it]; [w_nodes_it]].
Definition w_nodes_launched : list rl := [[("cpu", 2000)]; [("cpu", 2000)]; [("cpu", 2000)]].

Lemma nonneg_cpu v : 0 <= v -> nonneg [("cpu", v)].
Proof. intros H k. simpl. destruct (String.eqb k "cpu"); lia. Qed.
Lemma nonneg_nil : nonneg [].
Proof. intros k. simpl. lia. Qed.

Lemma pass_nodes_prefix_refuted_l :
  (exists r', run_pass_prefix (remaining0 w_nodes_limits []) w_nodes_claims = Some r') /\
  launches w_nodes_claims w_nodes_launched /\
  within_b w_nodes_limits [] w_nodes_launched = false /\
  run_pass (remaining0 w_nodes_limits []) w_nodes_claims = None.
Proof.
  split; [eexists; vm_compute; reflexivity|]. split; [simpl; tauto|]. split; vm_compute; reflexivity.
Qed.

(* F12: an offering whose CapacityOverride raises cpu above the base capacity that the filter looked at *)
Definition w_ov_limits : rl := [("cpu", 8000)].
Definition w_ov_it : itype := mkIT [("cpu", 4000)] [[("cpu", 16000)]].
Definition w_ov_launched : list rl := [assign [("cpu", 4000)] [("cpu", 16000)]].

Lemma pass_override_refuted_l :
  exists r', run_pass (remaining0 w_ov_limits []) [[w_ov_it]] = Some r' /\
    launches [[w_ov_it]] w_ov_launched /\
    (forall opts it, In opts [[w_ov_it]] -> In it opts -> it_nonneg it) /\
    within_b w_ov_limits [] w_ov_launched = false.
Proof.
  eexists. split; [vm_compute; reflexivity|]. split; [simpl; tauto|]. split; [|vm_compute; reflexivity].
  intros opts it Ho Hi. destruct Ho as [H|[]]; subst opts. destruct Hi as [H|[]]; subst it.
  split; simpl; [apply nonneg_cpu; lia | constructor; [apply nonneg_cpu; lia | constructor]].
Qed.

Lemma pass_within_limits_refuted_l : ~ pass_within_limits_stmt.
Proof.
  intros H. destruct pass_override_refuted_l as [r' [Hrun [Hl [Hok Hb]]]].
  specialize (H _ _ _ _ _ Hrun Hl Hok). apply within_b_spec in H. rewrite H in Hb. discriminate.
Qed.

(* ------------------------------------------------------------------ mark / unmark histories *)

Lemma mem_srem2 x c l : mem x (srem c l) = mem x l && negb (Nat.eqb c x).
Proof.
  induction l as [|y t IH]; simpl; [reflexivity|].
  destruct (Nat.eqb c y) eqn:Ecy; simpl.
  - rewrite IH. apply Nat.eqb_eq in Ecy; subst y.
    destruct (Nat.eqb x c) eqn:Exc; simpl; [|reflexivity].
    apply Nat.eqb_eq in Exc; subst x. rewrite Nat.eqb_refl. simpl. now rewrite andb_false_r.
  - rewrite IH. destruct (Nat.eqb x y) eqn:Exy; simpl; [|reflexivity].
    apply Nat.eqb_eq in Exy; subst y. now rewrite Ecy.
Qed.

Lemma unmark_fold tr x : forall l acc,
  mem x (fold_left (fun acc y => if mem y tr then srem y acc else acc) l acc) =
  mem x acc && negb (existsb (fun y => Nat.eqb y x && mem y tr) l).
Proof.
  induction l as [|y t IH]; intros acc; simpl; [now rewrite andb_true_r|].
  rewrite IH. destruct (mem y tr); simpl.
  - rewrite mem_srem2. destruct (Nat.eqb y x); simpl; [now rewrite andb_false_r | now rewrite andb_true_r].
  - now rewrite andb_false_r.
Qed.

(* after UnmarkForDeletion(l) no tracked id of l is marked, wherever it stands in l and whatever
   else (untracked ids included) l contains; ids outside l keep their marking *)
Lemma unmark_clears_l : forall s l x,
  (In x l -> mem x (m_tracked s) = true -> mem x (m_marked (mstep s (MUnmark l))) = false) /\
  (~ In x l -> mem x (m_marked (mstep s (MUnmark l))) = mem x (m_marked s)).
Proof.
  intros s l x. simpl. rewrite unmark_fold. split.
  - intros Hin Htr. assert (He : existsb (fun y => Nat.eqb y x && mem y (m_tracked s)) l = true).
    { apply existsb_exists. exists x. split; [exact Hin|]. now rewrite Nat.eqb_refl, Htr. }
    rewrite He. now rewrite andb_false_r.
  - intros Hnin. assert (He : existsb (fun y => Nat.eqb y x && mem y (m_tracked s)) l = false).
    { match goal with |- ?e = false => destruct e eqn:E; [|reflexivity] end. apply existsb_exists in E. destruct E as [y [Hy Hb]].
      apply andb_true_iff in Hb. destruct Hb as [Hb _]. apply Nat.eqb_eq in Hb. subst y. contradiction. }
    rewrite He. now rewrite andb_true_r.
Qed.

Lemma mark_fold tr x : forall l acc,
  mem x (fold_left (fun acc y => if mem y tr then sadd y acc else acc) l acc) =
  mem x acc || existsb (fun y => Nat.eqb y x && mem y tr) l.
Proof.
  induction l as [|y t IH]; intros acc; simpl; [now rewrite orb_false_r|].
  rewrite IH. destruct (mem y tr); simpl.
  - unfold sadd. destruct (mem y acc) eqn:Ey; simpl.
    + destruct (Nat.eqb y x) eqn:E; simpl; [|reflexivity]. apply Nat.eqb_eq in E; subst. rewrite Ey. reflexivity.
    + rewrite (Nat.eqb_sym x y). destruct (Nat.eqb y x); simpl; [now rewrite orb_true_r | reflexivity].
  - now rewrite andb_false_r.
Qed.

(* only tracked nodes are ever marked, over every history *)
Lemma marked_tracked_l : forall h tracked x,
  mem x (m_marked (mrun tracked h)) = true -> mem x (m_tracked (mrun tracked h)) = true.
Proof.
  intros h tracked. unfold mrun.
  assert (G : forall s, (forall x, mem x (m_marked s) = true -> mem x (m_tracked s) = true) ->
              forall x, mem x (m_marked (fold_left mstep h s)) = true -> mem x (m_tracked (fold_left mstep h s)) = true).
  { induction h as [|o t IH]; intros s Hs; [exact Hs|]. simpl. apply IH. intros x. destruct o as [l|l|y]; simpl.
    - rewrite mark_fold. intros H. apply orb_true_iff in H. destruct H as [H|H]; [now apply Hs|].
      apply existsb_exists in H. destruct H as [y [_ Hb]]. apply andb_true_iff in Hb. destruct Hb as [He Hm].
      apply Nat.eqb_eq in He. now subst.
    - rewrite unmark_fold. intros H. apply andb_true_iff in H. now apply Hs.
    - rewrite !mem_srem2. intros H. apply andb_true_iff in H. destruct H as [H1 H2]. rewrite (Hs x H1), H2. reflexivity. }
  apply G. intros x H. discriminate.
Qed.
