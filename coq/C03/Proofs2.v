(* C03 — resource limits: one scheduling pass and any number of rounds stay within the NodePool
   limits for every launch choice (part B). *)
From KV Require Import C03.Model.
Open Scope Z_scope.

(* ------------------------------------------------------------------ get / has *)

Lemma has_false_get k l : has k l = false -> get k l = 0.
Proof.
  induction l as [|[k' v] t IH]; simpl; [reflexivity|].
  destruct (String.eqb k k'); simpl; [discriminate | exact IH].
Qed.

Lemma get_map_sub k (m : string -> Z) (r : rl) :
  get k (map (fun kv => (fst kv, snd kv - m (fst kv))) r) = if has k r then get k r - m k else 0.
Proof.
  induction r as [|[k' v] t IH]; simpl; [reflexivity|].
  destruct (String.eqb k k') eqn:E; simpl; [apply String.eqb_eq in E; subst; reflexivity | exact IH].
Qed.

Lemma has_map_sub k (m : string -> Z) (r : rl) :
  has k (map (fun kv => (fst kv, snd kv - m (fst kv))) r) = has k r.
Proof.
  induction r as [|[k' v] t IH]; simpl; [reflexivity|]. now rewrite IH.
Qed.

Lemma get_subtract k lhs rhs : has k lhs = true -> get k (subtract lhs rhs) = get k lhs - get k rhs.
Proof. intros H. unfold subtract. rewrite (get_map_sub k (fun x => get x rhs)). now rewrite H. Qed.

Lemma has_subtract k lhs rhs : has k (subtract lhs rhs) = has k lhs.
Proof. unfold subtract. apply (has_map_sub k (fun x => get x rhs)). Qed.

Lemma remaining0_spec k existing : forall limits, has k limits = true ->
  has k (remaining0 limits existing) = true /\
  get k (remaining0 limits existing) = get k limits - sum_get k existing.
Proof.
  unfold remaining0. induction existing as [|c t IH]; intros limits H; simpl.
  - split; [exact H | lia].
  - destruct (IH (subtract limits c)) as [Hh Hg]; [now rewrite has_subtract|].
    split; [exact Hh|]. rewrite Hg, get_subtract by exact H. lia.
Qed.

Lemma get_assign k b ov : get k (assign b ov) = if has k ov then get k ov else get k b.
Proof.
  unfold assign. induction ov as [|[k' v] t IH]; simpl; [reflexivity|].
  destruct (String.eqb k k'); simpl; [reflexivity | exact IH].
Qed.

(* ------------------------------------------------------------------ MaxResources *)

Lemma fold_max_ge_init l : forall a, a <= fold_left Z.max l a.
Proof. induction l as [|x t IH]; intros a; simpl; [lia|]. specialize (IH (Z.max a x)). lia. Qed.

Lemma fold_max_ge_elem l : forall a x, In x l -> x <= fold_left Z.max l a.
Proof.
  induction l as [|y t IH]; intros a x Hin; simpl; [contradiction|].
  destruct Hin as [Heq|Hin]; [subst; pose proof (fold_max_ge_init t (Z.max a x)); lia | now apply IH].
Qed.

Lemma fold_max_in l : forall a, fold_left Z.max l a = a \/ In (fold_left Z.max l a) l.
Proof.
  induction l as [|y t IH]; intros a; simpl; [now left|].
  destruct (IH (Z.max a y)) as [H|H]; [|now right; right].
  rewrite H. destruct (Z.max_spec a y) as [[_ Hm]|[_ Hm]]; rewrite Hm; [right; now left | now left].
Qed.

Lemma in_present k caps v : In v (present k caps) <-> exists c, In c caps /\ has k c = true /\ v = get k c.
Proof.
  unfold present. rewrite in_flat_map. split.
  - intros [c [Hc Hin]]. destruct (has k c) eqn:E; [|contradiction].
    destruct Hin as [Heq|[]]. exists c. auto.
  - intros [c [Hc [Hh Hv]]]. exists c. split; [exact Hc|]. rewrite Hh. subst. now left.
Qed.

Lemma max_of_ge k caps c : In c caps -> has k c = true -> get k c <= max_of k caps.
Proof.
  intros Hc Hh. assert (Hin : In (get k c) (present k caps)) by (apply in_present; eauto).
  unfold max_of. destruct (present k caps) as [|v vs]; [contradiction|].
  destruct Hin as [Heq|Hin]; [rewrite Heq; apply fold_max_ge_init | now apply fold_max_ge_elem].
Qed.

Lemma max_of_cases k caps :
  (max_of k caps = 0 /\ forall c, In c caps -> has k c = false) \/
  (exists c, In c caps /\ has k c = true /\ max_of k caps = get k c).
Proof.
  unfold max_of. destruct (present k caps) as [|v vs] eqn:E.
  - left. split; [reflexivity|]. intros c Hc. destruct (has k c) eqn:Hh; [|reflexivity].
    assert (Hin : In (get k c) (present k caps)) by (apply in_present; eauto). rewrite E in Hin. contradiction.
  - right. assert (Hin : In (fold_left Z.max vs v) (present k caps)).
    { rewrite E. destruct (fold_max_in vs v) as [H|H]; [rewrite H; now left | now right]. }
    apply in_present in Hin. destruct Hin as [c [Hc [Hh Hv]]]. exists c. auto.
Qed.

(* with non-negative capacities an absent key (= 0) is also below the maximum *)
Lemma get_le_max_of k caps c :
  (forall c', In c' caps -> 0 <= get k c') -> In c caps -> get k c <= max_of k caps.
Proof.
  intros Hnn Hc. destruct (has k c) eqn:Hh; [now apply max_of_ge|].
  rewrite (has_false_get _ _ Hh).
  destruct (max_of_cases k caps) as [[H0 _]|[c' [Hc' [_ Hm]]]]; [lia | rewrite Hm; now apply Hnn].
Qed.

(* ------------------------------------------------------------------ filter / subtractMax *)

Lemma viable_le cap r k : viable cap r = true -> has k r = true -> get k cap <= get k r.
Proof.
  unfold viable. induction r as [|[k' v] t IH]; simpl; [discriminate|].
  intros H Hh. apply andb_true_iff in H. destruct H as [H1 H2].
  destruct (String.eqb k k') eqn:E.
  - apply String.eqb_eq in E; subst k'. simpl in H1. apply negb_true_iff, Z.ltb_ge in H1. exact H1.
  - simpl in Hh. now apply IH.
Qed.

Lemma exceeded_by_spec limits usage :
  exceeded_by (Some limits) usage = true <->
  exists k u, In (k, u) usage /\ has k limits = true /\ get k limits < u.
Proof.
  unfold exceeded_by. rewrite existsb_exists. split.
  - intros [[k u] [Hin H]]. simpl in H. apply andb_true_iff in H. destruct H as [Hh Hl].
    apply Z.ltb_lt in Hl. exists k, u. auto.
  - intros [k [u [Hin [Hh Hl]]]]. exists (k, u). split; [exact Hin|]. simpl. rewrite Hh. simpl. now apply Z.ltb_lt.
Qed.

Lemma subtract_max_get k r caps : caps <> [] -> has k r = true ->
  get k (subtract_max r caps) = get k r - max_of k caps /\ has k (subtract_max r caps) = true.
Proof.
  intros Hne Hh. unfold subtract_max. destruct caps as [|c t]; [contradiction|].
  rewrite (get_map_sub k (fun x => max_of x (c :: t))), (has_map_sub k (fun x => max_of x (c :: t))), Hh. auto.
Qed.

(* one admissible NodeClaim: the worst case is subtracted and headroom stays non-negative *)
Lemma admissible_step r opts k :
  admissible r opts = true -> has k r = true ->
  let r1 := subtract_max r (map base opts) in
  has k r1 = true /\ get k r1 = get k r - max_of k (map base opts) /\ 0 <= get k r1.
Proof.
  intros Ha Hh. unfold admissible in Ha. apply andb_true_iff in Ha. destruct Ha as [Ha Hv].
  apply andb_true_iff in Ha. destruct Ha as [_ Hne]. rewrite forallb_forall in Hv.
  assert (Hne' : map base opts <> []) by (destruct opts; [discriminate | discriminate]).
  destruct (subtract_max_get k r _ Hne' Hh) as [Hg Hh1]. simpl. repeat split; [exact Hh1 | exact Hg |].
  rewrite Hg. destruct (max_of_cases k (map base opts)) as [[H0 Hall]|[c [Hc [Hhc Hm]]]].
  - rewrite H0. destruct opts as [|it t]; [discriminate|].
    pose proof (viable_le _ _ k (Hv it (or_introl eq_refl)) Hh) as Hle.
    rewrite (has_false_get k (base it)) in Hle by (apply Hall; now left). lia.
  - rewrite Hm. apply in_map_iff in Hc. destruct Hc as [it [Hb Hit]]. subst c.
    pose proof (viable_le _ _ k (Hv it Hit) Hh). lia.
Qed.

(* ------------------------------------------------------------------ one pass *)

Definition it_ok (it : itype) : Prop := nonneg (base it) /\ forall k, ov_le_base k it.
Definition claims_ok (claims : list (list itype)) : Prop :=
  forall opts it, In opts claims -> In it opts -> it_ok it.

Lemma launch_le_max k opts c :
  (forall it, In it opts -> it_ok it) -> In c (launch_caps opts) -> get k c <= max_of k (map base opts).
Proof.
  intros Hok Hin. unfold launch_caps in Hin. apply in_flat_map in Hin. destruct Hin as [it [Hit Hc]].
  apply in_map_iff in Hc. destruct Hc as [ov [Hc Hov]]. subst c.
  destruct (Hok it Hit) as [Hnn Hle]. specialize (Hle k). unfold ov_le_base in Hle.
  rewrite Forall_forall in Hle. specialize (Hle ov Hov).
  assert (get k (base it) <= max_of k (map base opts)).
  { apply get_le_max_of; [|now apply in_map].
    intros c' Hc'. apply in_map_iff in Hc'. destruct Hc' as [it' [Hb Hit']]. subst c'. apply (Hok it' Hit'). }
  lia.
Qed.

Lemma pass_bound k : forall claims r r' launched,
  run_pass r claims = Some r' -> has k r = true -> claims_ok claims -> launches claims launched ->
  sum_get k launched <= get k r - get k r' /\ (claims <> [] -> 0 <= get k r') /\ has k r' = true.
Proof.
  induction claims as [|opts t IH]; intros r r' launched Hrun Hh Hok Hl; simpl in *.
  - inversion Hrun; subst r'. destruct launched; [|contradiction]. simpl. repeat split; [lia | congruence | exact Hh].
  - destruct launched as [|c launched]; [contradiction|]. destruct Hl as [Hc Hl].
    destruct (admissible r opts) eqn:Ea; [|discriminate].
    destruct (admissible_step r opts k Ea Hh) as [Hh1 [Hg1 Hnn1]].
    assert (Hok' : claims_ok t) by (intros o it Ho Hit; apply (Hok o it); [now right | exact Hit]).
    destruct (IH _ _ _ Hrun Hh1 Hok' Hl) as [Hs [Hp Hh']].
    assert (Hcle : get k c <= max_of k (map base opts)).
    { apply launch_le_max; [|exact Hc]. intros it Hit. apply (Hok opts it); [now left | exact Hit]. }
    simpl. repeat split; [lia | | exact Hh'].
    intros _. destruct t as [|o t']; [|apply Hp; discriminate].
    simpl in Hrun. inversion Hrun; subst r'. exact Hnn1.
Qed.

Lemma sum_get_node_cap k l : String.eqb k nodes = false -> sum_get k (map node_cap l) = sum_get k l.
Proof.
  intros Hk. induction l as [|c t IH]; simpl; [reflexivity|]. rewrite Hk, IH. reflexivity.
Qed.

Lemma sum_get_app k a b : sum_get k (a ++ b) = sum_get k a + sum_get k b.
Proof. induction a as [|c t IH]; simpl; [lia|]. rewrite IH. lia. Qed.

(* pass_within_limits, under the two guards the code needs: the resource is not "nodes", and no offering
   raises a resource above the instance type's base capacity *)
Lemma pass_within_limits_partial_l : forall limits existing claims r' launched k,
  run_pass (remaining0 limits existing) claims = Some r' ->
  launches claims launched -> claims_ok claims ->
  String.eqb k nodes = false -> has k limits = true ->
  sum_get k existing + sum_get k (map node_cap launched) <= Z.max (get k limits) (sum_get k existing).
Proof.
  intros limits existing claims r' launched k Hrun Hl Hok Hk Hh.
  destruct (remaining0_spec k existing limits Hh) as [Hh0 Hg0].
  destruct (pass_bound k _ _ _ _ Hrun Hh0 Hok Hl) as [Hs [Hp _]].
  rewrite sum_get_node_cap by exact Hk.
  destruct claims as [|o t].
  - destruct launched; [simpl; lia | contradiction].
  - assert (0 <= get k r') by (apply Hp; discriminate). lia.
Qed.

(* the node limit holds for a pass that creates at most one NodeClaim (whole-node limits) *)
Lemma pass_nodes_single_l : forall limits existing opts r' c,
  run_pass (remaining0 limits existing) [opts] = Some r' ->
  has nodes limits = true ->
  (forall it, In it opts -> nonneg (base it)) ->
  (exists n, get nodes limits - sum_get nodes existing = n * one_node) ->
  sum_get nodes existing + sum_get nodes (map node_cap [c]) <= Z.max (get nodes limits) (sum_get nodes existing).
Proof.
  intros limits existing opts r' c Hrun Hh Hnn [n Hn]. simpl in Hrun.
  destruct (admissible _ opts) eqn:Ea; [|discriminate].
  destruct (remaining0_spec nodes existing limits Hh) as [Hh0 Hg0].
  unfold admissible in Ea. apply andb_true_iff in Ea. destruct Ea as [Ea Hv].
  apply andb_true_iff in Ea. destruct Ea as [Hex Hne].
  unfold nodes_exhausted in Hex. rewrite Hh0 in Hex. simpl in Hex. apply negb_true_iff, Z.eqb_neq in Hex.
  destruct opts as [|it t]; [discriminate|]. rewrite forallb_forall in Hv.
  pose proof (viable_le _ _ nodes (Hv it (or_introl eq_refl)) Hh0) as Hle.
  pose proof (Hnn it (or_introl eq_refl) nodes) as H0.
  simpl. unfold one_node in *. lia.
Qed.

(* ------------------------------------------------------------------ rounds *)

(* the non-deleting nodes of the pool over any number of synced scheduling rounds; between rounds
   nodes may disappear. Every launched node is visible to the next round (Cluster.Synced gating). *)
Inductive rounds (limits : rl) : list rl -> list rl -> Prop :=
| r_done ex : rounds limits ex ex
| r_pass ex claims r' launched ex' :
    run_pass (remaining0 limits ex) claims = Some r' -> launches claims launched -> claims_ok claims ->
    rounds limits (map node_cap launched ++ ex) ex' -> rounds limits ex ex'
| r_remove a x b ex' : nonneg x -> rounds limits (a ++ b) ex' -> rounds limits (a ++ x :: b) ex'.

Lemma rounds_within_limits_partial_l : forall limits ex ex' k,
  rounds limits ex ex' -> String.eqb k nodes = false -> has k limits = true ->
  sum_get k ex <= get k limits -> sum_get k ex' <= get k limits.
Proof.
  intros limits ex ex' k Hr Hk Hh. induction Hr as [ex|ex claims r' launched ex' Hrun Hl Hok Hr IH|a x b ex' Hx Hr IH]; intros Hs.
  - exact Hs.
  - apply IH. rewrite sum_get_app.
    pose proof (pass_within_limits_partial_l _ _ _ _ _ k Hrun Hl Hok Hk Hh). lia.
  - apply IH. rewrite sum_get_app in *. simpl in Hs. specialize (Hx k). lia.
Qed.

(* ------------------------------------------------------------------ the oracle *)

Definition within (limits : rl) (existing launched : list rl) : Prop :=
  forall k l, In (k, l) limits ->
    sum_get k existing + sum_get k (map node_cap launched) <= Z.max l (sum_get k existing).

Lemma within_b_spec limits existing launched :
  within_b limits existing launched = true <-> within limits existing launched.
Proof.
  unfold within_b, within. rewrite forallb_forall. split.
  - intros H k l Hin. specialize (H (k, l) Hin). simpl in H. now apply Z.leb_le.
  - intros H [k l] Hin. simpl. apply Z.leb_le. now apply H.
Qed.

(* ------------------------------------------------------------------ the full-strength statement is false *)

Definition pass_within_limits_stmt : Prop :=
  forall limits existing claims r' launched,
    run_pass (remaining0 limits existing) claims = Some r' ->
    launches claims launched ->
    (forall opts it, In opts claims -> In it opts -> it_nonneg it) ->
    within limits existing launched.

Open Scope string_scope.

(* a dynamic pool with limits.nodes = 2 and three NodeClaims in one pass: subtractMax never lowers "nodes" *)
Definition w_nodes_limits : rl := [("nodes", 2000)].
Definition w_nodes_it : itype := mkIT [("cpu", 2000)] [[]].
Definition w_nodes_claims : list (list itype) := [[w_nodes_it]; [w_nodes_it]; [w_nodes_it]].
Definition w_nodes_launched : list rl := [[("cpu", 2000)]; [("cpu", 2000)]; [("cpu", 2000)]].

Lemma nonneg_cpu v : 0 <= v -> nonneg [("cpu", v)].
Proof. intros H k. simpl. destruct (String.eqb k "cpu"); lia. Qed.
Lemma nonneg_nil : nonneg [].
Proof. intros k. simpl. lia. Qed.

Lemma pass_nodes_refuted_l :
  exists r', run_pass (remaining0 w_nodes_limits []) w_nodes_claims = Some r' /\
    launches w_nodes_claims w_nodes_launched /\
    (forall opts it, In opts w_nodes_claims -> In it opts -> it_nonneg it) /\
    within_b w_nodes_limits [] w_nodes_launched = false.
Proof.
  eexists. split; [vm_compute; reflexivity|]. split; [simpl; tauto|]. split; [|vm_compute; reflexivity].
  intros opts it Ho Hi. assert (it = w_nodes_it).
  { simpl in Ho. destruct Ho as [H|[H|[H|[]]]]; subst opts; destruct Hi as [H|[]]; now subst. }
  subst it. split; simpl; [apply nonneg_cpu; lia | constructor; [apply nonneg_nil | constructor]].
Qed.

(* an offering whose CapacityOverride raises cpu above the base capacity that the filter looked at *)
Definition w_ov_limits : rl := [("cpu", 8000)].
Definition w_ov_it : itype := mkIT [("cpu", 4000)] [[("cpu", 16000)]].
Definition w_ov_launched : list rl := [assign [("cpu", 4000)] [("cpu", 16000)]].

Lemma pass_override_refuted_l :
  exists r', run_pass (remaining0 w_ov_limits []) [[w_ov_it]] = Some r' /\
    launches [[w_ov_it]] w_ov_launched /\
    (forall opts it, In opts [[w_ov_it]] -> In it opts -> it_nonneg it) /\
    within_b w_ov_limits [] w_ov_launched = false.
Proof.
  eexists. split; [vm_compute; reflexivity|]. split; [simpl; tauto|]. split; [|vm_compute; reflexivity].
  intros opts it Ho Hi. destruct Ho as [H|[]]; subst opts. destruct Hi as [H|[]]; subst it.
  split; simpl; [apply nonneg_cpu; lia | constructor; [apply nonneg_cpu; lia | constructor]].
Qed.

Lemma pass_within_limits_refuted_l : ~ pass_within_limits_stmt.
Proof.
  intros H. destruct pass_nodes_refuted_l as [r' [Hrun [Hl [Hok Hb]]]].
  specialize (H _ _ _ _ _ Hrun Hl Hok). apply within_b_spec in H. rewrite H in Hb. discriminate.
Qed.
