(* C03 — executable model of
     pkg/controllers/state/statenodepool.go                       (NodePoolState, part A)
     the static-pool protocol around it at method granularity       (part A', sys/sop):
        static/provisioning Reconcile, disruption/staticdrift ComputeCommands,
        Provisioner.CreateNodeClaims/Create, Cluster.UpdateNodeClaim/DeleteNodeClaim,
        Cluster.MarkForDeletion/UnmarkForDeletion, queue.MarkPendingDisruption, static/deprovisioning
     pkg/apis/v1/nodepool.go Limits.ExceededBy, scheduler.go subtractMax (as of 1e4ed4d16) /
     filterByRemainingResources / the limit part of addToNewNodeClaim, resources.Subtract /
     MaxResources                                                   (part B).
   Definitions only; proofs are in C03/Proofs.v.

   Conventions: NodePool and NodeClaim names are [nat], 0 is the empty string "".
   Go int64 is Z without wrap-around (|values| < 2^62 in every call site: node counts and
   replica counts); resource.Quantity is Z in milli-units. *)
From Coq Require Export List ZArith Bool Lia String.
Export ListNotations.
Open Scope Z_scope.

(* ------------------------------------------------------------------ part A: NodePoolState *)

Definition name := nat.

Fixpoint mem (x : name) (l : list name) : bool :=
  match l with [] => false | y :: t => Nat.eqb x y || mem x t end.
(* sets.Set.Insert / Delete on duplicate-free lists *)
Definition sadd (x : name) (l : list name) : list name := if mem x l then l else x :: l.
Definition srem (x : name) (l : list name) : list name := filter (fun y => negb (Nat.eqb x y)) l.

(* NodeClaimState *)
Record pentry := mkP { act : list name; del : list name; pen : list name }.
Definition pempty : pentry := mkP [] [] [].

(* NodePoolState: three Go maps *)
Record st := mkSt {
  pool : name -> option pentry;   (* nodePoolNameToNodeClaimState *)
  mp   : name -> option name;     (* nodeClaimNameToNodePoolName *)
  lim  : name -> option Z         (* nodePoolNameToNodePoolLimit (reserved counter) *)
}.

Definition upd {A} (f : name -> option A) (k : name) (v : option A) : name -> option A :=
  fun x => if Nat.eqb x k then v else f x.

Definition st0 : st := mkSt (fun _ => None) (fun _ => None) (fun _ => None).

(* ensureNodePoolEntry *)
Definition ensure (s : st) (np : name) : st :=
  mkSt (match pool s np with Some _ => pool s | None => upd (pool s) np (Some pempty) end)
       (mp s)
       (match lim s np with Some _ => lim s | None => upd (lim s) np (Some 0) end).

(* result of a method call: new state and returned integer, or a Go panic *)
Inductive res := Ok (s : st) (out : Z) | Panic.

Inductive kind := KActive | KDeleting | KPending.

Definition mark_entry (k : kind) (nc : name) (e : pentry) : pentry :=
  match k with
  | KActive   => mkP (sadd nc (act e)) (srem nc (del e)) (srem nc (pen e))
  | KDeleting => mkP (srem nc (act e)) (sadd nc (del e)) (srem nc (pen e))
  | KPending  => mkP (srem nc (act e)) (srem nc (del e)) (sadd nc (pen e))
  end.

(* MarkNodeClaimActive / Deleting / PendingDisruption. Without the entry the zero NodeClaimState
   has nil sets and Insert panics; the lookup after [ensure] is kept so that totality is a theorem. *)
Definition mark (k : kind) (s : st) (np nc : name) : res :=
  let s1 := ensure s np in
  match pool s1 np with
  | None => Panic
  | Some e => Ok (mkSt (upd (pool s1) np (Some (mark_entry k nc e))) (mp s1) (lim s1)) 0
  end.

(* SetNodeClaimMapping *)
Definition set_mapping (s : st) (np nc : name) : st :=
  if Nat.eqb np 0 || Nat.eqb nc 0 then s
  else let s1 := ensure s np in mkSt (pool s1) (upd (mp s1) nc (Some np)) (lim s1).

(* UpdateNodeClaim(nodeClaim, markedForDeletion); np = value of the nodepool label *)
Definition update_nc (s : st) (np nc : name) (deleting : bool) : res :=
  if Nat.eqb np 0 then Ok s 0
  else mark (if deleting then KDeleting else KActive) (set_mapping s np nc) np nc.

Definition counts (s : st) (np : name) : Z * Z * Z :=
  match pool s np with
  | Some e => (Z.of_nat (List.length (act e)), Z.of_nat (List.length (del e)), Z.of_nat (List.length (pen e)))
  | None => (0, 0, 0)
  end.

Definition cnt (s : st) (np : name) : Z := let '(a, d, p) := counts s np in a + d + p.

Definition reserved (s : st) (np : name) : Z := match lim s np with Some z => z | None => 0 end.

Definition is_nil {A} (l : list A) : bool := match l with [] => true | _ => false end.

(* Cleanup. [fixed = false] is the code before commit 644f10eaa (F5). *)
Definition cleanup_gen (fixed : bool) (s : st) (nc : name) : res :=
  let np := match mp s nc with Some p => p | None => 0%nat end in
  let s1 :=
    match pool s np with
    | None => s
    | Some e =>
        let e' := mkP (srem nc (act e)) (srem nc (del e)) (srem nc (pen e)) in
        let drop :=
          if fixed
          then is_nil (act e') && is_nil (del e') && is_nil (pen e') &&
               match lim s np with None => true | Some z => z =? 0 end
          else is_nil (act e') && is_nil (del e') in
        if drop then mkSt (upd (pool s) np None) (mp s) (upd (lim s) np None)
        else mkSt (upd (pool s) np (Some e')) (mp s) (lim s)
    end in
  Ok (mkSt (pool s1) (upd (mp s1) nc None) (lim s1)) 0.

(* ReserveNodeCount(np, limit, wantedLimit) *)
Definition reserve (s : st) (np : name) (limit wanted : Z) : res :=
  let s1 := ensure s np in
  match lim s1 np with
  | None => Panic                                   (* nil *atomic.Int64 *)
  | Some cur =>
      let remaining := limit - cnt s1 np - cur in
      if remaining <? 0 then Ok s1 0
      else let granted := if remaining <? wanted then remaining else wanted in
           Ok (mkSt (pool s1) (mp s1) (upd (lim s1) np (Some (cur + granted)))) granted
  end.

(* ReleaseNodeCount(np, count). [fixed = false]: no ensureNodePoolEntry (F4). *)
Definition release_gen (fixed : bool) (s : st) (np : name) (count : Z) : res :=
  let s1 := if fixed then ensure s np else s in
  match lim s1 np with
  | None => Panic
  | Some cur =>
      Ok (mkSt (pool s1) (mp s1) (upd (lim s1) np (Some (if cur - count <? 0 then 0 else cur - count)))) 0
  end.

Inductive op :=
| OSetMapping (np nc : name)
| OMark (k : kind) (np nc : name)
| OCleanup (nc : name)
| OReserve (np : name) (limit wanted : Z)
| ORelease (np : name) (count : Z)
| OUpdate (np nc : name) (deleting : bool)
| OReset.

Definition step_gen (fixed : bool) (s : st) (o : op) : res :=
  match o with
  | OSetMapping np nc => Ok (set_mapping s np nc) 0
  | OMark k np nc => mark k s np nc
  | OCleanup nc => cleanup_gen fixed s nc
  | OReserve np l w => reserve s np l w
  | ORelease np c => release_gen fixed s np c
  | OUpdate np nc d => update_nc s np nc d
  | OReset => Ok st0 0
  end.

Definition step := step_gen true.
Definition step_prefix := step_gen false.      (* the tree before the F4/F5 fix *)

(* run a sequence; None = some call panicked *)
Fixpoint run_gen (fixed : bool) (s : st) (ops : list op) : option st :=
  match ops with
  | [] => Some s
  | o :: t => match step_gen fixed s o with Ok s' _ => run_gen fixed s' t | Panic => None end
  end.

Definition known (s : st) (np c : name) : bool :=
  match pool s np with
  | Some e => mem c (act e) || mem c (del e) || mem c (pen e)
  | None => false
  end.

(* ------------------------------------------------------------------ part A': the static protocol *)

Inductive tstate :=
| TGranted               (* reserved, Create not yet attempted *)
| TFailed                (* Provisioner.Create returned an error (Get / ExceededBy / API create) *)
| TCreated (nc : name)   (* kubeClient.Create succeeded; cluster.UpdateNodeClaim not yet run *)
| TUpdated (nc : name)   (* cluster.UpdateNodeClaim done; ReleaseNodeCount not yet run *)
| TDone.                 (* released *)

Record ticket := mkT { tpool : name; tst : tstate }.

Record sys := mkSys {
  nps : st;                        (* cluster.NodePoolState *)
  api : list (name * name);        (* NodeClaims in the API: (claim name, NodePool) *)
  tks : list ticket;               (* in-flight static NodeClaim creations *)
  fresh : name;                    (* next generated NodeClaim name *)
  crashed : bool;                  (* a panic happened *)
  synced : bool                    (* Cluster.hasSynced: the state has been complete once since the last restart *)
}.

Inductive sop :=
| ProvBegin (np : name) (replicas : Z)                 (* static provisioning Reconcile up to ReserveNodeCount *)
| DriftBegin (np : name) (replicas : Z) (budget ncands : nat) (* StaticDrift.ComputeCommands for one pool *)
| TkCreate (i : nat) (ok : bool)                       (* Provisioner.Create: API create succeeds / any earlier failure *)
| TkUpdate (i : nat)                                   (* cluster.UpdateNodeClaim inside Create *)
| TkRelease (i : nat)                                  (* ReleaseNodeCount(pool, 1) in CreateNodeClaims *)
| InfUpdate (nc : name) (deleting : bool)              (* informer: Cluster.UpdateNodeClaim for a claim in the API *)
| ApiRemove (nc : name)                                (* the NodeClaim object disappears from the API *)
| InfDelete (nc : name)                                (* informer: Cluster.DeleteNodeClaim after the removal *)
| SMark (k : kind) (np nc : name)                      (* MarkForDeletion / UnmarkForDeletion / MarkPendingDisruption *)
| DeprovMark (np : name) (replicas : Z) (victims : list name) (* static deprovisioning Reconcile: active - replicas
                                                          candidates (chosen by the code) are deleted and marked Deleting *)
| Restart.                                             (* process restart: NodePoolState and in-flight work are lost;
                                                          the API stays; informers replay through InfUpdate *)

Definition replace_nth {A} (i : nat) (x : A) (l : list A) : list A := firstn i l ++ x :: skipn (S i) l.

Section Protocol.
  Variable L : name -> Z.                (* limits.nodes of each static pool (MaxInt64 when unset) *)

  Definition crash (s : sys) : sys := mkSys (nps s) (api s) (tks s) (fresh s) true (synced s).
  Definition with_nps (s : sys) (n : st) : sys := mkSys n (api s) (tks s) (fresh s) (crashed s) (synced s).

  Definition set_tk (s : sys) (i : nat) (t : ticket) : sys :=
    mkSys (nps s) (api s) (replace_nth i t (tks s)) (fresh s) (crashed s) (synced s).

  Fixpoint pool_of (nc : name) (l : list (name * name)) : option name :=
    match l with [] => None | (c, p) :: t => if Nat.eqb nc c then Some p else pool_of nc t end.

  (* [drift]: npCandidates[:granted] panics on a negative grant; provisioning just returns on <= 0 *)
  Definition begin_reserve (drift : bool) (s : sys) (np : name) (wanted : Z) : sys :=
    match reserve (nps s) np (L np) wanted with
    | Panic => crash s
    | Ok n g =>
        if g <? 0 then (if drift then crash (with_nps s n) else with_nps s n)
        else mkSys n (api s) (tks s ++ repeat (mkT np TGranted) (Z.to_nat g)) (fresh s) (crashed s) (synced s)
    end.

  (* Cluster.Synced() as far as NodeClaims go: every NodeClaim of the API has been delivered to the state
     since the last restart (its name is tracked, hence it sits in one of its pool's sets until Cleanup) *)
  Definition api_tracked (s : sys) : bool := forallb (fun cp => known (nps s) (snd cp) (fst cp)) (api s).

  (* `!HasSynced() && !Synced(ctx)` -> requeue; hasSynced is sticky *)
  Definition gate (s : sys) : option sys :=
    if synced s then Some s
    else if api_tracked s then Some (mkSys (nps s) (api s) (tks s) (fresh s) (crashed s) true)
    else None.

  Definition smark (s : sys) (k : kind) (np nc : name) : sys :=
    match mark k (nps s) np nc with Panic => crash s | Ok n _ => with_nps s n end.

  Definition sstep (s : sys) (o : sop) : sys :=
    match o with
    | ProvBegin np r =>
        let '(a, _, p) := counts (nps s) np in
        if Nat.eqb np 0 then s                          (* a NodePool object has a non-empty name *)
        else match gate s with
             | None => s
             | Some s1 => if r <=? a + p then s1 else begin_reserve false s1 np (r - a)
             end
    | DriftBegin np r budget ncands =>
        let '(a, _, p) := counts (nps s) np in
        if Nat.eqb np 0 then s
        else match gate s with                          (* disruption Controller.Reconcile: cluster.Synced *)
             | None => s
             | Some s1 =>
                 if Nat.eqb budget 0 || Nat.eqb ncands 0 then s1
                 else if r <? a + p then s1
                 else begin_reserve true s1 np (Z.min (Z.of_nat budget) (Z.of_nat ncands))
             end
    | TkCreate i ok =>
        match nth_error (tks s) i with
        | Some (mkT p TGranted) =>
            if ok then
              let s' := set_tk s i (mkT p (TCreated (fresh s))) in
              mkSys (nps s') ((fresh s, p) :: api s') (tks s') (S (fresh s)) (crashed s') (synced s')
            else set_tk s i (mkT p TFailed)
        | _ => s
        end
    | TkUpdate i =>
        match nth_error (tks s) i with
        | Some (mkT p (TCreated nc)) =>
            match update_nc (nps s) p nc false with
            | Panic => crash s
            | Ok n _ => set_tk (with_nps s n) i (mkT p (TUpdated nc))
            end
        | _ => s
        end
    | TkRelease i =>
        match nth_error (tks s) i with
        | Some (mkT p TFailed) | Some (mkT p (TUpdated _)) =>
            match release_gen true (nps s) p 1 with
            | Panic => crash s
            | Ok n _ => set_tk (with_nps s n) i (mkT p TDone)
            end
        | _ => s
        end
    | InfUpdate nc d =>
        match pool_of nc (api s) with
        | Some p => match update_nc (nps s) p nc d with Panic => crash s | Ok n _ => with_nps s n end
        | None => s
        end
    | ApiRemove nc =>
        mkSys (nps s) (filter (fun cp => negb (Nat.eqb nc (fst cp))) (api s)) (tks s) (fresh s) (crashed s) (synced s)
    | InfDelete nc =>
        match pool_of nc (api s) with
        | Some _ => s                                   (* delete events are delivered after the removal *)
        | None => match cleanup_gen true (nps s) nc with Panic => crash s | Ok n _ => with_nps s n end
        end
    | SMark k np nc => smark s k np nc
    | DeprovMark np r victims =>
        let '(a, _, _) := counts (nps s) np in
        if Nat.eqb np 0 then s
        else if a - r <=? 0 then s
        else fold_left (fun s' c => smark s' KDeleting np c) (firstn (Z.to_nat (a - r)) victims) s
    | Restart => mkSys st0 (api s) [] (fresh s) (crashed s) false
    end.

  Definition sys0 : sys := mkSys st0 [] [] 1%nat false false.
  Definition srun (ops : list sop) : sys := fold_left sstep ops sys0.

  (* observables *)
  Definition api_count (s : sys) (np : name) : Z :=
    Z.of_nat (List.length (filter (fun cp => Nat.eqb (snd cp) np) (api s))).
  Definition granted_count (s : sys) (np : name) : Z :=
    Z.of_nat (List.length (filter (fun t => Nat.eqb (tpool t) np && match tst t with TGranted => true | _ => false end) (tks s))).
End Protocol.

(* ---- whole reconciles on a quiescent pool (nothing in flight): what the NodePoolState goes through ---- *)

(* static provisioning Reconcile + CreateNodeClaims with every create succeeding; [names] are the
   generated NodeClaim names *)
Definition prov_reconcile (s : st) (np : name) (l r : Z) (names : list name) : st :=
  let '(a, _, p) := counts s np in
  if r <=? a + p then s
  else match reserve s np l (r - a) with
       | Panic => s
       | Ok s1 g =>
           fold_left (fun s' c =>
                        match update_nc s' np c false with
                        | Ok s2 _ => match release_gen true s2 np 1 with Ok s3 _ => s3 | Panic => s2 end
                        | Panic => s'
                        end) (firstn (Z.to_nat g) names) s1
       end.

(* static deprovisioning Reconcile (the victims it picks are marked Deleting) followed by their termination
   (Cluster.DeleteNodeClaim -> Cleanup) *)
Definition deprov_reconcile (s : st) (np : name) (r : Z) (victims : list name) : st :=
  let '(a, _, _) := counts s np in
  if a - r <=? 0 then s
  else
    let vs := firstn (Z.to_nat (a - r)) victims in
    let s1 := fold_left (fun s' c => match mark KDeleting s' np c with Ok s2 _ => s2 | Panic => s' end) vs s in
    fold_left (fun s' c => match cleanup_gen true s' c with Ok s2 _ => s2 | Panic => s' end) vs s1.

(* ------------------------------------------------------------------ part B: resource limits *)

Definition rl := list (string * Z).          (* corev1.ResourceList, milli-units; absent key = 0 *)

Fixpoint get (k : string) (l : rl) : Z :=
  match l with [] => 0 | (k', v) :: t => if String.eqb k k' then v else get k t end.
Fixpoint has (k : string) (l : rl) : bool :=
  match l with [] => false | (k', _) :: t => String.eqb k k' || has k t end.

(* resources.Subtract(lhs, rhs): keys of lhs only *)
Definition subtract (lhs rhs : rl) : rl := map (fun kv => (fst kv, snd kv - get (fst kv) rhs)) lhs.

(* lo.Assign(base, override) restricted to what [get]/[has] can see *)
Definition assign (base ov : rl) : rl := ov ++ base.

(* Limits.ExceededBy(usage) <> nil; [None] is the nil Limits *)
Definition exceeded_by (limits : option rl) (usage : rl) : bool :=
  match limits with
  | None => false
  | Some l => existsb (fun kv => has (fst kv) l && (get (fst kv) l <? snd kv)) usage
  end.

(* resources.MaxResources(caps...)[k] *)
Definition present (k : string) (caps : list rl) : list Z :=
  flat_map (fun c => if has k c then [get k c] else []) caps.
Definition max_of (k : string) (caps : list rl) : Z :=
  match present k caps with [] => 0 | v :: vs => fold_left Z.max vs v end.

(* 1 node = 1000 milli-units *)
Definition nodes : string := "nodes".
Definition one_node : Z := 1000.

(* subtractMax(remaining, instanceTypes) over the instance types' base capacities; since 1e4ed4d16 it
   also takes one node off remaining["nodes"] when that key is present. [fixed = false] is the function
   before that commit (F11). *)
Definition subtract_max_gen (fixed : bool) (remaining : rl) (caps : list rl) : rl :=
  match caps with
  | [] => remaining
  | _ => map (fun kv => (fst kv, snd kv - max_of (fst kv) caps -
                                  (if fixed && String.eqb (fst kv) nodes then one_node else 0))) remaining
  end.
Definition subtract_max := subtract_max_gen true.

(* filterByRemainingResources: an instance type stays iff no remaining quantity is below its capacity *)
Definition viable (cap remaining : rl) : bool :=
  forallb (fun kv => negb (snd kv <? get (fst kv) cap)) remaining.
Definition filter_by_remaining (caps : list rl) (remaining : rl) : list rl :=
  filter (fun c => viable c remaining) caps.

(* instance type: base capacity and the capacity overrides of its available offerings
   ([] = an offering without override) *)
Record itype := mkIT { base : rl; ovs : list rl }.

(* addToNewNodeClaim, limit part *)
Definition nodes_exhausted (remaining : rl) : bool := has nodes remaining && (get nodes remaining =? 0).

(* the options a new NodeClaim of this pool may carry: not exhausted, all options survive the filter *)
Definition admissible (remaining : rl) (opts : list itype) : bool :=
  negb (nodes_exhausted remaining) && negb (is_nil opts) &&
  forallb (fun it => viable (base it) remaining) opts.

(* one scheduling pass for one pool: the claims created in order, each with its option set *)
Fixpoint run_pass_gen (fixed : bool) (remaining : rl) (claims : list (list itype)) : option rl :=
  match claims with
  | [] => Some remaining
  | opts :: t =>
      if admissible remaining opts
      then run_pass_gen fixed (subtract_max_gen fixed remaining (map base opts)) t else None
  end.
Definition run_pass := run_pass_gen true.
Definition run_pass_prefix := run_pass_gen false.   (* the tree before the F11 fix *)

(* the lifecycle states an existing node of the pool can be in while a provisioning pass runs *)
Inductive nstate :=
| NInFlight          (* launched NodeClaim, no Node object yet *)
| NReady             (* registered, initialized, Ready *)
| NDisruptedTaint    (* karpenter.sh/disrupted:NoSchedule applied (queue.markDisrupted), not yet marked for deletion *)
| NCordoned          (* spec.unschedulable *)
| NNotReady          (* Ready condition False *)
| NUninitialized     (* registered, not yet initialized *)
| NMarkedForDeletion (* Cluster.MarkForDeletion *)
| NDeleting.         (* NodeClaim has a deletionTimestamp *)

(* Every node that is not being deleted counts against the limits: Provisioner.Schedule passes
   nodes.Active() (= not MarkedForDeletion) and calculateExistingNodeClaims subtracts the capacity of
   each of them, whatever its taints, readiness or schedulability. *)
Definition counts_against_limits (s : nstate) : bool :=
  match s with NMarkedForDeletion | NDeleting => false | _ => true end.
Definition active_caps (ns : list (nstate * rl)) : list rl :=
  map snd (filter (fun n => counts_against_limits (fst n)) ns).

(* ---- Cluster.MarkForDeletion / UnmarkForDeletion / node removal: which tracked nodes are marked ---- *)

Inductive mop :=
| MMark (ids : list name)      (* Cluster.MarkForDeletion(ids...): a disruption command starts *)
| MUnmark (ids : list name)    (* Cluster.UnmarkForDeletion(ids...): the command is rolled back *)
| MRemove (id : name).         (* the node disappears: Cluster.DeleteNode + DeleteNodeClaim *)

Record mst := mkM { m_tracked : list name; m_marked : list name }.

(* both loops skip an id that is not tracked and go on with the rest of the list *)
Definition mstep (s : mst) (o : mop) : mst :=
  match o with
  | MMark l => mkM (m_tracked s) (fold_left (fun acc x => if mem x (m_tracked s) then sadd x acc else acc) l (m_marked s))
  | MUnmark l => mkM (m_tracked s) (fold_left (fun acc x => if mem x (m_tracked s) then srem x acc else acc) l (m_marked s))
  | MRemove x => mkM (srem x (m_tracked s)) (srem x (m_marked s))
  end.
Definition mrun (tracked : list name) (h : list mop) : mst := fold_left mstep h (mkM tracked []).

(* Scheduler.remainingResources at the start of a pass: limits minus capacity of every active node *)
Definition remaining0 (limits : rl) (existing : list rl) : rl := fold_left subtract existing limits.

(* what the cluster state counts for a launched node: StateNode.Capacity() = capacity + {nodes: 1} *)
Definition node_cap (cap : rl) : rl := (nodes, one_node) :: cap.

(* the capacities a provider may launch for a claim: any option, any available offering *)
Definition launch_caps (opts : list itype) : list rl :=
  flat_map (fun it => map (assign (base it)) (ovs it)) opts.

Definition sum_get (k : string) (l : list rl) : Z := fold_right (fun c acc => get k c + acc) 0 l.

(* launched is a valid provider answer for the claims *)
Fixpoint launches (claims : list (list itype)) (launched : list rl) : Prop :=
  match claims, launched with
  | [], [] => True
  | opts :: t, c :: t' => In c (launch_caps opts) /\ launches t t'
  | _, _ => False
  end.

Fixpoint launches_b (eqb : rl -> rl -> bool) (claims : list (list itype)) (launched : list rl) : bool :=
  match claims, launched with
  | [], [] => true
  | opts :: t, c :: t' => existsb (eqb c) (launch_caps opts) && launches_b eqb t t'
  | _, _ => false
  end.

Definition nonneg (c : rl) : Prop := forall k, 0 <= get k c.
Definition it_nonneg (it : itype) : Prop := nonneg (base it) /\ Forall nonneg (ovs it).
(* no offering raises resource k above the base capacity *)
Definition ov_le_base (k : string) (it : itype) : Prop :=
  Forall (fun ov => get k (assign (base it) ov) <= get k (base it)) (ovs it).

(* boolean oracle: after the launches, usage of every limited resource is within the limit
   (or was above it before and did not grow) *)
Definition within_b (limits : rl) (existing launched : list rl) : bool :=
  forallb (fun kv =>
    let k := fst kv in
    sum_get k existing + sum_get k (map node_cap launched) <=? Z.max (snd kv) (sum_get k existing)) limits.
