(* C13 — the truncation of a NodeClaim's instance-type options before launch:
   cloudprovider.InstanceTypes.Truncate + SatisfiesMinValues (pkg/cloudprovider/types.go).
   Instance types are given in the order OrderByPrice puts them (cheapest first; the harness generates distinct
   prices, the order itself is C19's subject); of each instance type only its values for the keys that carry a
   minValues floor matter. Executable definitions and their proofs. *)
From Coq Require Import List String Arith Bool.
From KV Require Import Base.Req.
Import ListNotations.
Open Scope string_scope.

Definition itype := (string * list (string * list string))%type.     (* name, key -> values of its requirement *)

Definition vals_for (k : string) (i : itype) : list string :=
  match List.find (fun kv => String.eqb k (fst kv)) (snd i) with Some kv => snd kv | None => [] end.

(* the distinct values the instance types offer for key k *)
Definition distinct_vals (k : string) (l : list itype) : list string := dedup (flat_map (vals_for k) l).

(* SatisfiesMinValues(...) returns no error; mins = the keys with a floor *)
Definition satisfies (mins : list (string * nat)) (l : list itype) : bool :=
  forallb (fun km : string * nat => (snd km <=? List.length (distinct_vals (fst km) l))%nat) mins.

(* Truncate: None = error *)
Definition truncate (strict : bool) (mins : list (string * nat)) (maxn : nat) (ordered : list itype) : option (list itype) :=
  let t := firstn maxn ordered in
  if strict && negb (satisfies mins t) then None else Some t.

Lemma truncate_keeps_floor_l strict mins maxn ordered t :
  truncate strict mins maxn ordered = Some t ->
  t = firstn maxn ordered /\ (strict = true -> satisfies mins t = true).
Proof.
  unfold truncate. destruct strict; cbn [andb].
  - destruct (satisfies mins (firstn maxn ordered)) eqn:E; cbn [negb]; [|discriminate].
    intros H. injection H as <-. split; [reflexivity|intros _; exact E].
  - intros H. injection H as <-. split; [reflexivity|discriminate].
Qed.

Lemma truncate_subset_l strict mins maxn ordered t :
  truncate strict mins maxn ordered = Some t -> incl t ordered /\ (List.length t <= maxn)%nat.
Proof.
  intros H. apply truncate_keeps_floor_l in H as [-> _]. split.
  - intros x Hx. rewrite <- (firstn_skipn maxn ordered). apply in_or_app. left. exact Hx.
  - apply firstn_le_length.
Qed.

Lemma truncate_errors_iff_l mins maxn ordered :
  truncate true mins maxn ordered = None <-> satisfies mins (firstn maxn ordered) = false.
Proof.
  unfold truncate. cbn [andb]. destruct (satisfies mins (firstn maxn ordered)); cbn [negb]; split; intros H;
    try discriminate H; reflexivity.
Qed.

Lemma truncate_best_effort_l mins maxn ordered : truncate false mins maxn ordered = Some (firstn maxn ordered).
Proof. reflexivity. Qed.

(* the seeded variant C13-4: the floor is only re-checked when the last needed type lies strictly beyond maxItems+1 *)
Fixpoint min_needed (mins : list (string * nat)) (seen rest : list itype) : nat :=
  match rest with
  | [] => List.length seen
  | x :: rest' => if satisfies mins (seen ++ [x]) then List.length (seen ++ [x]) else min_needed mins (seen ++ [x]) rest'
  end.

Definition truncate_offbyone (mins : list (string * nat)) (maxn : nat) (ordered : list itype) : option (list itype) :=
  let t := firstn maxn ordered in
  if negb (satisfies mins ordered) then None
  else if (maxn <? min_needed mins [] ordered - 1)%nat && negb (satisfies mins t) then None else Some t.

Lemma truncate_offbyone_breaks_floor :
  let its := [("a", [("fam", ["x"])]); ("b", [("fam", ["x"])]); ("c", [("fam", ["y"])]); ("d", [("fam", ["z"])])] in
  exists t, truncate_offbyone [("fam", 3%nat)] 3%nat its = Some t /\ satisfies [("fam", 3%nat)] t = false /\
            truncate true [("fam", 3%nat)] 3%nat its = None.
Proof. eexists. vm_compute. repeat split; reflexivity. Qed.
