(* C13 — correspondence check and oracles for the serialisation of requirements and Any(). *)
From KV Require Import C13.Model C13.Trunc C12.Check.
Open Scope Z_scope.
Open Scope string_scope.

Definition enr := (oper * list string * option Z)%type.   (* emitted requirement with its minValues *)
Definition strip (e : enr) : nsr := (fst (fst e), snd (fst e)).

Inductive case :=
| CaseSer (probes : list string) (cs : list call) (hasobs : list bool) (undef : bool) (emitted : list enr)
| CaseEmit (probes : list string) (hasobs : list bool) (undef : bool) (emitted : list enr)
| CaseAny (cs : list call) (results : list (option string * bool))
(* InstanceTypes.Truncate: policy, minValues floors, maxItems, the options cheapest first; observed: kept names / error *)
| CaseTrunc (strict : bool) (mins : list (string * nat)) (maxn : nat) (ordered : list itype) (obs : option (list string)).

Definition nsr_eqb (a b : nsr) : bool := oper_eqb (fst a) (fst b) && set_eqb (snd a) (snd b).
Fixpoint list_eqb {A} (eq : A -> A -> bool) (a b : list A) : bool :=
  match a, b with
  | [], [] => true
  | x :: a', y :: b' => eq x y && list_eqb eq a' b'
  | _, _ => false
  end.

(* oracle: the emitted requirements admit exactly what the in-memory requirement admitted,
   for every probe value and for the absent label *)
Definition emit_oracle (probes : list string) (hasobs : list bool) (undef : bool) (emitted : list enr) : bool :=
  bools_eqb (map (fun p => nsrs_match (map strip emitted) (Some p)) probes) hasobs
  && Bool.eqb (nsrs_match (map strip emitted) None) undef.

Definition names_eqb (a b : option (list string)) : bool :=
  match a, b with
  | None, None => true
  | Some x, Some y => list_eqb String.eqb x y
  | _, _ => false
  end.

(* oracle: what was kept is a subset of the options, at most maxItems, and under the strict policy still meets
   every minValues floor *)
Definition trunc_oracle (strict : bool) (mins : list (string * nat)) (maxn : nat) (ordered : list itype)
    (obs : option (list string)) : bool :=
  match obs with
  | None => true
  | Some names =>
      forallb (fun n => existsb (fun i : itype => String.eqb n (fst i)) ordered) names
      && (List.length names <=? maxn)%nat
      && (negb strict || satisfies mins (filter (fun i : itype => mem (fst i) names) ordered))
  end.

Definition check_case (c : case) : list string :=
  match c with
  | CaseTrunc strict mins maxn ordered obs =>
      tag (names_eqb (option_map (map fst) (truncate strict mins maxn ordered)) obs) "corr:truncate"
      ++ tag (trunc_oracle strict mins maxn ordered obs) "oracle:truncated-options-meet-minvalues"
  | CaseSer probes cs hasobs undef emitted =>
      let r := build cs in
      tag (list_eqb nsr_eqb (to_nsrs r) (map strip emitted)
           && forallb (fun e : enr => optZ_eqb (snd e) (minv r)) emitted) "corr:node-selector-requirements"
      ++ tag (emit_oracle probes hasobs undef emitted) "oracle:roundtrip-admits"
  | CaseEmit probes hasobs undef emitted =>
      tag (emit_oracle probes hasobs undef emitted) "oracle:roundtrip-admits"
  | CaseAny cs results =>
      let r := build cs in
      tag (forallb (fun x : option string * bool => any_allows r (fst x)) results) "corr:any"
      ++ tag (forallb (fun x : option string * bool =>
                match fst x with
                | None => false                                   (* panic *)
                | Some v => String.eqb v "" || snd x              (* no label, or an admitted value *)
                end) results) "oracle:any-admitted-no-panic"
  end.

Definition check_all (cs : list (Z * case)) : list (Z * string) :=
  flat_map (fun ic => map (fun t => (fst ic, t)) (check_case (snd ic))) cs.
