(* C13 — model of the serialisation of in-memory requirements into the NodeClaim
   (Requirement.NodeSelectorRequirement / BoundedNodeSelectorRequirements /
   Requirements.NodeSelectorRequirements) and of Requirement.Any. *)
From KV Require Export Base.Req Base.K8s.
Open Scope Z_scope.

(* a serialised requirement for one key: operator + values (minValues is carried separately) *)
Definition nsr := (oper * list string)%type.

Definition has_bound (r : req) : bool :=
  match gte r, lte r with None, None => false | _, _ => true end.

(* what Requirements.NodeSelectorRequirements emits for one in-memory requirement *)
Definition to_nsrs (r : req) : list nsr :=
  (match gte r, lte r with
   | Some g, Some l => [(Gte, [itoa g]); (Lte, [itoa l])]       (* BoundedNodeSelectorRequirements *)
   | Some g, None => [(Gte, [itoa g])]
   | None, Some l => [(Lte, [itoa l])]
   | None, None =>
       if compl r then (match vals r with [] => [(Exists, [])] | vs => [(NotIn, vs)] end)
       else (match vals r with [] => [(DoesNotExist, [])] | vs => [(In, vs)] end)
   end)
  ++ (if compl r && has_bound r && negb (match vals r with [] => true | _ => false end)
      then [(NotIn, vals r)] else []).

(* a node label (or its absence) satisfies every emitted requirement, by Kubernetes semantics *)
Definition nsrs_match (l : list nsr) (lbl : option string) : bool :=
  forallb (fun n : nsr => k8s_match (fst n) (snd n) lbl) l.

(* reading the emitted requirements back (NewNodeSelectorRequirementsWithMinValues + Add) *)
Definition reparse (mv : option Z) (l : list nsr) : req :=
  fold_left (fun acc n => intersection (new_req (fst n) mv (snd n)) acc) l (new_req Exists None []).

(* representation invariant of reachable requirements: concrete sets carry no bounds *)
Definition canon (r : req) : Prop := compl r = false -> gte r = None /\ lte r = None.

(* ---- Requirement.Any ---- *)
Inductive any_out :=
| AnyEmpty                       (* "" : no label is set *)
| AnyOneOf (vs : list string)    (* values.UnsortedList()[0] : any listed value; or the single value fmt.Sprint(min) *)
| AnyRange (lo n : Z).           (* fmt.Sprint(rand.Intn(n) + lo) : lo <= result < lo + n *)

Definition any_model (r : req) : any_out :=
  match operator r with
  | In => AnyOneOf (vals r)
  | NotIn | Exists =>
      let mn0 := match gte r with Some g => g | None => 0 end in
      let mx := match lte r with Some l => if l <? max64 then l + 1 else max64 | None => max64 end in
      let mn := match gte r with None => if mx <=? mn0 then mx - 1 else mn0 | Some _ => mn0 end in
      let n := wrap64 (mx - mn) in
      if 0 <? n then AnyRange mn n else AnyOneOf [itoa mn]
  | _ => AnyEmpty
  end.

(* the arithmetic before the repair of F9 (rand.Intn(max-min) with max = lte+1 wrapping): the argument
   of rand.Intn, which panics when it is not positive *)
Definition any_intn_arg_prefix (r : req) : Z :=
  let mn := match gte r with Some g => g | None => 0 end in
  let mx := match lte r with Some l => wrap64 (l + 1) | None => max64 end in
  wrap64 (mx - mn).

(* is [v] a possible result of Any according to the model? (None = the call panicked) *)
Definition any_allows (r : req) (res : option string) : bool :=
  match any_model r, res with
  | AnyEmpty, Some v => String.eqb v EmptyString
  | AnyOneOf vs, Some v => mem v vs
  | AnyRange lo n, Some v =>
      match atoi v with
      | Some z => (lo <=? z) && (z <? lo + n) && String.eqb v (itoa z)
      | None => false
      end
  | _, None => false
  end.

(* gte <= lte whenever both are present *)
Definition ordered (r : req) : Prop :=
  match gte r, lte r with Some g, Some l => g <= l | _, _ => True end.
