From Coq Require Import Lia.
From KV Require Import C13.Model Base.ReqProofs.
Open Scope Z_scope.

Lemma k8s_gte g v : in64 g = true ->
  k8s_match Gte [itoa g] (Some v) = match atoi v with Some n => g <=? n | None => false end.
Proof. intros H. simpl. unfold cmp_match. rewrite (atoi_itoa g H). destruct (atoi v); reflexivity. Qed.

Lemma k8s_lte l v : in64 l = true ->
  k8s_match Lte [itoa l] (Some v) = match atoi v with Some n => n <=? l | None => false end.
Proof. intros H. simpl. unfold cmp_match. rewrite (atoi_itoa l H). destruct (atoi v); reflexivity. Qed.

Lemma roundtrip_admits_l r v : wf r -> canon r -> nsrs_match (to_nsrs r) (Some v) = has r v.
Proof.
  destruct r as [c vs g l mv]. unfold wf, canon, to_nsrs, nsrs_match, has, has_bound, within; cbn [compl vals gte lte].
  intros [Hg Hl] Hc.
  destruct g as [g|], l as [l|]; cbn [bound_ok] in *.
  - destruct c; [|destruct (Hc eq_refl); discriminate].
    destruct vs as [|x t]; cbn [andb negb app forallb fst snd];
      rewrite (k8s_gte g v Hg), (k8s_lte l v Hl); destruct (atoi v);
      cbn [k8s_match]; rewrite ?andb_true_r, ?andb_false_r; try reflexivity.
    + destruct (g <=? z), (z <=? l), (negb (mem v (x :: t))); reflexivity.
  - destruct c; [|destruct (Hc eq_refl); discriminate].
    destruct vs as [|x t]; cbn [andb negb app forallb fst snd];
      rewrite (k8s_gte g v Hg); destruct (atoi v);
      cbn [k8s_match]; rewrite ?andb_true_r, ?andb_false_r; try reflexivity.
    + destruct (g <=? z), (negb (mem v (x :: t))); reflexivity.
  - destruct c; [|destruct (Hc eq_refl); discriminate].
    destruct vs as [|x t]; cbn [andb negb app forallb fst snd];
      rewrite (k8s_lte l v Hl); destruct (atoi v);
      cbn [k8s_match]; rewrite ?andb_true_r, ?andb_false_r; try reflexivity.
    + destruct (z <=? l), (negb (mem v (x :: t))); reflexivity.
  - destruct c, vs as [|x t]; cbn [andb negb app forallb fst snd k8s_match]; rewrite ?andb_true_r; reflexivity.
Qed.

Lemma rlen_cons_lt x (t : list string) : (max64 - Z.of_nat (List.length (x :: t)) <? max64) = true.
Proof. apply Z.ltb_lt. simpl List.length. lia. Qed.

Lemma roundtrip_absent_l r : canon r -> nsrs_match (to_nsrs r) None = sat_undefined r.
Proof.
  destruct r as [c vs g l mv]. unfold canon, to_nsrs, nsrs_match, sat_undefined, operator, rlen, has_bound; cbn [compl vals gte lte].
  intros Hc.
  destruct g as [g|], l as [l|]; try (destruct c; [|destruct (Hc eq_refl); discriminate]).
  - destruct vs as [|x t]; cbn [andb negb app forallb fst snd k8s_match]; [reflexivity|].
    rewrite rlen_cons_lt. reflexivity.
  - destruct vs as [|x t]; cbn [andb negb app forallb fst snd k8s_match]; [reflexivity|].
    rewrite rlen_cons_lt. reflexivity.
  - destruct vs as [|x t]; cbn [andb negb app forallb fst snd k8s_match]; [reflexivity|].
    rewrite rlen_cons_lt. reflexivity.
  - destruct c, vs as [|x t]; cbn [andb negb app forallb fst snd k8s_match]; try reflexivity.
    rewrite rlen_cons_lt. reflexivity.
Qed.

(* every emitted requirement is one the API accepts as a constructor argument *)
Lemma emitted_valid r : wf r -> Forall (fun n : nsr => valid_args (fst n) (snd n) = true) (to_nsrs r).
Proof.
  destruct r as [c vs g l mv]. unfold wf, to_nsrs, has_bound; cbn [compl vals gte lte]. intros [Hg Hl].
  apply Forall_app. split.
  - destruct g as [g|], l as [l|]; cbn [bound_ok] in *;
      repeat constructor; simpl; rewrite ?(atoi_itoa g Hg), ?(atoi_itoa l Hl); try reflexivity;
      destruct c, vs; repeat constructor.
  - destruct (c && _ && _) eqn:E; [|constructor].
    repeat constructor. simpl. destruct vs; [|reflexivity].
    rewrite andb_false_r in E. discriminate.
Qed.

Lemma has_reparse mv l : Forall (fun n : nsr => valid_args (fst n) (snd n) = true) l ->
  forall acc v, has (fold_left (fun acc n => intersection (new_req (fst n) mv (snd n)) acc) l acc) v
              = nsrs_match l (Some v) && has acc v.
Proof.
  induction 1 as [|n l Hn Hl IH]; intros acc v; cbn [fold_left]; [reflexivity|].
  rewrite IH, has_intersection_admits, (has_new_req _ mv _ v Hn).
  unfold nsrs_match. cbn [forallb].
  generalize (k8s_match (fst n) (snd n) (Some v)) as b1.
  generalize (forallb (fun n0 : nsr => k8s_match (fst n0) (snd n0) (Some v)) l) as b2.
  intros b2 b1. destruct b1, b2, (has acc v); reflexivity.
Qed.

Lemma reparse_admits_l r mv v : wf r -> canon r -> has (reparse mv (to_nsrs r)) v = has r v.
Proof.
  intros Hw Hc. unfold reparse. rewrite (has_reparse mv _ (emitted_valid r Hw)).
  rewrite (roundtrip_admits_l r v Hw Hc). unfold has at 2. simpl. rewrite !andb_true_r. reflexivity.
Qed.

(* canon is an invariant of the constructors and of Intersection *)
Lemma canon_new_req o mv vs : canon (new_req o mv vs).
Proof.
  unfold canon. destruct o; simpl; try (intros; split; reflexivity); try discriminate;
    destruct (_ =? _); simpl; try discriminate; intros; split; reflexivity.
Qed.

Lemma canon_intersection a b : canon (intersection a b).
Proof.
  unfold canon, intersection.
  destruct (match max_opt (gte a) (gte b) with Some x => _ | None => false end); simpl; [split; reflexivity|].
  destruct (compl a && compl b); simpl; [discriminate|split; reflexivity].
Qed.

(* ---- Any ---- *)

Lemma ordered_new_req o mv vs : ordered (new_req o mv vs).
Proof. unfold ordered. destruct o; simpl; try exact I; destruct (_ =? _); exact I. Qed.

Lemma ordered_intersection a b : ordered (intersection a b).
Proof.
  unfold ordered, intersection.
  destruct (max_opt (gte a) (gte b)) as [x|] eqn:Eg, (min_opt (lte a) (lte b)) as [y|] eqn:El;
    try (destruct (compl a && compl b); simpl; rewrite ?Eg, ?El; exact I).
  destruct (Z.ltb_spec y x); simpl; [exact I|].
  destruct (compl a && compl b); simpl; rewrite ?Eg, ?El; [lia|exact I].
Qed.

Definition no_exclusions (r : req) : Prop := compl r = true -> vals r = [].

Lemma in64_bounds z : in64 z = true -> min64 <= z <= max64.
Proof. unfold in64. intros H. apply andb_prop in H as [H1 H2]. apply Z.leb_le in H1, H2. lia. Qed.

Lemma any_admitted_l r v : wf r -> canon r -> ordered r -> no_exclusions r ->
  any_allows r (Some v) = true ->
  (operator r = DoesNotExist /\ v = EmptyString) \/ has r v = true.
Proof.
  destruct r as [c vs g l mv]. unfold wf, canon, ordered, no_exclusions, any_allows, any_model, operator, rlen, has;
    cbn [compl vals gte lte]. intros [Hg Hl] Hc Ho Hv Ha.
  destruct c.
  - (* complement: NotIn / Exists *)
    rewrite (Hv eq_refl) in *. cbn [List.length Z.of_nat mem existsb negb andb] in *.
    replace (max64 - 0 <? max64) with false in Ha by reflexivity.
    right.
    set (mn0 := match g with Some g0 => g0 | None => 0 end) in *.
    set (mx := match l with Some l0 => if l0 <? max64 then l0 + 1 else max64 | None => max64 end) in *.
    set (mn := match g with None => if mx <=? mn0 then mx - 1 else mn0 | Some _ => mn0 end) in *.
    assert (Hgb : match g with Some g0 => min64 <= g0 <= max64 | None => True end)
      by (destruct g; [apply in64_bounds, Hg|exact I]).
    assert (Hlb : match l with Some l0 => min64 <= l0 <= max64 | None => True end)
      by (destruct l; [apply in64_bounds, Hl|exact I]).
    (* the facts about mn, mx that matter *)
    assert (Hmx : min64 < mx <= max64 /\ match l with Some l0 => mx <= l0 + 1 | None => True end).
    { subst mx. destruct l as [l0|]; [|unfold min64, max64; lia].
      destruct (Z.ltb_spec l0 max64); unfold min64, max64 in *; lia. }
    assert (Hmn : min64 <= mn <= mx /\ mn <= max64 /\ match g with Some g0 => g0 <= mn | None => True end
                  /\ match l with Some l0 => mn <= l0 | None => True end).
    { subst mn mn0. destruct g as [g0|].
      - split; [|split; [lia|split; [lia|]]].
        + subst mx. destruct l as [l0|]; [destruct (Z.ltb_spec l0 max64)|]; unfold min64, max64 in *; lia.
        + destruct l as [l0|]; [lia|exact I].
      - destruct (Z.leb_spec mx 0).
        + split; [unfold min64 in *; lia|]. split; [unfold max64 in *; lia|]. split; [exact I|].
          destruct l as [l0|]; [lia|exact I].
        + split; [unfold min64; lia|]. split; [unfold max64; lia|]. split; [exact I|].
          destruct l as [l0|]; [|exact I]. lia. }
    destruct Hmx as (Hmx1 & Hmx2). destruct Hmn as (Hmn1 & Hmn0 & Hmn2 & Hmn3).
    assert (Hwithin : forall z, mn <= z -> (z < mx \/ z = mn) -> within (itoa z) g l = true).
    { intros z Hz Hz0. unfold within.
      assert (Hin : in64 z = true) by (unfold in64, min64, max64 in *; apply andb_true_intro; split; apply Z.leb_le; lia).
      destruct g as [g0|], l as [l0|]; try reflexivity; rewrite (atoi_itoa z Hin);
        cbn [andb]; rewrite ?andb_true_r; try (apply andb_true_intro; split); apply Z.leb_le; lia. }
    destruct (Z.ltb_spec 0 (wrap64 (mx - mn))) as [Hpos|Hnp].
    + destruct (atoi v) as [z|] eqn:Ez; [|discriminate].
      apply andb_prop in Ha as [Ha Hs]. apply andb_prop in Ha as [H1 H2].
      apply Z.leb_le in H1. apply Z.ltb_lt in H2. apply String.eqb_eq in Hs.
      assert (Hw : wrap64 (mx - mn) <= mx - mn).
      { unfold wrap64. pose proof (Z.mod_pos_bound (mx - mn + 9223372036854775808) 18446744073709551616 eq_refl).
        unfold min64, max64 in *.
        destruct (Z.le_gt_cases (mx - mn) 9223372036854775807).
        - rewrite Z.mod_small; lia.
        - assert (E : (mx - mn + 9223372036854775808) mod 18446744073709551616
                      = mx - mn + 9223372036854775808 - 18446744073709551616).
          { symmetry. apply Z.mod_unique with 1; lia. }
          lia. }
      rewrite Hs. apply Hwithin; lia.
    + cbn [mem existsb] in Ha. rewrite orb_false_r in Ha. apply String.eqb_eq in Ha. rewrite Ha.
      apply Hwithin; lia.
  - destruct (Hc eq_refl) as [-> ->].
    destruct vs as [|x t].
    + left. cbn [List.length Z.of_nat] in *. replace (0 <? 0) with false in * by reflexivity.
      split; [reflexivity|]. apply String.eqb_eq in Ha. exact Ha.
    + right.
      assert (Hlt : (0 <? Z.of_nat (List.length (x :: t))) = true)
        by (apply Z.ltb_lt; simpl List.length; lia).
      rewrite Hlt in Ha. rewrite Ha. reflexivity.
Qed.

(* F10 (known finding): an excluded value can be returned. {k NotIn [6], k Gt 4, k Lt 8} and "6". *)
Definition f10_req : req :=
  intersection (new_req Lt None ["8"%string]) (intersection (new_req Gt None ["4"%string]) (new_req NotIn None ["6"%string])).

Lemma any_excluded_refuted_l :
  exists r v, wf r /\ canon r /\ ordered r /\ any_allows r (Some v) = true /\ has r v = false.
Proof.
  exists f10_req, "6"%string. split; [|split; [apply canon_intersection|split; [apply ordered_intersection|split; vm_compute; reflexivity]]].
  repeat apply wf_intersection; apply wf_new_req; reflexivity.
Qed.

(* F9 (fixed): before the repair the argument of rand.Intn was not positive for requirements a validated
   NodePool can carry: `k Lt 0`, `k Lte MaxInt64`. *)
Lemma any_prefix_panics_l :
  any_intn_arg_prefix (new_req Lt None ["0"%string]) <= 0 /\
  any_intn_arg_prefix (new_req Lte None ["9223372036854775807"%string]) <= 0.
Proof. vm_compute. split; discriminate. Qed.
