(* C16 — executable model of the four forceful reapers, at method granularity:
     pkg/controllers/nodeclaim/expiration/controller.go        (Controller.Reconcile)
     pkg/controllers/nodeclaim/garbagecollection/controller.go (Controller.Reconcile)
     pkg/controllers/nodeclaim/lifecycle/liveness.go           (Liveness.Reconcile)
     pkg/controllers/node/health/controller.go                 (Controller.Reconcile)
   Inputs are the objects the reconciler sees, the clock, and the class of every API /
   provider response that the decision reads (a fault plan); outputs are the Delete calls
   issued on NodeClaims and the class of the reconcile result.
   Time is Z nanoseconds since the Unix epoch; durations are Z nanoseconds. Go's int64
   saturation/wrap of time.Duration is not modelled: inputs are assumed to lie within
   +-2^62 ns of each other (or to be the zero time, handled explicitly).
   Executable definitions only (plus the boolean oracles); proofs are in C16/Proofs.v. *)
From Coq Require Export ZArith List Bool String Lia.
Export ListNotations.
Open Scope Z_scope.

Definition sec : Z := 1000000000.
Definition launch_timeout : Z := 300 * sec.       (* lifecycle.LaunchTimeout = 5 min *)
Definition reg_timeout : Z := 900 * sec.          (* registrationTimeout = 15 min *)
Definition gc_requeue : Z := 120 * sec.           (* GC: RequeueAfter 2 min *)
Definition breaker_requeue : Z := 300 * sec.      (* health: RequeueAfter 5 min while the breaker is open *)
Definition zero_time : Z := -62135596800 * sec.   (* time.Time{} : 0001-01-01T00:00:00Z *)

(* class of a reconcile result: (Result{}, nil) | Requeue:true | RequeueAfter d | error *)
Inductive res := ROk | RRequeue | RAfter (d : Z) | RErr.

(* class of one API response *)
Inductive resp := AOk | ANotFound | AConflict | AErr.

Definition res_eqb (a b : res) : bool :=
  match a, b with
  | ROk, ROk | RRequeue, RRequeue | RErr, RErr => true
  | RAfter x, RAfter y => x =? y
  | _, _ => false
  end.

(* client.IgnoreNotFound(err) applied to the response of a Delete / Patch *)
Definition ignore_notfound (r : resp) : res :=
  match r with AOk | ANotFound => ROk | AConflict | AErr => RErr end.

Definition mem (s : string) (l : list string) : bool := existsb (String.eqb s) l.

(* ------------------------------------------------------------------ expiration *)

Record exp_in := mkExp {
  e_managed : bool;                 (* nodeclaimutils.IsManaged *)
  e_deleting : bool;                (* DeletionTimestamp set *)
  e_expire_after : option Z;        (* Spec.ExpireAfter.Duration; None = "Never" *)
  e_created : Z;                    (* CreationTimestamp *)
  e_now : Z;                        (* clock.Now() *)
  e_del : resp                      (* response of kubeClient.Delete, if issued *)
}.

(* (number of Delete calls on the NodeClaim, result class) *)
Definition expire (i : exp_in) : nat * res :=
  if negb (e_managed i) then (O, ROk)
  else if e_deleting i then (O, ROk)
  else match e_expire_after i with
       | None => (O, ROk)
       | Some d =>
           let t := e_created i + d in
           if e_now i <? t then (O, RAfter (t - e_now i))
           else (1%nat, ignore_notfound (e_del i))
       end.

(* oracle: the property's trigger evaluated on what was observed *)
Definition exp_holds_b (i : exp_in) (deletes : nat) : bool :=
  match deletes with
  | O => true
  | S _ => match e_expire_after i with
           | None => false
           | Some d => e_created i + d <=? e_now i
           end
  end.

(* ------------------------------------------------------------------ garbage collection *)

Inductive lookup (A : Type) := Found (a : A) | NotFound | Duplicate | Failed.
Arguments Found {A} a. Arguments NotFound {A}. Arguments Duplicate {A}. Arguments Failed {A}.

Record gclaim := mkGClaim {
  gc_name : string;
  gc_managed : bool;
  gc_registered : bool;             (* Registered condition IsTrue *)
  gc_deleting : bool;
  gc_pid : string;                  (* Status.ProviderID *)
  gc_del : resp                     (* response of Delete on this claim, if issued *)
}.
Record ginst := mkGInst { gi_pid : string; gi_deleting : bool }.   (* one entry of cloudProvider.List *)
Record gnode := mkGNode { gn_pid : string; gn_ready : bool }.      (* Node: Spec.ProviderID, Ready = True *)

Record gc_in := mkGc {
  g_claims : option (list gclaim);  (* List NodeClaims; None = the call failed *)
  g_provider : option (list ginst); (* cloudProvider.List; None = the call failed *)
  g_nodes : list gnode;             (* Nodes in the API *)
  g_nodefail : list string          (* provider ids whose List Nodes call fails *)
}.

(* nodeclaimutils.NodeForNodeClaim *)
Definition node_lookup (i : gc_in) (pid : string) : lookup bool :=
  if String.eqb pid "" then NotFound
  else if mem pid (g_nodefail i) then Failed
  else match filter (fun n => String.eqb (gn_pid n) pid) (g_nodes i) with
       | [] => NotFound
       | [n] => Found (gn_ready n)
       | _ => Duplicate
       end.

(* provider ids of the instances the provider lists as not terminating *)
Definition live_ids (l : list ginst) : list string :=
  map gi_pid (filter (fun p => negb (gi_deleting p)) l).

Definition gc_candidate (ids : list string) (c : gclaim) : bool :=
  gc_managed c && gc_registered c && negb (gc_deleting c) && negb (mem (gc_pid c) ids).

Inductive gact := GSkip | GLookupErr | GDelete (r : resp).

(* body of the ParallelizeUntil closure, after commit 85caa9282 (return on a failed lookup) *)
Definition gc_one (i : gc_in) (c : gclaim) : gact :=
  match node_lookup i (gc_pid c) with
  | Failed => GLookupErr
  | Found true => GSkip
  | _ => GDelete (gc_del c)
  end.

(* the same closure before the fix: the error was recorded, the goroutine fell through *)
Definition gc_one_prefix (i : gc_in) (c : gclaim) : gact :=
  match node_lookup i (gc_pid c) with
  | Found true => GSkip
  | _ => GDelete (gc_del c)
  end.

Definition gact_deletes (a : gact) : bool := match a with GDelete _ => true | _ => false end.
Definition gact_err (a : gact) : bool :=
  match a with
  | GSkip => false
  | GLookupErr => true
  | GDelete r => match ignore_notfound r with ROk => false | _ => true end
  end.

Definition gc_with (one : gc_in -> gclaim -> gact) (i : gc_in) : list string * res :=
  match g_claims i with
  | None => ([], RErr)
  | Some cs =>
      match g_provider i with
      | None => ([], RErr)
      | Some ps =>
          let cand := filter (gc_candidate (live_ids ps)) cs in
          (map gc_name (filter (fun c => gact_deletes (one i c)) cand),
           if existsb (fun c => gact_err (one i c)) cand then RErr else RAfter gc_requeue)
      end
  end.

Definition gc : gc_in -> list string * res := gc_with gc_one.
(* pre-fix: a failed lookup also leaves its error in errs[i] even if the Delete succeeds *)
Definition gc_prefix (i : gc_in) : list string * res :=
  let '(d, r) := gc_with gc_one_prefix i in
  (d, match g_claims i, g_provider i with
      | Some cs, Some ps =>
          if existsb (fun c => match node_lookup i (gc_pid c) with Failed => true | _ => false end)
               (filter (gc_candidate (live_ids ps)) cs) then RErr else r
      | _, _ => r
      end).

(* oracle: every deleted name belongs to a listed claim that is registered, not listed live by
   the provider, whose node lookup did not fail and did not return a Ready node; and nothing is
   deleted when one of the two list calls failed. *)
Definition gc_trigger_b (i : gc_in) (ps : list ginst) (c : gclaim) : bool :=
  gc_registered c && negb (mem (gc_pid c) (live_ids ps)) &&
  match node_lookup i (gc_pid c) with
  | NotFound | Found false | Duplicate => true
  | Found true | Failed => false
  end.

Definition gc_holds_b (i : gc_in) (deleted : list string) : bool :=
  match g_claims i, g_provider i with
  | Some cs, Some ps =>
      forallb (fun name => existsb (fun c => String.eqb (gc_name c) name && gc_trigger_b i ps c) cs) deleted
  | _, _ => match deleted with [] => true | _ => false end
  end.

(* ---- the two snapshot reads of one GC pass over a cluster that keeps changing ----
   The NodeClaim list and the provider list are two reads at two instants; other actors
   (a launch that registers, an instance that terminates, ...) make progress in between.
   A trace gives the true cluster state at every instant. *)
Record gworld := mkGWorld { w_claims : list gclaim; w_insts : list ginst }.

(* one pass whose NodeClaim list is served at instant [ti] and whose provider list at [tj] *)
Definition gc_pass (tr : nat -> gworld) (ti tj : nat) (nodes : list gnode) (nf : list string) : list string * res :=
  gc (mkGc (Some (w_claims (tr ti))) (Some (w_insts (tr tj))) nodes nf).

(* the two-instant timeline of a pass: state at the first read, state at the second read *)
Definition tl2 (w0 w1 : gworld) (t : nat) : gworld := match t with O => w0 | S _ => w1 end.

(* the code: ListManaged first, cloudProvider.List second *)
Definition gc2 (w0 w1 : gworld) nodes nf := gc_pass (tl2 w0 w1) 0 1 nodes nf.
(* the opposite order (provider snapshot older than the NodeClaim snapshot) *)
Definition gc2_swapped (w0 w1 : gworld) nodes nf := gc_pass (tl2 w0 w1) 1 0 nodes nf.

Inductive gorder := ClaimsFirst | ProviderFirst.
Definition gorder_eqb (a b : gorder) : bool :=
  match a, b with ClaimsFirst, ClaimsFirst | ProviderFirst, ProviderFirst => true | _, _ => false end.
(* the instant at which the NodeClaims were observed *)
Definition obs_instant (o : gorder) : nat := match o with ClaimsFirst => O | ProviderFirst => 1%nat end.

(* oracle for a pass with an observed read order: every deleted name is a claim that was observed
   Registered, whose instance was not listed live at some instant at or after that observation,
   and whose Node lookup allowed the deletion *)
Definition absent_after_b (o : gorder) (w0 w1 : gworld) (pid : string) : bool :=
  match o with
  | ClaimsFirst => negb (mem pid (live_ids (w_insts w0))) || negb (mem pid (live_ids (w_insts w1)))
  | ProviderFirst => negb (mem pid (live_ids (w_insts w1)))
  end.

Definition gc2_holds_b (o : gorder) (w0 w1 : gworld) (nodes : list gnode) (nf : list string) (deleted : list string) : bool :=
  let i := mkGc None None nodes nf in
  forallb (fun name =>
    existsb (fun c => String.eqb (gc_name c) name && gc_registered c && absent_after_b o w0 w1 (gc_pid c) &&
                      match node_lookup i (gc_pid c) with
                      | NotFound | Found false | Duplicate => true
                      | Found true | Failed => false
                      end)
            (w_claims (tl2 w0 w1 (obs_instant o)))) deleted.

(* ------------------------------------------------------------------ liveness *)

Inductive cstat := CTrue | CFalse | CUnknown.
Definition is_true (s : cstat) : bool := match s with CTrue => true | _ => false end.

Record lv_in := mkLv {
  l_registered : option (cstat * Z);  (* Registered condition: status, LastTransitionTime; None = absent *)
  l_launched : option (cstat * Z);    (* Launched condition *)
  l_now : Z;
  (* k-th call of updateNodePoolRegistrationHealth: response of Get NodePool and of the status
     Patch (None = the call was not issued) *)
  l_pool : list (option resp * option resp);
  l_del : list resp                   (* response of the k-th Delete *)
}.

Inductive hres := HProceed | HConflict | HErr.

(* error class of updateNodePoolRegistrationHealth as its caller treats it:
   client.IgnoreNotFound(err) != nil ? (IsConflict ? requeue : error) : proceed;
   inside, the Patch error also goes through IgnoreNotFound *)
Definition pool_hres (gp : option resp * option resp) : hres :=
  match fst gp with
  | Some AConflict => HConflict
  | Some AErr => HErr
  | Some ANotFound => HProceed
  | _ => match snd gp with
         | Some AConflict => HConflict
         | Some AErr => HErr
         | _ => HProceed
         end
  end.

Definition nth_pool (i : lv_in) (k : nat) : hres := pool_hres (nth k (l_pool i) (None, None)).
Definition nth_del (i : lv_in) (k : nat) : resp := nth k (l_del i) AOk.

(* the registration-timeout part; [n] = Delete calls and pool updates already made *)
Definition lv_reg_phase (i : lv_in) (n : nat) : nat * res :=
  match l_registered i with
  | None => (n, RRequeue)
  | Some (_, rt) =>
      let left := reg_timeout - (l_now i - rt) in
      if 0 <? left then (n, RAfter left)
      else match nth_pool i n with
           | HConflict => (n, RRequeue)
           | HErr => (n, RErr)
           | HProceed =>
               (S n, match nth_del i n with AOk | ANotFound => ROk | _ => RErr end)
           end
  end.

Definition registered_true (i : lv_in) : bool :=
  match l_registered i with Some (CTrue, _) => true | _ => false end.

(* the launch-timeout part. Since 3cbc43e89 a successful Delete for the launch timeout ends the
   reconcile; before, the code fell through to the registration part ([fall_through] = true), which
   could record a second failure and issue a second Delete in the same reconcile. *)
Definition lv_launch_phase_gen (fall_through : bool) (i : lv_in) : nat * res :=
  match l_launched i with
  | None => (O, RRequeue)
  | Some (ls, lt) =>
      if is_true ls then lv_reg_phase i O
      else
        let left := launch_timeout - (l_now i - lt) in
        if 0 <? left then (O, RAfter left)
        else match nth_pool i O with
             | HConflict => (O, RRequeue)
             | HErr => (O, RErr)
             | HProceed =>
                 match nth_del i O with
                 | AOk => if fall_through then lv_reg_phase i 1%nat else (1%nat, ROk)
                 | ANotFound => (1%nat, ROk)
                 | _ => (1%nat, RErr)
                 end
             end
  end.

Definition lv_launch_phase : lv_in -> nat * res := lv_launch_phase_gen false.

Definition liveness (i : lv_in) : nat * res :=
  if registered_true i then (O, ROk) else lv_launch_phase i.

(* the code before 3cbc43e89 *)
Definition liveness_prefix (i : lv_in) : nat * res :=
  if registered_true i then (O, ROk) else lv_launch_phase_gen true i.

Definition launch_timed_out (i : lv_in) : bool :=
  match l_launched i with
  | Some (s, lt) => negb (is_true s) && (launch_timeout <=? l_now i - lt)
  | None => false
  end.

Definition reg_timed_out (i : lv_in) : bool :=
  match l_registered i with
  | Some (s, rt) => negb (is_true s) && (reg_timeout <=? l_now i - rt)
  | None => false
  end.

Definition lv_holds_b (i : lv_in) (deletes : nat) : bool :=
  match deletes with
  | O => true
  | S _ => negb (registered_true i) && (launch_timed_out i || reg_timed_out i)
  end.

(* ------------------------------------------------------------------ node repair *)

Record ncond := mkCond { nc_type : string; nc_status : string; nc_time : Z }.
Record policy := mkPolicy { rp_type : string; rp_status : string; rp_tol : Z }.

(* nodeutils.GetCondition: first condition of that type, else the zero NodeCondition *)
Definition get_cond (cs : list ncond) (t : string) : ncond :=
  match find (fun c => String.eqb (nc_type c) t) cs with
  | Some c => c
  | None => mkCond "" "" zero_time
  end.

Definition matches (cs : list ncond) (p : policy) : bool :=
  String.eqb (nc_status (get_cond cs (rp_type p))) (rp_status p).

(* findUnhealthyConditions: accumulator = (selected condition and its toleration, requeueTime);
   requeueTime.IsZero() doubles as "nothing selected yet" exactly as in the code *)
Definition fu_step (cs : list ncond) (acc : option (ncond * Z) * Z) (p : policy) : option (ncond * Z) * Z :=
  if matches cs p then
    let c := get_cond cs (rp_type p) in
    let tt := nc_time c + rp_tol p in
    if (snd acc =? zero_time) || (tt <? snd acc) then (Some (c, rp_tol p), tt) else acc
  else acc.

Definition find_unhealthy (cs : list ncond) (ps : list policy) : option (ncond * Z) :=
  fst (fold_left (fu_step cs) ps (None, zero_time)).

Inductive annot := AnnNone | AnnBad | AnnTime (t : Z).  (* termination-timestamp annotation; whole seconds *)

Record rclaim := mkRClaim {
  rc_pid : string;
  rc_pool : option string;          (* karpenter.sh/nodepool label *)
  rc_deleting : bool;
  rc_annot : annot
}.
(* a Node in the API; rn_deleting = it carries a deletionTimestamp (Terminating, kept by its finalizer).
   The breaker counts every listed Node, terminating or not. *)
Record rnode := mkRNode { rn_pool : option string; rn_deleting : bool; rn_conds : list ncond }.

Record rp_in := mkRp {
  r_pid : string;                   (* the reconciled Node's Spec.ProviderID *)
  r_conds : list ncond;             (* its Status.Conditions *)
  r_claims : list rclaim;           (* NodeClaims in the API *)
  r_claims_resp : resp;             (* response class of List NodeClaims *)
  r_policies : list policy;         (* cloudProvider.RepairPolicies() *)
  r_now : Z;
  r_nodes : list rnode;             (* Nodes in the API *)
  r_nodes_resp : resp;              (* response class of List Nodes *)
  r_poolget : resp;                 (* Get NodePool (only for the blocked event) *)
  r_patch : resp;                   (* Patch of the termination annotation *)
  r_del : resp
}.

(* nodeutils.NodeClaimForNode *)
Definition claim_lookup (i : rp_in) : lookup rclaim :=
  if String.eqb (r_pid i) "" then NotFound
  else match r_claims_resp i with
       | AOk => match filter (fun c => String.eqb (rc_pid c) (r_pid i)) (r_claims i) with
                | [] => NotFound
                | [c] => Found c
                | _ => Duplicate
                end
       | _ => Failed
       end.

Definition opt_str_eqb (a b : option string) : bool :=
  match a, b with
  | Some x, Some y => String.eqb x y
  | _, _ => false
  end.

(* nodes counted by the circuit breaker: the pool's (by label) or the whole cluster's *)
Definition breaker_nodes (i : rp_in) (c : rclaim) : list rnode :=
  match rc_pool c with
  | Some p => filter (fun n => opt_str_eqb (rn_pool n) (Some p)) (r_nodes i)
  | None => r_nodes i
  end.

Definition unhealthy_node (ps : list policy) (n : rnode) : bool := existsb (matches (rn_conds n)) ps.
Definition unhealthy_count (ps : list policy) (ns : list rnode) : Z :=
  Z.of_nat (List.length (filter (unhealthy_node ps) ns)).

(* intstr.GetScaledValueFromIntOrPercent("20%", n, roundUp=true) = ceil(20*n/100) *)
Definition threshold (n : Z) : Z := (20 * n + 99) / 100.

Definition nodes_healthy (ps : list policy) (ns : list rnode) : bool :=
  unhealthy_count ps ns <=? threshold (Z.of_nat (List.length ns)).

(* annotateTerminationGracePeriod issues a Patch unless the annotation parses to a time before now
   or already equals now (annotation values are whole seconds, so both cases are "not after now") *)
Definition patch_needed (i : rp_in) (c : rclaim) : bool :=
  match rc_annot c with
  | AnnTime t => r_now i <? t
  | _ => true
  end.

(* (Patch calls on the NodeClaim, Delete calls on the NodeClaim, result class) *)
Definition repair (i : rp_in) : nat * nat * res :=
  match claim_lookup i with
  | Failed => (O, O, RErr)
  | NotFound | Duplicate => (O, O, ROk)
  | Found c =>
      match find_unhealthy (r_conds i) (r_policies i) with
      | None => (O, O, ROk)
      | Some (uc, tol) =>
          let tt := nc_time uc + tol in
          if r_now i <? tt then (O, O, RAfter (tt - r_now i))
          else
            let pooled := match rc_pool c with Some _ => true | None => false end in
            match r_nodes_resp i with
            | AOk =>
                if nodes_healthy (r_policies i) (breaker_nodes i c) then
                  let finish (p : nat) :=
                    if rc_deleting c then (p, O, ROk) else (p, 1%nat, ignore_notfound (r_del i)) in
                  if patch_needed i c then
                    match r_patch i with
                    | AOk => finish 1%nat
                    | ANotFound => (1%nat, O, ROk)
                    | _ => (1%nat, O, RErr)
                    end
                  else finish O
                else if pooled then
                  match r_poolget i with
                  | AOk | ANotFound => (O, O, RAfter breaker_requeue)
                  | _ => (O, O, RErr)
                  end
                else (O, O, RAfter breaker_requeue)
            | ANotFound => (O, O, if pooled then ROk else RErr)
            | _ => (O, O, RErr)
            end
      end
  end.

(* variant that leaves terminating Nodes out of both the unhealthy count and the total (NOT the code;
   kept to state that it breaks the 20% bound) *)
Definition repair_skip_terminating (i : rp_in) : nat * nat * res :=
  repair (mkRp (r_pid i) (r_conds i) (r_claims i) (r_claims_resp i) (r_policies i) (r_now i)
               (filter (fun n => negb (rn_deleting n)) (r_nodes i))
               (r_nodes_resp i) (r_poolget i) (r_patch i) (r_del i)).

(* oracle: a Delete implies: exactly one NodeClaim resolved, some repair policy matches a
   condition of the node that has lasted its toleration, the node list was read, and at most
   ceil(20%) of the counted nodes are unhealthy *)
Definition lasted_b (i : rp_in) (p : policy) : bool :=
  matches (r_conds i) p && (nc_time (get_cond (r_conds i) (rp_type p)) + rp_tol p <=? r_now i).

Definition breaker_ok_b (ps : list policy) (ns : list rnode) : bool :=
  5 * unhealthy_count ps ns <? Z.of_nat (List.length ns) + 5.

Definition rp_holds_b (i : rp_in) (deletes : nat) : bool :=
  match deletes with
  | O => true
  | S _ =>
      match claim_lookup i with
      | Found c =>
          existsb (lasted_b i) (r_policies i) &&
          match r_nodes_resp i with AOk => true | _ => false end &&
          breaker_ok_b (r_policies i) (breaker_nodes i c)
      | _ => false
      end
  end.
