(* C16 — specifications (Prop), their boolean reflections, and the proofs that every
   reaper model issues a Delete only on its documented trigger, for all inputs, clock
   positions and API fault plans. *)
From KV Require Import C16.Model.
Open Scope Z_scope.

(* ------------------------------------------------------------------ generic *)

Lemma mem_In s l : mem s l = true <-> In s l.
Proof.
  unfold mem. rewrite existsb_exists. split.
  - intros (x & Hin & Heq). apply String.eqb_eq in Heq. subst. exact Hin.
  - intros Hin. exists s. split; [exact Hin|apply String.eqb_refl].
Qed.

Lemma mem_false_In s l : mem s l = false <-> ~ In s l.
Proof.
  rewrite <- mem_In. destruct (mem s l); split; intros H; try reflexivity; try discriminate;
    try (intros H'; discriminate); exfalso; apply H; reflexivity.
Qed.

(* ------------------------------------------------------------------ expiration *)

(* Spec: a Delete is issued only if expiry is enabled and now >= creation + expireAfter. *)
Definition exp_holds (i : exp_in) (deletes : nat) : Prop :=
  (0 < deletes)%nat -> exists d, e_expire_after i = Some d /\ e_created i + d <= e_now i.

Lemma exp_holds_b_iff i n : exp_holds_b i n = true <-> exp_holds i n.
Proof.
  unfold exp_holds_b, exp_holds. destruct n as [|n].
  - split; [intros _ H; inversion H|reflexivity].
  - destruct (e_expire_after i) as [d|].
    + rewrite Z.leb_le. split.
      * intros H _. exists d. split; [reflexivity|exact H].
      * intros H. destruct (H (Nat.lt_0_succ n)) as (d' & Hd & Hle). inversion Hd. subst. exact Hle.
    + split; [discriminate|]. intros H. destruct (H (Nat.lt_0_succ n)) as (d' & Hd & _). discriminate.
Qed.

(* exact characterisation of the decision *)
Lemma expire_deletes_iff i :
  fst (expire i) = 1%nat <->
  e_managed i = true /\ e_deleting i = false /\
  exists d, e_expire_after i = Some d /\ e_created i + d <= e_now i.
Proof.
  unfold expire. destruct (e_managed i), (e_deleting i); simpl;
    try (split; [discriminate|intros (Hm & Hd & _); discriminate]).
  destruct (e_expire_after i) as [d|]; simpl.
  - destruct (Z.ltb_spec (e_now i) (e_created i + d)) as [Hlt|Hge]; simpl.
    + split; [discriminate|]. intros (_ & _ & d' & Hd & Hle). inversion Hd. subst. lia.
    + split; [|reflexivity]. intros _. repeat split. exists d. split; [reflexivity|exact Hge].
  - split; [discriminate|]. intros (_ & _ & d' & Hd & _). discriminate.
Qed.

Lemma expire_deletes_le1 i : fst (expire i) = O \/ fst (expire i) = 1%nat.
Proof.
  unfold expire. destruct (e_managed i), (e_deleting i); simpl; auto.
  destruct (e_expire_after i) as [d|]; simpl; auto.
  destruct (e_now i <? e_created i + d); simpl; auto.
Qed.

Lemma expire_sound i : exp_holds i (fst (expire i)).
Proof.
  intros Hpos. destruct (expire_deletes_le1 i) as [H0|H1]; [rewrite H0 in Hpos; inversion Hpos|].
  apply expire_deletes_iff in H1. destruct H1 as (_ & _ & H). exact H.
Qed.

Lemma expire_never_when_disabled_l i : e_expire_after i = None -> fst (expire i) = O.
Proof.
  intros Hn. destruct (expire_deletes_le1 i) as [H0|H1]; [exact H0|].
  apply expire_deletes_iff in H1. destruct H1 as (_ & _ & d & Hd & _). rewrite Hn in Hd. discriminate.
Qed.

Lemma expire_only_after_ttl_l i : (0 < fst (expire i))%nat ->
  e_managed i = true /\ e_deleting i = false /\
  exists d, e_expire_after i = Some d /\ e_created i + d <= e_now i.
Proof.
  intros Hpos. destruct (expire_deletes_le1 i) as [H0|H1]; [rewrite H0 in Hpos; inversion Hpos|].
  apply expire_deletes_iff. exact H1.
Qed.

(* the Delete response never changes whether a Delete is issued, only the result class *)
Lemma expire_fault_independent i r :
  fst (expire (mkExp (e_managed i) (e_deleting i) (e_expire_after i) (e_created i) (e_now i) r)) = fst (expire i).
Proof.
  unfold expire; simpl. destruct (e_managed i), (e_deleting i); simpl; try reflexivity.
  destruct (e_expire_after i) as [d|]; simpl; try reflexivity.
  destruct (e_now i <? e_created i + d); reflexivity.
Qed.

(* ------------------------------------------------------------------ garbage collection *)

(* Spec on the lookup level. *)
Definition gc_trigger (i : gc_in) (ps : list ginst) (c : gclaim) : Prop :=
  gc_registered c = true /\ ~ In (gc_pid c) (live_ids ps) /\
  (node_lookup i (gc_pid c) = NotFound \/ node_lookup i (gc_pid c) = Found false \/
   node_lookup i (gc_pid c) = Duplicate).

Definition gc_holds (i : gc_in) (deleted : list string) : Prop :=
  match g_claims i, g_provider i with
  | Some cs, Some ps =>
      forall name, In name deleted -> exists c, In c cs /\ gc_name c = name /\ gc_trigger i ps c
  | _, _ => deleted = []
  end.

Lemma gc_trigger_b_iff i ps c : gc_trigger_b i ps c = true <-> gc_trigger i ps c.
Proof.
  unfold gc_trigger_b, gc_trigger. rewrite !andb_true_iff, negb_true_iff, mem_false_In.
  split.
  - intros ((Hr & Hn) & Hl). repeat split; [exact Hr|exact Hn|].
    destruct (node_lookup i (gc_pid c)) as [[|]| | |]; try discriminate; auto.
  - intros (Hr & Hn & Hl). repeat split; [exact Hr|exact Hn|].
    destruct Hl as [Hl|[Hl|Hl]]; rewrite Hl; reflexivity.
Qed.

Lemma gc_holds_b_iff i dl : gc_holds_b i dl = true <-> gc_holds i dl.
Proof.
  unfold gc_holds_b, gc_holds.
  destruct (g_claims i) as [cs|]; [destruct (g_provider i) as [ps|]|].
  - rewrite forallb_forall. split.
    + intros H name Hin. specialize (H name Hin). apply existsb_exists in H.
      destruct H as (c & Hc & Hb). apply andb_true_iff in Hb. destruct Hb as [Hn Ht].
      exists c. split; [exact Hc|]. split; [apply String.eqb_eq; exact Hn|apply gc_trigger_b_iff; exact Ht].
    + intros H name Hin. destruct (H name Hin) as (c & Hc & Hn & Ht).
      apply existsb_exists. exists c. split; [exact Hc|]. apply andb_true_iff. split.
      * apply String.eqb_eq. exact Hn.
      * apply gc_trigger_b_iff. exact Ht.
  - destruct dl; split; intros H; try reflexivity; discriminate.
  - destruct dl; split; intros H; try reflexivity; discriminate.
Qed.

Lemma gc_candidate_spec ids c : gc_candidate ids c = true ->
  gc_managed c = true /\ gc_registered c = true /\ gc_deleting c = false /\ ~ In (gc_pid c) ids.
Proof.
  unfold gc_candidate. rewrite !andb_true_iff, !negb_true_iff, mem_false_In. tauto.
Qed.

Lemma gc_one_deletes i c : gact_deletes (gc_one i c) = true ->
  node_lookup i (gc_pid c) = NotFound \/ node_lookup i (gc_pid c) = Found false \/
  node_lookup i (gc_pid c) = Duplicate.
Proof.
  unfold gc_one. destruct (node_lookup i (gc_pid c)) as [[|]| | |]; simpl; try discriminate; auto.
Qed.

(* every name the model deletes comes from a candidate claim whose lookup allowed it *)
Lemma gc_deleted_inv i cs ps name :
  g_claims i = Some cs -> g_provider i = Some ps -> In name (fst (gc i)) ->
  exists c, In c cs /\ gc_name c = name /\ gc_candidate (live_ids ps) c = true /\
            gact_deletes (gc_one i c) = true.
Proof.
  intros Hc Hp. unfold gc, gc_with. rewrite Hc, Hp. simpl. intros Hin.
  apply in_map_iff in Hin. destruct Hin as (c & Hn & Hf).
  apply filter_In in Hf. destruct Hf as [Hf Hd]. apply filter_In in Hf. destruct Hf as [Hin Hcand].
  exists c. repeat split; assumption.
Qed.

Lemma gc_sound i : gc_holds i (fst (gc i)).
Proof.
  unfold gc_holds. destruct (g_claims i) as [cs|] eqn:Hc; [destruct (g_provider i) as [ps|] eqn:Hp|].
  - intros name Hin. destruct (gc_deleted_inv i cs ps name Hc Hp Hin) as (c & Hin' & Hn & Hcand & Hd).
    exists c. repeat split; try assumption.
    + apply gc_candidate_spec in Hcand. tauto.
    + apply gc_candidate_spec in Hcand. tauto.
    + apply gc_one_deletes. exact Hd.
  - unfold gc, gc_with. rewrite Hc, Hp. reflexivity.
  - unfold gc, gc_with. rewrite Hc. reflexivity.
Qed.

(* when one of the two list calls fails nothing is deleted and the reconcile reports the error *)
Lemma gc_failed_lists_l i : g_claims i = None \/ g_provider i = None -> gc i = ([], RErr).
Proof.
  unfold gc, gc_with. intros [H|H]; rewrite H; [reflexivity|]. destruct (g_claims i); reflexivity.
Qed.

(* a failed Node lookup never leads to a Delete of that claim ... *)
Lemma gc_one_failed i c : node_lookup i (gc_pid c) = Failed -> gc_one i c = GLookupErr.
Proof. unfold gc_one. intros ->. reflexivity. Qed.

Lemma gc_one_ready i c : node_lookup i (gc_pid c) = Found true -> gc_one i c = GSkip.
Proof. unfold gc_one. intros ->. reflexivity. Qed.

(* ... stated on the reconcile: with unique claim names, the claim whose lookup failed (or whose
   Node is Ready) is not among the deleted names *)
Lemma gc_not_deleted_when i cs c :
  g_claims i = Some cs -> NoDup (map gc_name cs) -> In c cs ->
  gact_deletes (gc_one i c) = false -> ~ In (gc_name c) (fst (gc i)).
Proof.
  intros Hc Hnd Hin Hno Hdel.
  destruct (g_provider i) as [ps|] eqn:Hp.
  - destruct (gc_deleted_inv i cs ps _ Hc Hp Hdel) as (c' & Hin' & Hn & _ & Hd).
    assert (c' = c) as ->.
    { clear - Hnd Hin Hin' Hn. induction cs as [|x cs IH]; [inversion Hin|].
      simpl in Hnd. inversion Hnd as [|? ? Hnotin Hnd']. subst.
      destruct Hin as [->|Hin], Hin' as [->|Hin'].
      - reflexivity.
      - exfalso. apply Hnotin. rewrite <- Hn. apply in_map. exact Hin'.
      - exfalso. apply Hnotin. rewrite Hn. apply in_map. exact Hin.
      - apply IH; assumption. }
    rewrite Hd in Hno. discriminate.
  - rewrite (gc_failed_lists_l i (or_intror Hp)) in Hdel. inversion Hdel.
Qed.

Lemma gc_no_delete_on_failed_lookup_l i cs c :
  g_claims i = Some cs -> NoDup (map gc_name cs) -> In c cs ->
  node_lookup i (gc_pid c) = Failed -> ~ In (gc_name c) (fst (gc i)).
Proof.
  intros Hc Hnd Hin Hf. apply (gc_not_deleted_when i cs c Hc Hnd Hin).
  rewrite (gc_one_failed i c Hf). reflexivity.
Qed.

Lemma gc_failed_lookup_reports_error i cs ps c :
  g_claims i = Some cs -> g_provider i = Some ps -> In c cs ->
  gc_candidate (live_ids ps) c = true -> node_lookup i (gc_pid c) = Failed -> snd (gc i) = RErr.
Proof.
  intros Hc Hp Hin Hcand Hf. unfold gc, gc_with. rewrite Hc, Hp. simpl.
  replace (existsb (fun c0 => gact_err (gc_one i c0)) (filter (gc_candidate (live_ids ps)) cs)) with true; [reflexivity|].
  symmetry. apply existsb_exists. exists c. split.
  - apply filter_In. split; assumption.
  - rewrite (gc_one_failed i c Hf). reflexivity.
Qed.

Lemma gc_ready_node_protects_l i cs c :
  g_claims i = Some cs -> NoDup (map gc_name cs) -> In c cs ->
  node_lookup i (gc_pid c) = Found true -> ~ In (gc_name c) (fst (gc i)).
Proof.
  intros Hc Hnd Hin Hf. apply (gc_not_deleted_when i cs c Hc Hnd Hin).
  rewrite (gc_one_ready i c Hf). reflexivity.
Qed.

(* Spec on the API-state level, under the property's precondition "its Node" (at most one Node
   per provider id): the provider does not list the instance as live, no lookup failed, and every
   Node carrying the claim's provider id is not Ready. *)
Definition nodes_unique (i : gc_in) : Prop :=
  forall pid, (List.length (filter (fun n => String.eqb (gn_pid n) pid) (g_nodes i)) <= 1)%nat.

Definition its_nodes (i : gc_in) (pid : string) : list gnode :=
  if String.eqb pid "" then [] else filter (fun n => String.eqb (gn_pid n) pid) (g_nodes i).

Lemma node_lookup_state i pid : nodes_unique i ->
  (node_lookup i pid = NotFound \/ node_lookup i pid = Found false \/ node_lookup i pid = Duplicate) ->
  (pid = ""%string \/ ~ In pid (g_nodefail i)) /\ forall n, In n (its_nodes i pid) -> gn_ready n = false.
Proof.
  intros Hu H. specialize (Hu pid). unfold node_lookup, its_nodes in *.
  destruct (String.eqb_spec pid "") as [->|Hne].
  - split; [left; reflexivity|intros n []].
  - destruct (mem pid (g_nodefail i)) eqn:Hm.
    + destruct H as [H|[H|H]]; discriminate.
    + split; [right; apply mem_false_In; exact Hm|].
      destruct (filter (fun n => String.eqb (gn_pid n) pid) (g_nodes i)) as [|n [|n' l]] eqn:Hf.
      * intros n [].
      * intros n0 [<-|[]]. destruct H as [H|[H|H]]; try discriminate. inversion H. reflexivity.
      * simpl in Hu. lia.
Qed.

Lemma gc_delete_only_on_trigger_l i name : nodes_unique i -> In name (fst (gc i)) ->
  exists cs ps c, g_claims i = Some cs /\ g_provider i = Some ps /\ In c cs /\ gc_name c = name /\
    gc_managed c = true /\ gc_registered c = true /\ gc_deleting c = false /\
    ~ In (gc_pid c) (live_ids ps) /\
    (gc_pid c = ""%string \/ ~ In (gc_pid c) (g_nodefail i)) /\
    forall n, In n (its_nodes i (gc_pid c)) -> gn_ready n = false.
Proof.
  intros Hu Hin.
  destruct (g_claims i) as [cs|] eqn:Hc; [|rewrite (gc_failed_lists_l i (or_introl Hc)) in Hin; inversion Hin].
  destruct (g_provider i) as [ps|] eqn:Hp; [|rewrite (gc_failed_lists_l i (or_intror Hp)) in Hin; inversion Hin].
  destruct (gc_deleted_inv i cs ps name Hc Hp Hin) as (c & Hin' & Hn & Hcand & Hd).
  apply gc_candidate_spec in Hcand. destruct Hcand as (Hm & Hr & Hdel & Hnl).
  destruct (node_lookup_state i (gc_pid c) Hu (gc_one_deletes i c Hd)) as [Hnf Hnr].
  exists cs, ps, c. repeat split; assumption.
Qed.

(* F3: the closure before commit 85caa9282 deleted on a failed lookup. *)
Definition f3_input : gc_in :=
  mkGc (Some [mkGClaim "a" true true false "p1" AOk]) (Some []) [mkGNode "p1" true] ["p1"%string].

Lemma gc_prefix_refuted_l :
  exists i cs c, g_claims i = Some cs /\ In c cs /\ NoDup (map gc_name cs) /\
    node_lookup i (gc_pid c) = Failed /\ In (gc_name c) (fst (gc_prefix i)).
Proof.
  exists f3_input, [mkGClaim "a" true true false "p1" AOk], (mkGClaim "a" true true false "p1" AOk).
  vm_compute. repeat split; auto.
  - constructor; [intros []|constructor].
Qed.

(* the pre-fix closure agrees with the fixed one whenever no lookup fails *)
Lemma gc_prefix_partial_l i :
  (forall cs c, g_claims i = Some cs -> In c cs -> node_lookup i (gc_pid c) <> Failed) ->
  fst (gc_prefix i) = fst (gc i).
Proof.
  intros H. unfold gc_prefix, gc, gc_with.
  destruct (g_claims i) as [cs|] eqn:Hc; [|reflexivity].
  destruct (g_provider i) as [ps|]; [|reflexivity]. simpl. f_equal.
  apply filter_ext_in. intros c Hin. apply filter_In in Hin. destruct Hin as [Hin _].
  specialize (H cs c eq_refl Hin). unfold gc_one_prefix, gc_one.
  destruct (node_lookup i (gc_pid c)) as [[|]| | |]; try reflexivity. contradiction.
Qed.

(* Strict reading of "the provider no longer lists its instance": the instance does not occur in
   cloudProvider.List at all. The code filters the listing by DeletionTimestamp.IsZero(), so an
   instance that is listed as terminating counts as not listed. *)
Definition terminating_input : gc_in :=
  mkGc (Some [mkGClaim "a" true true false "p1" AOk]) (Some [mkGInst "p1" true]) [] [].

Lemma gc_strict_unlisted_refuted_l :
  exists i ps c, g_provider i = Some ps /\ g_claims i = Some [c] /\
    In (gc_name c) (fst (gc i)) /\ In (gc_pid c) (map gi_pid ps).
Proof.
  exists terminating_input, [mkGInst "p1" true], (mkGClaim "a" true true false "p1" AOk).
  vm_compute. repeat split; auto.
Qed.

Lemma live_ids_all ps : (forall p, In p ps -> gi_deleting p = false) -> live_ids ps = map gi_pid ps.
Proof.
  unfold live_ids. induction ps as [|p ps IH]; intros H; simpl; [reflexivity|].
  rewrite (H p (or_introl eq_refl)). simpl. f_equal. apply IH. intros q Hq. apply H. right. exact Hq.
Qed.

Lemma gc_strict_unlisted_partial_l i ps name :
  g_provider i = Some ps -> (forall p, In p ps -> gi_deleting p = false) ->
  In name (fst (gc i)) ->
  exists cs c, g_claims i = Some cs /\ In c cs /\ gc_name c = name /\ ~ In (gc_pid c) (map gi_pid ps).
Proof.
  intros Hp Hall Hin.
  destruct (g_claims i) as [cs|] eqn:Hc; [|rewrite (gc_failed_lists_l i (or_introl Hc)) in Hin; inversion Hin].
  destruct (gc_deleted_inv i cs ps name Hc Hp Hin) as (c & Hin' & Hn & Hcand & _).
  apply gc_candidate_spec in Hcand. destruct Hcand as (_ & _ & _ & Hnl).
  rewrite (live_ids_all ps Hall) in Hnl. exists cs, c. repeat split; assumption.
Qed.

(* ---- the two snapshot reads of a pass, with the cluster changing in between ---- *)

(* For EVERY trace of cluster states (any environment events at any instants) and any two read
   instants with the NodeClaim list not after the provider list: a deleted claim was observed
   Registered at [ti], and at some instant at or after [ti] the provider did not list its instance
   as live. *)
Lemma gc_pass_sound_l (tr : nat -> gworld) ti tj nodes nf name : (ti <= tj)%nat ->
  In name (fst (gc_pass tr ti tj nodes nf)) ->
  exists c, In c (w_claims (tr ti)) /\ gc_name c = name /\ gc_registered c = true /\
    exists t, (ti <= t)%nat /\ ~ In (gc_pid c) (live_ids (w_insts (tr t))).
Proof.
  intros Hle Hin. unfold gc_pass in Hin.
  destruct (gc_deleted_inv (mkGc (Some (w_claims (tr ti))) (Some (w_insts (tr tj))) nodes nf)
              (w_claims (tr ti)) (w_insts (tr tj)) name eq_refl eq_refl Hin)
    as (c & Hc & Hn & Hcand & _).
  apply gc_candidate_spec in Hcand. destruct Hcand as (_ & Hr & _ & Hnl).
  exists c. repeat split; try assumption. exists tj. split; assumption.
Qed.

(* With the reads in the opposite order this is false: a claim that launches and registers between
   the provider list (instant 0) and the NodeClaim list (instant 1) is deleted although its instance
   is listed at every instant from its observation on. *)
Definition fresh_claim : gclaim := mkGClaim "fresh" true true false "p1" AOk.
Definition launch_trace (t : nat) : gworld :=
  match t with O => mkGWorld [] [] | S _ => mkGWorld [fresh_claim] [mkGInst "p1" false] end.

Lemma gc_pass_swapped_refuted_l :
  exists (tr : nat -> gworld) ti tj nodes nf name, (tj < ti)%nat /\
    In name (fst (gc_pass tr ti tj nodes nf)) /\
    forall c, In c (w_claims (tr ti)) -> gc_name c = name ->
      forall t, (ti <= t)%nat -> In (gc_pid c) (live_ids (w_insts (tr t))).
Proof.
  exists launch_trace, 1%nat, O, [mkGNode "p1" false], [], "fresh"%string.
  split; [lia|]. split; [vm_compute; auto|].
  intros c [<-|[]] _ t Ht. destruct t as [|t]; [lia|]. vm_compute. auto.
Qed.

(* the opposite order is only equivalent on a cluster that does not change between the reads *)
Lemma gc2_swapped_partial_l w nodes nf : gc2_swapped w w nodes nf = gc2 w w nodes nf.
Proof. reflexivity. Qed.

(* Spec for a pass with an observed read order, over the pass's two instants. *)
Definition gc2_holds (o : gorder) (w0 w1 : gworld) (nodes : list gnode) (nf : list string) (deleted : list string) : Prop :=
  forall name, In name deleted -> exists c,
    In c (w_claims (tl2 w0 w1 (obs_instant o))) /\ gc_name c = name /\ gc_registered c = true /\
    (exists t, (obs_instant o <= t <= 1)%nat /\ ~ In (gc_pid c) (live_ids (w_insts (tl2 w0 w1 t)))) /\
    (node_lookup (mkGc None None nodes nf) (gc_pid c) = NotFound \/
     node_lookup (mkGc None None nodes nf) (gc_pid c) = Found false \/
     node_lookup (mkGc None None nodes nf) (gc_pid c) = Duplicate).

Lemma absent_after_b_iff o w0 w1 pid : absent_after_b o w0 w1 pid = true <->
  exists t, (obs_instant o <= t <= 1)%nat /\ ~ In pid (live_ids (w_insts (tl2 w0 w1 t))).
Proof.
  destruct o; unfold absent_after_b; simpl.
  - rewrite orb_true_iff, !negb_true_iff, !mem_false_In. split.
    + intros [H|H]; [exists O|exists 1%nat]; (split; [lia|exact H]).
    + intros (t & Ht & H). destruct t as [|[|t]]; [left|right|lia]; exact H.
  - rewrite negb_true_iff, mem_false_In. split.
    + intros H. exists 1%nat. split; [lia|exact H].
    + intros (t & Ht & H). destruct t as [|[|t]]; try lia. exact H.
Qed.

Lemma gc2_holds_b_iff o w0 w1 nodes nf dl : gc2_holds_b o w0 w1 nodes nf dl = true <-> gc2_holds o w0 w1 nodes nf dl.
Proof.
  unfold gc2_holds_b, gc2_holds. cbv zeta. rewrite forallb_forall. split.
  - intros H name Hin. specialize (H name Hin). apply existsb_exists in H. destruct H as (c & Hc & Hb).
    rewrite !andb_true_iff in Hb. destruct Hb as [[[Hn Hr] Ha] Hl].
    exists c. split; [exact Hc|]. split; [apply String.eqb_eq; exact Hn|]. split; [exact Hr|].
    split; [apply absent_after_b_iff; exact Ha|].
    destruct (node_lookup (mkGc None None nodes nf) (gc_pid c)) as [[|]| | |]; try discriminate; auto.
  - intros H name Hin. destruct (H name Hin) as (c & Hc & Hn & Hr & Ha & Hl).
    apply existsb_exists. exists c. split; [exact Hc|]. rewrite !andb_true_iff.
    split; [split; [split|]|].
    + apply String.eqb_eq. exact Hn.
    + exact Hr.
    + apply absent_after_b_iff. exact Ha.
    + destruct Hl as [Hl|[Hl|Hl]]; rewrite Hl; reflexivity.
Qed.

(* the code's order satisfies it, whatever happens between the reads *)
Lemma gc2_sound w0 w1 nodes nf : gc2_holds ClaimsFirst w0 w1 nodes nf (fst (gc2 w0 w1 nodes nf)).
Proof.
  intros name Hin. unfold gc2, gc_pass in Hin. simpl in Hin.
  destruct (gc_deleted_inv (mkGc (Some (w_claims w0)) (Some (w_insts w1)) nodes nf)
              (w_claims w0) (w_insts w1) name eq_refl eq_refl Hin) as (c & Hc & Hn & Hcand & Hd).
  apply gc_candidate_spec in Hcand. destruct Hcand as (_ & Hr & _ & Hnl).
  exists c. split; [exact Hc|]. split; [exact Hn|]. split; [exact Hr|]. split.
  - exists 1%nat. split; [simpl; lia|exact Hnl].
  - apply gc_one_deletes in Hd. exact Hd.
Qed.

(* the opposite order does not *)
Lemma gc2_swapped_refuted_l : exists w0 w1 nodes nf,
  ~ gc2_holds ProviderFirst w0 w1 nodes nf (fst (gc2_swapped w0 w1 nodes nf)).
Proof.
  exists (launch_trace 0), (launch_trace 1), [mkGNode "p1" false], [].
  intros H. apply gc2_holds_b_iff in H. vm_compute in H. discriminate.
Qed.

(* ------------------------------------------------------------------ liveness *)

Definition lv_holds (i : lv_in) (deletes : nat) : Prop :=
  (0 < deletes)%nat ->
  (forall t, l_registered i <> Some (CTrue, t)) /\
  ((exists s lt, l_launched i = Some (s, lt) /\ s <> CTrue /\ launch_timeout <= l_now i - lt) \/
   (exists s rt, l_registered i = Some (s, rt) /\ s <> CTrue /\ reg_timeout <= l_now i - rt)).

Lemma is_true_false s : is_true s = false <-> s <> CTrue.
Proof. destruct s; simpl; split; intros H; try reflexivity; try discriminate; try congruence; try (exfalso; apply H; reflexivity). Qed.

Lemma registered_true_false i : registered_true i = false <-> forall t, l_registered i <> Some (CTrue, t).
Proof.
  unfold registered_true. destruct (l_registered i) as [[[| |] t]|]; split; intros H; try reflexivity; try discriminate;
    try (intros t' H'; discriminate).
  exfalso. apply (H t). reflexivity.
Qed.

Lemma launch_timed_out_iff i : launch_timed_out i = true <->
  exists s lt, l_launched i = Some (s, lt) /\ s <> CTrue /\ launch_timeout <= l_now i - lt.
Proof.
  unfold launch_timed_out. destruct (l_launched i) as [[s lt]|].
  - rewrite andb_true_iff, negb_true_iff, is_true_false, Z.leb_le. split.
    + intros [Hs Ht]. exists s, lt. auto.
    + intros (s' & lt' & He & Hs & Ht). inversion He. subst. auto.
  - split; [discriminate|]. intros (s & lt & He & _). discriminate.
Qed.

Lemma reg_timed_out_iff i : reg_timed_out i = true <->
  exists s rt, l_registered i = Some (s, rt) /\ s <> CTrue /\ reg_timeout <= l_now i - rt.
Proof.
  unfold reg_timed_out. destruct (l_registered i) as [[s rt]|].
  - rewrite andb_true_iff, negb_true_iff, is_true_false, Z.leb_le. split.
    + intros [Hs Ht]. exists s, rt. auto.
    + intros (s' & rt' & He & Hs & Ht). inversion He. subst. auto.
  - split; [discriminate|]. intros (s & rt & He & _). discriminate.
Qed.

Lemma lv_holds_b_iff i n : lv_holds_b i n = true <-> lv_holds i n.
Proof.
  unfold lv_holds_b, lv_holds. destruct n as [|n].
  - split; [intros _ H; inversion H|reflexivity].
  - rewrite andb_true_iff, negb_true_iff, orb_true_iff, registered_true_false, launch_timed_out_iff, reg_timed_out_iff.
    split; [intros H _; exact H|intros H; apply H; apply Nat.lt_0_succ].
Qed.

(* the registration phase adds a Delete only when the registration timeout has elapsed *)
Lemma lv_reg_phase_inv i n : registered_true i = false ->
  fst (lv_reg_phase i n) = n \/ (fst (lv_reg_phase i n) = S n /\ reg_timed_out i = true).
Proof.
  unfold lv_reg_phase, reg_timed_out, registered_true. intros Hr.
  destruct (l_registered i) as [[s rt]|]; [|left; reflexivity].
  destruct (Z.ltb_spec 0 (reg_timeout - (l_now i - rt))) as [Hlt|Hge]; [left; reflexivity|].
  destruct (nth_pool i n); try (left; reflexivity).
  right. split; [reflexivity|]. apply andb_true_iff. split.
  - destruct s; simpl; try reflexivity. discriminate.
  - apply Z.leb_le. lia.
Qed.

Lemma liveness_gen_sound ft i :
  lv_holds i (fst (if registered_true i then (O, ROk) else lv_launch_phase_gen ft i)).
Proof.
  intros Hpos.
  destruct (registered_true i) eqn:Hrf; [simpl in Hpos; inversion Hpos|].
  split; [apply registered_true_false; exact Hrf|].
  unfold lv_launch_phase_gen in Hpos.
  destruct (l_launched i) as [[ls lt]|] eqn:Hl; [|simpl in Hpos; inversion Hpos].
  destruct (is_true ls) eqn:Hls.
  - right. apply reg_timed_out_iff.
    destruct (lv_reg_phase_inv i O Hrf) as [H0|[_ H]]; [rewrite H0 in Hpos; inversion Hpos|exact H].
  - cbv zeta in Hpos.
    destruct (Z.ltb_spec 0 (launch_timeout - (l_now i - lt))) as [Hlt|Hge]; [simpl in Hpos; inversion Hpos|].
    left. exists ls, lt. split; [reflexivity|]. split; [apply is_true_false; exact Hls|lia].
Qed.

Lemma liveness_sound i : lv_holds i (fst (liveness i)).
Proof. exact (liveness_gen_sound false i). Qed.

Lemma liveness_prefix_sound i : lv_holds i (fst (liveness_prefix i)).
Proof. exact (liveness_gen_sound true i). Qed.

(* a failed (non-NotFound) NodePool read/patch before the first Delete prevents any Delete *)
Lemma liveness_pool_failure_blocks_l i : nth_pool i O <> HProceed -> fst (liveness i) = O.
Proof.
  intros Hp. unfold liveness. destruct (registered_true i); [reflexivity|].
  unfold lv_launch_phase, lv_launch_phase_gen. destruct (l_launched i) as [[ls lt]|]; [|reflexivity].
  destruct (is_true ls).
  - unfold lv_reg_phase. destruct (l_registered i) as [[s rt]|]; [|reflexivity].
    destruct (0 <? reg_timeout - (l_now i - rt)); [reflexivity|].
    destruct (nth_pool i O); try reflexivity; contradiction.
  - cbv zeta. destruct (0 <? launch_timeout - (l_now i - lt)); [reflexivity|].
    destruct (nth_pool i O); try reflexivity; contradiction.
Qed.

(* one reconcile issues at most one Delete (since 3cbc43e89) *)
Lemma liveness_at_most_one_delete_l i : (fst (liveness i) <= 1)%nat.
Proof.
  unfold liveness. destruct (registered_true i) eqn:Hrf; [simpl; lia|].
  pose proof (lv_reg_phase_inv i O Hrf) as H0.
  unfold lv_launch_phase, lv_launch_phase_gen.
  destruct (l_launched i) as [[ls lt]|]; [|simpl; lia].
  destruct (is_true ls).
  - destruct H0 as [H0|[H0 _]]; rewrite H0; lia.
  - cbv zeta. destruct (0 <? launch_timeout - (l_now i - lt)); [simpl; lia|].
    destruct (nth_pool i O); try (simpl; lia). destruct (nth_del i O); simpl; lia.
Qed.

(* before the fix: a second Delete in the same reconcile when both timeouts had elapsed *)
Definition double_delete_input : lv_in :=
  mkLv (Some (CUnknown, 0)) (Some (CFalse, 0)) reg_timeout [(Some AOk, None); (Some AOk, None)] [AOk; AOk].

Lemma liveness_prefix_double_delete_l : exists i, fst (liveness_prefix i) = 2%nat.
Proof. exists double_delete_input. vm_compute. reflexivity. Qed.

(* ... and only then: the old code agrees with the fixed one unless the registration timeout has elapsed too *)
Lemma liveness_prefix_partial_l i : reg_timed_out i = false -> fst (liveness_prefix i) = fst (liveness i).
Proof.
  intros Hr. unfold liveness_prefix, liveness. destruct (registered_true i) eqn:Hrf; [reflexivity|].
  pose proof (lv_reg_phase_inv i 1%nat Hrf) as H1.
  unfold lv_launch_phase, lv_launch_phase_gen.
  destruct (l_launched i) as [[ls lt]|]; [|reflexivity].
  destruct (is_true ls); [reflexivity|]. cbv zeta.
  destruct (0 <? launch_timeout - (l_now i - lt)); [reflexivity|].
  destruct (nth_pool i O); try reflexivity. destruct (nth_del i O); try reflexivity.
  destruct H1 as [H1|[_ Ht]]; [rewrite H1; reflexivity|]. rewrite Ht in Hr. discriminate.
Qed.

(* ------------------------------------------------------------------ node repair *)

Lemma threshold_spec u n : u <= threshold n <-> 5 * u < n + 5.
Proof.
  unfold threshold.
  pose proof (Z.div_mod (20 * n + 99) 100 ltac:(lia)) as Hdm.
  pose proof (Z.mod_pos_bound (20 * n + 99) 100 ltac:(lia)) as Hb.
  split; intros H; lia.
Qed.

(* threshold n is the ceiling of n/5: the least t with 5 t >= n *)
Lemma threshold_ceil n : n <= 5 * threshold n /\ 5 * (threshold n - 1) < n.
Proof.
  unfold threshold.
  pose proof (Z.div_mod (20 * n + 99) 100 ltac:(lia)) as Hdm.
  pose proof (Z.mod_pos_bound (20 * n + 99) 100 ltac:(lia)) as Hb.
  split; lia.
Qed.

Lemma nodes_healthy_iff ps ns : nodes_healthy ps ns = true <-> breaker_ok_b ps ns = true.
Proof.
  unfold nodes_healthy, breaker_ok_b. rewrite Z.leb_le, Z.ltb_lt. apply threshold_spec.
Qed.

(* Spec: a Delete implies that exactly one NodeClaim resolved, some repair policy matches a
   condition of the node that has lasted the policy's toleration, the node list was read, and
   at most 20% (rounded up) of the counted nodes are unhealthy. *)
Definition lasted (i : rp_in) (p : policy) : Prop :=
  nc_status (get_cond (r_conds i) (rp_type p)) = rp_status p /\
  nc_time (get_cond (r_conds i) (rp_type p)) + rp_tol p <= r_now i.

Definition rp_holds (i : rp_in) (deletes : nat) : Prop :=
  (0 < deletes)%nat ->
  exists c, claim_lookup i = Found c /\
    (exists p, In p (r_policies i) /\ lasted i p) /\
    r_nodes_resp i = AOk /\
    5 * unhealthy_count (r_policies i) (breaker_nodes i c) < Z.of_nat (List.length (breaker_nodes i c)) + 5.

Lemma lasted_b_iff i p : lasted_b i p = true <-> lasted i p.
Proof.
  unfold lasted_b, lasted, matches. rewrite andb_true_iff, String.eqb_eq, Z.leb_le. tauto.
Qed.

Lemma rp_holds_b_iff i n : rp_holds_b i n = true <-> rp_holds i n.
Proof.
  unfold rp_holds_b, rp_holds. destruct n as [|n].
  - split; [intros _ H; inversion H|reflexivity].
  - destruct (claim_lookup i) as [c| | |].
    + rewrite !andb_true_iff, existsb_exists. unfold breaker_ok_b. rewrite Z.ltb_lt. split.
      * intros [[[p [Hp Hl]] Hr] Hb] _. exists c. split; [reflexivity|]. split.
        { exists p. split; [exact Hp|apply lasted_b_iff; exact Hl]. }
        split; [destruct (r_nodes_resp i); try discriminate; reflexivity|exact Hb].
      * intros H. destruct (H (Nat.lt_0_succ n)) as (c' & Hc & (p & Hp & Hl) & Hr & Hb).
        inversion Hc. subst c'. split; [split|exact Hb].
        { exists p. split; [exact Hp|apply lasted_b_iff; exact Hl]. }
        rewrite Hr. reflexivity.
    + split; [discriminate|]. intros H. destruct (H (Nat.lt_0_succ n)) as (c' & Hc & _). discriminate.
    + split; [discriminate|]. intros H. destruct (H (Nat.lt_0_succ n)) as (c' & Hc & _). discriminate.
    + split; [discriminate|]. intros H. destruct (H (Nat.lt_0_succ n)) as (c' & Hc & _). discriminate.
Qed.

(* findUnhealthyConditions returns the condition and toleration of some matching policy *)
Definition fu_inv (cs : list ncond) (ps : list policy) (acc : option (ncond * Z) * Z) : Prop :=
  match fst acc with
  | None => True
  | Some (c, tol) => exists p, In p ps /\ matches cs p = true /\ c = get_cond cs (rp_type p) /\ tol = rp_tol p
  end.

Lemma fu_fold_inv cs all ps acc :
  (forall p, In p ps -> In p all) -> fu_inv cs all acc -> fu_inv cs all (fold_left (fu_step cs) ps acc).
Proof.
  revert acc. induction ps as [|p ps IH]; intros acc Hsub Hacc; simpl; [exact Hacc|].
  apply IH; [intros q Hq; apply Hsub; right; exact Hq|].
  unfold fu_step. destruct (matches cs p) eqn:Hm; [|exact Hacc].
  destruct ((snd acc =? zero_time) || (nc_time (get_cond cs (rp_type p)) + rp_tol p <? snd acc)); [|exact Hacc].
  unfold fu_inv. simpl. exists p. split; [apply Hsub; left; reflexivity|]. auto.
Qed.

Lemma find_unhealthy_some cs ps c tol : find_unhealthy cs ps = Some (c, tol) ->
  exists p, In p ps /\ matches cs p = true /\ c = get_cond cs (rp_type p) /\ tol = rp_tol p.
Proof.
  unfold find_unhealthy. intros H.
  pose proof (fu_fold_inv cs ps ps (None, zero_time) (fun p Hp => Hp) I) as Hinv.
  unfold fu_inv in Hinv. rewrite H in Hinv. exact Hinv.
Qed.

(* ... and returns nothing exactly when no policy matches *)
Lemma fu_fold_some_stays cs ps acc :
  (exists x, fst acc = Some x) -> exists x, fst (fold_left (fu_step cs) ps acc) = Some x.
Proof.
  revert acc. induction ps as [|q ps IH]; intros acc Ha; simpl; [exact Ha|]. apply IH.
  unfold fu_step. destruct (matches cs q); [|exact Ha].
  destruct ((snd acc =? zero_time) || (nc_time (get_cond cs (rp_type q)) + rp_tol q <? snd acc)); [|exact Ha].
  simpl. eexists; reflexivity.
Qed.

Lemma fu_fold_none cs ps acc : fst acc = None -> snd acc = zero_time ->
  (fst (fold_left (fu_step cs) ps acc) = None <-> forall p, In p ps -> matches cs p = false).
Proof.
  revert acc. induction ps as [|p ps IH]; intros acc Hacc Hz; simpl.
  - split; [intros _ p []|intros _; exact Hacc].
  - destruct (matches cs p) eqn:Hm.
    + split.
      * intros H. exfalso.
        destruct (fu_fold_some_stays cs ps (fu_step cs acc p)) as [x Hx].
        { unfold fu_step. rewrite Hm, Hz, Z.eqb_refl. simpl. eexists; reflexivity. }
        rewrite Hx in H. discriminate.
      * intros H. specialize (H p (or_introl eq_refl)). rewrite Hm in H. discriminate.
    + assert (Hstep : fu_step cs acc p = acc) by (unfold fu_step; rewrite Hm; reflexivity).
      rewrite Hstep, (IH acc Hacc Hz). split.
      * intros H q [<-|Hq]; [exact Hm|apply H; exact Hq].
      * intros H q Hq. apply H. right. exact Hq.
Qed.

Lemma find_unhealthy_none cs ps :
  find_unhealthy cs ps = None <-> forall p, In p ps -> matches cs p = false.
Proof. unfold find_unhealthy. apply fu_fold_none; reflexivity. Qed.

(* the selected termination time is the earliest among the matching policies, unless some
   matching policy's termination time is the zero time (the code uses IsZero as "unset") *)
Definition term_time (cs : list ncond) (p : policy) : Z := nc_time (get_cond cs (rp_type p)) + rp_tol p.

Lemma fu_fold_min cs ps acc :
  (forall p, In p ps -> matches cs p = true -> term_time cs p <> zero_time) ->
  (match fst acc with Some (c, tol) => snd acc = nc_time c + tol /\ snd acc <> zero_time | None => snd acc = zero_time end) ->
  let r := fold_left (fu_step cs) ps acc in
  (match fst r with Some (c, tol) => snd r = nc_time c + tol /\ snd r <> zero_time | None => snd r = zero_time end) /\
  (forall p, In p ps -> matches cs p = true -> snd r <= term_time cs p) /\
  (fst acc <> None -> snd r <= snd acc).
Proof.
  revert acc. induction ps as [|p ps IH]; intros acc Hnz Hacc; simpl.
  - split; [exact Hacc|]. split; [intros p []|intros _; lia].
  - assert (Hnz' : forall q, In q ps -> matches cs q = true -> term_time cs q <> zero_time)
      by (intros q Hq; apply Hnz; right; exact Hq).
    assert (Hstep :
      (match fst (fu_step cs acc p) with
       | Some (c, tol) => snd (fu_step cs acc p) = nc_time c + tol /\ snd (fu_step cs acc p) <> zero_time
       | None => snd (fu_step cs acc p) = zero_time end) /\
      (matches cs p = true -> fst (fu_step cs acc p) <> None /\ snd (fu_step cs acc p) <= term_time cs p) /\
      (fst acc <> None -> fst (fu_step cs acc p) <> None /\ snd (fu_step cs acc p) <= snd acc)).
    { unfold fu_step. destruct (matches cs p) eqn:Hm.
      - fold (term_time cs p). pose proof (Hnz p (or_introl eq_refl) Hm) as Hp.
        destruct (Z.eqb_spec (snd acc) zero_time) as [Hz|Hz]; simpl.
        + split; [split; [reflexivity|exact Hp]|]. split; [intros _; split; [discriminate|lia]|].
          intros Hsome. destruct (fst acc) as [[c tol]|]; [|contradiction]. destruct Hacc as [_ Hacc]. contradiction.
        + destruct (Z.ltb_spec (term_time cs p) (snd acc)) as [Hlt|Hge]; simpl.
          * split; [split; [reflexivity|exact Hp]|]. split; [intros _; split; [discriminate|lia]|].
            intros _. split; [discriminate|lia].
          * split; [exact Hacc|]. destruct (fst acc) as [[c tol]|] eqn:Hfa; [|contradiction].
            split; [intros _; split; [discriminate|lia]|]. intros _. split; [discriminate|lia].
      - split; [exact Hacc|]. split; [discriminate|]. intros H. split; [exact H|lia]. }
    destruct Hstep as (Hwf & Hp & Hmono).
    destruct (IH (fu_step cs acc p) Hnz' Hwf) as (Hwf' & Hall & Hle).
    split; [exact Hwf'|]. split.
    + intros q [<-|Hq] Hm; [|apply Hall; assumption].
      destruct (Hp Hm) as [Hs Hle']. specialize (Hle Hs). lia.
    + intros Hsome. destruct (Hmono Hsome) as [Hs Hle']. specialize (Hle Hs). lia.
Qed.

Lemma find_unhealthy_earliest cs ps c tol :
  (forall p, In p ps -> matches cs p = true -> term_time cs p <> zero_time) ->
  find_unhealthy cs ps = Some (c, tol) ->
  forall p, In p ps -> matches cs p = true -> nc_time c + tol <= term_time cs p.
Proof.
  intros Hnz Hf p Hp Hm. unfold find_unhealthy in Hf.
  destruct (fu_fold_min cs ps (None, zero_time) Hnz eq_refl) as (Hwf & Hall & _).
  cbv zeta in Hwf, Hall. rewrite Hf in Hwf. destruct Hwf as [Hwf _]. rewrite <- Hwf. apply Hall; assumption.
Qed.

(* every Delete the repair model issues has passed all four gates *)
Lemma repair_delete_inv i : (0 < snd (fst (repair i)))%nat ->
  exists c uc tol, claim_lookup i = Found c /\ find_unhealthy (r_conds i) (r_policies i) = Some (uc, tol) /\
    nc_time uc + tol <= r_now i /\ r_nodes_resp i = AOk /\
    nodes_healthy (r_policies i) (breaker_nodes i c) = true /\
    rc_deleting c = false /\ (patch_needed i c = true -> r_patch i = AOk).
Proof.
  unfold repair. destruct (claim_lookup i) as [c| | |]; simpl; try solve [intros H; simpl in H; lia].
  destruct (find_unhealthy (r_conds i) (r_policies i)) as [[uc tol]|]; simpl; [|intros H; lia].
  destruct (Z.ltb_spec (r_now i) (nc_time uc + tol)) as [Hlt|Hge]; simpl; [intros H; lia|].
  destruct (r_nodes_resp i) eqn:Hresp; simpl; try solve [intros H; simpl in H; lia].
  destruct (nodes_healthy (r_policies i) (breaker_nodes i c)) eqn:Hh.
  - intros Hpos. exists c, uc, tol.
    split; [reflexivity|]. split; [reflexivity|]. split; [exact Hge|]. split; [reflexivity|]. split; [exact Hh|].
    split.
    + destruct (patch_needed i c); [destruct (r_patch i)|]; simpl in Hpos; try lia;
        destruct (rc_deleting c); simpl in Hpos; try reflexivity; lia.
    + intros Hpn. rewrite Hpn in Hpos. destruct (r_patch i); simpl in Hpos; try reflexivity; lia.
  - destruct (rc_pool c); [destruct (r_poolget i)|]; simpl; intros H; lia.
Qed.

Lemma repair_sound i : rp_holds i (snd (fst (repair i))).
Proof.
  intros Hpos. destruct (repair_delete_inv i Hpos) as (c & uc & tol & Hc & Hf & Ht & Hr & Hh & _ & _).
  exists c. split; [exact Hc|]. split.
  - destruct (find_unhealthy_some _ _ _ _ Hf) as (p & Hp & Hm & -> & ->).
    exists p. split; [exact Hp|]. split; [|exact Ht]. unfold matches in Hm. apply String.eqb_eq. exact Hm.
  - split; [exact Hr|]. apply nodes_healthy_iff in Hh. unfold breaker_ok_b in Hh. apply Z.ltb_lt. exact Hh.
Qed.

Lemma repair_deletes_le1 i : (snd (fst (repair i)) <= 1)%nat.
Proof.
  unfold repair. destruct (claim_lookup i) as [c| | |]; simpl; try lia.
  destruct (find_unhealthy (r_conds i) (r_policies i)) as [[uc tol]|]; simpl; [|lia].
  destruct (r_now i <? nc_time uc + tol); simpl; [lia|].
  destruct (r_nodes_resp i); simpl; try lia; try (destruct (rc_pool c); simpl; lia).
  destruct (nodes_healthy (r_policies i) (breaker_nodes i c)).
  - destruct (patch_needed i c); [destruct (r_patch i)|]; simpl; try lia; destruct (rc_deleting c); simpl; lia.
  - destruct (rc_pool c); [destruct (r_poolget i)|]; simpl; lia.
Qed.

(* every failed read or write that guards the deletion yields no Delete *)
Lemma repair_no_delete_on_failed_read_l i :
  (claim_lookup i = Failed \/ r_nodes_resp i <> AOk \/
   (exists c, claim_lookup i = Found c /\ patch_needed i c = true /\ r_patch i <> AOk)) ->
  snd (fst (repair i)) = O.
Proof.
  intros H. pose proof (repair_deletes_le1 i) as Hle.
  destruct (snd (fst (repair i))) as [|n] eqn:Hn; [reflexivity|]. exfalso.
  assert (Hpos : (0 < snd (fst (repair i)))%nat) by (rewrite Hn; lia).
  destruct (repair_delete_inv i Hpos) as (c & uc & tol & Hc & _ & _ & Hr & _ & _ & Hp).
  destruct H as [H|[H|(c' & Hc' & Hpn & Hpe)]].
  - rewrite H in Hc. discriminate.
  - contradiction.
  - rewrite Hc in Hc'. inversion Hc'. subst c'. apply Hpe. apply Hp. exact Hpn.
Qed.

(* the circuit breaker: more than ceil(20%) unhealthy nodes => no Delete *)
Lemma repair_breaker_l i c : claim_lookup i = Found c ->
  threshold (Z.of_nat (List.length (breaker_nodes i c))) < unhealthy_count (r_policies i) (breaker_nodes i c) ->
  snd (fst (repair i)) = O.
Proof.
  intros Hc Hb. destruct (snd (fst (repair i))) as [|n] eqn:Hn; [reflexivity|]. exfalso.
  assert (Hpos : (0 < snd (fst (repair i)))%nat) by (rewrite Hn; lia).
  destruct (repair_delete_inv i Hpos) as (c' & uc & tol & Hc' & _ & _ & _ & Hh & _).
  rewrite Hc in Hc'. inversion Hc'. subst c'. unfold nodes_healthy in Hh. apply Z.leb_le in Hh. lia.
Qed.

(* before the toleration of every matching policy has elapsed => no Delete *)
Lemma repair_tolerates_l i :
  (forall p, In p (r_policies i) -> matches (r_conds i) p = true -> r_now i < term_time (r_conds i) p) ->
  snd (fst (repair i)) = O.
Proof.
  intros H. destruct (snd (fst (repair i))) as [|n] eqn:Hn; [reflexivity|]. exfalso.
  assert (Hpos : (0 < snd (fst (repair i)))%nat) by (rewrite Hn; lia).
  destruct (repair_delete_inv i Hpos) as (c & uc & tol & _ & Hf & Ht & _).
  destruct (find_unhealthy_some _ _ _ _ Hf) as (p & Hp & Hm & -> & ->).
  specialize (H p Hp Hm). unfold term_time in H. lia.
Qed.

(* Terminating Nodes count: a rolling failure (one unhealthy Node already terminating, the next one
   past its toleration, 2 of 5 unhealthy) must stay blocked. Leaving terminating Nodes out breaks it. *)
Definition rolling_sick : list ncond := [mkCond "BadNode" "False" 0].
Definition rolling_fine : list ncond := [mkCond "BadNode" "True" 0].
Definition rolling_failure : rp_in :=
  mkRp "id1" rolling_sick [mkRClaim "id1" (Some "pool"%string) false AnnNone] AOk
       [mkPolicy "BadNode" "False" (1800 * sec)] (1800 * sec)
       [mkRNode (Some "pool"%string) true rolling_sick;     (* node0: unhealthy, already Terminating *)
        mkRNode (Some "pool"%string) false rolling_sick;    (* node1: the reconciled one *)
        mkRNode (Some "pool"%string) false rolling_fine; mkRNode (Some "pool"%string) false rolling_fine;
        mkRNode (Some "pool"%string) false rolling_fine]
       AOk AOk AOk AOk.

Lemma repair_skip_terminating_refuted_l :
  exists i, (0 < snd (fst (repair_skip_terminating i)))%nat /\ ~ rp_holds i (snd (fst (repair_skip_terminating i))) /\
            snd (fst (repair i)) = O.
Proof.
  exists rolling_failure. split; [vm_compute; lia|]. split; [|vm_compute; reflexivity].
  intros H. apply rp_holds_b_iff in H. vm_compute in H. discriminate.
Qed.

Lemma repair_skip_terminating_partial_l i :
  (forall n, In n (r_nodes i) -> rn_deleting n = false) -> repair_skip_terminating i = repair i.
Proof.
  intros H. unfold repair_skip_terminating.
  assert (Hf : filter (fun n => negb (rn_deleting n)) (r_nodes i) = r_nodes i).
  { induction (r_nodes i) as [|n ns IH]; [reflexivity|]. simpl.
    rewrite (H n (or_introl eq_refl)). simpl. f_equal. apply IH. intros m Hm. apply H. right. exact Hm. }
  rewrite Hf. destruct i; reflexivity.
Qed.

(* ------------------------------------------------------------------ histories *)

(* A history is any sequence of reconciles of any of the four reapers, each with its own
   object state, clock position and fault plan. *)
Inductive rop := OpE (i : exp_in) | OpG (i : gc_in) | OpL (i : lv_in) | OpR (i : rp_in).

Definition justified (o : rop) : Prop :=
  match o with
  | OpE i => exp_holds i (fst (expire i))
  | OpG i => gc_holds i (fst (gc i))
  | OpL i => lv_holds i (fst (liveness i))
  | OpR i => rp_holds i (snd (fst (repair i)))
  end.

Lemma history_justified_l (h : list rop) : Forall justified h.
Proof.
  induction h as [|o h IH]; constructor; [|exact IH].
  destruct o; simpl; [apply expire_sound|apply gc_sound|apply liveness_sound|apply repair_sound].
Qed.

(* Expiration over a history of one claim: whatever the clock does and whichever Delete
   responses occur, the first reconcile that issues a Delete happens at or after creation + ttl. *)
Fixpoint exp_history (created : Z) (ttl : option Z) (h : list (Z * resp)) : list (Z * nat) :=
  match h with
  | [] => []
  | (now, r) :: h' => (now, fst (expire (mkExp true false ttl created now r))) :: exp_history created ttl h'
  end.

Lemma exp_history_l created ttl h now n :
  In (now, n) (exp_history created ttl h) -> (0 < n)%nat ->
  exists d, ttl = Some d /\ created + d <= now.
Proof.
  induction h as [|[t r] h IH]; simpl; [intros []|].
  intros [Heq|Hin] Hpos; [|apply IH; assumption].
  inversion Heq. subst.
  destruct (expire_only_after_ttl_l _ Hpos) as (_ & _ & d & Hd & Hle). exists d. simpl in *. auto.
Qed.
