(* C16 — correspondence check and oracle, evaluated by vm_compute on what the four real
   Reconcile functions did (Delete calls issued, result class) on generated inputs. *)
From KV Require Import C16.Model.
Open Scope string_scope.

Inductive case :=
| CaseE (i : exp_in) (deletes : nat) (r : res)                 (* expiration.Controller.Reconcile *)
| CaseG (i : gc_in) (deleted : list string) (r : res)          (* garbagecollection.Controller.Reconcile *)
| CaseG2 (o : gorder) (w0 w1 : gworld) (nodes : list gnode) (nf : list string)  (* GC with an event between its two reads; *)
         (deleted : list string) (r : res)                                         (* o = the read order that was observed *)
| CaseL (i : lv_in) (deletes : nat) (r : res)                  (* lifecycle.Liveness.Reconcile *)
| CaseR (i : rp_in) (patches deletes : nat) (r : res).         (* health.Controller.Reconcile *)

Fixpoint strs_eqb (a b : list string) : bool :=
  match a, b with
  | [], [] => true
  | x :: a', y :: b' => String.eqb x y && strs_eqb a' b'
  | _, _ => false
  end.

Definition tags (pfx : string) (deletes_ok res_ok oracle_ok : bool) : list string :=
  (if deletes_ok then [] else ["corr:" ++ pfx ++ "-deletes"]) ++
  (if res_ok then [] else ["corr:" ++ pfx ++ "-result"]) ++
  (if oracle_ok then [] else ["oracle:" ++ pfx ++ "-trigger"]).

Definition check_case (c : case) : list string :=
  match c with
  | CaseE i d r =>
      let '(md, mr) := expire i in
      tags "expiration" (Nat.eqb d md) (res_eqb r mr) (exp_holds_b i d)
  | CaseG i dl r =>
      let '(md, mr) := gc i in
      tags "gc" (strs_eqb dl md) (res_eqb r mr) (gc_holds_b i dl)
  | CaseG2 o w0 w1 nodes nf dl r =>
      let '(md, mr) := gc2 w0 w1 nodes nf in
      (if gorder_eqb o ClaimsFirst then [] else ["corr:gc-read-order"]) ++
      tags "gc-two-reads" (strs_eqb dl md) (res_eqb r mr) (gc2_holds_b o w0 w1 nodes nf dl)
  | CaseL i d r =>
      let '(md, mr) := liveness i in
      tags "liveness" (Nat.eqb d md) (res_eqb r mr) (lv_holds_b i d)
  | CaseR i p d r =>
      let '(mp, md, mr) := repair i in
      tags "repair" (Nat.eqb d md) (Nat.eqb p mp && res_eqb r mr) (rp_holds_b i d)
  end.

Definition check_all (cs : list (Z * case)) : list (Z * string) :=
  flat_map (fun ic => map (fun t => (fst ic, t)) (check_case (snd ic))) cs.
