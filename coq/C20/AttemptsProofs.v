(* C20 — proofs about the attempt-level model (C20/Attempts.v). *)
From Coq Require Import ZArith List Bool Lia.
From KV Require Import C20.Model C20.Proofs C20.Attempts.
Import ListNotations.

(* ---------------------------------------------------------------- the attempt level projects onto C20.Model *)

Definition traced (s0 : sys) (r : rstate) : Prop := r_sys r = fold_left step (r_trace r) s0.

Lemma traced_snoc s0 r o pa da c :
  traced s0 r -> traced s0 (mkR (step (r_sys r) o) c pa da (r_trace r ++ [o])).
Proof. unfold traced; cbn [r_sys r_trace]. intros H. rewrite fold_left_app, <- H. reflexivity. Qed.

Lemma traced_fail s0 r : traced s0 r -> traced s0 (fst (fail_and_delete r)).
Proof.
  intros H. unfold fail_and_delete.
  destruct (update_health (r_sys r) false (r_parm r)) as [[o did] armed'].
  destruct (negb did); [apply traced_snoc, H|].
  destruct (r_darm r); apply traced_snoc, H.
Qed.

Lemma traced_reg_check s0 now r : traced s0 r -> traced s0 (reg_check now r).
Proof. intros H. unfold reg_check. destruct (Z.leb _ _); [apply traced_fail, H|exact H]. Qed.

Lemma traced_liveness s0 v now m r : traced s0 r -> traced s0 (liveness v now m r).
Proof.
  intros H. unfold liveness. destruct m; [exact H|].
  destruct (negb (c_ok (r_claim r))).
  - destruct (Z.leb _ _); [|exact H].
    pose proof (traced_fail s0 r H) as Hf.
    destruct (fail_and_delete r) as [r1 both]; cbn [fst] in Hf.
    destruct (both && negb (v_live_returns v)); [apply traced_reg_check, Hf|exact Hf].
  - apply traced_reg_check, H.
Qed.

Lemma traced_registration s0 v nc r : traced s0 r -> traced s0 (fst (registration v nc r)).
Proof.
  intros H. unfold registration. destruct (c_reg (r_claim r)); [exact H|].
  destruct (c_node (r_claim r) && c_ok (r_claim r)); [|exact H].
  destruct nc; [exact H|].
  destruct (update_health (r_sys r) true (r_parm r)) as [[o did] armed']. cbn [fst].
  apply traced_snoc, H.
Qed.

Lemma reconcile_traced v f now s c :
  let '(s', _, tr) := reconcile_claim v f now s c in s' = fold_left step tr s.
Proof.
  unfold reconcile_claim. destruct (c_gone c); [reflexivity|].
  set (r0 := mkR s c (is_pool_conflict f) (is_delete_err f) []).
  assert (H0 : traced s r0) by reflexivity.
  pose proof (traced_registration s v (is_node_patch f) r0 H0) as H1.
  destruct (registration v (is_node_patch f) r0) as [r1 m]; cbn [fst] in H1.
  exact (traced_liveness s v now m r1 H1).
Qed.

Lemma astep_traced v st o :
  a_sys st = fold_left step (a_trace st) init ->
  a_sys (astep v st o) = fold_left step (a_trace (astep v st o)) init.
Proof.
  intros H. destruct o as [ok|i|i f|d|e]; cbn [astep a_sys a_trace]; try exact H.
  - destruct (nth_error (a_claims st) i) as [c|]; [|exact H].
    pose proof (reconcile_traced v f (a_now st) (a_sys st) c) as Hr.
    destruct (reconcile_claim v f (a_now st) (a_sys st) c) as [[s' c'] tr].
    cbn [a_sys a_trace]. rewrite fold_left_app, <- H. exact Hr.
  - rewrite fold_left_app, <- H. reflexivity.
Qed.

Lemma arun_traced_from v ops st :
  a_sys st = fold_left step (a_trace st) init ->
  a_sys (fold_left (astep v) ops st) = fold_left step (a_trace (fold_left (astep v) ops st)) init.
Proof.
  revert st. induction ops as [|o ops IH]; intros st H; cbn [fold_left]; [exact H|].
  apply IH, astep_traced, H.
Qed.

Lemma attempts_project_l v ops : a_sys (arun v ops) = run (a_trace (arun v ops)).
Proof. unfold arun, run. apply arun_traced_from. reflexivity. Qed.

(* ---------------------------------------------------------------- Forall through upd *)

Lemma Forall_upd {A} (P : A -> Prop) i f l :
  Forall P l -> (forall x, P x -> P (f x)) -> Forall P (upd i f l).
Proof.
  intros Hl Hf. revert i. induction Hl as [|x t Hx Ht IH]; intros i; [destruct i; constructor|].
  destruct i as [|i]; cbn [upd]; constructor; auto.
Qed.

Lemma Forall_nth {A} (P : A -> Prop) l i c : Forall P l -> nth_error l i = Some c -> P c.
Proof. intros H Hn. rewrite Forall_forall in H. apply H. eapply nth_error_In, Hn. Qed.

(* ---------------------------------------------------------------- every attempt is recorded exactly once *)

Lemma update_health_unarmed s x : update_health s x false = ((if x then RecordSuccess else RecordFailure), true, false).
Proof. reflexivity. Qed.

(* the effect of a fault-free reconcile of the current tree on the claim *)
Definition next_claim (now : Z) (c : claim) : claim :=
  if c_gone c then c
  else if c_reg c then set_reg c true
  else if c_node c && c_ok c then set_reg (add_rec c true) true
  else if negb (c_ok c) then
    (if (launch_timeout <=? now - c_born c)%Z then set_reg (set_gone (add_rec c false)) false else set_reg c false)
  else
    (if (reg_timeout <=? now - c_born c)%Z then set_reg (set_gone (add_rec c false)) false else set_reg c false).

Lemma reconcile_next now s c : snd (fst (reconcile_claim fixed FNone now s c)) = next_claim now c.
Proof.
  destruct c as [ok born node reg gone rc].
  unfold reconcile_claim, next_claim, registration, liveness, reg_check, fail_and_delete, update_health.
  cbn -[Z.leb Z.sub step patch_needed launch_timeout reg_timeout].
  destruct gone; [reflexivity|]. destruct reg; [reflexivity|].
  destruct node, ok; cbn -[Z.leb Z.sub step patch_needed launch_timeout reg_timeout]; try reflexivity;
    destruct (Z.leb _ _); reflexivity.
Qed.

Lemma next_once now c : recorded_once c = true -> recorded_once (next_claim now c) = true.
Proof.
  destruct c as [ok born node reg gone rc]. unfold next_claim, recorded_once, expected_rec, concluded.
  cbn -[Z.leb Z.sub launch_timeout reg_timeout].
  destruct gone; [intros H; exact H|]. destruct reg; [intros H; exact H|].
  destruct rc as [|x [|y rc]]; try (intros H; discriminate H). intros _.
  destruct node, ok; cbn -[Z.leb Z.sub launch_timeout reg_timeout]; try reflexivity;
    destruct (Z.leb _ _); reflexivity.
Qed.

Lemma reconcile_once now s c :
  recorded_once c = true ->
  recorded_once (snd (fst (reconcile_claim fixed FNone now s c))) = true.
Proof. rewrite reconcile_next. apply next_once. Qed.

Lemma astep_once o st :
  (match o with ARec _ FNone => true | ARec _ _ => false | _ => true end) = true ->
  Forall (fun c => recorded_once c = true) (a_claims st) ->
  Forall (fun c => recorded_once c = true) (a_claims (astep fixed st o)).
Proof.
  intros Hff H. destruct o as [ok|i|i f|d|e]; cbn [astep a_claims]; try exact H.
  - apply Forall_app; split; [exact H|]. constructor; [reflexivity|constructor].
  - apply Forall_upd; [exact H|]. intros c Hc.
    destruct (c_ok c && negb (c_gone c)); [|exact Hc].
    destruct c as [ok born node reg gone rc]; exact Hc.
  - destruct f; try discriminate.
    destruct (nth_error (a_claims st) i) as [c|] eqn:En; [|exact H].
    pose proof (reconcile_once (a_now st) (a_sys st) c (Forall_nth _ _ _ _ H En)) as Hr.
    destruct (reconcile_claim fixed FNone (a_now st) (a_sys st) c) as [[s' c'] tr]. cbn [fst snd] in Hr.
    cbn [a_claims]. apply Forall_upd; [exact H|]. intros _ _. exact Hr.
Qed.

Lemma arun_once_from ops st :
  fault_free ops = true ->
  Forall (fun c => recorded_once c = true) (a_claims st) ->
  Forall (fun c => recorded_once c = true) (a_claims (fold_left (astep fixed) ops st)).
Proof.
  revert st. induction ops as [|o ops IH]; intros st Hff H; cbn [fold_left]; [exact H|].
  unfold fault_free in Hff. cbn [forallb] in Hff. apply andb_prop in Hff as [Ho Hops].
  apply IH; [exact Hops|]. apply astep_once; assumption.
Qed.

Lemma attempts_recorded_once_l ops :
  fault_free ops = true -> Forall (fun c => recorded_once c = true) (a_claims (arun fixed ops)).
Proof. intros H. unfold arun. apply arun_once_from; [exact H|constructor]. Qed.

Lemma recorded_once_spec c : recorded_once c = true <-> c_rec c = expected_rec c.
Proof.
  unfold recorded_once, expected_rec. destruct (c_rec c) as [|x [|y t]]; destruct (concluded c) as [a|];
    split; intros H; try discriminate H; try reflexivity.
  - apply Bool.eqb_prop in H. subst. reflexivity.
  - injection H as ->. apply Bool.eqb_reflx.
Qed.

Lemma attempts_recorded_once_eq ops : fault_free ops = true ->
  Forall (fun c => c_rec c = expected_rec c) (a_claims (arun fixed ops)).
Proof.
  intros H. eapply Forall_impl; [|exact (attempts_recorded_once_l ops H)].
  intros c. apply recorded_once_spec.
Qed.

(* ---------------------------------------------------------------- a registered attempt was recorded, whatever fails *)

Definition reg_rec (c : claim) : Prop := c_reg c = true -> In true (c_rec c).

Lemma reconcile_reg_rec f now s c :
  reg_rec c -> reg_rec (snd (fst (reconcile_claim fixed f now s c))).
Proof.
  destruct c as [ok born node reg gone rc]. unfold reconcile_claim, reg_rec. cbn [c_gone c_reg c_rec].
  destruct gone; [intros H; exact H|].
  unfold registration. cbn [r_claim c_reg].
  destruct reg.
  - intros H _. specialize (H eq_refl).
    cbn [liveness fst snd r_claim set_reg c_rec]. exact H.
  - intros _. cbn [c_node c_ok r_parm r_sys].
    destruct (node && ok).
    + destruct (is_node_patch f).
      { cbn [fst snd set_reg c_reg]. destruct (is_status_lost f); intros H; discriminate H. }
      destruct (update_health s true (is_pool_conflict f)) as [[o did] armed'] eqn:Eu.
      cbn [fixed v_pool_first fst snd].
      destruct did.
      * cbn [liveness r_claim set_reg add_rec c_rec c_reg]. intros _. apply in_or_app. right. left. reflexivity.
      * cbn [set_reg c_reg]. destruct (is_status_lost f); intros H; discriminate H.
    + cbn [fst snd set_reg c_reg]. destruct (is_status_lost f); intros H; discriminate H.
Qed.

Lemma astep_reg_rec o st :
  Forall reg_rec (a_claims st) -> Forall reg_rec (a_claims (astep fixed st o)).
Proof.
  intros H. destruct o as [ok|i|i f|d|e]; cbn [astep a_claims]; try exact H.
  - apply Forall_app; split; [exact H|]. constructor; [|constructor]. intros Hr; discriminate Hr.
  - apply Forall_upd; [exact H|]. intros c Hc.
    destruct (c_ok c && negb (c_gone c)); [|exact Hc].
    destruct c as [ok born node reg gone rc]; exact Hc.
  - destruct (nth_error (a_claims st) i) as [c|] eqn:En; [|exact H].
    pose proof (reconcile_reg_rec f (a_now st) (a_sys st) c (Forall_nth _ _ _ _ H En)) as Hr.
    destruct (reconcile_claim fixed f (a_now st) (a_sys st) c) as [[s' c'] tr]. cbn [fst snd] in Hr.
    cbn [a_claims]. apply Forall_upd; [exact H|]. intros _ _. exact Hr.
Qed.

Lemma registered_implies_recorded_l ops :
  Forall (fun c => c_reg c = true -> In true (c_rec c)) (a_claims (arun fixed ops)).
Proof.
  unfold arun. change (Forall reg_rec (a_claims (fold_left (astep fixed) ops ainit))).
  assert (H : Forall reg_rec (a_claims ainit)) by constructor.
  revert H. generalize ainit. induction ops as [|o ops IH]; intros st H; cbn [fold_left]; [exact H|].
  apply IH, astep_reg_rec, H.
Qed.

(* ---------------------------------------------------------------- the trees before the fixes, and what faults still break *)

Definition recs (v : variant) (ops : list aop) : list (bool * bool * list bool) :=
  map (fun c => (c_reg c, c_gone c, c_rec c)) (a_claims (arun v ops)).

(* before 40852abfb: the conflict is answered with a requeue, but the claim is already Registered *)
Lemma success_lost_before_40852abfb :
  let ops := [ANew true; AJoin 0; ARec 0 FPoolConflict; ARec 0 FNone] in
  fault_free [ANew true; AJoin 0; ARec 0 FNone] = true /\
  recs before_40852abfb ops = [(true, false, [])] /\ window (a_sys (arun before_40852abfb ops)) = [] /\
  recs fixed ops = [(true, false, [true])] /\ window (a_sys (arun fixed ops)) = [true].
Proof. vm_compute. repeat split; reflexivity. Qed.

(* before 3cbc43e89: no fault at all, one failed launch first looked at after 16 minutes *)
Lemma double_failure_before_3cbc43e89 :
  let ops := [ANew false; ATick 960; ARec 0 FNone] in
  fault_free ops = true /\
  recs before_3cbc43e89 ops = [(false, true, [false; false])] /\ condn (a_sys (arun before_3cbc43e89 ops)) = CFalse /\
  recs fixed ops = [(false, true, [false])] /\ condn (a_sys (arun fixed ops)) = CUnknown.
Proof. vm_compute. repeat split; reflexivity. Qed.

(* still possible on the current tree: an outcome recorded in memory survives the failure of the API write that
   would have marked the attempt as concluded, and the retry records it again *)
Lemma recorded_once_under_faults_fails :
  recs fixed [ANew false; ATick 300; ARec 0 FDeleteErr; ARec 0 FNone] = [(false, true, [false; false])] /\
  recs fixed [ANew true; AJoin 0; ARec 0 FStatusLost; ARec 0 FNone] = [(true, false, [true; true])].
Proof. vm_compute. split; reflexivity. Qed.

(* ---------------------------------------------------------------- the window tracks the attempts the API shows as concluded *)

Definition concl_new (now : Z) (c : claim) : list bool :=
  newly (concl (cobs_of c)) (concl (cobs_of (next_claim now c))).

Lemma reconcile_fixed_none now s c :
  reconcile_claim fixed FNone now s c =
  (fold_left step (map rec_of (concl_new now c)) s, next_claim now c, map rec_of (concl_new now c)).
Proof.
  destruct c as [ok born node reg gone rc].
  unfold reconcile_claim, concl_new, next_claim, registration, liveness, reg_check, fail_and_delete, update_health,
    concl, cobs_of, newly.
  cbn -[Z.leb Z.sub step patch_needed launch_timeout reg_timeout].
  destruct gone; [destruct reg; reflexivity|]. destruct reg; [reflexivity|].
  destruct node, ok; cbn -[Z.leb Z.sub step patch_needed launch_timeout reg_timeout]; try reflexivity;
    destruct (Z.leb _ _); reflexivity.
Qed.

Lemma newly_same p : newly p p = [].
Proof. destruct p; reflexivity. Qed.

Lemma nc_same l : new_conclusions l l = [].
Proof. induction l as [|x t IH]; cbn [new_conclusions tl]; [reflexivity|]. rewrite newly_same, IH. reflexivity. Qed.

Lemma nc_snoc l x : concl x = None -> new_conclusions l (l ++ [x]) = [].
Proof.
  intros Hx. induction l as [|y t IH]; cbn [new_conclusions tl app].
  - rewrite Hx. reflexivity.
  - rewrite newly_same, IH. reflexivity.
Qed.

Lemma nc_upd l : forall i c c', nth_error l i = Some c ->
  new_conclusions (map cobs_of l) (map cobs_of (upd i (fun _ => c') l)) = newly (concl (cobs_of c)) (concl (cobs_of c')).
Proof.
  induction l as [|x t IH]; intros i c c' Hn; [destruct i; discriminate Hn|].
  destruct i as [|i]; cbn [nth_error] in Hn.
  - injection Hn as ->. cbn [upd map new_conclusions tl]. rewrite nc_same, app_nil_r. reflexivity.
  - cbn [upd map new_conclusions tl]. rewrite newly_same, (IH i c c' Hn). reflexivity.
Qed.

Lemma map_upd_same {A B} (g : A -> B) i f l : (forall x, g (f x) = g x) -> map g (upd i f l) = map g l.
Proof.
  intros H. revert i. induction l as [|x t IH]; intros i; [destruct i; reflexivity|].
  destruct i; cbn [upd map]; [rewrite H|rewrite IH]; reflexivity.
Qed.

Lemma abs_records l : forall s, swf s ->
  fold_left (fun a b => sstep a (rec_of b)) l (abs s) = abs (fold_left step (map rec_of l) s) /\
  swf (fold_left step (map rec_of l) s).
Proof.
  induction l as [|b l IH]; intros s Hs; cbn [fold_left map]; [split; [reflexivity|exact Hs]|].
  rewrite <- (abs_step s (rec_of b) Hs). apply IH, swf_step, Hs.
Qed.

Lemma spec_astep_ok st o :
  (match o with ARec _ FNone => true | ARec _ _ => false | _ => true end) = true ->
  swf (a_sys st) ->
  spec_astep (abs (a_sys st)) (aobs_of st) o (aobs_of (astep fixed st o)) = abs (a_sys (astep fixed st o)) /\
  swf (a_sys (astep fixed st o)).
Proof.
  intros Hff Hs. unfold spec_astep, aobs_of.
  destruct o as [ok|i|i f|d|e]; cbn [astep a_sys a_claims].
  - rewrite map_app. cbn [map]. rewrite nc_snoc by reflexivity. split; [reflexivity|exact Hs].
  - rewrite map_upd_same, nc_same; [split; [reflexivity|exact Hs]|].
    intros c. destruct (c_ok c && negb (c_gone c)); reflexivity.
  - destruct f; try discriminate Hff.
    destruct (nth_error (a_claims st) i) as [c|] eqn:En.
    + rewrite reconcile_fixed_none. cbn [a_sys a_claims].
      rewrite (nc_upd _ _ _ _ En). apply abs_records, Hs.
    + rewrite nc_same. split; [reflexivity|exact Hs].
  - rewrite nc_same. split; [reflexivity|exact Hs].
  - rewrite nc_same. cbn [fold_left]. split; [symmetry; apply abs_step, Hs|apply swf_step, Hs].
Qed.

Lemma spec_follow_ok ops : forall st, fault_free ops = true -> swf (a_sys st) ->
  spec_follow fixed st (abs (a_sys st)) ops = abs (a_sys (fold_left (astep fixed) ops st)).
Proof.
  induction ops as [|o ops IH]; intros st Hff Hs; cbn [spec_follow fold_left]; [reflexivity|].
  unfold fault_free in Hff. cbn [forallb] in Hff. apply andb_prop in Hff as [Ho Hops].
  destruct (spec_astep_ok st o Ho Hs) as [Ha Hs']. rewrite Ha. apply IH; assumption.
Qed.

Lemma window_tracks_attempts_l ops : fault_free ops = true ->
  spec_follow fixed ainit ([], CUnknown) ops = abs (a_sys (arun fixed ops)).
Proof.
  intros H. unfold arun. rewrite <- (spec_follow_ok ops ainit H); [reflexivity|]. apply (swf_run []).
Qed.

(* ---------------------------------------------------------------- the same under rejected NodePool / Node patches *)

Lemma conflict_noop_true s : patch_needed s true = true -> step s RecordSuccessConflict = s.
Proof.
  unfold patch_needed. cbn [step].
  destruct (tstatus (dry_run (buf s) true)); try discriminate. destruct (condn s); try discriminate; reflexivity.
Qed.

Lemma conflict_noop_false s : patch_needed s false = true -> step s RecordFailureConflict = s.
Proof.
  unfold patch_needed. cbn [step].
  destruct (tstatus (dry_run (buf s) false)); try discriminate. destruct (condn s); try discriminate; reflexivity.
Qed.

Ltac red_rec := cbn -[Z.leb Z.sub step patch_needed launch_timeout reg_timeout abs sstep swf].

Ltac split_conds :=
  repeat (red_rec;
    match goal with
    | |- context [Z.leb ?a ?b] => destruct (Z.leb a b)
    | |- context [patch_needed (step ?s RecordSuccessConflict) ?x] =>
        match goal with H : patch_needed s true = true |- _ => rewrite (conflict_noop_true s H) end
    | |- context [patch_needed ?s ?x] => let E := fresh "Ep" in destruct (patch_needed s x) eqn:E
    end).

Lemma reconcile_benign f now s c : benign_fault f = true -> swf s ->
  let r := reconcile_claim fixed f now s c in
  (recorded_once c = true -> recorded_once (snd (fst r)) = true) /\
  abs (fst (fst r)) = fold_left (fun a b => sstep a (rec_of b)) (newly (concl (cobs_of c)) (concl (cobs_of (snd (fst r))))) (abs s) /\
  swf (fst (fst r)).
Proof.
  intros Hb Hs. destruct c as [ok born node reg gone rc].
  unfold reconcile_claim, registration, liveness, reg_check, fail_and_delete, update_health, concl, cobs_of, newly,
    recorded_once, expected_rec, concluded.
  destruct f; try discriminate Hb; destruct gone, reg, node, ok; split_conds.
  all: repeat match goal with
       | H : patch_needed ?s true = true |- context [step ?s RecordSuccessConflict] => rewrite (conflict_noop_true s H)
       | H : patch_needed ?s false = true |- context [step ?s RecordFailureConflict] => rewrite (conflict_noop_false s H)
       end.
  all: red_rec.
  all: split; [|split].
  all: try reflexivity; try exact Hs; try (apply abs_step, Hs); try (apply swf_step, Hs).
  all: try (destruct rc as [|x [|y rc]]; cbn; intros H; try discriminate H; try reflexivity; exact H).
Qed.

Lemma fault_free_benign ops : fault_free ops = true -> benign ops = true.
Proof.
  unfold fault_free, benign. induction ops as [|o ops IH]; cbn [forallb]; [reflexivity|].
  intros H. apply andb_prop in H as [Ho Hops]. rewrite (IH Hops), andb_true_r.
  destruct o as [ok|i|i f|d|e]; try reflexivity. destruct f; try discriminate Ho; reflexivity.
Qed.

Lemma astep_benign st o :
  (match o with ARec _ f => benign_fault f | _ => true end) = true ->
  swf (a_sys st) -> Forall (fun c => recorded_once c = true) (a_claims st) ->
  spec_astep (abs (a_sys st)) (aobs_of st) o (aobs_of (astep fixed st o)) = abs (a_sys (astep fixed st o)) /\
  swf (a_sys (astep fixed st o)) /\
  Forall (fun c => recorded_once c = true) (a_claims (astep fixed st o)).
Proof.
  intros Hb Hs Hf.
  destruct o as [ok|i|i f|d|e].
  - destruct (spec_astep_ok st (ANew ok) eq_refl Hs) as [H1 H2]. split; [exact H1|split; [exact H2|]].
    apply (astep_once (ANew ok) st eq_refl Hf).
  - destruct (spec_astep_ok st (AJoin i) eq_refl Hs) as [H1 H2]. split; [exact H1|split; [exact H2|]].
    apply (astep_once (AJoin i) st eq_refl Hf).
  - unfold spec_astep, aobs_of. cbn [astep].
    destruct (nth_error (a_claims st) i) as [c|] eqn:En.
    + pose proof (reconcile_benign f (a_now st) (a_sys st) c Hb Hs) as Hr. cbv zeta in Hr.
      destruct (reconcile_claim fixed f (a_now st) (a_sys st) c) as [[s' c'] tr]. cbn [fst snd] in Hr.
      destruct Hr as (Hrec & Habs & Hswf). cbn [a_sys a_claims].
      rewrite (nc_upd _ _ _ _ En). split; [symmetry; exact Habs|split; [exact Hswf|]].
      apply Forall_upd; [exact Hf|]. intros _ _. apply Hrec. exact (Forall_nth _ _ _ _ Hf En).
    + rewrite nc_same. split; [reflexivity|split; [exact Hs|exact Hf]].
  - destruct (spec_astep_ok st (ATick d) eq_refl Hs) as [H1 H2]. split; [exact H1|split; [exact H2|exact Hf]].
  - destruct (spec_astep_ok st (AEnv e) eq_refl Hs) as [H1 H2]. split; [exact H1|split; [exact H2|exact Hf]].
Qed.

Lemma arun_benign ops : forall st, benign ops = true -> swf (a_sys st) ->
  Forall (fun c => recorded_once c = true) (a_claims st) ->
  spec_follow fixed st (abs (a_sys st)) ops = abs (a_sys (fold_left (astep fixed) ops st)) /\
  Forall (fun c => recorded_once c = true) (a_claims (fold_left (astep fixed) ops st)).
Proof.
  induction ops as [|o ops IH]; intros st Hb Hs Hf; cbn [spec_follow fold_left]; [split; [reflexivity|exact Hf]|].
  unfold benign in Hb. cbn [forallb] in Hb. apply andb_prop in Hb as [Ho Hops].
  destruct (astep_benign st o Ho Hs Hf) as (Ha & Hs' & Hf'). rewrite Ha. apply IH; assumption.
Qed.

Lemma window_tracks_attempts_benign ops : benign ops = true ->
  spec_follow fixed ainit ([], CUnknown) ops = abs (a_sys (arun fixed ops)).
Proof.
  intros H. unfold arun. destruct (arun_benign ops ainit H (swf_run []) (Forall_nil _)) as [Ha _]. exact Ha.
Qed.

Lemma attempts_recorded_once_benign ops : benign ops = true ->
  Forall (fun c => c_rec c = expected_rec c) (a_claims (arun fixed ops)).
Proof.
  intros H. unfold arun. destruct (arun_benign ops ainit H (swf_run []) (Forall_nil _)) as [_ Hf].
  eapply Forall_impl; [|exact Hf]. intros c. apply recorded_once_spec.
Qed.
