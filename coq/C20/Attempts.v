(* C20 — attempt level: which reconciles of the NodeClaim lifecycle controller record a launch outcome on the
   NodePool, and how often.  Model of Registration.Reconcile / Liveness.Reconcile (the parts that decide WHEN
   updateNodePoolRegistrationHealth runs and what is persisted afterwards) and of the status write-back of
   lifecycle.Controller.Reconcile, on top of C20.Model.step.  Executable definitions only. *)
From Coq Require Import ZArith List Bool.
From KV Require Import C20.Model.
Import ListNotations.

(* one API fault per reconcile (the harness arms it once; it is consumed by the first call it applies to) *)
Inductive fault :=
| FNone
| FPoolConflict     (* the NodePool status patch, if one is issued, is rejected with a conflict *)
| FDeleteErr        (* Delete(nodeClaim), if one is issued, fails *)
| FStatusLost       (* the NodeClaim status patch at the end of the reconcile was rejected (reported by the harness only when it fired) *)
| FNodePatch.       (* the Node patch of the registration step was rejected (reported by the harness only when it fired) *)

Definition is_pool_conflict f := match f with FPoolConflict => true | _ => false end.
Definition is_delete_err f := match f with FDeleteErr => true | _ => false end.
Definition is_status_lost f := match f with FStatusLost => true | _ => false end.
Definition is_node_patch f := match f with FNodePatch => true | _ => false end.

(* one launch attempt = one NodeClaim *)
Record claim := mkClaim {
  c_ok : bool;          (* the provider launches it (Launched=True after the first reconcile); false: every Create fails *)
  c_born : Z;           (* time of the first reconcile = transition time of the Unknown Launched / Registered conditions *)
  c_node : bool;        (* its Node has joined *)
  c_reg : bool;         (* Registered=True is persisted *)
  c_gone : bool;        (* deleted by liveness *)
  c_rec : list bool     (* ghost: outcomes recorded on the NodePool for this attempt, oldest first *)
}.

Definition add_rec c x := mkClaim (c_ok c) (c_born c) (c_node c) (c_reg c) (c_gone c) (c_rec c ++ [x]).
Definition set_gone c := mkClaim (c_ok c) (c_born c) (c_node c) (c_reg c) true (c_rec c).
Definition set_reg c b := mkClaim (c_ok c) (c_born c) (c_node c) b (c_gone c) (c_rec c).
Definition set_node c := mkClaim (c_ok c) (c_born c) true (c_reg c) (c_gone c) (c_rec c).

(* the code variants: the current tree and the two trees before the fix commits *)
Record variant := mkVar {
  v_pool_first : bool;    (* 40852abfb: the NodePool is updated before the claim is marked Registered *)
  v_live_returns : bool   (* 3cbc43e89: liveness returns after deleting for the launch timeout *)
}.
Definition fixed := mkVar true true.
Definition before_40852abfb := mkVar false true.
Definition before_3cbc43e89 := mkVar true false.

Definition launch_timeout : Z := 300.    (* lifecycle.LaunchTimeout, seconds *)
Definition reg_timeout : Z := 900.       (* registrationTimeout *)

(* does updateNodePoolRegistrationHealth issue a status patch *)
Definition patch_needed (s : sys) (x : bool) : bool :=
  if x then
    match tstatus (dry_run (buf s) true), condn s with
    | Healthy, CTrue => false | Healthy, _ => true | _, _ => false end
  else
    match tstatus (dry_run (buf s) false), condn s with
    | Unhealthy, CFalse => false | Unhealthy, _ => true | _, _ => false end.

(* one call of updateNodePoolRegistrationHealth: the C20.Model op it amounts to, whether the outcome was recorded,
   and whether the conflict is still armed afterwards *)
Definition update_health (s : sys) (x : bool) (armed : bool) : op * bool * bool :=
  if armed && patch_needed s x
  then ((if x then RecordSuccessConflict else RecordFailureConflict), false, false)
  else ((if x then RecordSuccess else RecordFailure), true, armed).

(* state threaded through one reconcile *)
Record rstate := mkR {
  r_sys : sys; r_claim : claim;
  r_parm : bool;           (* pool conflict still armed *)
  r_darm : bool;           (* delete error still armed *)
  r_trace : list op        (* C20.Model ops performed so far *)
}.

(* liveness: updateNodePoolRegistrationHealth, then deleteNodeClaimForTimeout; the flag says whether both succeeded *)
Definition fail_and_delete (r : rstate) : rstate * bool :=
  let '(o, did, armed') := update_health (r_sys r) false (r_parm r) in
  let s' := step (r_sys r) o in
  let tr := r_trace r ++ [o] in
  if negb did then (mkR s' (r_claim r) armed' (r_darm r) tr, false)                   (* conflict: Requeue *)
  else
    let c1 := add_rec (r_claim r) false in
    if r_darm r then (mkR s' c1 armed' false tr, false)                               (* Delete failed: error *)
    else (mkR s' (set_gone c1) armed' false tr, true).

Definition reg_check (now : Z) (r : rstate) : rstate :=
  if (reg_timeout <=? now - c_born (r_claim r))%Z then fst (fail_and_delete r) else r.

(* Liveness.Reconcile on the in-memory claim; [reg_mem] = Registered is True in memory *)
Definition liveness (v : variant) (now : Z) (reg_mem : bool) (r : rstate) : rstate :=
  if reg_mem then r
  else if negb (c_ok (r_claim r)) then
    if (launch_timeout <=? now - c_born (r_claim r))%Z then
      let '(r1, both) := fail_and_delete r in
      if both && negb (v_live_returns v) then reg_check now r1 else r1
    else r
  else reg_check now r.

(* Registration.Reconcile; the flag = Registered is True in memory afterwards *)
Definition registration (v : variant) (node_conflict : bool) (r : rstate) : rstate * bool :=
  let c := r_claim r in
  if c_reg c then (r, true)
  else if c_node c && c_ok c then
    if node_conflict then (r, false)     (* the Node patch comes first; on a conflict the step is retried later *)
    else
    let '(o, did, armed') := update_health (r_sys r) true (r_parm r) in
    let s' := step (r_sys r) o in
    let c1 := if did then add_rec c true else c in
    (mkR s' c1 armed' (r_darm r) (r_trace r ++ [o]), if v_pool_first v then did else true)
  else (r, false).

(* lifecycle.Controller.Reconcile for one claim: new system, new claim, C20.Model ops performed *)
Definition reconcile_claim (v : variant) (f : fault) (now : Z) (s : sys) (c : claim) : sys * claim * list op :=
  if c_gone c then (s, c, [])
  else
    let r0 := mkR s c (is_pool_conflict f) (is_delete_err f) [] in
    let '(r1, reg_mem) := registration v (is_node_patch f) r0 in
    let r2 := liveness v now reg_mem r1 in
    let reg' := if is_status_lost f then c_reg c else reg_mem in
    (r_sys r2, set_reg (r_claim r2) reg', r_trace r2).

(* environment events of C20.Model that do not record an outcome *)
Inductive eop := EPool | EClass | ECrash | EHealth.
Definition to_op (e : eop) : op :=
  match e with EPool => PoolChanged | EClass => ClassChanged | ECrash => Crash | EHealth => Reconcile end.

Inductive aop :=
| ANew (ok : bool)            (* a NodeClaim is created and reconciled for the first time *)
| AJoin (i : nat)             (* the Node of claim i joins *)
| ARec (i : nat) (f : fault)  (* lifecycle reconcile of claim i *)
| ATick (d : Z)               (* the clock advances by d seconds *)
| AEnv (e : eop).

Record asys := mkA { a_sys : sys; a_now : Z; a_claims : list claim; a_trace : list op }.

Fixpoint upd {A} (i : nat) (f : A -> A) (l : list A) : list A :=
  match l, i with
  | [], _ => []
  | x :: t, O => f x :: t
  | x :: t, S i' => x :: upd i' f t
  end.

Definition astep (v : variant) (st : asys) (o : aop) : asys :=
  match o with
  | ANew ok => mkA (a_sys st) (a_now st) (a_claims st ++ [mkClaim ok (a_now st) false false false []]) (a_trace st)
  | AJoin i =>
      mkA (a_sys st) (a_now st)
          (upd i (fun c => if c_ok c && negb (c_gone c) then set_node c else c) (a_claims st)) (a_trace st)
  | ARec i f =>
      match nth_error (a_claims st) i with
      | None => st
      | Some c =>
          let '(s', c', tr) := reconcile_claim v f (a_now st) (a_sys st) c in
          mkA s' (a_now st) (upd i (fun _ => c') (a_claims st)) (a_trace st ++ tr)
      end
  | ATick d => mkA (a_sys st) (a_now st + Z.max 0 d)%Z (a_claims st) (a_trace st)
  | AEnv e => mkA (step (a_sys st) (to_op e)) (a_now st) (a_claims st) (a_trace st ++ [to_op e])
  end.

Definition ainit : asys := mkA init 0%Z [] [].
Definition arun (v : variant) (ops : list aop) : asys := fold_left (astep v) ops ainit.

(* ---- what the attempt level promises ---- *)

(* how an attempt ended, as visible in the API *)
Definition concluded (c : claim) : option bool :=
  if c_reg c then Some true else if c_gone c then Some false else None.

Definition expected_rec (c : claim) : list bool :=
  match concluded c with Some b => [b] | None => [] end.

Definition fault_free (ops : list aop) : bool :=
  forallb (fun o => match o with ARec _ FNone => true | ARec _ _ => false | _ => true end) ops.

(* API faults after which the reconcile is simply retried with nothing recorded: a rejected NodePool status patch
   and a rejected Node patch *)
Definition benign_fault (f : fault) : bool := match f with FNone | FPoolConflict | FNodePatch => true | _ => false end.
Definition benign (ops : list aop) : bool :=
  forallb (fun o => match o with ARec _ f => benign_fault f | _ => true end) ops.

Definition recorded_once (c : claim) : bool :=
  match c_rec c, expected_rec c with
  | [], [] => true
  | [x], [y] => Bool.eqb x y
  | _, _ => false
  end.

(* ---- the property's own machine, driven only by what the API objects show ---- *)

(* per NodeClaim: (Registered=True, deleted) *)
Definition cobs := (bool * bool)%type.
Definition cobs_of (c : claim) : cobs := (c_reg c, c_gone c).
Definition aobs_of (st : asys) : list cobs := map cobs_of (a_claims st).

(* how an attempt ended, read off the API objects alone *)
Definition concl (o : cobs) : option bool := if fst o then Some true else if snd o then Some false else None.

Definition newly (p q : option bool) : list bool :=
  match p, q with None, Some b => [b] | _, _ => [] end.

Fixpoint new_conclusions (prev cur : list cobs) : list bool :=
  match cur with
  | [] => []
  | x :: cur' =>
      newly (match prev with [] => None | y :: _ => concl y end) (concl x) ++ new_conclusions (tl prev) cur'
  end.

Definition rec_of (b : bool) : op := if b then RecordSuccess else RecordFailure.

(* the window slides by one outcome exactly when an attempt is seen to conclude *)
Definition spec_astep (a : list bool * cond) (prev : list cobs) (o : aop) (cur : list cobs) : list bool * cond :=
  let a1 := match o with AEnv e => sstep a (to_op e) | _ => a end in
  fold_left (fun a b => sstep a (rec_of b)) (new_conclusions prev cur) a1.

(* the machine run along the model's own API-visible observations *)
Fixpoint spec_follow (v : variant) (st : asys) (a : list bool * cond) (ops : list aop) : list bool * cond :=
  match ops with
  | [] => a
  | o :: t => let st' := astep v st o in spec_follow v st' (spec_astep a (aobs_of st) o (aobs_of st')) t
  end.
