(* C20 — model of pkg/utils/ringbuffer/buffer.go, pkg/state/nodepoolhealth/tracker.go
   and of the two condition-update rules in nodeclaim/lifecycle/{registration,liveness}.go
   plus the re-hydration rule of nodepool/registrationhealth/controller.go.
   Executable definitions only; proofs are in C20/Proofs.v. *)
From Coq Require Export List Arith Bool Lia.
Export ListNotations.

Definition cap : nat := 4.                        (* nodepoolhealth.BufferSize *)

(* ringbuffer.RingBuffer[bool]: values in storage order, head = slot of the oldest
   entry once the buffer is full. *)
Record ring := mkRing { vals : list bool; head : nat }.

Fixpoint set_nth (n : nat) (x : bool) (l : list bool) : list bool :=
  match l, n with
  | [], _ => []
  | _ :: t, O => x :: t
  | h :: t, S n' => h :: set_nth n' x t
  end.

Definition empty : ring := mkRing [] 0.

(* RingBuffer.Insert *)
Definition insert (b : ring) (x : bool) : ring :=
  if length (vals b) <? cap then mkRing (vals b ++ [x]) (head b)
  else mkRing (set_nth (head b) x (vals b)) ((head b + 1) mod cap).

Definition reset (b : ring) : ring := empty.      (* RingBuffer.Reset *)
Definition items (b : ring) : list bool := vals b. (* RingBuffer.Items: storage order *)
Definition clone (b : ring) : ring := mkRing (vals b) (head b). (* RingBuffer.Clone *)

Inductive status := Unknown | Healthy | Unhealthy.

Definition status_eqb (a b : status) : bool :=
  match a, b with
  | Unknown, Unknown | Healthy, Healthy | Unhealthy, Unhealthy => true
  | _, _ => false
  end.

Definition count_false (l : list bool) : nat := length (filter negb l).

(* Tracker.Status: float64(unhealthy)/float64(BufferSize) >= 0.5, i.e. 2*unhealthy >= 4
   (exact: both operands are small integers, the quotient is a dyadic rational). *)
Definition tstatus (b : ring) : status :=
  if length (vals b) =? 0 then Unknown
  else if cap <=? 2 * count_false (items b) then Unhealthy else Healthy.

(* Tracker.SetStatus; int(BufferSize*ThresholdFalse) = 2 *)
Definition set_status (b : ring) (s : status) : ring :=
  match s with
  | Unknown => reset b
  | Healthy => insert (reset b) true
  | Unhealthy => insert (insert (reset b) false) false
  end.

(* State.DryRun: clone, then apply the prospective outcome to the clone. *)
Definition dry_run (b : ring) (x : bool) : ring := insert (clone b) x.

(* The copy DryRun performed before the fix (re-insert Items() in storage order
   into a fresh buffer). Kept so that the defect stays stated and refuted. *)
Definition dry_run_storage_order (b : ring) (x : bool) : ring :=
  insert (fold_left insert (items b) empty) x.

(* ---- the NodePool condition as maintained by the controllers ---- *)

Inductive cond := CUnknown | CTrue | CFalse.       (* also stands for "absent" = CUnknown *)

Definition cond_eqb (a b : cond) : bool :=
  match a, b with
  | CUnknown, CUnknown | CTrue, CTrue | CFalse, CFalse => true
  | _, _ => false
  end.

Record sys := mkSys { buf : ring; condn : cond }.

Inductive op :=
| RecordSuccess            (* Registration.updateNodePoolRegistrationHealth *)
| RecordFailure            (* Liveness.updateNodePoolRegistrationHealth *)
| PoolChanged              (* NodePool generation bump + registrationhealth reconcile: Unknown + reset *)
| ClassChanged             (* NodeClass generation bump + registrationhealth reconcile: Unknown + reset *)
| Crash                    (* process restart: the in-memory buffer is lost, the API condition stays *)
| Reconcile                (* registrationhealth reconcile without a pool change: re-hydration only *)
| RecordSuccessConflict    (* as RecordSuccess, but the NodePool status patch (if one is issued) is rejected *)
| RecordFailureConflict.   (* as RecordFailure, but the NodePool status patch (if one is issued) is rejected *)

(* registrationhealth controller's re-hydration on an Unknown tracker *)
Definition rehydrate (s : sys) : sys :=
  match tstatus (buf s) with
  | Unknown =>
      match condn s with
      | CTrue => mkSys (set_status (buf s) Healthy) CTrue
      | CFalse => mkSys (set_status (buf s) Unhealthy) CFalse
      | CUnknown => s
      end
  | _ => s
  end.

Definition step (s : sys) (o : op) : sys :=
  match o with
  | RecordSuccess =>
      let c := match tstatus (dry_run (buf s) true) with Healthy => CTrue | _ => condn s end in
      mkSys (insert (buf s) true) c
  | RecordFailure =>
      let c := match tstatus (dry_run (buf s) false) with Unhealthy => CFalse | _ => condn s end in
      mkSys (insert (buf s) false) c
  | PoolChanged | ClassChanged => mkSys (set_status (buf s) Unknown) CUnknown
  | Crash => mkSys empty (condn s)
  | Reconcile => rehydrate s
  (* a rejected patch makes the path return the error BEFORE the outcome is recorded; the reconcile is retried later *)
  | RecordSuccessConflict =>
      match tstatus (dry_run (buf s) true), condn s with
      | Healthy, CTrue => mkSys (insert (buf s) true) (condn s)       (* no patch needed *)
      | Healthy, _ => s                                                (* patch rejected: nothing recorded *)
      | _, _ => mkSys (insert (buf s) true) (condn s)
      end
  | RecordFailureConflict =>
      match tstatus (dry_run (buf s) false), condn s with
      | Unhealthy, CFalse => mkSys (insert (buf s) false) (condn s)
      | Unhealthy, _ => s
      | _, _ => mkSys (insert (buf s) false) (condn s)
      end
  end.

Definition init : sys := mkSys empty CUnknown.
Definition run (ops : list op) : sys := fold_left step ops init.

(* histories in which the health controller re-hydrates the buffer after a crash
   before the next launch outcome is recorded *)
Fixpoint hydrated_hist (pending : bool) (ops : list op) : bool :=
  match ops with
  | [] => true
  | Crash :: t => hydrated_hist true t
  | Reconcile :: t => hydrated_hist false t
  | (PoolChanged | ClassChanged) :: t => hydrated_hist false t
  | (RecordSuccess | RecordFailure | RecordSuccessConflict | RecordFailureConflict) :: t =>
      negb pending && hydrated_hist pending t
  end.

(* ---- tracker-level operations (what the unit-level correspondence drives) ---- *)

Inductive top := TUpdate (x : bool) | TReset | TSet (s : status).

Definition tstep (b : ring) (o : top) : ring :=
  match o with
  | TUpdate x => insert b x
  | TReset => reset b
  | TSet s => set_status b s
  end.

Definition trun (ops : list top) : ring := fold_left tstep ops empty.

(* ---- abstract specification: the window of the last [cap] outcomes ---- *)

Definition lastn {A} (n : nat) (l : list A) : list A := skipn (length l - n) l.

(* chronological content of a ring (oldest first) *)
Definition chron (b : ring) : list bool :=
  if length (vals b) <? cap then vals b
  else skipn (head b) (vals b) ++ firstn (head b) (vals b).

Definition wstep (w : list bool) (o : top) : list bool :=
  match o with
  | TUpdate x => lastn cap (w ++ [x])
  | TReset => []
  | TSet Unknown => []
  | TSet Healthy => [true]
  | TSet Unhealthy => [false; false]
  end.

Definition wrun (ops : list top) : list bool := fold_left wstep ops [].

Definition wstatus (w : list bool) : status :=
  match w with
  | [] => Unknown
  | _ => if cap <=? 2 * count_false w then Unhealthy else Healthy
  end.

(* ---- abstract system: window of outcomes + condition ---- *)

Definition failures_fill_half (w : list bool) : bool := cap <=? 2 * count_false w.

Definition sstep (a : list bool * cond) (o : op) : list bool * cond :=
  let (w, c) := a in
  match o with
  | RecordSuccess =>
      let w' := lastn cap (w ++ [true]) in (w', if failures_fill_half w' then c else CTrue)
  | RecordFailure =>
      let w' := lastn cap (w ++ [false]) in (w', if failures_fill_half w' then CFalse else c)
  | PoolChanged | ClassChanged => ([], CUnknown)
  | Crash => ([], c)
  | Reconcile =>
      match w, c with
      | [], CTrue => ([true], c)
      | [], CFalse => ([false; false], c)
      | _, _ => (w, c)
      end
  | RecordSuccessConflict =>
      let w' := lastn cap (w ++ [true]) in
      if failures_fill_half w' then (w', c) else match c with CTrue => (w', c) | _ => (w, c) end
  | RecordFailureConflict =>
      let w' := lastn cap (w ++ [false]) in
      if failures_fill_half w' then match c with CFalse => (w', c) | _ => (w, c) end else (w', c)
  end.

Definition srun (ops : list op) : list bool * cond := fold_left sstep ops ([], CUnknown).
