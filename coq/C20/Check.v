(* C20 — correspondence check and oracle, evaluated by vm_compute on the cases the Go
   harness observed on the real nodepoolhealth.State and lifecycle controllers. *)
From Coq Require Import ZArith String.
From KV Require Import C20.Model C20.Attempts.
Open Scope string_scope.

Definition obs3 := (status * status * status)%type.

(* attempt-level observation: NodePool condition, tracker probes, and per NodeClaim (Registered=True, deleted) *)
Inductive aobs := AObs (c : cond) (t : obs3) (cl : list cobs).

Inductive case :=
| CaseT (ops : list top) (obs : list obs3)     (* Status, DryRun(true).Status, DryRun(false).Status after each op *)
| CaseS (ops : list op) (obs : list cond)      (* NodePool condition after each op *)
| CaseA (ops : list aop) (obs : list aobs).    (* attempt level: condition, tracker probes, (Registered, gone) per claim after each op *)

Definition obs3_eqb (a b : obs3) : bool :=
  let '(a1, a2, a3) := a in let '(b1, b2, b3) := b in
  status_eqb a1 b1 && status_eqb a2 b2 && status_eqb a3 b3.

Definition model_obs (b : ring) : obs3 :=
  (tstatus b, tstatus (dry_run b true), tstatus (dry_run b false)).

Definition spec_obs (w : list bool) : obs3 :=
  (wstatus w, wstatus (wstep w (TUpdate true)), wstatus (wstep w (TUpdate false))).

(* returns (correspondence ok, oracle ok) *)
Fixpoint checkT (b : ring) (w : list bool) (ops : list top) (obs : list obs3) : bool * bool :=
  match ops, obs with
  | [], [] => (true, true)
  | o :: ops', x :: obs' =>
      let b' := tstep b o in let w' := wstep w o in
      let '(c, r) := checkT b' w' ops' obs' in
      (obs3_eqb x (model_obs b') && c, obs3_eqb x (spec_obs w') && r)
  | _, _ => (false, false)
  end.

Fixpoint checkS (s : sys) (a : list bool * cond) (ops : list op) (obs : list cond) : bool * bool :=
  match ops, obs with
  | [], [] => (true, true)
  | o :: ops', x :: obs' =>
      let s' := step s o in let a' := sstep a o in
      let '(c, r) := checkS s' a' ops' obs' in
      (cond_eqb x (condn s') && c, cond_eqb x (snd a') && r)
  | _, _ => (false, false)
  end.

(* ---- attempt level ---- *)
Definition cobs_eqb (a b : cobs) : bool := Bool.eqb (fst a) (fst b) && Bool.eqb (snd a) (snd b).
Fixpoint cobs_list_eqb (a b : list cobs) : bool :=
  match a, b with
  | [], [] => true
  | x :: a', y :: b' => cobs_eqb x y && cobs_list_eqb a' b'
  | _, _ => false
  end.

Fixpoint checkA (st : asys) (a : list bool * cond) (prev : list cobs) (ops : list aop) (obs : list aobs) : bool * bool :=
  match ops, obs with
  | [], [] => (true, true)
  | o :: ops', AObs oc ot ocl :: obs' =>
      let st' := astep fixed st o in
      let a' := spec_astep a prev o ocl in
      let '(c, r) := checkA st' a' ocl ops' obs' in
      (cond_eqb oc (condn (a_sys st')) && obs3_eqb ot (model_obs (buf (a_sys st')))
         && cobs_list_eqb ocl (aobs_of st') && c,
       cond_eqb oc (snd a') && obs3_eqb ot (spec_obs (fst a')) && r)
  | _, _ => (false, false)
  end.

Definition check_case (c : case) : list string :=
  match c with
  | CaseA ops obs =>
      let '(corr, orc) := checkA ainit ([], CUnknown) [] ops obs in
      (if corr then [] else ["corr:attempts"]) ++ (if orc then [] else ["oracle:window-tracks-attempts"])
  | _ =>
  let '(corr, orc) :=
    match c with
    | CaseT ops obs => checkT empty [] ops obs
    | CaseS ops obs => checkS init ([], CUnknown) ops obs
    | CaseA _ _ => (true, true)
    end in
  (if corr then [] else ["corr:model"]) ++ (if orc then [] else ["oracle:window"])
  end.

Definition check_all (cs : list (Z * case)) : list (Z * string) :=
  flat_map (fun ic => map (fun t => (fst ic, t)) (check_case (snd ic))) cs.
