(* C20 — correspondence check and oracle, evaluated by vm_compute on the cases the Go
   harness observed on the real nodepoolhealth.State and lifecycle controllers. *)
From Coq Require Import ZArith String.
From KV Require Import C20.Model.
Open Scope string_scope.

Definition obs3 := (status * status * status)%type.

Inductive case :=
| CaseT (ops : list top) (obs : list obs3)     (* Status, DryRun(true).Status, DryRun(false).Status after each op *)
| CaseS (ops : list op) (obs : list cond).     (* NodePool condition after each op *)

Definition obs3_eqb (a b : obs3) : bool :=
  let '(a1, a2, a3) := a in let '(b1, b2, b3) := b in
  status_eqb a1 b1 && status_eqb a2 b2 && status_eqb a3 b3.

Definition model_obs (b : ring) : obs3 :=
  (tstatus b, tstatus (dry_run b true), tstatus (dry_run b false)).

Definition spec_obs (w : list bool) : obs3 :=
  (wstatus w, wstatus (wstep w (TUpdate true)), wstatus (wstep w (TUpdate false))).

(* returns (correspondence ok, oracle ok) *)
Fixpoint checkT (b : ring) (w : list bool) (ops : list top) (obs : list obs3) : bool * bool :=
  match ops, obs with
  | [], [] => (true, true)
  | o :: ops', x :: obs' =>
      let b' := tstep b o in let w' := wstep w o in
      let '(c, r) := checkT b' w' ops' obs' in
      (obs3_eqb x (model_obs b') && c, obs3_eqb x (spec_obs w') && r)
  | _, _ => (false, false)
  end.

Fixpoint checkS (s : sys) (a : list bool * cond) (ops : list op) (obs : list cond) : bool * bool :=
  match ops, obs with
  | [], [] => (true, true)
  | o :: ops', x :: obs' =>
      let s' := step s o in let a' := sstep a o in
      let '(c, r) := checkS s' a' ops' obs' in
      (cond_eqb x (condn s') && c, cond_eqb x (snd a') && r)
  | _, _ => (false, false)
  end.

Definition check_case (c : case) : list string :=
  let '(corr, orc) :=
    match c with
    | CaseT ops obs => checkT empty [] ops obs
    | CaseS ops obs => checkS init ([], CUnknown) ops obs
    end in
  (if corr then [] else ["corr:model"]) ++ (if orc then [] else ["oracle:window"]).

Definition check_all (cs : list (Z * case)) : list (Z * string) :=
  flat_map (fun ic => map (fun t => (fst ic, t)) (check_case (snd ic))) cs.
