(* C20 — what "partial" means: the two lifecycle paths evaluate DryRun, patch the condition and record the outcome
   in three separate steps, and NodeClaims are reconciled concurrently. At method granularity an interleaving of two
   such reconciles can leave the condition disagreeing with the window. The sequential theorems of Properties/C20.v
   are about histories in which the three steps of one reconcile are not interleaved with another's. *)
From KV Require Import C20.Model C20.Proofs.

Inductive cstep :=
| CDry (who : nat) (outcome : bool)     (* evaluate the what-if status for this reconcile's outcome *)
| CPatch (who : nat)                    (* write the condition decided by that reconcile's dry run *)
| CUpd (outcome : bool).                (* record the outcome in the buffer *)

(* decisions of in-flight reconciles: who -> Some new condition | None (leave alone) *)
Definition pending := list (nat * option cond).

Fixpoint lookup (who : nat) (p : pending) : option (option cond) :=
  match p with
  | [] => None
  | (w, d) :: t => if Nat.eqb w who then Some d else lookup who t
  end.

Definition cstep_run (st : sys * pending) (o : cstep) : sys * pending :=
  let (s, p) := st in
  match o with
  | CDry who x =>
      let d := match tstatus (dry_run (buf s) x), x with
               | Healthy, true => Some CTrue
               | Unhealthy, false => Some CFalse
               | _, _ => None
               end in
      (s, (who, d) :: p)
  | CPatch who =>
      match lookup who p with
      | Some (Some c) => (mkSys (buf s) c, p)
      | _ => (s, p)
      end
  | CUpd x => (mkSys (insert (buf s) x) (condn s), p)
  end.

Definition crun (s : sys) (ops : list cstep) : sys := fst (fold_left cstep_run ops (s, [])).

(* one reconcile executed without interleaving is exactly the sequential step *)
Lemma sequential_is_step s x :
  crun s [CDry 0 x; CPatch 0; CUpd x] = step s (if x then RecordSuccess else RecordFailure).
Proof.
  unfold crun. cbn [fold_left cstep_run lookup Nat.eqb fst].
  destruct x; cbn [step]; destruct (tstatus (dry_run (buf s) _)); reflexivity.
Qed.

(* window T,T,F with condition True; a success and a failure are reconciled concurrently: both dry runs are evaluated
   on the same buffer, the failure's patch (False) lands first, the success's patch (True) last. The window ends
   T,F,F,T (unhealthy) with the condition True. *)
Definition race_start : sys := mkSys (trun [TUpdate true; TUpdate true; TUpdate false]) CTrue.
Definition race : list cstep := [CDry 1 true; CDry 2 false; CPatch 2; CUpd false; CPatch 1; CUpd true].

Lemma interleaved_reconciles_break_tracking :
  let s := crun race_start race in
  condn s = CTrue /\ wstatus (window s) = Unhealthy /\ window s = [true; false; false; true].
Proof. vm_compute. repeat split; reflexivity. Qed.
