From KV Require Import C20.Model.

(* Representation invariant of the ring buffer. *)
Definition wf (b : ring) : Prop :=
  length (vals b) <= cap /\ head b < cap /\ (length (vals b) < cap -> head b = 0).

Lemma wf_empty : wf empty.
Proof. unfold wf, empty, cap; simpl; lia. Qed.

(* Every well-formed ring is one of finitely many shapes (capacity is the constant 4). *)
Lemma wf_shapes b : wf b ->
  (exists l, b = mkRing l 0 /\ length l < cap) \/
  (exists a1 a2 a3 a4 h, b = mkRing [a1; a2; a3; a4] h /\ h < cap).
Proof.
  destruct b as [v h]; unfold wf, cap; simpl; intros (Hl & Hh & H0).
  destruct (Nat.lt_ge_cases (length v) 4) as [Hlt|Hge].
  - left. exists v. rewrite (H0 Hlt). split; [reflexivity|exact Hlt].
  - right. destruct v as [|a1 [|a2 [|a3 [|a4 [|a5 v]]]]]; simpl in *; try lia.
    exists a1, a2, a3, a4, h. split; [reflexivity|exact Hh].
Qed.

Ltac shapes b H :=
  destruct (wf_shapes b H) as [(l & -> & Hlen) | (a1 & a2 & a3 & a4 & h & -> & Hh)];
  [ unfold cap in Hlen;
    destruct l as [|x1 [|x2 [|x3 [|x4 l]]]]; simpl in Hlen; try lia
  | unfold cap in Hh;
    destruct h as [|[|[|[|h]]]]; try lia ].

Lemma wf_insert b x : wf b -> wf (insert b x).
Proof.
  intros H. shapes b H; unfold wf, insert, cap; simpl; lia.
Qed.

Lemma wf_set_status b s : wf (set_status b s).
Proof. destruct s; unfold wf, set_status, insert, reset, empty, cap; simpl; lia. Qed.

Lemma wf_tstep b o : wf b -> wf (tstep b o).
Proof.
  destruct o as [x| |s]; simpl; intros H.
  - apply wf_insert, H.
  - apply wf_empty.
  - apply wf_set_status.
Qed.

(* insert = slide the window of the last [cap] outcomes *)
Lemma chron_insert b x : wf b -> chron (insert b x) = lastn cap (chron b ++ [x]).
Proof.
  intros H. shapes b H; reflexivity.
Qed.

Lemma chron_set_status b s : chron (set_status b s) = wstep (chron b) (TSet s).
Proof. destruct s; reflexivity. Qed.

Lemma chron_tstep b o : wf b -> chron (tstep b o) = wstep (chron b) o.
Proof.
  destruct o as [x| |s]; simpl; intros H.
  - apply chron_insert, H.
  - reflexivity.
  - apply chron_set_status.
Qed.

Lemma trun_inv ops b : wf b -> wf (fold_left tstep ops b) /\
  chron (fold_left tstep ops b) = fold_left wstep ops (chron b).
Proof.
  revert b; induction ops as [|o ops IH]; intros b H; simpl.
  - split; [exact H|reflexivity].
  - destruct (IH (tstep b o) (wf_tstep b o H)) as [Hw Hc].
    split; [exact Hw|]. rewrite Hc, chron_tstep by exact H. reflexivity.
Qed.

Lemma window_refines_l ops : wf (trun ops) /\ chron (trun ops) = wrun ops.
Proof. unfold trun, wrun. apply (trun_inv ops empty wf_empty). Qed.

Lemma wrun_length ops : length (wrun ops) <= cap.
Proof.
  destruct (window_refines_l ops) as [H <-].
  shapes (trun ops) H; unfold chron, cap; simpl; lia.
Qed.

(* Tracker.Status computed from storage order = status of the chronological window *)
Lemma tstatus_chron b : wf b -> tstatus b = wstatus (chron b).
Proof.
  intros H. shapes b H; try reflexivity;
    unfold tstatus, wstatus, chron, items, count_false, cap; simpl;
    repeat match goal with |- context [negb ?a] => destruct a; simpl end; reflexivity.
Qed.

Lemma status_spec_l ops : tstatus (trun ops) = wstatus (wrun ops).
Proof.
  destruct (window_refines_l ops) as [H <-]. apply tstatus_chron, H.
Qed.

Lemma clone_id b : clone b = b.
Proof. destruct b; reflexivity. Qed.

Lemma dryrun_agrees_l b x : dry_run b x = insert b x.
Proof. unfold dry_run. rewrite clone_id. reflexivity. Qed.

(* what-if status expressed on the abstract window *)
Lemma dryrun_window ops x :
  tstatus (dry_run (trun ops) x) = wstatus (wstep (wrun ops) (TUpdate x)).
Proof.
  rewrite dryrun_agrees_l.
  change (insert (trun ops) x) with (trun (ops ++ [TUpdate x])) || idtac.
  destruct (window_refines_l ops) as [H Hc].
  rewrite tstatus_chron by (apply wf_insert, H).
  rewrite chron_insert by exact H. rewrite Hc. reflexivity.
Qed.

(* The pre-fix copy is not a faithful what-if: T,T,T,T,F,F then a success. *)
Lemma storage_order_copy_refuted :
  exists ops x, tstatus (dry_run_storage_order (trun ops) x) <> tstatus (insert (trun ops) x).
Proof.
  exists [TUpdate true; TUpdate true; TUpdate true; TUpdate true; TUpdate false; TUpdate false], true.
  vm_compute. discriminate.
Qed.

(* ---------------- system level: the NodePool condition ---------------- *)

Definition swf (s : sys) : Prop := wf (buf s).

Lemma swf_step s o : swf s -> swf (step s o).
Proof.
  unfold swf; destruct o; simpl; intros H.
  - apply wf_insert, H.
  - apply wf_insert, H.
  - apply wf_empty.
  - apply wf_empty.
  - apply wf_empty.
  - unfold rehydrate. destruct (tstatus (buf s)); try exact H.
    destruct (condn s); simpl; try exact H;
      [apply (wf_set_status (buf s) Healthy) | apply (wf_set_status (buf s) Unhealthy)].
  - destruct (tstatus (dry_run (buf s) true)), (condn s); simpl; try exact H; apply wf_insert, H.
  - destruct (tstatus (dry_run (buf s) false)), (condn s); simpl; try exact H; apply wf_insert, H.
Qed.

(* a faulted record either changes nothing or is exactly the unfaulted record *)
Lemma conflict_success s : step s RecordSuccessConflict = s \/ step s RecordSuccessConflict = step s RecordSuccess.
Proof.
  cbn [step]. destruct (tstatus (dry_run (buf s) true)) eqn:E, (condn s) eqn:C; auto;
    right; destruct s as [b c]; cbn [buf condn] in *; subst; reflexivity.
Qed.
Lemma conflict_failure s : step s RecordFailureConflict = s \/ step s RecordFailureConflict = step s RecordFailure.
Proof.
  cbn [step]. destruct (tstatus (dry_run (buf s) false)) eqn:E, (condn s) eqn:C; auto;
    right; destruct s as [b c]; cbn [buf condn] in *; subst; reflexivity.
Qed.

Lemma swf_run_from ops s : swf s -> swf (fold_left step ops s).
Proof.
  revert s; induction ops as [|o ops IH]; intros s H; simpl; [exact H|].
  apply IH, swf_step, H.
Qed.

Lemma swf_run ops : swf (run ops).
Proof. apply swf_run_from. exact wf_empty. Qed.

Definition window (s : sys) : list bool := chron (buf s).

Lemma window_record s (x : bool) : swf s ->
  window (step s (if x then RecordSuccess else RecordFailure)) = lastn cap (window s ++ [x]).
Proof.
  intros H. destruct x; simpl; unfold window; simpl; apply chron_insert, H.
Qed.

Lemma wstatus_nonempty w : w <> [] ->
  wstatus w = if failures_fill_half w then Unhealthy else Healthy.
Proof. destruct w; [congruence|reflexivity]. Qed.

Lemma lastn_snoc_nonempty (w : list bool) x : lastn cap (w ++ [x]) <> [].
Proof.
  unfold lastn. intros E.
  assert (L : length (skipn (length (w ++ [x]) - cap) (w ++ [x])) = 0) by (rewrite E; reflexivity).
  rewrite skipn_length, app_length in L. simpl in L. unfold cap in L. lia.
Qed.

Lemma dry_status s (x : bool) : swf s ->
  tstatus (dry_run (buf s) x) =
  if failures_fill_half (lastn cap (window s ++ [x])) then Unhealthy else Healthy.
Proof.
  intros H. rewrite dryrun_agrees_l, tstatus_chron by (apply wf_insert, H).
  rewrite chron_insert by exact H. apply wstatus_nonempty, lastn_snoc_nonempty.
Qed.

Lemma record_failure_l s : swf s ->
  window (step s RecordFailure) = lastn cap (window s ++ [false]) /\
  (failures_fill_half (window (step s RecordFailure)) = true -> condn (step s RecordFailure) = CFalse) /\
  (failures_fill_half (window (step s RecordFailure)) = false -> condn (step s RecordFailure) = condn s).
Proof.
  intros H. pose proof (window_record s false H) as Hw. cbv beta iota in Hw.
  split; [exact Hw|]. rewrite Hw. cbn [step condn]. rewrite (dry_status s false H).
  split; intros E; rewrite E; reflexivity.
Qed.

Lemma record_success_l s : swf s ->
  window (step s RecordSuccess) = lastn cap (window s ++ [true]) /\
  (failures_fill_half (window (step s RecordSuccess)) = false -> condn (step s RecordSuccess) = CTrue) /\
  (failures_fill_half (window (step s RecordSuccess)) = true -> condn (step s RecordSuccess) = condn s).
Proof.
  intros H. pose proof (window_record s true H) as Hw. cbv beta iota in Hw.
  split; [exact Hw|]. rewrite Hw. cbn [step condn]. rewrite (dry_status s true H).
  split; intros E; rewrite E; reflexivity.
Qed.

(* The condition, when set, agrees with the window — on histories where a crash is
   followed by re-hydration before the next outcome is recorded. [pending] = crashed
   and not yet re-hydrated: then the buffer is empty. *)
Definition cond_ok (pending : bool) (s : sys) : Prop :=
  swf s /\
  (pending = true -> buf s = empty) /\
  (pending = false ->
     match condn s with
     | CTrue => wstatus (window s) = Healthy
     | CFalse => wstatus (window s) = Unhealthy
     | CUnknown => True
     end).

Lemma cond_ok_fold ops : forall pending s,
  cond_ok pending s -> hydrated_hist pending ops = true ->
  match condn (fold_left step ops s) with
  | CTrue => wstatus (window (fold_left step ops s)) = Healthy \/ buf (fold_left step ops s) = empty
  | CFalse => wstatus (window (fold_left step ops s)) = Unhealthy \/ buf (fold_left step ops s) = empty
  | CUnknown => True
  end.
Proof.
  induction ops as [|o ops IH]; intros pending s (Hw & Hp & Hc) Hhist.
  - simpl. destruct pending.
    + assert (E : buf s = empty) by (apply Hp; reflexivity). destruct (condn s); auto.
    + specialize (Hc eq_refl). destruct (condn s); auto.
  - simpl in Hhist. cbn [fold_left].
    destruct o.
    + (* RecordSuccess *)
      apply andb_prop in Hhist as [Hn Hhist]. destruct pending; [discriminate|].
      apply (IH false); [|exact Hhist].
      destruct (record_success_l s Hw) as (Hwin & Ht & Hf).
      split; [apply swf_step, Hw|]. split; [discriminate|]. intros _.
      specialize (Hc eq_refl).
      assert (Hne : window (step s RecordSuccess) <> []) by (rewrite Hwin; apply lastn_snoc_nonempty).
      rewrite (wstatus_nonempty _ Hne).
      destruct (failures_fill_half (window (step s RecordSuccess))) eqn:E.
      * rewrite (Hf eq_refl).
        destruct (condn s) eqn:Ec; auto.
        exfalso.
        (* a success cannot turn a healthy window unhealthy *)
        revert Hc E. rewrite Hwin. unfold window.
        shapes (buf s) Hw; unfold wstatus, failures_fill_half, chron, lastn, count_false, cap; simpl;
          repeat match goal with |- context [negb ?a] => destruct a; simpl end; congruence.
      * rewrite (Ht eq_refl). reflexivity.
    + (* RecordFailure *)
      apply andb_prop in Hhist as [Hn Hhist]. destruct pending; [discriminate|].
      apply (IH false); [|exact Hhist].
      destruct (record_failure_l s Hw) as (Hwin & Ht & Hf).
      split; [apply swf_step, Hw|]. split; [discriminate|]. intros _.
      specialize (Hc eq_refl).
      assert (Hne : window (step s RecordFailure) <> []) by (rewrite Hwin; apply lastn_snoc_nonempty).
      rewrite (wstatus_nonempty _ Hne).
      destruct (failures_fill_half (window (step s RecordFailure))) eqn:E.
      * rewrite (Ht eq_refl). reflexivity.
      * rewrite (Hf eq_refl).
        destruct (condn s) eqn:Ec; auto.
        exfalso.
        revert Hc E. rewrite Hwin. unfold window.
        shapes (buf s) Hw; unfold wstatus, failures_fill_half, chron, lastn, count_false, cap; simpl;
          repeat match goal with |- context [negb ?a] => destruct a; simpl end; congruence.
    + (* PoolChanged *)
      apply (IH false); [|exact Hhist].
      split; [apply swf_step, Hw|]. split; [discriminate|]. intros _. exact I.
    + (* ClassChanged *)
      apply (IH false); [|exact Hhist].
      split; [apply swf_step, Hw|]. split; [discriminate|]. intros _. exact I.
    + (* Crash *)
      apply (IH true); [|exact Hhist].
      split; [apply wf_empty|]. split; [reflexivity|discriminate].
    + (* Reconcile *)
      apply (IH false); [|exact Hhist].
      split; [apply swf_step, Hw|]. split; [discriminate|]. intros _.
      destruct s as [b c]. unfold swf in Hw. cbn [buf condn] in *.
      cbn [step]. unfold rehydrate. cbn [buf condn].
      destruct pending.
      * assert (E : b = empty) by (apply Hp; reflexivity). subst b.
        destruct c; vm_compute; auto.
      * specialize (Hc eq_refl).
        destruct (tstatus b) eqn:Es; cbn [buf condn]; try exact Hc.
        rewrite (tstatus_chron _ Hw) in Es. unfold window in *. cbn [buf] in *.
        destruct c; cbn [condn]; try exact I; congruence.
    + (* RecordSuccessConflict *)
      apply andb_prop in Hhist as [Hn Hhist]. destruct pending; [discriminate|].
      destruct (conflict_success s) as [Ec|Ec]; rewrite Ec; clear Ec.
      { apply (IH false); [|exact Hhist]. split; [exact Hw|]. split; [exact Hp|exact Hc]. }
      {
        apply (IH false); [|exact Hhist].
        destruct (record_success_l s Hw) as (Hwin & Ht & Hf).
        split; [apply swf_step, Hw|]. split; [discriminate|]. intros _.
        specialize (Hc eq_refl).
        assert (Hne : window (step s RecordSuccess) <> []) by (rewrite Hwin; apply lastn_snoc_nonempty).
        rewrite (wstatus_nonempty _ Hne).
        destruct (failures_fill_half (window (step s RecordSuccess))) eqn:E.
        * rewrite (Hf eq_refl).
          destruct (condn s) eqn:Ec; auto.
          exfalso.
          (* a success cannot turn a healthy window unhealthy *)
          revert Hc E. rewrite Hwin. unfold window.
          shapes (buf s) Hw; unfold wstatus, failures_fill_half, chron, lastn, count_false, cap; simpl;
            repeat match goal with |- context [negb ?a] => destruct a; simpl end; congruence.
        * rewrite (Ht eq_refl). reflexivity.
      }
    + (* RecordFailureConflict *)
      apply andb_prop in Hhist as [Hn Hhist]. destruct pending; [discriminate|].
      destruct (conflict_failure s) as [Ec|Ec]; rewrite Ec; clear Ec.
      { apply (IH false); [|exact Hhist]. split; [exact Hw|]. split; [exact Hp|exact Hc]. }
      {
        apply (IH false); [|exact Hhist].
        destruct (record_failure_l s Hw) as (Hwin & Ht & Hf).
        split; [apply swf_step, Hw|]. split; [discriminate|]. intros _.
        specialize (Hc eq_refl).
        assert (Hne : window (step s RecordFailure) <> []) by (rewrite Hwin; apply lastn_snoc_nonempty).
        rewrite (wstatus_nonempty _ Hne).
        destruct (failures_fill_half (window (step s RecordFailure))) eqn:E.
        * rewrite (Ht eq_refl). reflexivity.
        * rewrite (Hf eq_refl).
          destruct (condn s) eqn:Ec; auto.
          exfalso.
          revert Hc E. rewrite Hwin. unfold window.
          shapes (buf s) Hw; unfold wstatus, failures_fill_half, chron, lastn, count_false, cap; simpl;
            repeat match goal with |- context [negb ?a] => destruct a; simpl end; congruence.
      }
Qed.

Lemma cond_matches_window_l ops : hydrated_hist false ops = true ->
  match condn (run ops) with
  | CTrue => wstatus (window (run ops)) = Healthy \/ buf (run ops) = empty
  | CFalse => wstatus (window (run ops)) = Unhealthy \/ buf (run ops) = empty
  | CUnknown => True
  end.
Proof.
  intros H. apply (cond_ok_fold ops false init); [|exact H].
  split; [exact wf_empty|]. split; [discriminate|]. intros _. exact I.
Qed.

(* ---------------- refinement of the whole system to (window, condition) ---------------- *)

Definition abs (s : sys) : list bool * cond := (window s, condn s).

Lemma wstatus_unknown_iff w : wstatus w = Unknown <-> w = [].
Proof.
  split; [|intros ->; reflexivity].
  destruct w; [reflexivity|]. unfold wstatus.
  destruct (cap <=? 2 * count_false (b :: w)); discriminate.
Qed.

Lemma abs_step s o : swf s -> abs (step s o) = sstep (abs s) o.
Proof.
  intros H. unfold abs. destruct o.
  - destruct (record_success_l s H) as (Hwin & Ht & Hf).
    cbn [sstep]. rewrite <- Hwin.
    destruct (failures_fill_half (window (step s RecordSuccess))) eqn:E.
    + rewrite (Hf eq_refl). reflexivity.
    + rewrite (Ht eq_refl). reflexivity.
  - destruct (record_failure_l s H) as (Hwin & Ht & Hf).
    cbn [sstep]. rewrite <- Hwin.
    destruct (failures_fill_half (window (step s RecordFailure))) eqn:E.
    + rewrite (Ht eq_refl). reflexivity.
    + rewrite (Hf eq_refl). reflexivity.
  - reflexivity.
  - reflexivity.
  - reflexivity.
  - destruct s as [b c]. unfold swf in H. cbn [buf condn step] in *.
    unfold rehydrate, window. cbn [buf condn sstep].
    rewrite (tstatus_chron _ H).
    destruct (chron b) as [|x w] eqn:Ec.
    + cbn [wstatus]. destruct c; cbn [buf condn]; rewrite ?Ec; reflexivity.
    + assert (Hn : wstatus (x :: w) <> Unknown).
      { intros E. apply wstatus_unknown_iff in E. discriminate. }
      destruct (wstatus (x :: w)); try congruence; cbn [buf condn]; rewrite Ec;
        destruct c; reflexivity.
  - pose proof (dry_status s true H) as Hd. unfold abs. cbn [step sstep].
    destruct s as [b c]. unfold swf in H. cbn [buf condn] in *. unfold window in *. cbn [buf] in *.
    rewrite Hd. destruct (failures_fill_half (lastn cap (chron b ++ [true]))) eqn:E;
      destruct c; cbn [buf condn]; rewrite ?chron_insert by exact H; reflexivity.
  - pose proof (dry_status s false H) as Hd. unfold abs. cbn [step sstep].
    destruct s as [b c]. unfold swf in H. cbn [buf condn] in *. unfold window in *. cbn [buf] in *.
    rewrite Hd. destruct (failures_fill_half (lastn cap (chron b ++ [false]))) eqn:E;
      destruct c; cbn [buf condn]; rewrite ?chron_insert by exact H; reflexivity.
Qed.

Lemma sys_refines_from ops s : swf s ->
  abs (fold_left step ops s) = fold_left sstep ops (abs s).
Proof.
  revert s; induction ops as [|o ops IH]; intros s H; cbn [fold_left]; [reflexivity|].
  rewrite IH by (apply swf_step, H). rewrite abs_step by exact H. reflexivity.
Qed.

Lemma sys_refines_l ops : abs (run ops) = srun ops.
Proof. apply (sys_refines_from ops init wf_empty). Qed.
