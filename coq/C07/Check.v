(* C07 — correspondence check and oracle, evaluated by vm_compute on what the Go harness observed on the
   real disruption.GetCandidates (with the five real methods' ShouldDisrupt / Class), on
   StateNode.ValidateNodeDisruptable / ValidatePodsDisruptable, and on nodeclaim/disruption Consolidation.Reconcile. *)
From KV Require Import C07.Model.

Inductive case :=
| CaseW (w : world)
        (cands : list (option (list string)))   (* per method in [methods] order: error, or candidate ids in node order *)
        (nodeok : list bool)                    (* per node: ValidateNodeDisruptable = nil *)
        (podres : list pres)                    (* per node: ValidatePodsDisruptable error class *)
        (noms : list bool)                      (* per node: cluster.IsNodeNominated *)
| CaseC (i : cinput) (res : option cstatus) (requeue : Z) (under : bool).   (* + IsUnderConsolidateAfter *)

Definition cstatus_eqb (a b : cstatus) : bool :=
  match a, b with CTrue, CTrue | CFalse, CFalse | CUnknown, CUnknown => true | _, _ => false end.
Definition ocs_eqb (a b : option cstatus) : bool :=
  match a, b with Some x, Some y => cstatus_eqb x y | None, None => true | _, _ => false end.
Definition pres_eqb (a b : pres) : bool :=
  match a, b with POk, POk | PBlocked, PBlocked | PErr, PErr => true | _, _ => false end.
Fixpoint strs_eqb (a b : list string) : bool :=
  match a, b with
  | [], [] => true
  | x :: a', y :: b' => String.eqb x y && strs_eqb a' b'
  | _, _ => false
  end.
Definition ostrs_eqb (a b : option (list string)) : bool :=
  match a, b with Some x, Some y => strs_eqb x y | None, None => true | _, _ => false end.
Fixpoint list_eqb {A} (e : A -> A -> bool) (a b : list A) : bool :=
  match a, b with
  | [], [] => true
  | x :: a', y :: b' => e x y && list_eqb e a' b'
  | _, _ => false
  end.

Definition mname (m : method) : string :=
  match m with Emptiness => "emptiness" | StaticDrift => "staticdrift" | Drift => "drift"
             | MultiNode => "multinode" | SingleNode => "singlenode" end.

Fixpoint check_methods (w : world) (ms : list method) (obs : list (option (list string))) : list string :=
  match ms, obs with
  | [], [] => []
  | m :: ms', o :: obs' =>
      (if ostrs_eqb (get_candidates w m) o then [] else ["corr:candidates:" ++ mname m]) ++
      (match o with
       | Some ids => if holds_m w m ids then [] else ["oracle:eligible:" ++ mname m]
       | None => []
       end) ++ check_methods w ms' obs'
  | _, _ => ["corr:shape"]
  end.

Definition node_ok_model (w : world) (n : snode) : bool :=
  match validate_node_only (d_now (final w)) (mem_of (d_mem (final w)) (s_id n)) n with NOk => true | _ => false end.

Definition check_case (c : case) : list string :=
  match c with
  | CaseW w cands nodeok podres noms =>
      check_methods w methods cands ++
      (if list_eqb Bool.eqb (map (node_ok_model w) (final_nodes w)) nodeok then [] else ["corr:validate_node"]) ++
      (if list_eqb pres_eqb (map (validate_pods (w_fault w) (d_now (final w)) (w_pdbs w)) (final_nodes w)) podres
       then [] else ["corr:validate_pods"]) ++
      (if list_eqb Bool.eqb
            (map (fun n => nominated (d_now (final w)) (mem_of (d_mem (final w)) (s_id n))) (w_nodes w)) noms
       then [] else ["corr:is_node_nominated"])
  | CaseC i res rq under =>
      (if Bool.eqb (under_consolidate_after i) under then [] else ["corr:is_under_consolidate_after"]) ++
      (if ocs_eqb (fst (reconcile_consolidatable i)) res && (snd (reconcile_consolidatable i) =? rq)
       then [] else ["corr:reconcile_consolidatable"]) ++
      (if Bool.eqb (cond_true res) (consolidatable_spec_b i) then [] else ["oracle:consolidatable"])
  end.

Definition check_all (cs : list (Z * case)) : list (Z * string) :=
  flat_map (fun ic => map (fun t => (fst ic, t)) (check_case (snd ic))) cs.
