(* C07 — specification (Prop) of "disruption never targets protected or ineligible nodes" and proofs that
   the model of candidate selection satisfies it, for every world, method, clock position and history of
   Mark / Unmark / Nominate / tick / refresh operations. *)
From KV Require Import C07.Model.
Open Scope string_scope.
Open Scope Z_scope.

(* ================================================================== specification *)

(* the pod's do-not-disrupt annotation is in force at [now] *)
Definition dnd_in_force (now : Z) (p : pod) : Prop :=
  is_active p = true /\
  (p_dnd p = Some DTrue \/
   exists dd, p_dnd p = Some (DDur dd) /\ 0 < dd /\
              (p_start p = None \/ exists s, p_start p = Some s /\ now < s + dd)).

(* Karpenter would evict the pod through the eviction API and a PodDisruptionBudget refuses *)
Definition pdb_blocks (now : Z) (pdbs : list pdb) (p : pod) : Prop :=
  is_active p = true /\ tolerates p = false /\ owned_by_node p = false /\ ~ dnd_in_force now p /\
  ((1 < length (filter (pdb_matches p) pdbs))%nat \/
   exists b, In b pdbs /\ pdb_matches p b = true /\ b_allowed b <= 0 /\
             ~ (b_always b = true /\ ready_false p = true)).

Definition pod_blocked (now : Z) (pdbs : list pdb) (n : snode) : Prop :=
  exists p, In p (pods_of n) /\ (dnd_in_force now p \/ pdb_blocks now pdbs p).

Definition deleting (me : mem) (n : snode) : Prop :=
  m_marked me = true \/
  (exists c, s_claim n = Some c /\ (c_deleting c = true \/ c_terminating c = Some CTrue)) \/
  (s_claim n = None /\ exists k, s_node n = Some k /\ k_deleting k = true).

Definition recently_nominated (now : Z) (me : mem) : Prop := exists u, m_until me = Some u /\ now < u.

(* no reschedulable pod contributes positive disruption cost (designs/balanced-consolidation.md) *)
Definition empty (n : snode) : Prop :=
  forall p, In p (pods_of n) -> is_reschedulable p = true -> evict_cost p <= 0.
Definition literally_empty (n : snode) : Prop :=
  forall p, In p (pods_of n) -> is_reschedulable p = false.

Definition method_req (m : method) (pl : pool) (c : claim) (n : snode) : Prop :=
  match m with
  | Drift => pl_static pl = false /\ c_drifted c = Some CTrue
  | StaticDrift => pl_static pl = true /\ c_drifted c = Some CTrue
  | Emptiness =>
      pl_static pl = false /\ (exists a, pl_after pl = Some a) /\ c_consolidatable c = Some CTrue /\
      empty n /\ s_buffer n <= 0
  | MultiNode | SingleNode =>
      pl_static pl = false /\ (exists a, pl_after pl = Some a) /\ c_consolidatable c = Some CTrue /\
      ~ empty n /\ pl_policy pl <> "WhenEmpty"
  end.

(* The property, for one node and one method. *)
Definition eligible (w : world) (d : dyn) (m : method) (n : snode) : Prop :=
  let me := mem_of (d_mem d) (s_id n) in
  exists c k,
    s_claim n = Some c /\ s_node n = Some k /\                       (* managed, has a node *)
    get K_INIT (k_labels k) = "true" /\                              (* initialized *)
    ~ deleting me n /\                                               (* not deleting, not marked *)
    ~ recently_nominated (d_now d) me /\                             (* not nominated for pending pods *)
    get K_DND (annos n) <> "true" /\                                 (* not annotated do-not-disrupt *)
    s_queued n = false /\                                            (* not already in a command *)
    (pod_blocked (d_now d) (w_pdbs w) n -> eventual m = true /\ c_tgp c = true) /\
    exists pl, o_pool w n = Some pl /\ method_req m pl c n.

Definition pdbs_wf (w : world) : Prop := forall b, In b (w_pdbs w) -> 0 <= b_allowed b.

(* ================================================================== reflection of the oracle *)

Lemma cond_true_iff c : cond_true c = true <-> c = Some CTrue.
Proof. destruct c as [[]|]; simpl; split; congruence. Qed.

Lemma is_set_iff {A} (o : option A) : is_set o = true <-> exists a, o = Some a.
Proof. destruct o; simpl; split; intros H; eauto; try discriminate. destruct H; discriminate. Qed.

Lemma o_dnd_in_force_spec now p : o_dnd_in_force now p = true <-> dnd_in_force now p.
Proof.
  unfold o_dnd_in_force, dnd_in_force. rewrite andb_true_iff.
  split.
  - intros [Ha H]. split; [exact Ha|].
    destruct (p_dnd p) as [[|dd|]|]; try discriminate.
    + now left.
    + right. exists dd. apply andb_true_iff in H. destruct H as [H1 H2]. apply Z.ltb_lt in H1.
      split; [reflexivity|]. split; [exact H1|].
      destruct (p_start p) as [s|]; [right|now left]. exists s. split; [reflexivity|]. now apply Z.ltb_lt.
  - intros [Ha H]. split; [exact Ha|].
    destruct H as [H|[dd [H1 [H2 H3]]]]; rewrite ?H; [reflexivity|].
    rewrite H1. apply andb_true_iff. split; [now apply Z.ltb_lt|].
    destruct H3 as [H3|[s [H3 H4]]]; rewrite H3; [reflexivity|now apply Z.ltb_lt].
Qed.

Lemma o_dnd_in_force_false now p : o_dnd_in_force now p = false <-> ~ dnd_in_force now p.
Proof. rewrite <- o_dnd_in_force_spec. destruct (o_dnd_in_force now p); split; congruence. Qed.

Lemma o_pdb_blocks_spec now pdbs p : o_pdb_blocks now pdbs p = true <-> pdb_blocks now pdbs p.
Proof.
  unfold o_pdb_blocks, pdb_blocks.
  rewrite !andb_true_iff, !negb_true_iff, orb_true_iff, o_dnd_in_force_false, existsb_exists.
  split.
  - intros [[[[H1 H2] H3] H4] H5]. repeat split; try assumption.
    destruct H5 as [H5|[b [Hb H5]]].
    + left. apply Z.ltb_lt in H5. lia.
    + right. exists b. apply filter_In in Hb. destruct Hb as [Hb Hm].
      apply andb_true_iff in H5. destruct H5 as [H5 H6]. apply Z.leb_le in H5. apply negb_true_iff in H6.
      repeat split; try assumption. intros [Ha Hr]. rewrite Ha, Hr in H6. discriminate.
  - intros [H1 [H2 [H3 [H4 H5]]]]. repeat split; try assumption.
    destruct H5 as [H5|[b [Hb [Hm [Hal Hn]]]]].
    + left. apply Z.ltb_lt. lia.
    + right. exists b. split; [apply filter_In; now split|].
      apply andb_true_iff. split; [now apply Z.leb_le|]. apply negb_true_iff.
      destruct (b_always b), (ready_false p); simpl; try reflexivity. exfalso. apply Hn. now split.
Qed.

Lemma o_pod_blocked_spec now pdbs n : o_pod_blocked now pdbs n = true <-> pod_blocked now pdbs n.
Proof.
  unfold o_pod_blocked, pod_blocked. rewrite existsb_exists.
  split; intros [p [Hp H]]; exists p; (split; [exact Hp|]).
  - apply orb_true_iff in H. destruct H as [H|H]; [left; now apply o_dnd_in_force_spec|right; now apply o_pdb_blocks_spec].
  - apply orb_true_iff. destruct H as [H|H]; [left; now apply o_dnd_in_force_spec|right; now apply o_pdb_blocks_spec].
Qed.

Lemma o_empty_spec n : o_empty n = true <-> empty n.
Proof.
  unfold o_empty, empty. rewrite forallb_forall. split; intros H p Hp.
  - intros Hr. specialize (H p Hp). rewrite Hr in H. simpl in H. now apply Z.leb_le.
  - specialize (H p Hp). destruct (is_reschedulable p); simpl; [apply Z.leb_le; now apply H|reflexivity].
Qed.

Lemma o_deleting_spec me n : o_deleting me n = true <-> deleting me n.
Proof.
  unfold o_deleting, deleting. rewrite !orb_true_iff. split.
  - intros [[H|H]|H]; [now left| |].
    + right; left. destruct (s_claim n) as [c|]; [|discriminate]. exists c. split; [reflexivity|].
      apply orb_true_iff in H. destruct H as [H|H]; [now left|right; now apply cond_true_iff].
    + right; right. destruct (s_node n) as [k|]; [|discriminate]. destruct (s_claim n); [discriminate|].
      split; [reflexivity|]. now exists k.
  - intros [H|[[c [Hc H]]|[Hc [k [Hk H]]]]]; [left; now left| |].
    + left; right. rewrite Hc. apply orb_true_iff. destruct H as [H|H]; [now left|right; now apply cond_true_iff].
    + right. now rewrite Hk, Hc.
Qed.

Lemma nominated_spec now me : nominated now me = true <-> recently_nominated now me.
Proof.
  unfold nominated, recently_nominated. destruct (m_until me) as [u|]; split.
  - intros H. exists u. split; [reflexivity|now apply Z.ltb_lt].
  - intros [u' [H1 H2]]. inversion H1; subst. now apply Z.ltb_lt.
  - discriminate.
  - intros [u' [H1 _]]. discriminate.
Qed.

Lemma not_true_iff_false' b (P : Prop) : (b = true <-> P) -> (negb b = true <-> ~ P).
Proof. intros H. rewrite negb_true_iff. rewrite <- H. destruct b; split; congruence. Qed.

Lemma false_iff_not b (P : Prop) : (b = true <-> P) -> (b = false <-> ~ P).
Proof. intros H. rewrite <- H. destruct b; split; congruence. Qed.

Lemma method_req_b_spec m pl c n : method_req_b m pl c n = true <-> method_req m pl c n.
Proof.
  destruct m; simpl; rewrite ?andb_true_iff, ?negb_true_iff, ?cond_true_iff, ?is_set_iff, ?o_empty_spec, ?Z.leb_le;
    rewrite ?(false_iff_not _ _ (o_empty_spec n)), ?(false_iff_not _ _ (String.eqb_eq _ _)); tauto.
Qed.

Theorem eligible_b_spec w d m n : eligible_b w d m n = true <-> eligible w d m n.
Proof.
  unfold eligible_b, eligible.
  destruct (s_claim n) as [c|] eqn:Hc; [|split; [discriminate|intros [c [k [H _]]]; discriminate]].
  destruct (s_node n) as [k|] eqn:Hk; [|split; [discriminate|intros [c' [k' [_ [H _]]]]; discriminate]].
  rewrite !andb_true_iff.
  rewrite (not_true_iff_false' _ _ (o_deleting_spec _ n)).
  rewrite (not_true_iff_false' _ _ (nominated_spec _ _)).
  rewrite (not_true_iff_false' _ _ (String.eqb_eq _ _)).
  rewrite String.eqb_eq, negb_true_iff, orb_true_iff, andb_true_iff.
  rewrite (not_true_iff_false' _ _ (o_pod_blocked_spec _ _ n)).
  split.
  - intros [[[[[[H1 H2] H3] H4] H5] H6] H7].
    exists c, k. do 7 (split; [first [reflexivity|assumption]|]). split.
    + intros Hb. destruct H6 as [H6|H6]; [contradiction|exact H6].
    + destruct (o_pool w n) as [pl|]; [|discriminate]. exists pl. split; [reflexivity|now apply method_req_b_spec].
  - intros [c' [k' [E1 [E2 [H1 [H2 [H3 [H4 [H5 [H6 [pl [Hp H7]]]]]]]]]]]].
    inversion E1; inversion E2; subst c' k'.
    repeat split; try assumption.
    + destruct (o_pod_blocked (d_now d) (w_pdbs w) n) eqn:Hb.
      * right. apply H6. now apply o_pod_blocked_spec.
      * left. intros Hx. apply o_pod_blocked_spec in Hx. congruence.
    + rewrite Hp. now apply method_req_b_spec.
Qed.

(* ================================================================== the model meets the specification *)

Lemma dnd_active_force now p : is_active p && dnd_active now p = o_dnd_in_force now p.
Proof.
  unfold dnd_active, o_dnd_in_force. destruct (is_active p); simpl; [|reflexivity].
  destruct (p_dnd p) as [[|dd|]|]; try reflexivity.
  destruct (Z.leb_spec dd 0), (Z.ltb_spec 0 dd); try lia; simpl; try reflexivity.
  destruct (p_start p) as [s|]; [|reflexivity].
  destruct (Z.ltb_spec (now - s) dd), (Z.ltb_spec now (s + dd)); try reflexivity; lia.
Qed.

Lemma pod_ok_char now pdbs p :
  (forall b, In b pdbs -> 0 <= b_allowed b) ->
  is_disruptable now p && pod_evict_ok now pdbs p = negb (o_dnd_in_force now p || o_pdb_blocks now pdbs p).
Proof.
  intros wf. unfold is_disruptable, pod_evict_ok, is_evictable, o_pdb_blocks.
  rewrite <- (dnd_active_force now p).
  destruct (is_active p) eqn:Ha; simpl; [|reflexivity].
  destruct (dnd_active now p) eqn:Hd; simpl; [reflexivity|].
  destruct (tolerates p); simpl; [reflexivity|].
  destruct (owned_by_node p); simpl; [reflexivity|].
  assert (wf' : forall b, In b (filter (pdb_matches p) pdbs) -> 0 <= b_allowed b).
  { intros b Hb. apply filter_In in Hb. apply wf. tauto. }
  destruct (filter (pdb_matches p) pdbs) as [|b1 [|b2 r]]; simpl.
  - reflexivity.
  - specialize (wf' b1 (or_introl eq_refl)).
    destruct (b_always b1 && ready_false p); simpl.
    + now rewrite andb_false_r.
    + rewrite andb_true_r, orb_false_r.
      destruct (Z.eqb_spec (b_allowed b1) 0), (Z.leb_spec (b_allowed b1) 0); try reflexivity; lia.
  - assert (H : (1 <? Z.pos (Pos.succ (Pos.of_succ_nat (length r)))) = true) by (apply Z.ltb_lt; lia).
    rewrite H. reflexivity.
Qed.

Lemma existsb_orb {A} (f g : A -> bool) l : existsb (fun x => f x || g x) l = existsb f l || existsb g l.
Proof.
  induction l as [|a l IH]; simpl; [reflexivity|]. rewrite IH.
  destruct (f a), (g a), (existsb f l), (existsb g l); reflexivity.
Qed.

Lemma existsb_ext' {A} (f g : A -> bool) l : (forall x, f x = g x) -> existsb f l = existsb g l.
Proof. intros H. induction l as [|a l IH]; simpl; [reflexivity|]. now rewrite H, IH. Qed.

Lemma validate_pods_char f now pdbs n :
  (forall b, In b pdbs -> 0 <= b_allowed b) ->
  validate_pods f now pdbs n =
  match s_node n, f with
  | Some _, FPods => PErr
  | _, _ => if o_pod_blocked now pdbs n then PBlocked else POk
  end.
Proof.
  intros wf. unfold validate_pods, o_pod_blocked.
  assert (E : existsb (fun p => o_dnd_in_force now p || o_pdb_blocks now pdbs p) (pods_of n) =
              existsb (fun p => negb (is_disruptable now p)) (pods_of n)
              || existsb (fun p => negb (pod_evict_ok now pdbs p)) (pods_of n)).
  { rewrite <- existsb_orb. apply existsb_ext'. intros p.
    pose proof (pod_ok_char now pdbs p wf) as H.
    destruct (is_disruptable now p), (pod_evict_ok now pdbs p), (o_dnd_in_force now p || o_pdb_blocks now pdbs p);
      simpl in *; congruence. }
  rewrite E.
  destruct (s_node n), f;
    destruct (existsb (fun p => negb (is_disruptable now p)) (pods_of n)),
             (existsb (fun p => negb (pod_evict_ok now pdbs p)) (pods_of n)); reflexivity.
Qed.

Lemma resched_cost_nonneg ps : 0 <= resched_cost ps.
Proof. induction ps as [|p ps IH]; simpl; lia. Qed.

Lemma is_empty_char ps :
  (resched_cost (filter is_reschedulable ps) <=? 0) =
  forallb (fun p => negb (is_reschedulable p) || (evict_cost p <=? 0)) ps.
Proof.
  induction ps as [|p ps IH]; simpl; [reflexivity|].
  destruct (is_reschedulable p); simpl; [|exact IH].
  rewrite <- IH. pose proof (resched_cost_nonneg (filter is_reschedulable ps)).
  destruct (Z.leb_spec (evict_cost p) 0), (Z.leb_spec (resched_cost (filter is_reschedulable ps)) 0),
           (Z.leb_spec (Z.max 0 (evict_cost p) + resched_cost (filter is_reschedulable ps)) 0);
    simpl; try reflexivity; lia.
Qed.

(* the exact characterisation of one candidate decision *)
Theorem is_candidate_char w d m n :
  pdbs_wf w -> is_candidate w d m n = eligible_b w d m n && extra_b w m n.
Proof.
  intros wf.
  unfold is_candidate, new_candidate, validate_node, validate_node_only, eligible_b, extra_b, find_pool, o_pool.
  rewrite (validate_pods_char _ _ _ n wf).
  destruct (s_claim n) as [c|] eqn:Hc; destruct (s_node n) as [k|] eqn:Hk; simpl;
    try (destruct (s_queued n); reflexivity).
  unfold initialized, deleted, o_deleting. rewrite Hc, Hk.
  destruct (s_queued n); simpl; [now rewrite !andb_false_r|].
  destruct (String.eqb (get K_INIT (k_labels k)) "true"); simpl; [|reflexivity].
  destruct (m_marked (mem_of (d_mem d) (s_id n))); simpl; [reflexivity|].
  destruct (c_deleting c); simpl; [reflexivity|].
  destruct (cond_true (c_terminating c)); simpl; [reflexivity|].
  destruct (nominated (d_now d) (mem_of (d_mem d) (s_id n))); simpl; [reflexivity|].
  destruct (String.eqb (get K_DND (annos n)) "true"); simpl; [reflexivity|].
  destruct (has K_POOL (labels n)); simpl; [|now rewrite andb_false_r].
  destruct (find (fun pl : pool => String.eqb (pl_name pl) (get K_POOL (labels n)) && pl_managed pl) (w_pools w))
    as [pl|]; simpl; [|now rewrite !andb_false_r].
  destruct (pool_its pl) as [its|]; simpl; [|now rewrite !andb_false_r].
  unfold should_disrupt, should_consolidate, is_empty, method_req_b.
  remember (o_empty n) as oe eqn:Hoe. unfold o_empty in Hoe. rewrite <- is_empty_char in Hoe.
  rewrite (Z.leb_antisym 0 (s_buffer n)).
  destruct (w_fault w), (o_pod_blocked (d_now d) (w_pdbs w) n), (c_tgp c), m; simpl; try reflexivity;
    rewrite <- ?Hoe; rewrite ?andb_false_r; try reflexivity;
    destruct (pl_static pl); simpl; try reflexivity;
    destruct (is_set (pl_after pl)); simpl; rewrite ?andb_false_r; try reflexivity;
    destruct oe; simpl; rewrite ?andb_false_r; try reflexivity;
    destruct (cond_true (c_consolidatable c)); simpl; rewrite ?andb_false_r; try reflexivity;
    destruct (cond_true (c_drifted c)); simpl; rewrite ?andb_false_r; try reflexivity;
    destruct (0 <? s_buffer n); simpl; try reflexivity;
    destruct (existsb (String.eqb (get K_IT (labels n))) its); simpl; rewrite ?andb_false_r; try reflexivity;
    destruct (has K_CT (labels n)); simpl; rewrite ?andb_false_r; try reflexivity;
    destruct (has K_ZONE (labels n)); simpl; rewrite ?andb_false_r; try reflexivity;
    destruct (String.eqb (pl_policy pl) "WhenEmpty"); reflexivity.
Qed.

(* ------------------------------------------------------------------ candidate sets *)

Lemma get_candidates_some w m ids :
  get_candidates w m = Some ids ->
  ids = map s_id (filter (is_candidate w (final w) m) (final_nodes w)).
Proof. unfold get_candidates. destruct (w_fault w); intros H; inversion H; reflexivity. Qed.

(* Membership in the candidate set of a method is exactly: eligible (the property) and the
   method-independent technical requirements [extra_b]. *)
Theorem candidate_iff_l : forall w m ids id, pdbs_wf w -> get_candidates w m = Some ids ->
  (In id ids <-> exists n, In n (final_nodes w) /\ s_id n = id /\ eligible w (final w) m n /\ extra_b w m n = true).
Proof.
  intros w m ids id wf H. apply get_candidates_some in H. subst ids.
  rewrite in_map_iff. split.
  - intros [n [Hid Hn]]. apply filter_In in Hn. destruct Hn as [Hn Hc].
    rewrite (is_candidate_char _ _ _ _ wf) in Hc. apply andb_true_iff in Hc. destruct Hc as [He Hx].
    exists n. repeat split; try assumption. now apply eligible_b_spec.
  - intros [n [Hn [Hid [He Hx]]]]. exists n. split; [exact Hid|]. apply filter_In. split; [exact Hn|].
    rewrite (is_candidate_char _ _ _ _ wf). apply andb_true_iff. split; [now apply eligible_b_spec|exact Hx].
Qed.

Theorem candidate_implies_eligible_l : forall w m ids id, pdbs_wf w -> get_candidates w m = Some ids ->
  In id ids -> exists n, In n (final_nodes w) /\ s_id n = id /\ eligible w (final w) m n.
Proof.
  intros w m ids id wf H Hin. destruct (proj1 (candidate_iff_l w m ids id wf H) Hin) as [n [H1 [H2 [H3 _]]]].
  exists n. auto.
Qed.

(* a failing List of NodePools or PDBs yields no candidates at all *)
Lemma list_failure_no_candidates w m : w_fault w = FPools \/ w_fault w = FPdbs -> get_candidates w m = None.
Proof. unfold get_candidates. intros [H|H]; rewrite H; reflexivity. Qed.

(* the oracle on observed candidate ids *)
Theorem holds_m_spec w m ids :
  holds_m w m ids = true <->
  forall id, In id ids -> exists n, In n (final_nodes w) /\ s_id n = id /\ eligible w (final w) m n.
Proof.
  unfold holds_m. rewrite forallb_forall. split; intros H id Hid; specialize (H id Hid).
  - apply existsb_exists in H. destruct H as [n [Hn H]]. apply andb_true_iff in H. destruct H as [H1 H2].
    exists n. repeat split; [exact Hn|now apply String.eqb_eq|now apply eligible_b_spec].
  - destruct H as [n [Hn [H1 H2]]]. apply existsb_exists. exists n. split; [exact Hn|].
    apply andb_true_iff. split; [now apply String.eqb_eq|now apply eligible_b_spec].
Qed.

Theorem model_satisfies_oracle w m ids : pdbs_wf w -> get_candidates w m = Some ids -> holds_m w m ids = true.
Proof.
  intros wf H. apply holds_m_spec. intros id Hid. eapply candidate_implies_eligible_l; eassumption.
Qed.

(* ------------------------------------------------------------------ individual blockers, as corollaries *)

Section Blockers.
  Variables (w : world) (m : method) (ids : list string) (id : string).
  Hypothesis wf : pdbs_wf w.
  Hypothesis Hget : get_candidates w m = Some ids.
  Hypothesis Hin : In id ids.

  Let me_of (n : snode) := mem_of (d_mem (final w)) (s_id n).
  Let now := d_now (final w).

  (* only the eventual class (drift, static drift) may override pod-level blockers, and only with a TGP *)
  Lemma pod_blockers_l :
    exists n c, In n (final_nodes w) /\ s_id n = id /\ s_claim n = Some c /\
      (pod_blocked now (w_pdbs w) n -> (m = Drift \/ m = StaticDrift) /\ c_tgp c = true).
  Proof.
    destruct (candidate_implies_eligible_l w m ids id wf Hget Hin) as [n [Hn [Hid He]]].
    destruct He as [c [k [Hc [_ [_ [_ [_ [_ [_ [Hp _]]]]]]]]]].
    exists n, c. repeat split; try assumption.
    - destruct (Hp H) as [He _]. destruct m; simpl in He; try discriminate; auto.
    - now destruct (Hp H).
  Qed.

  Lemma graceful_never_blocked_l :
    eventual m = false ->
    exists n, In n (final_nodes w) /\ s_id n = id /\ ~ pod_blocked now (w_pdbs w) n.
  Proof.
    intros Hm. destruct (candidate_implies_eligible_l w m ids id wf Hget Hin) as [n [Hn [Hid He]]].
    destruct He as [c [k [_ [_ [_ [_ [_ [_ [_ [Hp _]]]]]]]]]].
    exists n. repeat split; try assumption. intros Hb. destruct (Hp Hb) as [He _]. congruence.
  Qed.

  Lemma consolidation_requires_l :
    is_consolidation m = true ->
    exists n c pl, In n (final_nodes w) /\ s_id n = id /\ s_claim n = Some c /\ o_pool w n = Some pl /\
      c_consolidatable c = Some CTrue /\ pl_static pl = false /\ (exists a, pl_after pl = Some a) /\
      (m <> Emptiness -> ~ empty n /\ pl_policy pl <> "WhenEmpty") /\
      (m = Emptiness -> empty n /\ s_buffer n <= 0).
  Proof.
    intros Hm. destruct (candidate_implies_eligible_l w m ids id wf Hget Hin) as [n [Hn [Hid He]]].
    destruct He as [c [k [Hc [_ [_ [_ [_ [_ [_ [_ [pl [Hpl Hr]]]]]]]]]]]].
    exists n, c, pl. do 4 (split; [assumption|]).
    destruct m; simpl in Hm; try discriminate; simpl in Hr; destruct Hr as [H1 [H2 [H3 [H4 H5]]]];
      repeat split; try assumption; try congruence; intros; try congruence; tauto.
  Qed.
End Blockers.

(* ------------------------------------------------------------------ histories of the in-memory protection state *)

(* what a history does to one cluster-state entry: its projection *)
Definition step1 (bm : Z) (id : string) (st : Z * mem) (o : op) : Z * mem :=
  match o with
  | OMark i => (fst st, if String.eqb i id then f_mark (snd st) else snd st)
  | OUnmark i => (fst st, if String.eqb i id then f_unmark (snd st) else snd st)
  | ONominate i => (fst st, if String.eqb i id then f_nominate (fst st + nom_window bm) (snd st) else snd st)
  | OTick dt => (fst st + dt, snd st)
  | ODelNode i => (fst st, if String.eqb i id then f_delnode (snd st) else snd st)
  | ODelClaim i => (fst st, if String.eqb i id then f_delclaim (snd st) else snd st)
  | ORefresh i c k => (fst st, if String.eqb i id then f_refresh c k (snd st) else snd st)
  end.

Lemma upd_keys i f ms : map fst (upd i f ms) = map fst ms.
Proof.
  unfold upd. rewrite map_map. apply map_ext. intros [j mj]. simpl. destruct (String.eqb i j); reflexivity.
Qed.

Lemma mem_of_upd i f ms id : In id (map fst ms) ->
  mem_of (upd i f ms) id = if String.eqb i id then f (mem_of ms id) else mem_of ms id.
Proof.
  induction ms as [|[j mj] r IH]; simpl; [tauto|]. intros Hin.
  destruct (String.eqb_spec id j) as [E|NE].
  - subst j. destruct (String.eqb_spec i id) as [E2|NE2]; simpl; now rewrite String.eqb_refl.
  - assert (Hr : In id (map fst r)) by (destruct Hin; [congruence|assumption]).
    specialize (IH Hr).
    destruct (String.eqb i j); simpl; destruct (String.eqb_spec id j); try congruence; exact IH.
Qed.

Lemma step_proj bm d o id : In id (map fst (d_mem d)) ->
  (d_now (step bm d o), mem_of (d_mem (step bm d o)) id) = step1 bm id (d_now d, mem_of (d_mem d) id) o
  /\ map fst (d_mem (step bm d o)) = map fst (d_mem d).
Proof.
  intros Hin. destruct o; simpl; rewrite ?upd_keys, ?(mem_of_upd _ _ _ _ Hin); split; try reflexivity.
Qed.

Lemma run_proj bm id ops : forall d, In id (map fst (d_mem d)) ->
  (d_now (fold_left (step bm) ops d), mem_of (d_mem (fold_left (step bm) ops d)) id)
  = fold_left (step1 bm id) ops (d_now d, mem_of (d_mem d) id).
Proof.
  induction ops as [|o ops IH]; intros d Hin; simpl; [reflexivity|].
  destruct (step_proj bm d o id Hin) as [H1 H2].
  rewrite IH by (rewrite H2; exact Hin). now rewrite H1.
Qed.

Definition no_unmark (id : string) (ops : list op) : Prop := forall i, In (OUnmark i) ops -> i <> id.
Definition no_nominate (id : string) (ops : list op) : Prop := forall i, In (ONominate i) ops -> i <> id.
(* the entry is not removed from (nor stripped of an object in) cluster state *)
Definition no_delete (id : string) (ops : list op) : Prop :=
  forall i, (In (ODelNode i) ops \/ In (ODelClaim i) ops) -> i <> id.
Definition ticks (ops : list op) : Z := fold_right (fun o acc => match o with OTick dt => dt + acc | _ => acc end) 0 ops.
Definition ids_unique (w : world) : Prop := NoDup (map s_id (w_nodes w)).   (* cluster.nodes is a map keyed by providerID *)

Lemma no_delete_tail id o ops : no_delete id (o :: ops) -> no_delete id ops.
Proof. intros H i [Hi|Hi]; apply H; [left|right]; now right. Qed.

(* without deletions an entry that exists keeps existing (updates only add objects) *)
Lemma alive_preserved bm id ops : forall st, no_delete id ops -> alive (snd st) = true ->
  alive (snd (fold_left (step1 bm id) ops st)) = true.
Proof.
  induction ops as [|o ops IH]; intros st Hno Ha; simpl; [exact Ha|].
  apply IH; [eapply no_delete_tail; exact Hno|].
  destruct o; simpl; try exact Ha; destruct (String.eqb_spec id0 id) as [E|NE]; try exact Ha.
  - unfold f_mark. now rewrite Ha.
  - unfold f_unmark. now rewrite Ha.
  - unfold f_nominate. now rewrite Ha.
  - exfalso. apply (Hno id0); [left; now left|exact E].
  - exfalso. apply (Hno id0); [right; now left|exact E].
  - unfold f_refresh, alive in *. simpl. apply orb_true_iff in Ha.
    destruct Ha as [Ha|Ha]; rewrite Ha; simpl; rewrite ?orb_true_r; reflexivity.
Qed.

Lemma marked_preserved bm id ops : forall st, no_unmark id ops -> no_delete id ops -> m_marked (snd st) = true ->
  m_marked (snd (fold_left (step1 bm id) ops st)) = true.
Proof.
  induction ops as [|o ops IH]; intros st Hno Hnd Hm; simpl; [exact Hm|].
  apply IH.
  - intros i Hi. apply Hno. now right.
  - eapply no_delete_tail; exact Hnd.
  - destruct o; simpl; try exact Hm; destruct (String.eqb_spec id0 id) as [E|NE]; try exact Hm.
    + unfold f_mark. destruct (alive (snd st)); [reflexivity|exact Hm].
    + exfalso. apply (Hno id0); [now left|exact E].
    + unfold f_nominate. destruct (alive (snd st)); exact Hm.
    + exfalso. apply (Hnd id0); [left; now left|exact E].
    + exfalso. apply (Hnd id0); [right; now left|exact E].
Qed.

Lemma until_preserved bm id ops : forall st, no_nominate id ops -> no_delete id ops ->
  m_until (snd (fold_left (step1 bm id) ops st)) = m_until (snd st) /\
  fst (fold_left (step1 bm id) ops st) = fst st + ticks ops.
Proof.
  induction ops as [|o ops IH]; intros st Hno Hnd; simpl; [split; [reflexivity|lia]|].
  assert (Hno' : no_nominate id ops) by (intros i Hi; apply Hno; now right).
  destruct (IH (step1 bm id st o) Hno' (no_delete_tail _ _ _ Hnd)) as [H1 H2]. rewrite H1, H2.
  destruct o; simpl; try (split; [reflexivity|lia]); destruct (String.eqb_spec id0 id) as [E|NE];
    try (split; [reflexivity|lia]).
  - unfold f_mark. destruct (alive (snd st)); simpl; split; try reflexivity; lia.
  - unfold f_unmark. destruct (alive (snd st)); simpl; split; try reflexivity; lia.
  - exfalso. apply (Hno id0); [now left|exact E].
  - exfalso. apply (Hnd id0); [left; now left|exact E].
  - exfalso. apply (Hnd id0); [right; now left|exact E].
Qed.

Lemma mem_of_init nodes n : NoDup (map s_id nodes) -> In n nodes ->
  mem_of (map (fun n0 => (s_id n0, mem_init n0)) nodes) (s_id n) = mem_init n.
Proof.
  induction nodes as [|a l IH]; simpl; [tauto|]. intros Hnd [E|Hin].
  - subst a. now rewrite String.eqb_refl.
  - inversion Hnd as [|x l' Hx Hl]; subst.
    destruct (String.eqb_spec (s_id n) (s_id a)) as [E|NE]; [|now apply IH].
    exfalso. apply Hx. rewrite <- E. apply in_map_iff. exists n. split; [reflexivity|exact Hin].
Qed.

Lemma final_proj w n : ids_unique w -> In n (w_nodes w) ->
  (d_now (final w), mem_of (d_mem (final w)) (s_id n))
  = fold_left (step1 (w_bm w) (s_id n)) (w_ops w) (w_t0 w, mem_init n).
Proof.
  intros Hu Hn. unfold final.
  assert (Hk : In (s_id n) (map fst (d_mem (init_dyn w)))).
  { simpl. rewrite map_map. simpl. apply in_map_iff. exists n. split; [reflexivity|exact Hn]. }
  rewrite (run_proj _ _ _ _ Hk). simpl. now rewrite (mem_of_init _ _ Hu Hn).
Qed.

(* an eligible node of the final state comes from a described node whose NodeClaim is in cluster state *)
Lemma final_node_origin w m n' : In n' (final_nodes w) -> eligible w (final w) m n' ->
  exists n, In n (w_nodes w) /\ s_id n = s_id n' /\ m_claim (mem_of (d_mem (final w)) (s_id n)) = true.
Proof.
  intros Hin He. unfold final_nodes in Hin. apply in_map_iff in Hin. destruct Hin as [n [E Hn]]. subst n'.
  exists n. split; [exact Hn|]. split; [reflexivity|].
  destruct He as [c [k [Hc _]]]. simpl in Hc.
  destruct (m_claim (mem_of (d_mem (final w)) (s_id n))); [reflexivity|discriminate].
Qed.

(* A node marked for deletion (and not unmarked since) is no candidate of any method, whatever else happened
   to an entry that stays in cluster state - including updates from new Node / NodeClaim objects. *)
Theorem marked_protects_l : forall w m ids id ops1 ops2,
  pdbs_wf w -> ids_unique w -> get_candidates w m = Some ids ->
  (forall n, In n (w_nodes w) -> s_id n = id -> alive (mem_init n) = true) ->
  w_ops w = (ops1 ++ OMark id :: ops2)%list -> no_unmark id ops2 -> no_delete id (w_ops w) -> ~ In id ids.
Proof.
  intros w m ids id ops1 ops2 wf Hu Hget Hal Hops Hno Hnd Hin.
  destruct (candidate_implies_eligible_l w m ids id wf Hget Hin) as [n' [Hn' [Hid' He]]].
  destruct (final_node_origin w m n' Hn' He) as [n [Hn [Hid _]]].
  destruct He as [c [k [_ [_ [_ [Hdel _]]]]]]. apply Hdel. left.
  rewrite Hid' in Hid. rewrite Hid'.
  pose proof (final_proj w n Hu Hn) as Hp. rewrite Hops, fold_left_app in Hp. cbn [fold_left] in Hp.
  rewrite Hid in Hp.
  set (st1 := fold_left (step1 (w_bm w) id) ops1 (w_t0 w, mem_init n)) in Hp.
  assert (Hnd1 : no_delete id ops1).
  { intros i Hi. apply Hnd. rewrite Hops. destruct Hi as [Hi|Hi]; [left|right]; apply in_or_app; now left. }
  assert (Hnd2 : no_delete id ops2).
  { intros i Hi. apply Hnd. rewrite Hops. destruct Hi as [Hi|Hi]; [left|right]; apply in_or_app; right; now right. }
  assert (Ha1 : alive (snd st1) = true) by (apply alive_preserved; [exact Hnd1|simpl; now apply Hal]).
  assert (Hm : m_marked (snd (fold_left (step1 (w_bm w) id) ops2 (step1 (w_bm w) id st1 (OMark id)))) = true).
  { apply marked_preserved; [exact Hno|exact Hnd2|]. simpl. rewrite String.eqb_refl. unfold f_mark. now rewrite Ha1. }
  rewrite <- Hp in Hm. simpl in Hm. exact Hm.
Qed.

(* A node nominated for pending pods is no candidate of any method until the nomination window
   max(2*BatchMaxDuration, 10s) has passed, whatever else happened in between to an entry that stays. *)
Theorem nominated_protects_l : forall w m ids id ops1 ops2,
  pdbs_wf w -> ids_unique w -> get_candidates w m = Some ids ->
  (forall n, In n (w_nodes w) -> s_id n = id -> alive (mem_init n) = true) ->
  w_ops w = (ops1 ++ ONominate id :: ops2)%list -> no_nominate id ops2 -> no_delete id (w_ops w) ->
  ticks ops2 < nom_window (w_bm w) -> ~ In id ids.
Proof.
  intros w m ids id ops1 ops2 wf Hu Hget Hal Hops Hno Hnd Ht Hin.
  destruct (candidate_implies_eligible_l w m ids id wf Hget Hin) as [n' [Hn' [Hid' He]]].
  destruct (final_node_origin w m n' Hn' He) as [n [Hn [Hid _]]].
  destruct He as [c [k [_ [_ [_ [_ [Hnom _]]]]]]]. apply Hnom.
  rewrite Hid' in Hid. rewrite Hid'.
  pose proof (final_proj w n Hu Hn) as Hp. rewrite Hops, fold_left_app in Hp. cbn [fold_left] in Hp.
  rewrite Hid in Hp.
  set (st1 := fold_left (step1 (w_bm w) id) ops1 (w_t0 w, mem_init n)) in Hp.
  assert (Hnd1 : no_delete id ops1).
  { intros i Hi. apply Hnd. rewrite Hops. destruct Hi as [Hi|Hi]; [left|right]; apply in_or_app; now left. }
  assert (Hnd2 : no_delete id ops2).
  { intros i Hi. apply Hnd. rewrite Hops. destruct Hi as [Hi|Hi]; [left|right]; apply in_or_app; right; now right. }
  assert (Ha1 : alive (snd st1) = true) by (apply alive_preserved; [exact Hnd1|simpl; now apply Hal]).
  destruct (until_preserved (w_bm w) id ops2 (step1 (w_bm w) id st1 (ONominate id)) Hno Hnd2) as [H1 H2].
  rewrite <- Hp in H1, H2. simpl in H1, H2. rewrite String.eqb_refl in H1. unfold f_nominate in H1. rewrite Ha1 in H1.
  simpl in H1.
  exists (fst st1 + nom_window (w_bm w)). split; [exact H1|]. rewrite H2. lia.
Qed.

(* Deleting the Node object of a managed entry (its NodeClaim stays) keeps the protection memory, and so does
   re-adding it; only the removal of the whole entry forgets it (there is then no node to protect). *)
Lemma delete_keeps_memory m : m_claim m = true -> m_node m = true ->
  m_marked (f_refresh true true (f_delnode m)) = m_marked m /\ m_until (f_refresh true true (f_delnode m)) = m_until m /\
  m_marked (f_refresh true true (f_delclaim m)) = m_marked m /\ m_until (f_refresh true true (f_delclaim m)) = m_until m.
Proof. intros Hc Hk. unfold f_delnode, f_delclaim, f_refresh. rewrite Hc, Hk. simpl. auto. Qed.

(* ------------------------------------------------------------------ the Consolidatable condition *)

Definition consolidatable_spec (i : cinput) : Prop :=
  exists a, ci_after i = Some a /\ ci_init i = Some CTrue /\ (a = 0 \/ a <= ci_now i - time_to_check i).

Lemma consolidatable_spec_b_iff i : consolidatable_spec_b i = true <-> consolidatable_spec i.
Proof.
  unfold consolidatable_spec_b, consolidatable_spec. destruct (ci_after i) as [a|].
  - rewrite andb_true_iff, orb_true_iff, cond_true_iff, Z.eqb_eq, Z.leb_le. split.
    + intros [H1 H2]. exists a. auto.
    + intros [a' [E [H1 H2]]]. inversion E; subst. auto.
  - split; [discriminate|intros [a [E _]]; discriminate].
Qed.

(* after a reconcile the condition is True exactly when consolidateAfter is set, the claim is initialized
   and consolidateAfter has elapsed since the last pod event (or since initialization); otherwise it is absent *)
Theorem consolidatable_iff_l : forall i,
  (fst (reconcile_consolidatable i) = Some CTrue <-> consolidatable_spec i) /\
  (fst (reconcile_consolidatable i) = Some CTrue \/ fst (reconcile_consolidatable i) = None).
Proof.
  intros i. unfold reconcile_consolidatable, under_consolidate_after, consolidatable_spec.
  destruct (ci_after i) as [a|]; simpl.
  2:{ split; [split; [discriminate|intros [a [E _]]; discriminate]|now right]. }
  destruct (cond_true (ci_init i)) eqn:Hi; simpl.
  2:{ split; [|now right]. split; [discriminate|]. intros [a' [_ [H _]]]. apply cond_true_iff in H. congruence. }
  apply cond_true_iff in Hi.
  destruct (Z.eqb_spec a 0) as [E|NE]; simpl.
  { split; [|now left]. split; [|reflexivity]. intros _. exists a. auto. }
  destruct (Z.ltb_spec (ci_now i - time_to_check i) a); simpl.
  - split; [|now right]. split; [discriminate|]. intros [a' [E [_ [H1|H1]]]]; inversion E; subst; lia.
  - split; [|now left]. split; [|reflexivity]. intros _. exists a. repeat split; auto.
Qed.

(* when the condition is withheld because the window has not elapsed, the requeue lands exactly on the
   instant at which the next reconcile sets it *)
Theorem requeue_hits_boundary_l : forall i rq,
  reconcile_consolidatable i = (None, rq) -> rq <> 0 ->
  reconcile_consolidatable (mkCI (ci_now i + rq) (ci_after i) (ci_init i) (ci_init_ltt i) (ci_last_pod i) None)
  = (Some CTrue, 0).
Proof.
  intros i rq. unfold reconcile_consolidatable, under_consolidate_after, time_to_check. simpl.
  destruct (ci_after i) as [a|]; [|intros H; inversion H; congruence].
  destruct (cond_true (ci_init i)); simpl; [|intros H; inversion H; congruence].
  destruct (Z.eqb_spec a 0); simpl; [intros H; inversion H|].
  destruct (Z.ltb_spec (ci_now i - match ci_last_pod i with Some t => t | None => ci_init_ltt i end) a) as [Hlt|Hge]; simpl;
    intros H; inversion H; subst; intros _.
  destruct (Z.ltb_spec (ci_now i + (match ci_last_pod i with Some t => t | None => ci_init_ltt i end + a - ci_now i)
                        - match ci_last_pod i with Some t => t | None => ci_init_ltt i end) a) as [Hlt2|Hge2]; [lia|reflexivity].
Qed.

(* ------------------------------------------------------------------ two literal readings the code does not satisfy *)

(* (1) "empty" read as "no reschedulable pod": a WhenEmpty pool deletes a node whose only pod has eviction
   cost 0 (pod-deletion-cost -2^27). Documented behaviour (designs/balanced-consolidation.md). *)
Definition zero_cost_pod : pod :=
  mkPod "default" "p1" [("app", "p1")] "Running" false [("apps/v1", "ReplicaSet")] [] None (Some (-3500000000000)) []
        (Some (-134217728)) None.
Definition base_labels (pl : string) : smap := [("ct", "on-demand"); ("it", "it-a"); ("np", pl); ("zone", "z1")].
Definition base_node_labels (pl : string) : smap :=
  [("ct", "on-demand"); ("init", "true"); ("it", "it-a"); ("np", pl); ("reg", "true"); ("zone", "z1")].
Definition pl_wempty : pool := mkPool "wempty" true (Some ["it-a"]) false (Some 30000000000) "WhenEmpty" None.
Definition n_zero_cost : snode :=
  mkSNode "n1" (Some (mkClaim (base_labels "wempty") [] false None (Some CTrue) (Some CTrue) false))
          (Some (mkNode (base_node_labels "wempty") [] false)) [zero_cost_pod] false 0.
Definition w_zero_cost : world := mkWorld 0 10000000000 FNone [pl_wempty] [] [n_zero_cost] [OTick 100000000000].

Lemma when_empty_literal_refuted_l :
  exists w n pl, get_candidates w Emptiness = Some [s_id n] /\ In n (final_nodes w) /\ o_pool w n = Some pl /\
                 pl_policy pl = "WhenEmpty" /\ ~ literally_empty n.
Proof.
  exists w_zero_cost, n_zero_cost, pl_wempty. split; [vm_compute; reflexivity|].
  split; [left; reflexivity|]. split; [vm_compute; reflexivity|]. split; [reflexivity|].
  intros H. specialize (H zero_cost_pod (or_introl eq_refl)). vm_compute in H. discriminate.
Qed.

Definition positive_costs (n : snode) : Prop :=
  forall p, In p (pods_of n) -> is_reschedulable p = true -> 0 < evict_cost p.

Lemma empty_literal n : positive_costs n -> (empty n <-> literally_empty n).
Proof.
  intros Hpos. split; intros H p Hp.
  - destruct (is_reschedulable p) eqn:Hr; [|reflexivity]. specialize (H p Hp Hr). specialize (Hpos p Hp Hr). lia.
  - intros Hr. rewrite (H p Hp) in Hr. discriminate.
Qed.

Lemma when_empty_literal_partial_l : forall w m ids id, pdbs_wf w -> get_candidates w m = Some ids -> In id ids ->
  is_consolidation m = true ->
  exists n pl, In n (final_nodes w) /\ s_id n = id /\ o_pool w n = Some pl /\
    (positive_costs n -> (m = Emptiness -> literally_empty n) /\
                         (m <> Emptiness -> ~ literally_empty n /\ pl_policy pl <> "WhenEmpty")).
Proof.
  intros w m ids id wf Hget Hin Hm.
  destruct (consolidation_requires_l w m ids id wf Hget Hin Hm) as [n [c [pl [Hn [Hid [_ [Hpl [_ [_ [_ [H1 H2]]]]]]]]]]].
  exists n, pl. do 3 (split; [assumption|]). intros Hpos. split.
  - intros E. apply (empty_literal n Hpos). now apply H2.
  - intros NE. destruct (H1 NE) as [H3 H4]. split; [|exact H4]. intros HL. apply H3. now apply (empty_literal n Hpos).
Qed.

(* (2) the node-level do-not-disrupt annotation is read from the NodeClaim while the Node lacks the
   karpenter.sh/registered label, even when the Node is labelled initialized: an annotation on the Node
   object is then not seen. *)
Definition k_unregistered_dnd : knode :=
  mkNode [("ct", "on-demand"); ("init", "true"); ("it", "it-a"); ("np", "dyn"); ("zone", "z1")] [("dnd", "true")] false.
Definition n_unregistered_dnd : snode :=
  mkSNode "n1" (Some (mkClaim (base_labels "dyn") [] false None (Some CTrue) (Some CTrue) false))
          (Some k_unregistered_dnd) [] false 0.
Definition w_unregistered_dnd : world :=
  mkWorld 0 10000000000 FNone
    [mkPool "dyn" true (Some ["it-a"]) false (Some 30000000000) "WhenEmptyOrUnderutilized" None] []
    [n_unregistered_dnd] [OTick 100000000000].

Lemma node_dnd_literal_refuted_l :
  exists w n k, get_candidates w Drift = Some [s_id n] /\ In n (final_nodes w) /\ s_node n = Some k /\
                get K_DND (k_annos k) = "true".
Proof.
  exists w_unregistered_dnd, n_unregistered_dnd, k_unregistered_dnd. split; [vm_compute; reflexivity|].
  split; [left; reflexivity|]. split; reflexivity.
Qed.

Lemma node_dnd_literal_partial_l : forall w m ids id, pdbs_wf w -> get_candidates w m = Some ids -> In id ids ->
  exists n k, In n (final_nodes w) /\ s_id n = id /\ s_node n = Some k /\
    (get K_REG (k_labels k) = "true" -> get K_DND (k_annos k) <> "true").
Proof.
  intros w m ids id wf Hget Hin.
  destruct (candidate_implies_eligible_l w m ids id wf Hget Hin) as [n [Hn [Hid He]]].
  destruct He as [c [k [Hc [Hk [_ [_ [_ [Hd _]]]]]]]].
  exists n, k. do 3 (split; [assumption|]). intros Hr.
  unfold annos, pick, registered in Hd. rewrite Hc, Hk in Hd. rewrite Hr in Hd. simpl in Hd. exact Hd.
Qed.

(* ------------------------------------------------------------------ non-vacuity helpers *)
Definition w_example : world :=
  mkWorld 0 10000000000 FNone
    [mkPool "dyn" true (Some ["it-a"]) false (Some 30000000000) "WhenEmptyOrUnderutilized" (Some 600000000000);
     mkPool "static" true (Some ["it-a"]) true None "WhenEmptyOrUnderutilized" None]
    [mkPdb "default" "pdb1" (Some ([("app", "p1")], [])) 0 false]
    [mkSNode "busy" (Some (mkClaim (base_labels "dyn") [] false None (Some CTrue) (Some CTrue) false))
             (Some (mkNode (base_node_labels "dyn") [] false))
             [mkPod "default" "p2" [("app", "p2")] "Running" false [("apps/v1", "ReplicaSet")] [] None (Some 0) [] None None] false 0;
     mkSNode "idle" (Some (mkClaim (base_labels "dyn") [] false None (Some CTrue) None false))
             (Some (mkNode (base_node_labels "dyn") [] false)) [] false 0;
     mkSNode "guarded" (Some (mkClaim (base_labels "dyn") [] false None (Some CTrue) (Some CTrue) true))
             (Some (mkNode (base_node_labels "dyn") [] false))
             [mkPod "default" "p1" [("app", "p1")] "Running" false [("apps/v1", "ReplicaSet")] [] None (Some 0) [] None None] false 0;
     (* same blocked pod, NodeClaim without a TGP although the pool template has one: protected from every method *)
     mkSNode "unguarded" (Some (mkClaim (base_labels "dyn") [] false None (Some CTrue) (Some CTrue) false))
             (Some (mkNode (base_node_labels "dyn") [] false))
             [mkPod "default" "p1" [("app", "p1")] "Running" false [("apps/v1", "ReplicaSet")] [] None (Some 0) [] None None] false 0;
     mkSNode "fixed" (Some (mkClaim (base_labels "static") [] false None None (Some CTrue) false))
             (Some (mkNode (base_node_labels "static") [] false)) [] false 0;
     mkSNode "nominated" (Some (mkClaim (base_labels "dyn") [] false None (Some CTrue) (Some CTrue) false))
             (Some (mkNode (base_node_labels "dyn") [] false)) [] false 0]
    [OTick 90000000000; ONominate "nominated"; OTick 10000000000].
