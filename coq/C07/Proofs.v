(* C07 — specification (Prop) of "disruption never targets protected or ineligible nodes" and proofs that
   the model of candidate selection satisfies it, for every world, method, clock position and history of
   Mark / Unmark / Nominate / tick / refresh operations. *)
From KV Require Import C07.Model.
Open Scope string_scope.
Open Scope Z_scope.

(* ================================================================== specification *)

(* the pod's do-not-disrupt annotation is in force at [now] *)
Definition dnd_in_force (now : Z) (p : pod) : Prop :=
  is_active p = true /\
  (p_dnd p = Some DTrue \/
   exists dd, p_dnd p = Some (DDur dd) /\ 0 < dd /\
              (p_start p = None \/ exists s, p_start p = Some s /\ now < s + dd)).

(* Karpenter would evict the pod through the eviction API and a PodDisruptionBudget refuses *)
Definition pdb_blocks (now : Z) (pdbs : list pdb) (p : pod) : Prop :=
  is_active p = true /\ tolerates p = false /\ owned_by_node p = false /\ ~ dnd_in_force now p /\
  ((1 < length (filter (pdb_matches p) pdbs))%nat \/
   exists b, In b pdbs /\ pdb_matches p b = true /\ b_allowed b <= 0 /\
             ~ (b_always b = true /\ ready_false p = true)).

Definition pod_blocked (now : Z) (pdbs : list pdb) (n : snode) : Prop :=
  exists p, In p (pods_of n) /\ (dnd_in_force now p \/ pdb_blocks now pdbs p).

Definition deleting (me : mem) (n : snode) : Prop :=
  m_marked me = true \/
  (exists c, s_claim n = Some c /\ (c_deleting c = true \/ c_terminating c = Some CTrue)) \/
  (s_claim n = None /\ exists k, s_node n = Some k /\ k_deleting k = true).

Definition recently_nominated (now : Z) (me : mem) : Prop := exists u, m_until me = Some u /\ now < u.

(* no reschedulable pod contributes positive disruption cost (designs/balanced-consolidation.md) *)
Definition empty (n : snode) : Prop :=
  forall p, In p (pods_of n) -> is_reschedulable p = true -> evict_cost p <= 0.
Definition literally_empty (n : snode) : Prop :=
  forall p, In p (pods_of n) -> is_reschedulable p = false.

Definition method_req (m : method) (pl : pool) (c : claim) (n : snode) : Prop :=
  match m with
  | Drift => pl_static pl = false /\ c_drifted c = Some CTrue
  | StaticDrift => pl_static pl = true /\ c_drifted c = Some CTrue
  | Emptiness =>
      pl_static pl = false /\ (exists a, pl_after pl = Some a) /\ c_consolidatable c = Some CTrue /\
      empty n /\ s_buffer n <= 0
  | MultiNode | SingleNode =>
      pl_static pl = false /\ (exists a, pl_after pl = Some a) /\ c_consolidatable c = Some CTrue /\
      ~ empty n /\ pl_policy pl <> "WhenEmpty"
  end.

(* The property, for one node and one method. *)
Definition eligible (w : world) (d : dyn) (m : method) (n : snode) : Prop :=
  let me := mem_of (d_mem d) (s_id n) in
  exists c k,
    s_claim n = Some c /\ s_node n = Some k /\                       (* managed, has a node *)
    get K_INIT (k_labels k) = "true" /\                              (* initialized *)
    ~ deleting me n /\                                               (* not deleting, not marked *)
    ~ recently_nominated (d_now d) me /\                             (* not nominated for pending pods *)
    get K_DND (annos n) <> "true" /\                                 (* not annotated do-not-disrupt *)
    s_queued n = false /\                                            (* not already in a command *)
    (pod_blocked (d_now d) (w_pdbs w) n -> eventual m = true /\ c_tgp c = true) /\
    exists pl, o_pool w n = Some pl /\ method_req m pl c n.

Definition pdbs_wf (w : world) : Prop := forall b, In b (w_pdbs w) -> 0 <= b_allowed b.

(* ================================================================== reflection of the oracle *)

Lemma cond_true_iff c : cond_true c = true <-> c = Some CTrue.
Proof. destruct c as [[]|]; simpl; split; congruence. Qed.

Lemma is_set_iff {A} (o : option A) : is_set o = true <-> exists a, o = Some a.
Proof. destruct o; simpl; split; intros H; eauto; try discriminate. destruct H; discriminate. Qed.

Lemma o_dnd_in_force_spec now p : o_dnd_in_force now p = true <-> dnd_in_force now p.
Proof.
  unfold o_dnd_in_force, dnd_in_force. rewrite andb_true_iff.
  split.
  - intros [Ha H]. split; [exact Ha|].
    destruct (p_dnd p) as [[|dd|]|]; try discriminate.
    + now left.
    + right. exists dd. apply andb_true_iff in H. destruct H as [H1 H2]. apply Z.ltb_lt in H1.
      split; [reflexivity|]. split; [exact H1|].
      destruct (p_start p) as [s|]; [right|now left]. exists s. split; [reflexivity|]. now apply Z.ltb_lt.
  - intros [Ha H]. split; [exact Ha|].
    destruct H as [H|[dd [H1 [H2 H3]]]]; rewrite ?H; [reflexivity|].
    rewrite H1. apply andb_true_iff. split; [now apply Z.ltb_lt|].
    destruct H3 as [H3|[s [H3 H4]]]; rewrite H3; [reflexivity|now apply Z.ltb_lt].
Qed.

Lemma o_dnd_in_force_false now p : o_dnd_in_force now p = false <-> ~ dnd_in_force now p.
Proof. rewrite <- o_dnd_in_force_spec. destruct (o_dnd_in_force now p); split; congruence. Qed.

Lemma o_pdb_blocks_spec now pdbs p : o_pdb_blocks now pdbs p = true <-> pdb_blocks now pdbs p.
Proof.
  unfold o_pdb_blocks, pdb_blocks.
  rewrite !andb_true_iff, !negb_true_iff, orb_true_iff, o_dnd_in_force_false, existsb_exists.
  split.
  - intros [[[[H1 H2] H3] H4] H5]. repeat split; try assumption.
    destruct H5 as [H5|[b [Hb H5]]].
    + left. apply Z.ltb_lt in H5. lia.
    + right. exists b. apply filter_In in Hb. destruct Hb as [Hb Hm].
      apply andb_true_iff in H5. destruct H5 as [H5 H6]. apply Z.leb_le in H5. apply negb_true_iff in H6.
      repeat split; try assumption. intros [Ha Hr]. rewrite Ha, Hr in H6. discriminate.
  - intros [H1 [H2 [H3 [H4 H5]]]]. repeat split; try assumption.
    destruct H5 as [H5|[b [Hb [Hm [Hal Hn]]]]].
    + left. apply Z.ltb_lt. lia.
    + right. exists b. split; [apply filter_In; now split|].
      apply andb_true_iff. split; [now apply Z.leb_le|]. apply negb_true_iff.
      destruct (b_always b), (ready_false p); simpl; try reflexivity. exfalso. apply Hn. now split.
Qed.

Lemma o_pod_blocked_spec now pdbs n : o_pod_blocked now pdbs n = true <-> pod_blocked now pdbs n.
Proof.
  unfold o_pod_blocked, pod_blocked. rewrite existsb_exists.
  split; intros [p [Hp H]]; exists p; (split; [exact Hp|]).
  - apply orb_true_iff in H. destruct H as [H|H]; [left; now apply o_dnd_in_force_spec|right; now apply o_pdb_blocks_spec].
  - apply orb_true_iff. destruct H as [H|H]; [left; now apply o_dnd_in_force_spec|right; now apply o_pdb_blocks_spec].
Qed.

Lemma o_empty_spec n : o_empty n = true <-> empty n.
Proof.
  unfold o_empty, empty. rewrite forallb_forall. split; intros H p Hp.
  - intros Hr. specialize (H p Hp). rewrite Hr in H. simpl in H. now apply Z.leb_le.
  - specialize (H p Hp). destruct (is_reschedulable p); simpl; [apply Z.leb_le; now apply H|reflexivity].
Qed.

Lemma o_deleting_spec me n : o_deleting me n = true <-> deleting me n.
Proof.
  unfold o_deleting, deleting. rewrite !orb_true_iff. split.
  - intros [[H|H]|H]; [now left| |].
    + right; left. destruct (s_claim n) as [c|]; [|discriminate]. exists c. split; [reflexivity|].
      apply orb_true_iff in H. destruct H as [H|H]; [now left|right; now apply cond_true_iff].
    + right; right. destruct (s_node n) as [k|]; [|discriminate]. destruct (s_claim n); [discriminate|].
      split; [reflexivity|]. now exists k.
  - intros [H|[[c [Hc H]]|[Hc [k [Hk H]]]]]; [left; now left| |].
    + left; right. rewrite Hc. apply orb_true_iff. destruct H as [H|H]; [now left|right; now apply cond_true_iff].
    + right. now rewrite Hk, Hc.
Qed.

Lemma nominated_spec now me : nominated now me = true <-> recently_nominated now me.
Proof.
  unfold nominated, recently_nominated. destruct (m_until me) as [u|]; split.
  - intros H. exists u. split; [reflexivity|now apply Z.ltb_lt].
  - intros [u' [H1 H2]]. inversion H1; subst. now apply Z.ltb_lt.
  - discriminate.
  - intros [u' [H1 _]]. discriminate.
Qed.

Lemma not_true_iff_false' b (P : Prop) : (b = true <-> P) -> (negb b = true <-> ~ P).
Proof. intros H. rewrite negb_true_iff. rewrite <- H. destruct b; split; congruence. Qed.

Lemma false_iff_not b (P : Prop) : (b = true <-> P) -> (b = false <-> ~ P).
Proof. intros H. rewrite <- H. destruct b; split; congruence. Qed.

Lemma method_req_b_spec m pl c n : method_req_b m pl c n = true <-> method_req m pl c n.
Proof.
  destruct m; simpl; rewrite ?andb_true_iff, ?negb_true_iff, ?cond_true_iff, ?is_set_iff, ?o_empty_spec, ?Z.leb_le;
    rewrite ?(false_iff_not _ _ (o_empty_spec n)), ?(false_iff_not _ _ (String.eqb_eq _ _)); tauto.
Qed.

Theorem eligible_b_spec w d m n : eligible_b w d m n = true <-> eligible w d m n.
Proof.
  unfold eligible_b, eligible.
  destruct (s_claim n) as [c|] eqn:Hc; [|split; [discriminate|intros [c [k [H _]]]; discriminate]].
  destruct (s_node n) as [k|] eqn:Hk; [|split; [discriminate|intros [c' [k' [_ [H _]]]]; discriminate]].
  rewrite !andb_true_iff.
  rewrite (not_true_iff_false' _ _ (o_deleting_spec _ n)).
  rewrite (not_true_iff_false' _ _ (nominated_spec _ _)).
  rewrite (not_true_iff_false' _ _ (String.eqb_eq _ _)).
  rewrite String.eqb_eq, negb_true_iff, orb_true_iff, andb_true_iff.
  rewrite (not_true_iff_false' _ _ (o_pod_blocked_spec _ _ n)).
  split.
  - intros [[[[[[H1 H2] H3] H4] H5] H6] H7].
    exists c, k. do 7 (split; [first [reflexivity|assumption]|]). split.
    + intros Hb. destruct H6 as [H6|H6]; [contradiction|exact H6].
    + destruct (o_pool w n) as [pl|]; [|discriminate]. exists pl. split; [reflexivity|now apply method_req_b_spec].
  - intros [c' [k' [E1 [E2 [H1 [H2 [H3 [H4 [H5 [H6 [pl [Hp H7]]]]]]]]]]]].
    inversion E1; inversion E2; subst c' k'.
    repeat split; try assumption.
    + destruct (o_pod_blocked (d_now d) (w_pdbs w) n) eqn:Hb.
      * right. apply H6. now apply o_pod_blocked_spec.
      * left. intros Hx. apply o_pod_blocked_spec in Hx. congruence.
    + rewrite Hp. now apply method_req_b_spec.
Qed.

(* ================================================================== the model meets the specification *)

Lemma dnd_active_force now p : is_active p && dnd_active now p = o_dnd_in_force now p.
Proof.
  unfold dnd_active, o_dnd_in_force. destruct (is_active p); simpl; [|reflexivity].
  destruct (p_dnd p) as [[|dd|]|]; try reflexivity.
  destruct (Z.leb_spec dd 0), (Z.ltb_spec 0 dd); try lia; simpl; try reflexivity.
  destruct (p_start p) as [s|]; [|reflexivity].
  destruct (Z.ltb_spec (now - s) dd), (Z.ltb_spec now (s + dd)); try reflexivity; lia.
Qed.

Lemma pod_ok_char now pdbs p :
  (forall b, In b pdbs -> 0 <= b_allowed b) ->
  is_disruptable now p && pod_evict_ok now pdbs p = negb (o_dnd_in_force now p || o_pdb_blocks now pdbs p).
Proof.
  intros wf. unfold is_disruptable, pod_evict_ok, is_evictable, o_pdb_blocks.
  rewrite <- (dnd_active_force now p).
  destruct (is_active p) eqn:Ha; simpl; [|reflexivity].
  destruct (dnd_active now p) eqn:Hd; simpl; [reflexivity|].
  destruct (tolerates p); simpl; [reflexivity|].
  destruct (owned_by_node p); simpl; [reflexivity|].
  assert (wf' : forall b, In b (filter (pdb_matches p) pdbs) -> 0 <= b_allowed b).
  { intros b Hb. apply filter_In in Hb. apply wf. tauto. }
  destruct (filter (pdb_matches p) pdbs) as [|b1 [|b2 r]]; simpl.
  - reflexivity.
  - specialize (wf' b1 (or_introl eq_refl)).
    destruct (b_always b1 && ready_false p); simpl.
    + now rewrite andb_false_r.
    + rewrite andb_true_r, orb_false_r.
      destruct (Z.eqb_spec (b_allowed b1) 0), (Z.leb_spec (b_allowed b1) 0); try reflexivity; lia.
  - assert (H : (1 <? Z.pos (Pos.succ (Pos.of_succ_nat (length r)))) = true) by (apply Z.ltb_lt; lia).
    rewrite H. reflexivity.
Qed.

Lemma existsb_orb {A} (f g : A -> bool) l : existsb (fun x => f x || g x) l = existsb f l || existsb g l.
Proof.
  induction l as [|a l IH]; simpl; [reflexivity|]. rewrite IH.
  destruct (f a), (g a), (existsb f l), (existsb g l); reflexivity.
Qed.

Lemma existsb_ext' {A} (f g : A -> bool) l : (forall x, f x = g x) -> existsb f l = existsb g l.
Proof. intros H. induction l as [|a l IH]; simpl; [reflexivity|]. now rewrite H, IH. Qed.

Lemma validate_pods_char f now pdbs n :
  (forall b, In b pdbs -> 0 <= b_allowed b) ->
  validate_pods f now pdbs n =
  match s_node n, f with
  | Some _, FPods => PErr
  | _, _ => if o_pod_blocked now pdbs n then PBlocked else POk
  end.
Proof.
  intros wf. unfold validate_pods, o_pod_blocked.
  assert (E : existsb (fun p => o_dnd_in_force now p || o_pdb_blocks now pdbs p) (pods_of n) =
              existsb (fun p => negb (is_disruptable now p)) (pods_of n)
              || existsb (fun p => negb (pod_evict_ok now pdbs p)) (pods_of n)).
  { rewrite <- existsb_orb. apply existsb_ext'. intros p.
    pose proof (pod_ok_char now pdbs p wf) as H.
    destruct (is_disruptable now p), (pod_evict_ok now pdbs p), (o_dnd_in_force now p || o_pdb_blocks now pdbs p);
      simpl in *; congruence. }
  rewrite E.
  destruct (s_node n), f;
    destruct (existsb (fun p => negb (is_disruptable now p)) (pods_of n)),
             (existsb (fun p => negb (pod_evict_ok now pdbs p)) (pods_of n)); reflexivity.
Qed.

Lemma resched_cost_nonneg ps : 0 <= resched_cost ps.
Proof. induction ps as [|p ps IH]; simpl; lia. Qed.

Lemma is_empty_char ps :
  (resched_cost (filter is_reschedulable ps) <=? 0) =
  forallb (fun p => negb (is_reschedulable p) || (evict_cost p <=? 0)) ps.
Proof.
  induction ps as [|p ps IH]; simpl; [reflexivity|].
  destruct (is_reschedulable p); simpl; [|exact IH].
  rewrite <- IH. pose proof (resched_cost_nonneg (filter is_reschedulable ps)).
  destruct (Z.leb_spec (evict_cost p) 0), (Z.leb_spec (resched_cost (filter is_reschedulable ps)) 0),
           (Z.leb_spec (Z.max 0 (evict_cost p) + resched_cost (filter is_reschedulable ps)) 0);
    simpl; try reflexivity; lia.
Qed.

(* the exact characterisation of one candidate decision *)
Theorem is_candidate_char w d m n :
  pdbs_wf w -> is_candidate w d m n = eligible_b w d m n && extra_b w m n.
Proof.
  intros wf.
  unfold is_candidate, new_candidate, validate_node, validate_node_only, eligible_b, extra_b, find_pool, o_pool.
  rewrite (validate_pods_char _ _ _ n wf).
  destruct (s_claim n) as [c|] eqn:Hc; destruct (s_node n) as [k|] eqn:Hk; simpl;
    try (destruct (s_queued n); reflexivity).
  unfold initialized, deleted, o_deleting. rewrite Hc, Hk.
  destruct (s_queued n); simpl; [now rewrite !andb_false_r|].
  destruct (String.eqb (get K_INIT (k_labels k)) "true"); simpl; [|reflexivity].
  destruct (m_marked (mem_of (d_mem d) (s_id n))); simpl; [reflexivity|].
  destruct (c_deleting c); simpl; [reflexivity|].
  destruct (cond_true (c_terminating c)); simpl; [reflexivity|].
  destruct (nominated (d_now d) (mem_of (d_mem d) (s_id n))); simpl; [reflexivity|].
  destruct (String.eqb (get K_DND (annos n)) "true"); simpl; [reflexivity|].
  destruct (has K_POOL (labels n)); simpl; [|now rewrite andb_false_r].
  destruct (find (fun pl : pool => String.eqb (pl_name pl) (get K_POOL (labels n)) && pl_managed pl) (w_pools w))
    as [pl|]; simpl; [|now rewrite !andb_false_r].
  destruct (pool_its pl) as [its|]; simpl; [|now rewrite !andb_false_r].
  unfold should_disrupt, should_consolidate, is_empty, method_req_b. simpl.
  Show. rewrite !is_empty_char. fold (o_empty n).
  rewrite (Z.leb_antisym 0 (s_buffer n)).
  destruct (w_fault w), (o_pod_blocked (d_now d) (w_pdbs w) n), (c_tgp c), m; simpl; try reflexivity;
    rewrite ?andb_false_r; try reflexivity;
    destruct (pl_static pl); simpl; try reflexivity;
    destruct (is_set (pl_after pl)); simpl; rewrite ?andb_false_r; try reflexivity;
    destruct (o_empty n); simpl; rewrite ?andb_false_r; try reflexivity;
    destruct (cond_true (c_consolidatable c)); simpl; rewrite ?andb_false_r; try reflexivity;
    destruct (cond_true (c_drifted c)); simpl; rewrite ?andb_false_r; try reflexivity;
    destruct (0 <? s_buffer n); simpl; try reflexivity;
    destruct (existsb (String.eqb (get K_IT (labels n))) its); simpl; rewrite ?andb_false_r; try reflexivity;
    destruct (has K_CT (labels n)); simpl; rewrite ?andb_false_r; try reflexivity;
    destruct (has K_ZONE (labels n)); simpl; rewrite ?andb_false_r; try reflexivity;
    destruct (String.eqb (pl_policy pl) "WhenEmpty"); reflexivity.
Qed.
